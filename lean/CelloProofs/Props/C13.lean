/-
  C13 — threads are isolated from each other; join publishes; Mutex excludes.   (PARTIAL by nature, see the end)

  Property theorems only; helper lemmas are in CelloProofs/Lemmas/Thr.lean.
  Model: Cello/Threads.lean.  A *schedule* is any `List Ev`: any number of threads, any interleaving, any per-thread
  programs (also adaptive ones: every actual execution is some list of events).  `run cfg s g` executes it and
  returns the final process state and the trace `(event, outcome)`.  An event that cannot happen at that point (the
  thread does not exist, is blocked, or has finished) leaves the state unchanged and is recorded with the outcome
  `dead` / `blocked`, so every theorem below holds for *all* lists of events without an enabledness side condition.

  How the theorems are tied to /repo (audit item 2).  `step` hands a local operation of thread `t` the component
  `g.thr t` — that is the model of "per-thread state is reached only through `current(Thread)`", so `C13_frame`,
  `C13_teardown_own`, `C13_join` and `C13_mutex` *read back* the shape of `step` (frame = case split of its definition,
  join = its guard `phase = done`, mutex = invariant of the `holder` guard).  What makes that shape a fact about the
  code is (a) `C13_source_shape_as_modelled`: the text of every function through which Thread.c / GC.c / Exception.c /
  Alloc.c reach per-thread state is extracted on every run (translate/g_thr.py) and must be the text the model was
  written against, (b) the two places where the code does NOT have that shape are modelled as what they are:
  `GC_Recurse` → `Thread_Mark` walks the thread-local table of *any* Thread object the mark phase meets
  (`foreignMarks`, switched by `CelloGen.Thr.threadMarkUnguarded`, which is read from `Thread_Mark`, the `Mark` instance
  of `Thread` and the dispatch in `GC_Recurse`), and `Thread_Del` frees that table (`wrapperKilled`); the theorems that
  need it carry the hypothesis `Isolated` and are refuted without it, (c) the correspondence runs on real threads.

  Variants of the model selected by `Cfg` switches that the translator reads from the source on every run (`cfgSrc`):
  * `foreignMark` (CelloGen.Thr.threadMarkUnguarded; true for the current source).  The GUARDED variant
    (`foreignMark := false`: `if (self is current(Thread)) { mark(t->tls, gc, f); }`) was commit 80c795e and was withdrawn
    by commit 0a0ad73: in it non-interference needs only `KeepsWrappers` (`C13_noninterference_guarded_variant`), but an
    object held only through the table of a Thread object that is not running is finalised while the table still holds
    it (`C13_guarded_variant_loses_objects`).  KF-C13-mark-foreign-tls stays a known finding.
  * `joinIgnoresDeadlk` (`joinIgnoresDeadlkOf CelloGen.Thr.joinErr`; false since commit 484991f,
    `C13_join_repair_in_current_source`): in the OLD variant `Thread_Join` had no case for EDEADLK and
    `join(current(Thread))` returned while the thread function was running (`C13_join_old_refuted`, was KF-C13-join-edeadlk).
-/
import CelloProofs.Lemmas.Thr
import CelloProofs.Lemmas.ThrCounter
import CelloProofs.Lemmas.ThrArgs
import CelloProofs.Lemmas.ThrSync
import CelloProofs.Props.C07
import CelloGen.Exn
import CelloGen.Thr

namespace Cello.Thr

/-- the variant of the model that mirrors /repo's current source: every switch is read from the source by the translator
    on every run; `scan` is the declaration (`Type_Scan`), any -/
def cfgSrc (scan : Nat × Nat → Bool) : Cfg :=
  { gcFirst := CelloGen.Thr.teardownGcFirst, consume := CelloGen.Exn.catchConsumes, maxDepth := CelloGen.Exn.maxDepth, scan := scan,
    foreignMark := CelloGen.Thr.threadMarkUnguarded, joinIgnoresDeadlk := joinIgnoresDeadlkOf CelloGen.Thr.joinErr }

/-- … with a concrete declaration, for the examples -/
def cfgNow : Cfg := cfgSrc (fun k => k.1 = 1)

/-- the current source written out (`Thread_Mark` walks the table of any Thread object: the value of
    `CelloGen.Thr.threadMarkUnguarded` on the unchanged tree; `Thread_Join` raises for EDEADLK), so that the refutations below
    do not depend on what the translator reads after a repair -/
def cfgMark : Cfg :=
  { gcFirst := true, consume := true, maxDepth := 2048, scan := fun _ => false, foreignMark := true, joinIgnoresDeadlk := false }

/-- the GUARDED variant of `Thread_Mark` (commit 80c795e, withdrawn by 0a0ad73): only `current(Thread)`'s table is walked -/
def cfgGuarded : Cfg := { cfgMark with foreignMark := false }

/-- OLD variant of `Thread_Join` (before commit 484991f): no case for EDEADLK -/
def cfgOldJoin : Cfg := { cfgMark with joinIgnoresDeadlk := true }

/-- **The repair of `Thread_Join` is in /repo's current source**: the table extracted from `Thread_Join` has a case for
    EDEADLK, so the variant `cfgSrc` is the repaired one.  Reverting commit 484991f makes this theorem fail. -/
theorem C13_join_repair_in_current_source :
    joinIgnoresDeadlkOf CelloGen.Thr.joinErr = false ∧ ∀ scan, (cfgSrc scan).joinIgnoresDeadlk = false := by
  have h2 : joinIgnoresDeadlkOf CelloGen.Thr.joinErr = false := by decide
  exact ⟨h2, fun _ => h2⟩

/-- **Frame (writes).** Whatever one thread does — allocate, collect, throw, catch, set thread-local values, lock, join,
    make Thread objects — the component of every *other* thread `u` (its collector registry, exception record,
    thread-local table, ledger of finalised objects, published cells) is not written.  The only thing another thread
    can do to `u` is to start it (`spawn`: phase `unborn` → `ready`, or `done` → `ready` when a joined Thread object is
    called again; nothing else changes).
    Read back from `step` (see the header).  It is a statement about *writes*: a collection of `e.tid` does **read**
    `u`'s thread-local table when it reaches `u`'s Thread object (`foreignMarks`) — what that does to the reader is the
    subject of `C13_noninterference` and its hypothesis `Isolated`; and a sweep that would free the Thread object of a
    live `u` is the outcome `ub` (not executed, `wrapperKilled`). -/
theorem C13_frame (cfg : Cfg) (g : G) (e : Ev) (u : Tid) (hu : e.tid ≠ u) :
    (step cfg g e).1.thr u = g.thr u ∨
    ((∃ t, e = .spawn t u) ∧ ((g.thr u).phase = .unborn ∨ (g.thr u).phase = .done) ∧
      (step cfg g e).1.thr u = { g.thr u with phase := .ready }) := by
  cases e with
  | loc t op =>
    left
    have : u ≠ t := fun h => hu (by simp [Ev.tid, h])
    exact step_loc_other cfg g t op u this
  | spawn t v =>
    rcases step_spawn cfg g t v with ⟨_, hph, hthr⟩ | ⟨_, hg⟩
    · by_cases hvu : v = u
      · subst hvu; right; exact ⟨⟨t, rfl⟩, hph, by rw [hthr]; simp [upd_same]⟩
      · left; rw [hthr]; have : u ≠ v := fun h => hvu h.symm
        simp [upd_other _ _ _ _ this]
    · left; rw [hg]
  | join t w =>
    left
    have : u ≠ t := fun h => hu (by simp [Ev.tid, h])
    exact step_join_other cfg g t w u this
  | lock t m => left; rw [(step_sync_frame cfg g (.lock t m) (by intros; simp) (by intros; simp) (by intros; simp)).1]
  | trylock t m => left; rw [(step_sync_frame cfg g (.trylock t m) (by intros; simp) (by intros; simp) (by intros; simp)).1]
  | unlock t m => left; rw [(step_sync_frame cfg g (.unlock t m) (by intros; simp) (by intros; simp) (by intros; simp)).1]
  | winc t m c => left; rw [(step_sync_frame cfg g (.winc t m c) (by intros; simp) (by intros; simp) (by intros; simp)).1]
  | ld t c => left; rw [(step_sync_frame cfg g (.ld t c) (by intros; simp) (by intros; simp) (by intros; simp)).1]
  | st t c => left; rw [(step_sync_frame cfg g (.st t c) (by intros; simp) (by intros; simp) (by intros; simp)).1]
  | rd t w => left; rw [(step_sync_frame cfg g (.rd t w) (by intros; simp) (by intros; simp) (by intros; simp)).1]
  | bind t w => left; rw [(step_sync_frame cfg g (.bind t w) (by intros; simp) (by intros; simp) (by intros; simp)).1]
  | rdo t w => left; rw [(step_sync_frame cfg g (.rdo t w) (by intros; simp) (by intros; simp) (by intros; simp)).1]
  | arg t w os => left; rw [(step_sync_frame cfg g (.arg t w os) (by intros; simp) (by intros; simp) (by intros; simp)).1]
  | rdarg t i => left; rw [(step_sync_frame cfg g (.rdarg t i) (by intros; simp) (by intros; simp) (by intros; simp)).1]

/-- **The shared class cache is transparent.** Whatever the cache contains (whatever other threads looked up before, in
    whatever order) a lookup returns the declared instance, and the cache keeps holding declared instances only. -/
theorem C13_cache_transparent (cfg : Cfg) (c : Cache) (hc : CacheOK cfg c) (t : Tid) (fm : List Obj) (ty cls : Nat) (ts : TS)
    (hr : ts.phase = .running) :
    (lstep cfg t c fm (.lookup ty cls) ts).2.2 = .bool (cfg.scan (ty, cls)) ∧
    (lstep cfg t c fm (.lookup ty cls) ts).1 = ts ∧ CacheOK cfg (lstep cfg t c fm (.lookup ty cls) ts).2.1 := by
  have h := lstep_spec hc t fm (.lookup ty cls) ts
  simp only [lstepSpec, hr, if_true] at h
  have h1 := congrArg Prod.fst h.1
  have h2 := congrArg Prod.snd h.1
  exact ⟨h2, h1, h.2⟩

/-- **C13 non-interference.** For every schedule `s` (any number of threads, any interleaving) that keeps the threads
    **isolated** — `Isolated cfg s g`: at every step, the mark phase of a collection meets the collector-managed Thread
    object (`var x = new(Thread, f)`) of no thread that is running or has thread-local values, and no sweep frees the
    Thread object of a live thread; decidable, evaluated on the schedule — from every process state whose class cache is
    valid, and for every thread `u`: the final component of `u` and the outcomes of all its local operations are exactly
    those of `u` running **alone** — executing only the projection of the execution onto `u` (its own local operations,
    and the moment it was spawned) with a private class cache `c0` — whatever the other threads did in between.
    Without `Isolated` the statement is false of the model and of the code: `C13_noninterference_refuted`,
    KF-C13-mark-foreign-tls. -/
theorem C13_noninterference (cfg : Cfg) (s : List Ev) (g : G) (hc : CacheOK cfg g.cache) (hiso : Isolated cfg s g = true)
    (u : Tid) (c0 : Cache) (hc0 : CacheOK cfg c0) :
    (run cfg s g).1.thr u = (solo cfg u (proj u (run cfg s g).2) c0 (g.thr u)).1 ∧
    localOuts u (run cfg s g).2 = (solo cfg u (proj u (run cfg s g).2) c0 (g.thr u)).2 := by
  have h := run_proj cfg u s g hc hiso
  rw [solo_eq_spec cfg u _ c0 _ hc0]
  exact ⟨h.1, h.2.1⟩

/-- the same from process start: main thread running, every other thread unborn, empty class cache -/
theorem C13_noninterference_from_start (cfg : Cfg) (s : List Ev) (hiso : Isolated cfg s G.init = true) (u : Tid) :
    (run cfg s G.init).1.thr u = (solo cfg u (proj u (run cfg s G.init).2) [] (G.init.thr u)).1 ∧
    localOuts u (run cfg s G.init).2 = (solo cfg u (proj u (run cfg s G.init).2) [] (G.init.thr u)).2 :=
  C13_noninterference cfg s G.init (cacheOK_nil cfg) hiso u [] (cacheOK_nil cfg)

/-- the full statement of the property's first sentence: non-interference for *every* schedule of the contract — every
    schedule in which no sweep frees the Thread object of a live thread (`KeepsWrappers`; anything else is undefined
    behaviour, `Out.ub`: `Thread_Del` frees the running thread's table) -/
def C13_noninterference_statement (cfg : Cfg) : Prop :=
  ∀ (s : List Ev) (u : Tid), KeepsWrappers cfg s G.init = true →
    (run cfg s G.init).1.thr u = (solo cfg u (proj u (run cfg s G.init).2) [] (G.init.thr u)).1 ∧
    localOuts u (run cfg s G.init).2 = (solo cfg u (proj u (run cfg s G.init).2) [] (G.init.thr u)).2

/-- the documented usage: main allocates an object, makes a Thread object `var x = new(Thread, f)`, calls it; the
    worker sets a thread-local value (here: to main's object); main, whose stack holds only `x`, collects -/
def witnessMark : List Ev :=
  [.loc 0 (.new 1 false false), .loc 0 (.new (thrBase + 1) false false), .bind 0 1, .spawn 0 1, .loc 1 .begin_,
   .loc 1 (.tset "a" ⟨0, 1⟩), .loc 0 (.collect [thrBase + 1])]

/-- **Refuted without `Isolated` (KF-C13-mark-foreign-tls).** In `witnessMark` (a schedule of the contract: main keeps
    `x`) the outcome of *main's* collection depends on what the *worker* put into its thread-local table: main's mark phase reaches `x`, `GC_Recurse` calls
    `Thread_Mark(x)`, which walks the worker's table — main's object survives, whereas main alone finalises it.  So
    "whatever one thread does (set thread-local values) … each thread computes the same results as when it runs
    alone" fails.  In C the walk is, on top of that, an unsynchronised read of a table the worker is rewriting: main's
    `new` raises ValueError or reads freed memory (reproduced, TSan: Table_Mark vs Table_Rehash). -/
theorem C13_noninterference_refuted : ¬ C13_noninterference_statement cfgMark := by
  intro h
  have h0 := (h witnessMark 0 (by decide)).2
  revert h0
  decide

/-- the two outcomes side by side: in the schedule main's collection finalises nothing, alone it finalises object 0.1;
    the schedule is not `Isolated` (it does keep every Thread object), and it is counted as a race (the walked table
    belongs to a running thread) -/
theorem C13_mark_foreign_tls_witness :
    (localOuts 0 (run cfgMark witnessMark G.init).2).map Out.show = ["ok", "ok", "fin=[] garbage=0"] ∧
    (solo cfgMark 0 (proj 0 (run cfgMark witnessMark G.init).2) [] (G.init.thr 0)).2.map Out.show = ["ok", "ok", "fin=[1] garbage=0"] ∧
    Isolated cfgMark witnessMark G.init = false ∧ IsolatedN cfgMark witnessMark G.init = false ∧
    KeepsWrappers cfgMark witnessMark G.init = true ∧
    races cfgMark witnessMark G.init = 1 := by decide

/-- **C13 non-interference, narrow hypothesis (audit2 item 2).**  `IsolatedN cfg s g`: at every step no sweep frees the
    Thread object of a live thread, and *the table of a live thread never decides what a collection of another thread
    finalises* (`walkNeutral`: the sweep is the same with and without the tables of the live threads whose Thread objects
    the mark phase reaches) — exactly the logical territory of KF-C13-mark-foreign-tls; decidable.  Inside it are the two
    regions `Isolated` excluded although the code is right there: (a) collections by the maker of `x = new(Thread, f)`
    between `call(x)` and `join(x)` whenever the worker's thread-local values do not refer to an object only they keep
    alive, (b) tables left behind by threads that have *finished* (or were never called): those are data the holder of
    `x` reaches through `x`, nobody writes them, and what they refer to must survive.  Accordingly the thread running
    alone is handed those tables: `projM` records, for each of `u`'s collections, the contents of the tables of the
    not-live Thread objects it reaches (`frozenMarks`; `[]` whenever `u` holds no such object: then `projM` is `proj`).
    For every such schedule and every thread `u`: final component and all local outcomes are those of `u` alone.
    (What the model cannot say: in C the walk of a live thread's table races with that thread's `set`/`rem`/rehash and
    with the prologue/epilogue of `Thread_Init_Run`; `races` counts those steps, the harness runs them under the baton only.) -/
theorem C13_noninterference_walks (cfg : Cfg) (s : List Ev) (g : G) (hc : CacheOK cfg g.cache) (hiso : IsolatedN cfg s g = true)
    (u : Tid) (c0 : Cache) (hc0 : CacheOK cfg c0) :
    (run cfg s g).1.thr u = (solo cfg u (projM cfg u s g) c0 (g.thr u)).1 ∧
    localOuts u (run cfg s g).2 = (solo cfg u (projM cfg u s g) c0 (g.thr u)).2 := by
  have h := run_projM cfg u s g hc hiso
  rw [solo_eq_spec cfg u _ c0 _ hc0]
  exact ⟨h.1, h.2.1⟩

/-- `Isolated` (no table is read at all) is a special case of `IsolatedN` -/
theorem C13_isolated_is_narrower (cfg : Cfg) (s : List Ev) (g : G) (h : Isolated cfg s g = true) : IsolatedN cfg s g = true :=
  isolatedN_of_isolated cfg s g h

/-- (a) the documented usage with work in between: main holds `x`, the worker sets a thread-local value (an object of its
    own) and allocates; main allocates and collects **while the worker runs**, twice, and once more after the join (the
    finished worker's table then holds a pointer its teardown has finalised: the walk ignores pointers that are not in the
    walker's registry).  Not `Isolated`, two steps are races in C, but `IsolatedN`; main's outcomes are those of its solo
    run — with and without the tables -/
def demoWalk : List Ev :=
  [.loc 0 (.new 1 false false), .loc 0 (.new (thrBase + 1) false false), .bind 0 1, .spawn 0 1, .loc 1 .begin_,
   .loc 1 (.new 1 false false), .loc 1 (.tset "a" ⟨1, 1⟩), .loc 0 (.collect [thrBase + 1]), .loc 1 (.churn 3), .loc 0 (.churn 2),
   .loc 0 (.collect [thrBase + 1]), .loc 1 .end_, .join 0 1, .loc 0 (.collect [thrBase + 1])]

example :
    Isolated cfgMark demoWalk G.init = false ∧ IsolatedN cfgMark demoWalk G.init = true ∧ races cfgMark demoWalk G.init = 2 ∧
    (localOuts 0 (run cfgMark demoWalk G.init).2).map Out.show =
      ["ok", "ok", "fin=[1] garbage=0", "ok", "fin=[1] garbage=2", "fin=[1] garbage=2"] ∧
    localOuts 0 (run cfgMark demoWalk G.init).2 = (solo cfgMark 0 (projM cfgMark 0 demoWalk G.init) [] TS.main).2 ∧
    localOuts 0 (run cfgMark demoWalk G.init).2 = (solo cfgMark 0 (proj 0 (run cfgMark demoWalk G.init).2) [] TS.main).2 := by
  decide

/-- (b) a worker that has finished (and was joined) left a thread-local value behind that refers to main's object; main
    collects holding `x`: the object survives — as it must, it is reachable through `x` — and that *is* the outcome of
    main alone when it is handed the table (`projM`), whereas the solo run that ignores the table (`proj`) finalises it -/
def demoLeftBehind : List Ev :=
  [.loc 0 (.new 1 false false), .loc 0 (.new (thrBase + 1) false false), .bind 0 1, .spawn 0 1, .loc 1 .begin_,
   .loc 1 (.tset "a" ⟨0, 1⟩), .loc 1 .end_, .join 0 1, .loc 0 (.collect [thrBase + 1])]

example :
    Isolated cfgMark demoLeftBehind G.init = false ∧ IsolatedN cfgMark demoLeftBehind G.init = true ∧
    races cfgMark demoLeftBehind G.init = 0 ∧
    frozenMarks cfgMark (run cfgMark (demoLeftBehind.take 8) G.init).1 0 (.collect [thrBase + 1]) = [⟨0, 1⟩] ∧
    (localOuts 0 (run cfgMark demoLeftBehind G.init).2).map Out.show = ["ok", "ok", "fin=[] garbage=0"] ∧
    localOuts 0 (run cfgMark demoLeftBehind G.init).2 = (solo cfgMark 0 (projM cfgMark 0 demoLeftBehind G.init) [] TS.main).2 ∧
    (solo cfgMark 0 (proj 0 (run cfgMark demoLeftBehind G.init).2) [] TS.main).2.map Out.show = ["ok", "ok", "fin=[1] garbage=0"] := by
  decide

/-- a schedule in which no Thread object is collector-managed (every `struct Thread` is `new_raw`, static, or the main
    wrapper: no `bind` event) is isolated: no mark phase ever meets a Thread object -/
theorem C13_isolated_without_managed_threads (cfg : Cfg) (s : List Ev) (h : ∀ e ∈ s, ∀ t u, e ≠ .bind t u) :
    Isolated cfg s G.init = true :=
  isolated_raw cfg s G.init rfl h

/-- … so for such schedules non-interference holds with no further condition -/
theorem C13_noninterference_raw (cfg : Cfg) (s : List Ev) (h : ∀ e ∈ s, ∀ t u, e ≠ .bind t u) (u : Tid) :
    (run cfg s G.init).1.thr u = (solo cfg u (proj u (run cfg s G.init).2) [] (G.init.thr u)).1 ∧
    localOuts u (run cfg s G.init).2 = (solo cfg u (proj u (run cfg s G.init).2) [] (G.init.thr u)).2 :=
  C13_noninterference_from_start cfg s (C13_isolated_without_managed_threads cfg s h) u

/-- **Two executions that agree on `u`'s projection agree on `u`.** Any two isolated schedules — different numbers of
    threads, different interleavings, different things done by the others — in which `u` itself performs the same
    operations give `u` the same final component and the same outcomes. -/
theorem C13_schedule_independent (cfg : Cfg) (s1 s2 : List Ev) (u : Tid)
    (h1 : Isolated cfg s1 G.init = true) (h2 : Isolated cfg s2 G.init = true)
    (hp : proj u (run cfg s1 G.init).2 = proj u (run cfg s2 G.init).2) :
    (run cfg s1 G.init).1.thr u = (run cfg s2 G.init).1.thr u ∧
    localOuts u (run cfg s1 G.init).2 = localOuts u (run cfg s2 G.init).2 := by
  have h1 := C13_noninterference_from_start cfg s1 h1 u
  have h2 := C13_noninterference_from_start cfg s2 h2 u
  rw [hp] at h1
  exact ⟨h1.1.trans h2.1.symm, h1.2.trans h2.2.symm⟩

/-- **The guarded variant** (`Thread_Mark` walks only `current(Thread)`'s table: commit 80c795e, withdrawn by commit 0a0ad73;
    `hfm`).  In it the full statement holds: for every schedule in which no sweep frees the Thread object of a live thread,
    every thread's final component and outcomes are those of its solo run — whatever the other threads put into their
    thread-local tables and whichever Thread objects its collections meet.  Why the repair was nevertheless withdrawn:
    `C13_guarded_variant_loses_objects`. -/
theorem C13_noninterference_guarded_variant (cfg : Cfg) (hfm : cfg.foreignMark = false) : C13_noninterference_statement cfg := by
  intro s u hk
  exact C13_noninterference_from_start cfg s (isolated_of_keeps cfg hfm s G.init hk) u

/-- a worker is handed one of main's objects through its thread-local table, finishes and is joined; main, which holds
    `x = new(Thread, f)` and nothing else, collects; the Thread object is called again and reads the entry -/
def witnessHeld : List Ev :=
  [.loc 0 (.new 1 false false), .loc 0 (.new (thrBase + 1) false false), .bind 0 1, .spawn 0 1, .loc 1 .begin_,
   .loc 1 (.tset "a" ⟨0, 1⟩), .loc 1 .end_, .join 0 1, .loc 0 (.collect [thrBase + 1]), .spawn 0 1, .loc 1 .begin_,
   .loc 1 (.tget "a")]

/-- **The regression of the guarded variant (why commit 0a0ad73 withdrew 80c795e).** An object that is held only through
    the thread-local table of a Thread object that is *not running* — here: thread 1 has finished and been joined, its
    table (which lives as long as the Thread object `x` main holds) still refers to main's object 0.1 — is kept alive by
    main's mark phase in the current source (`Thread_Mark(x)` presents the table), and is **finalised while the table
    still holds it** in the guarded variant: when `x` is called again the entry read back is a dangling pointer.
    (The model has no operation for `set(x, key, obj)` by the holder of a Thread object other than `current(Thread)` —
    data handed to a thread before it is called; this schedule has the same heap shape: the only reference to the
    object is in the table of a Thread object that is not `current(Thread)` of any running thread.) -/
theorem C13_guarded_variant_loses_objects :
    -- the current source: nothing is finalised, the entry read back is live
    ((run cfgMark witnessHeld G.init).1.thr 0).fin = [] ∧
    (step cfgMark (run cfgMark (witnessHeld.take 11) G.init).1 (.loc 1 (.tget "a"))).2 = .val ⟨0, 1⟩ ∧
    -- the guarded variant: main's collection finalises 0.1 although thread 1's table refers to it; the entry dangles
    ((run cfgGuarded (witnessHeld.take 9) G.init).1.thr 1).tls = [("a", ⟨0, 1⟩)] ∧
    ((run cfgGuarded (witnessHeld.take 9) G.init).1.thr 0).fin = [⟨0, 1⟩] ∧
    (step cfgGuarded (run cfgGuarded (witnessHeld.take 11) G.init).1 (.loc 1 (.tget "a"))).2 = .val ⟨0, 1⟩ ∧
    KeepsWrappers cfgGuarded witnessHeld G.init = true ∧ KeepsWrappers cfgMark witnessHeld G.init = true := by decide

/-- **C13 Mutex.** At every point of every schedule (`s1` is the part executed so far; no hypothesis — the former
    `_hub : noUB …` was not used by the proof and has been dropped, audit2 item 4): for every Mutex `m`, the threads that are inside a section of `m`
    — have acquired it by `lock`, a successful `trylock` or the entry of a `with` block and not yet released it — are at
    most one, none is inside twice, and the one inside is the holder of the pthread mutex.
    (`inside t m` counts acquisitions minus releases in the trace.)
    This is the invariant of the `holder` guard of `step` (a `lock` that finds a holder is `blocked`, an `unlock` by a
    non-holder is `ub` and changes nothing: the event is not executed, so the statement needs no UB-freedom hypothesis;
    what it says about the *code* ends at the first `ub` of the trace — past an `unlock` by a non-holder the pthread
    mutex is in no defined state and the model's `holder` means nothing).  What ties
    the guard to the code: `Mutex_Lock/Trylock/Unlock` are single calls of the pthread primitive on the object's own
    mutex (`C13_source_shape_as_modelled`, oracle `c13-wrapper`), `with` is `start_in`/`stop_in` = the same two functions
    (`Mutex_instances`), and the in-section flag / counter oracles on real threads. -/
theorem C13_mutex (cfg : Cfg) (s1 : List Ev) (m : Nat) :
    (∀ t, inside t m (run cfg s1 G.init).2 = if (run cfg s1 G.init).1.holder m = some t then 1 else 0) ∧
    (∀ t1 t2, inside t1 m (run cfg s1 G.init).2 ≥ 1 → inside t2 m (run cfg s1 G.init).2 ≥ 1 → t1 = t2) := by
  have key := fun t => run_inside_init cfg t m s1
  refine ⟨key, ?_⟩
  intro t1 t2 h1 h2
  rw [key t1] at h1
  rw [key t2] at h2
  by_cases a : (run cfg s1 G.init).1.holder m = some t1
  · by_cases b : (run cfg s1 G.init).1.holder m = some t2
    · rw [a] at b; exact Option.some.inj b
    · simp [b] at h2
  · simp [a] at h1

/-- a `with (x in m) { counter++ }` block runs (outcome `num`) only when nobody is inside a section of `m` -/
theorem C13_with_exclusive (cfg : Cfg) (s : List Ev) (t : Tid) (m c n : Nat)
    (h : (step cfg (run cfg s G.init).1 (.winc t m c)).2 = .num n) :
    ∀ t', inside t' m (run cfg s G.init).2 = 0 := by
  intro t'
  have hh : (run cfg s G.init).1.holder m = none := by
    simp only [step] at h
    split at h
    · cases h
    · split at h
      · assumption
      · cases h
  rw [run_inside_init, hh]; simp

/-- **Guarded increments are never lost.** In every schedule that keeps the locking discipline for counter `c` and
    Mutex `m` (`Disc`: loads and stores of `c` are made by the holder of `m`, a store completes a load of the same
    thread, `with`-increments of `c` use `m`, the holder does not release `m` between its load and its store) the final
    value of the plain counter is exactly the number of increments completed — however the non-atomic `ld`/`st` halves
    of the increments of different threads are interleaved with everything else. -/
theorem C13_counter_exact (cfg : Cfg) (m c : Nat) (s : List Ev) (hD : Disc cfg m c s G.init (fun _ => false)) :
    (run cfg s G.init).1.counter c = incs c (run cfg s G.init).2 := by
  have h := run_counter cfg m c s G.init (fun _ => false) (by intro t ht; cases ht) hD
  simpa [G.init] using h

/-- **C13 join.** If `join u` returns `joined` (the outcome of a `pthread_join` that succeeded) at some point of a
    schedule, then thread `u` had finished `Thread_Init_Run` (function and teardown) before, and in every continuation
    in which the Thread object is not called again no event of `u` ever happens (each is recorded `dead`): every step of
    that run of `u` precedes the return of `join u`.
    Reads back the guard of `step` (`joined` only in phase `done`); that `Thread_Join` is `pthread_join` on the object's
    own pthread and nothing else is `C13_source_shape_as_modelled` + the `c13-wrapper` oracle. -/
theorem C13_join (cfg : Cfg) (s1 s2 : List Ev) (t u : Tid)
    (hj : (step cfg (run cfg s1 G.init).1 (.join t u)).2 = .joined)
    (hns : ∀ e ∈ s2, ∀ t', e ≠ .spawn t' u) :
    ((run cfg s1 G.init).1.thr u).phase = .done ∧
    ∀ eo ∈ (run cfg s2 (step cfg (run cfg s1 G.init).1 (.join t u)).1).2, eo.1.tid = u → eo.2 = .dead := by
  obtain ⟨hd, hthr⟩ := step_join_joined cfg _ t u hj
  refine ⟨hd, ?_⟩
  exact (run_done cfg u s2 hns _ (by rw [hthr]; exact hd)).2

/-- the full statement of "join returns only after the thread's function has finished": whenever `join u` returns to
    its caller having waited for a thread that was called (`joined`), or without waiting (`early`), `u` has finished -/
def C13_join_statement (cfg : Cfg) : Prop :=
  ∀ (s : List Ev) (t u : Tid),
    ((step cfg (run cfg s G.init).1 (.join t u)).2 = .joined ∨ (step cfg (run cfg s G.init).1 (.join t u)).2 = .early) →
    ((run cfg s G.init).1.thr u).phase = .done

/-- **C13 join, every join** (was `C13_join_partial`, which excluded self-joins).  With `Thread_Join` raising for EDEADLK
    (`hj`; the current source: `C13_join_repair_in_current_source`), `join u` by any thread `t` — `t = u` included — never
    returns `early`, and returns `joined` only when `u` has finished; the remaining outcomes are `nothread` (the Thread
    object was never called: there is no function to wait for), an exception (`raised`: the caller joined itself), and
    the events that do not happen (`blocked`, `dead`) or are undefined (`ub`).
    Mutual joins are outside the model (a blocked `join` is an event that does not happen; where the pthread
    implementation reports EDEADLK for them, `perr join EDEADLK` shows `Thread_Join` raising — glibc 2.36 in this sandbox
    deadlocks instead). -/
theorem C13_join_full (cfg : Cfg) (hj : cfg.joinIgnoresDeadlk = false) (s : List Ev) (t u : Tid) :
    (step cfg (run cfg s G.init).1 (.join t u)).2 ≠ .early ∧
    ((step cfg (run cfg s G.init).1 (.join t u)).2 = .joined → ((run cfg s G.init).1.thr u).phase = .done) := by
  refine ⟨?_, fun h => (step_join_joined cfg _ t u h).1⟩
  have hx : joinTrOf cfg .edeadlk = some .resourceError := by simp [joinTrOf, hj, joinTr]
  simp only [step, hx]
  repeat' split
  all_goals simp_all

/-- **The full statement holds of every variant in which `Thread_Join` raises for EDEADLK** … -/
theorem C13_join_statement_holds (cfg : Cfg) (hj : cfg.joinIgnoresDeadlk = false) : C13_join_statement cfg := by
  intro s t u h
  rcases h with h | h
  · exact (C13_join_full cfg hj s t u).2 h
  · exact absurd h (C13_join_full cfg hj s t u).1

/-- … **and so of /repo's current source** (was refuted before commit 484991f) -/
theorem C13_join_current_source (scan : Nat × Nat → Bool) : C13_join_statement (cfgSrc scan) :=
  C13_join_statement_holds (cfgSrc scan) (C13_join_repair_in_current_source.2 scan)

/-- **OLD variant refuted (was KF-C13-join-edeadlk, repaired by commit 484991f).** `join(current(Thread))`: `pthread_join` of
    the calling thread reports EDEADLK, `Thread_Join` raised only for EINVAL and ESRCH (`C13_join_edeadlk_old_ignored`), so
    it returned at once — while the thread's function is running (the caller is executing it). -/
theorem C13_join_old_refuted (cfg : Cfg) (hj : cfg.joinIgnoresDeadlk = true) : ¬ C13_join_statement cfg := by
  intro h
  have := h [] 0 0 (Or.inr (by simp [run, step, running, G.init, TS.main, wrapperGone, joinTrOf, hj, joinTrOld]))
  simp [run, G.init, TS.main] at this

/-- `join` of the calling thread itself raises ResourceError: the caller's exception record takes it, nothing else in the
    process changes (for the calling thread it is the local event "`pthread_join` failed with EDEADLK") -/
theorem C13_join_self_raises (cfg : Cfg) (hj : cfg.joinIgnoresDeadlk = false) (g : G) (t : Tid) (hr : running g t = true)
    (hw : wrapperGone g t = false) :
    step cfg g (.join t t) =
      ({ g with thr := upd g.thr t { g.thr t with exc := caught .resourceError (g.thr t).exc } }, .raised .resourceError) ∧
    (lstep cfg t g.cache [] (.perr .join .edeadlk) (g.thr t)).1 = { g.thr t with exc := caught .resourceError (g.thr t).exc } := by
  have hx : joinTrOf cfg .edeadlk = some .resourceError := by simp [joinTrOf, hj, joinTr]
  refine ⟨by simp [step, hr, hw, hx], ?_⟩
  rw [lstep_perr_join cfg t g.cache [] (g.thr t) (by simpa [running] using hr) _ hx]

/-- OLD variant: `join` of the calling thread itself returned at once (`early`), nothing changed -/
theorem C13_join_self_old_returns_early (cfg : Cfg) (hj : cfg.joinIgnoresDeadlk = true) (g : G) (t : Tid)
    (hr : running g t = true) (hw : wrapperGone g t = false) :
    step cfg g (.join t t) = (g, .early) := by
  simp [step, hr, hw, joinTrOf, hj, joinTrOld]

/-- **join publishes (values).** After `join u` has returned, every read of `u`'s published cell — by any thread, at
    any later point of any continuation (until the Thread object is called again) — yields the value `u` had written
    last, which (the schedule up to the join being isolated) is the value of `u`'s solo run; and `u`'s component (ledger
    of finalised objects, thread-local table …) is final: nothing changes it any more. -/
theorem C13_join_publishes (cfg : Cfg) (s1 s2 : List Ev) (t u : Tid) (hiso : Isolated cfg s1 G.init = true)
    (hj : (step cfg (run cfg s1 G.init).1 (.join t u)).2 = .joined)
    (hns : ∀ e ∈ s2, ∀ t', e ≠ .spawn t' u) :
    let g1 := (run cfg s1 G.init).1
    let alone := (solo cfg u (proj u (run cfg s1 G.init).2) [] (G.init.thr u)).1
    g1.thr u = alone ∧
    (run cfg s2 (step cfg g1 (.join t u)).1).1.thr u = alone ∧
    ∀ eo ∈ (run cfg s2 (step cfg g1 (.join t u)).1).2, ∀ r, eo.1 = .rd r u → eo.2 = .num alone.pub ∨ eo.2 = .dead := by
  obtain ⟨hd, hthr⟩ := step_join_joined cfg _ t u hj
  have hal := (C13_noninterference_from_start cfg s1 hiso u).1
  have hd' : (((step cfg (run cfg s1 G.init).1 (.join t u)).1).thr u).phase = .done := by rw [hthr]; exact hd
  refine ⟨hal, ?_, ?_⟩
  · rw [(run_done cfg u s2 hns _ hd').1, hthr]; exact hal
  · intro eo hmem r he
    have := run_rd_frozen cfg u s2 hns _ hd' eo hmem r he
    rw [hthr, hal] at this
    exact this

/-- **join publishes (objects the thread allocated).** After `join u` has returned, whoever dereferences the pointer `u`
    stored into the joiner's Ref (`ref(out, o)`, `o` allocated by `u`) finds, at any later point of any continuation:
    a live object iff `u`'s collector had not finalised `o` by the time `u` finished — and a dangling pointer otherwise.
    Together with `C13_teardown_step` (the teardown finalises *every* non-root entry of `u`'s registry before
    `Thread_Init_Run` returns): an object made with plain `new` by the thread is never usable by the joiner;
    `new_root` / `new_raw` objects and values assigned into the joiner's own objects are. -/
theorem C13_join_publishes_own_object (cfg : Cfg) (s1 s2 : List Ev) (t u : Tid)
    (hj : (step cfg (run cfg s1 G.init).1 (.join t u)).2 = .joined)
    (hns : ∀ e ∈ s2, ∀ t', e ≠ .spawn t' u)
    (o : Obj) (hp : ((run cfg s1 G.init).1.thr u).pubo = some o) (ho : o.owner = u) :
    ∀ eo ∈ (run cfg s2 (step cfg (run cfg s1 G.init).1 (.join t u)).1).2, ∀ r, eo.1 = .rdo r u →
      eo.2 = (if ((run cfg s1 G.init).1.thr u).fin.contains o then .dangling o else .val o) ∨ eo.2 = .dead := by
  obtain ⟨hd, hthr⟩ := step_join_joined cfg _ t u hj
  have hd' : (((step cfg (run cfg s1 G.init).1 (.join t u)).1).thr u).phase = .done := by rw [hthr]; exact hd
  intro eo hmem r he
  have := run_rdo_frozen cfg u s2 hns _ hd' o (by rw [hthr]; exact hp) ho eo hmem r he
  rw [hthr] at this
  exact this

/-- the full statement of "its effects are visible to the joiner" for a result object: after `join u`, the object `u`
    published can be used -/
def C13_join_publishes_statement (cfg : Cfg) : Prop :=
  ∀ (s1 s2 : List Ev) (t u : Tid) (o : Obj),
    (step cfg (run cfg s1 G.init).1 (.join t u)).2 = .joined → (∀ e ∈ s2, ∀ t', e ≠ .spawn t' u) →
    ((run cfg s1 G.init).1.thr u).pubo = some o →
    ∀ eo ∈ (run cfg s2 (step cfg (run cfg s1 G.init).1 (.join t u)).1).2, ∀ r, eo.1 = .rdo r u → eo.2 = .val o ∨ eo.2 = .dead

/-- the worker allocates its result with `new`, hands the pointer to the joiner, returns; main joins and dereferences -/
def witnessResult : List Ev :=
  [.spawn 0 1, .loc 1 .begin_, .loc 1 (.new 1 false false), .loc 1 (.pubo ⟨1, 1⟩), .loc 1 .end_]

/-- **Refuted (KF-C13-join-result-finalised).** The worker's teardown (`del_raw(gc)` in
    `Thread_Init_Run`: a sweep with nothing marked) finalises the object before `pthread_join` can return: what the joiner
    holds is a dangling pointer (in C: `deref(out)` → ValueError "bad magic number … already deallocated" /
    heap-use-after-free; reproduced). -/
theorem C13_join_publishes_object_refuted : ¬ C13_join_publishes_statement cfgMark := by
  intro h
  have := h witnessResult [.rdo 0 1] 0 1 ⟨1, 1⟩ (by decide)
    (by intro e he t'; simp only [List.mem_singleton] at he; subst he; simp) (by decide)
    _ (by rw [run_cons]; exact List.mem_cons_self) 0 rfl
  revert this
  decide

/-! ### arguments handed to a thread: `call(x, a…)` -/

/-- the full statement of "a thread can use the arguments it was given": in every schedule in which the program itself
    does not destroy them (`ArgsNotDestroyed`: live objects are handed over, nobody `del`s them, their owner does not
    return while a live thread has them — unless they are roots), whatever a running thread reads from its argument
    tuple is a live object -/
def C13_args_statement (cfg : Cfg) : Prop :=
  ∀ (s : List Ev), ArgsNotDestroyed cfg s G.init = true →
    ∀ eo ∈ (run cfg s G.init).2, ∀ t i, eo.1 = .rdarg t i → ∀ o, eo.2 ≠ .dangling o

/-- main makes an object in a helper's frame, hands it to a thread (`call(x, new(Int, …))`), the thread reads it; main
    allocates until its collector runs — the object is no longer on main's stack — and the thread reads it again -/
def witnessArg : List Ev :=
  [.loc 0 (.new 1 false false), .spawn 0 1, .arg 0 1 [⟨0, 1⟩], .loc 1 .begin_, .rdarg 1 0, .loc 0 (.collect []), .rdarg 1 0]

/-- **Refuted (KF-C13-thread-arg-collected).** `Thread_Call` keeps a raw copy of the argument tuple (`t->args`), `Thread_Mark`
    presents `t->tls` only: nothing marks what the tuple refers to, so the spawner's collector finalises the argument
    while the thread uses it (in C: `get(args, $I(0))` then any use → ValueError "bad magic number" / use after free;
    reproduced 3 of 3, the `new_root` twin reads 42). -/
theorem C13_args_refuted : ¬ C13_args_statement cfgMark := by
  intro h
  have hmem : ((.rdarg 1 0, .dangling ⟨0, 1⟩) : Ev × Out) ∈ (run cfgMark witnessArg G.init).2 :=
    List.mem_of_getElem? (i := 6) (by rfl)
  exact h witnessArg (by decide) _ hmem 1 0 rfl ⟨0, 1⟩ rfl

/-- the witness side by side with its twins: the argument read back live, then dangling; with `new_root`, or when main
    keeps the object on its stack, it stays live; the witness is outside `ArgsSafe` at exactly one step (the collection) -/
theorem C13_thread_arg_collected_witness :
    (run cfgMark witnessArg G.init).2.map (fun eo => eo.2.show) = ["ok", "spawned", "ok", "begun depth=0 gc=1 exc=1", "val=0.1", "fin=[1] garbage=0", "dangling=0.1"] ∧
    ArgsNotDestroyed cfgMark witnessArg G.init = true ∧ ArgsSafe cfgMark witnessArg G.init = false ∧ argUnsafe cfgMark witnessArg G.init = 1 ∧
    ((run cfgMark [.loc 0 (.new 1 true false), .spawn 0 1, .arg 0 1 [⟨0, 1⟩], .loc 1 .begin_, .loc 0 (.collect []), .rdarg 1 0] G.init).2.map
        (fun eo => eo.2.show)).drop 4 = ["fin=[] garbage=0", "val=0.1"] ∧
    ((run cfgMark [.loc 0 (.new 1 false false), .spawn 0 1, .arg 0 1 [⟨0, 1⟩], .loc 1 .begin_, .loc 0 (.collect [1]), .rdarg 1 0] G.init).2.map
        (fun eo => eo.2.show)).drop 4 = ["fin=[] garbage=0", "val=0.1"] := by decide

/-- **What holds (`…_partial`: the full statement is `C13_args_statement`, refuted above).** In every schedule in which,
    in addition, every collection of an argument's owner finds the object somewhere else — on the owner's stack, among
    its thread-local values, or as a root (`ArgsSafe`; decidable, the driver evaluates it on every schedule it runs) — no
    argument of a live thread is ever finalised: every read of an argument by a running thread yields a live object. -/
theorem C13_args_partial (cfg : Cfg) (s : List Ev) (h : ArgsSafe cfg s G.init = true) :
    (∀ eo ∈ (run cfg s G.init).2, ∀ t i, eo.1 = .rdarg t i → ∀ o, eo.2 ≠ .dangling o) ∧
    (∀ o ∈ liveArgs (run cfg s G.init).1, (((run cfg s G.init).1.thr o.owner).fin.contains o) = false) :=
  ⟨run_args_safe cfg s G.init argInv_init h, run_argInv cfg s G.init argInv_init h⟩

/-- … and what the thread reads is the object that was handed over: after such a schedule, `get(args, $I(i))` in the
    running thread `t` whose tuple is `os` yields `os[i]`, live -/
theorem C13_args_delivered (cfg : Cfg) (s : List Ev) (h : ArgsSafe cfg s G.init = true) (t : Tid) (i : Nat) (os : List Obj) (o : Obj)
    (hr : running (run cfg s G.init).1 t = true) (hl : (run cfg s G.init).1.args.lookup t = some os) (hi : os[i]? = some o) :
    step cfg (run cfg s G.init).1 (.rdarg t i) = ((run cfg s G.init).1, .val o) := by
  have hI := (C13_args_partial cfg s h).2
  have hmem : (t, os) ∈ (run cfg s G.init).1.args := by
    obtain ⟨l1, l2, hl12, _⟩ := List.lookup_eq_some_iff.mp hl
    rw [hl12]; simp
  have hlive : isLive (((run cfg s G.init).1.thr t).phase) = true := by
    have : ((run cfg s G.init).1.thr t).phase = .running := by simpa [running] using hr
    simp [isLive, this]
  exact step_rdarg_val cfg _ t i os o hr hl hi
    (hI o ((mem_liveArgs _ o).mpr ⟨(t, os), hmem, hlive, List.mem_of_getElem? hi⟩))

/-- `ArgsSafe` is met when the spawner keeps the argument on its stack across its collections (or makes it a root), and
    the hypotheses of `C13_args_delivered` hold for the running worker: two arguments, both read back -/
example :
    let s : List Ev := [.loc 0 (.new 1 false false), .loc 0 (.new 2 true false), .spawn 0 1, .arg 0 1 [⟨0, 1⟩, ⟨0, 2⟩], .loc 1 .begin_,
                   .loc 0 (.churn 3), .loc 0 (.collect [1]), .rdarg 1 0, .rdarg 1 1, .rdarg 1 2, .loc 1 .end_, .join 0 1, .loc 0 (.collect [])]
    ArgsSafe cfgMark s G.init = true ∧
    ((run cfgMark s G.init).2.map (fun eo => eo.2.show)).drop 6 =
      ["fin=[] garbage=3", "val=0.1", "val=0.2", "noval", "fin=[] garbage=0", "joined", "fin=[1] garbage=3"] ∧
    running (run cfgMark (s.take 7) G.init).1 1 = true ∧ (run cfgMark (s.take 7) G.init).1.args.lookup 1 = some [⟨0, 1⟩, ⟨0, 2⟩] := by
  decide

/-- **C13 teardown / own collector.** In every schedule, every object that thread `t`'s collector ever finalised — by
    `del`, by a collection, or by the teardown in `Thread_Init_Run` — and every object in its registry was allocated by
    `t` itself: no thread finalises another thread's objects.
    (Invariant of the model's `new`, which registers with the registry of the component it is handed; tied to the code
    by the extracted `alloc_by_register` / `del_by` / `GC_Current` texts: registration and removal go through
    `current(GC)` = `get(current(Thread), "__GC")`, and by the destructor ledger keyed by owner on real threads.  A
    Thread object `new(Thread, f)` is such an object of its *maker*: its finalisation by the maker's collector frees the
    other thread's table — `wrapperKilled`, `ub`.) -/
theorem C13_teardown_own (cfg : Cfg) (s : List Ev) (t : Tid) :
    (∀ o ∈ ((run cfg s G.init).1.thr t).fin, o.owner = t) ∧
    (∀ g, ((run cfg s G.init).1.thr t).gc = some g → ∀ e ∈ g.reg, e.1.owner = t) := by
  have h := run_own cfg s G.init own_init t
  exact ⟨h.2, h.1⟩

/-- the teardown step itself: when thread `t`'s function returns, the epilogue of `Thread_Init_Run` finalises exactly the
    non-root entries of `t`'s own registry, removes the collector and the exception record, and changes no other thread
    (`hub`: the thread does not return while its registry still holds the Thread object `new(Thread, f)` of a thread
    that is live — `Thread_Del` would free that thread's table under it) -/
theorem C13_teardown_step (cfg : Cfg) (g : G) (t : Tid) (gc : GC)
    (hr : (g.thr t).phase = .running) (hg : (g.thr t).gc = some gc)
    (hub : (step cfg g (.loc t .end_)).2 ≠ .ub) :
    let g' := (step cfg g (.loc t .end_)).1
    (g'.thr t).fin = (g.thr t).fin ++ (gc.reg.filter (fun e => !e.2)).map (·.1) ∧
    (g'.thr t).gc = none ∧ (g'.thr t).exc = none ∧ (g'.thr t).phase = .done ∧ (g'.thr t).tls = (g.thr t).tls ∧
    ∀ u, u ≠ t → g'.thr u = g.thr u := by
  rw [step_loc] at hub ⊢
  split at hub
  · exact absurd rfl hub
  · rename_i hk
    rw [if_neg hk]
    simp only [upd_same, lstep, lrun, hr, hg, if_true]
    have hsw : (gc.sweep []).2 = (gc.reg.filter (fun e => !e.2)).map (·.1) := by simp [GC.sweep]
    split <;> (refine ⟨by simp [hsw], rfl, rfl, rfl, rfl, ?_⟩; intro u hu; simp [upd_other _ _ _ _ hu])

/-- **Destructors may use exceptions at teardown.** With the epilogue order of the current source (collector first,
    exception record second: `cfg.gcFirst`), no event of any schedule — no `del`, no collection and no thread teardown,
    whatever destructors enter try blocks — runs without the thread's exception record: the outcome `crash` never occurs. -/
theorem C13_teardown_survives_destructor_exceptions (cfg : Cfg) (hgf : cfg.gcFirst = true) (s : List Ev) :
    ∀ eo ∈ (run cfg s G.init).2, eo.2 ≠ .crash :=
  run_nocrash cfg hgf s G.init live_init

/-- … and that is the order in /repo now (read from `Thread_Init_Run` by the translator on every run) -/
theorem C13_teardown_order_current_source : CelloGen.Thr.teardownGcFirst = true := by
  rfl

/-- The order before commit 7de4bbc (exception record first) is refuted by a concrete schedule: a worker allocates one
    object whose destructor does try/throw/catch and returns — the teardown sweep finds no exception record. -/
theorem C13_teardown_old_order_refuted :
    let old : Cfg := { cfgMark with gcFirst := false }
    ((run old [.spawn 0 1, .loc 1 .begin_, .loc 1 (.new 1 false true), .loc 1 .end_] G.init).2.map (fun eo => eo.2.show))
      = ["spawned", "begun depth=0 gc=1 exc=1", "ok", "crash"] := by decide

/-- `del` of another thread's object finalises nothing (it is looked up in the caller's registry only) -/
theorem C13_foreign_del (cfg : Cfg) (s : List Ev) (t : Tid) (o : Obj) (ho : o.owner ≠ t) :
    (step cfg (run cfg s G.init).1 (.loc t (.del o))).2 = .fin [] ∨
    (step cfg (run cfg s G.init).1 (.loc t (.del o))).2 = .dead ∨
    (step cfg (run cfg s G.init).1 (.loc t (.del o))).2 = .raised .keyError := by
  have hown := (C13_teardown_own cfg s t).2
  generalize (run cfg s G.init).1 = g at hown ⊢
  have key : ∀ fm, (lstep cfg t g.cache fm (.del o) (g.thr t)).1.gc = (g.thr t).gc ∧
      ((lstep cfg t g.cache fm (.del o) (g.thr t)).2.2 = .fin [] ∨ (lstep cfg t g.cache fm (.del o) (g.thr t)).2.2 = .dead ∨
       (lstep cfg t g.cache fm (.del o) (g.thr t)).2.2 = .raised .keyError) := by
    intro fm
    simp only [lstep]
    split
    · simp only [lrun]
      cases hg : (g.thr t).gc with
      | none => exact ⟨hg, Or.inr (Or.inr rfl)⟩
      | some gc =>
        have : gc.reg.any (fun e => decide (e.1 = o)) = false := by
          rw [List.any_eq_false]
          intro e he
          have := hown gc hg e he
          simp only [decide_eq_true_eq]
          intro h
          exact ho (by rw [← h]; exact this)
        simp [GC.rem, this, runDtors]
    · exact ⟨rfl, Or.inr (Or.inl rfl)⟩
  rw [step_loc, wrapperKilled_gc g t _ (key _).1]
  simpa using (key _).2

/-- **Exceptions are per thread.** In any process state, an exception program run by thread `t` (inside the object domain
    of C07 — catch filters are arbitrary lists since fix a0ef2da; `t`'s record has no pending exception and room for the
    program's nesting)
    produces exactly the trace of the structured-exception reference semantics (C07) — whatever the other threads'
    exception records contain — and touches no other thread. -/
theorem C13_exn_isolated (cfg : Cfg) (hcons : cfg.consume = true) (g : G) (t : Tid) (p : Exn.Prog) (s0 : Exn.St)
    (hr : (g.thr t).phase = .running) (he : (g.thr t).exc = some s0) (ha : s0.active = false)
    (hn : s0.depth + Exn.nest p ≤ cfg.maxDepth) (hdom : Exn.inDomain p = true) :
    (∃ sg d, (step cfg g (.loc t (.exn p))).2 = .exn (Exn.eval p topBound).1 sg d ∧ d = s0.depth ∧
       (sg = .normal ↔ (Exn.eval p topBound).2 = none)) ∧
    ∀ u, u ≠ t → (step cfg g (.loc t (.exn p))).1.thr u = g.thr u := by
  have hC := Exn.C07_machine_refines_reference cfg.maxDepth p topBound s0 ha hn (by decide) hdom
  refine ⟨?_, fun u hu => step_loc_other cfg g t (.exn p) u hu⟩
  have hk : wrapperKilled g t (lstep cfg t g.cache (foreignMarks cfg g t (.exn p)) (.exn p) (g.thr t)).1 = false :=
    wrapperKilled_gc g t _ (by simp [lstep, lrun, hr, he])
  rw [step_loc, hk]
  simp only [lstep, lrun, hr, he, if_true, hcons, Bool.false_eq_true, if_false]
  rcases hev : Exn.eval p topBound with ⟨tr, _ | e⟩
  · rw [hev] at hC
    simp only [Exn.Agrees] at hC
    exact ⟨_, _, by rw [hC.1], hC.2.2.1, by simp [hC.2.1]⟩
  · rw [hev] at hC
    simp only [Exn.Agrees] at hC
    refine ⟨_, _, by rw [hC.1], hC.2.2.1, ?_⟩
    rw [hC.2.2.2]
    by_cases hd : s0.depth ≥ 1 <;> simp [hd]

/-! ### the pthread error translation is as documented -/

/-- `Mutex_Lock`, `Mutex_Trylock`, `Mutex_Unlock`, `Thread_Join`: success is success, EBUSY of trylock is `false`, and
    the only error codes that raise are EINVAL (ValueError), EDEADLK on lock and on join (ResourceError), EPERM on unlock
    (ResourceError) and ESRCH on join (ValueError) -/
theorem C13_error_translation :
    lockTr .zero = none ∧ unlockTr .zero = none ∧ joinTr .zero = none ∧ trylockTr .zero = .ok true ∧
    trylockTr .ebusy = .ok false ∧
    lockTr .einval = some .valueError ∧ lockTr .edeadlk = some .resourceError ∧
    trylockTr .einval = .error .valueError ∧
    unlockTr .einval = some .valueError ∧ unlockTr .eperm = some .resourceError ∧
    joinTr .einval = some .valueError ∧ joinTr .esrch = some .valueError ∧ joinTr .edeadlk = some .resourceError :=
  ⟨rfl, rfl, rfl, rfl, rfl, rfl, rfl, rfl, rfl, rfl, rfl, rfl, rfl⟩

/-- `Thread_Join` raises ResourceError for EDEADLK — in the model, in the table extracted from the current source, and
    as a local event of a running thread in the variant of the current source: a `pthread_join` that reports a deadlock
    (the caller joins itself) does not return normally -/
theorem C13_join_edeadlk_raises :
    joinTr .edeadlk = some .resourceError ∧ tableTr CelloGen.Thr.joinErr .edeadlk = some .resourceError ∧
    ∀ (scan : Nat × Nat → Bool) (c : Cache) (fm : List Obj) (ts : TS), ts.phase = .running →
      (lstep (cfgSrc scan) 0 c fm (.perr .join .edeadlk) ts).2.2 = .raised .resourceError := by
  refine ⟨rfl, by decide, ?_⟩
  intro scan c fm ts hr
  have hx : joinTrOf (cfgSrc scan) .edeadlk = some .resourceError := by
    simp [joinTrOf, (C13_join_repair_in_current_source.2 scan), joinTr]
  rw [lstep_perr_join (cfgSrc scan) 0 c fm ts hr _ hx]

/-- OLD variant: `Thread_Join` had no case for EDEADLK: a `pthread_join` that reported a deadlock made `join` return normally -/
theorem C13_join_edeadlk_old_ignored :
    joinTrOld .edeadlk = none ∧
    ∀ (c : Cache) (fm : List Obj) (ts : TS), ts.phase = .running →
      (lstep cfgOldJoin 0 c fm (.perr .join .edeadlk) ts).2.2 = .ok := by
  refine ⟨rfl, ?_⟩
  intro c fm ts hr
  simp [lstep, lrun, hr, joinTrOf, cfgOldJoin, cfgMark, joinTrOld]

/-! ### the model is about the source as it is now (regenerated from /repo on every run) -/

/-- the functions the model mirrors — how per-thread state is reached (`Thread_Current`, `GC_Current`,
    `Exception_Current`, the TLS accessors), prologue and epilogue of `Thread_Init_Run`, `GC_New`/`GC_Del`,
    `Exception_New`/`Exception_Del`, the registration in `alloc_by`/`del_by`, `start_in`/`stop_in`/`with`, the Mutex
    functions and its `Lock`/`Start` instances, `Thread_Join`, the class-cache macro — have, in /repo's current
    source, exactly the text the model was written against -/
theorem C13_source_shape_as_modelled : CelloGen.Thr.shape = CelloGen.Thr.shapeModelled := by
  rfl

/-- the model's translation of pthread error codes is the one extracted from `Mutex_Lock`, `Mutex_Trylock`,
    `Mutex_Unlock`, `Thread_Join` and `Thread_Call` in the current source, for every error code (EDEADLK of `Thread_Join`
    included: reverting commit 484991f breaks this theorem at `joinTr .edeadlk`) -/
theorem C13_error_translation_current_source (e : Errno) :
    lockTr e = tableTr CelloGen.Thr.lockErr e ∧ unlockTr e = tableTr CelloGen.Thr.unlockErr e ∧
    joinTr e = tableTr CelloGen.Thr.joinErr e ∧ createTr e = tableTr CelloGen.Thr.createErr e ∧
    some (trylockTr e) = tableTry CelloGen.Thr.trylockErr CelloGen.Thr.trylockDefault e := by
  cases e <;> exact ⟨by decide, by decide, by decide, by decide, by rfl⟩

/-! ### non-vacuity: concrete schedules meet the hypotheses and exercise the interesting branches -/

/-- two workers contend for Mutex 0: the second `lock` is blocked, the `trylock` fails, after the release the second
    thread gets in; no UB; thread 1 is inside exactly between its acquisition and its release -/
def demoLocks : List Ev :=
  [.spawn 0 1, .spawn 0 2, .loc 1 .begin_, .loc 2 .begin_, .lock 1 0, .lock 2 0, .trylock 2 0, .ld 1 0, .st 1 0,
   .unlock 1 0, .trylock 2 0, .ld 2 0, .st 2 0]

example :
    noUB (run cfgNow demoLocks G.init).2 = true ∧
    inside 1 0 (run cfgNow (demoLocks.take 9) G.init).2 = 1 ∧ inside 2 0 (run cfgNow (demoLocks.take 9) G.init).2 = 0 ∧
    inside 1 0 (run cfgNow demoLocks G.init).2 = 0 ∧ inside 2 0 (run cfgNow demoLocks G.init).2 = 1 ∧
    (run cfgNow demoLocks G.init).1.counter 0 = 2 := by decide

/-- the contended schedule keeps the discipline of `C13_counter_exact` (counter 0 guarded by Mutex 0): two increments, value 2 -/
example : Disc cfgNow 0 0 demoLocks G.init (fun _ => false) ∧ incs 0 (run cfgNow demoLocks G.init).2 = 2 := by decide

/-- without the Mutex the model does exhibit the lost update (so `C13_mutex` is not vacuous about it) -/
example : (run cfgNow [.spawn 0 1, .loc 1 .begin_, .ld 0 9, .ld 1 9, .st 0 9, .st 1 9] G.init).1.counter 9 = 1 := by decide

/-- a worker allocates, is torn down, is joined; the joiner reads its value; a foreign `del` finalises nothing -/
def demoJoin : List Ev :=
  [.loc 0 (.new 1 false false), .spawn 0 1, .loc 1 .begin_, .loc 1 (.new 1 false false), .loc 1 (.new 2 true false), .loc 1 (.churn 3),
   .loc 0 (.del ⟨1, 1⟩), .loc 1 (.tset "a" ⟨1, 1⟩), .loc 1 (.collect []), .loc 1 (.pub 7), .join 0 1, .loc 1 .end_,
   .join 0 1, .rd 0 1, .loc 1 (.pub 9), .rd 0 1]

example :
    ((run cfgNow demoJoin G.init).2.map (fun eo => notExecuted eo.2)) =
      [false, false, false, false, false, false, false, false, false, false, true, false, false, false, true, false] ∧
    ((run cfgNow demoJoin G.init).1.thr 1).fin.map (·.k) = [1000000, 1000001, 1000002, 1] ∧
    ((run cfgNow demoJoin G.init).1.thr 0).fin = [] ∧
    ((run cfgNow demoJoin G.init).1.thr 1).pub = 7 ∧
    (proj 1 (run cfgNow demoJoin G.init).2).length = 10 ∧
    localOuts 1 (run cfgNow demoJoin G.init).2 = (solo cfgNow 1 (proj 1 (run cfgNow demoJoin G.init).2) [] TS.unborn).2 := by
  refine ⟨by decide, by decide, by decide, by decide, by decide, rfl⟩

/-- a Thread object is called, joined, called again and joined again: the second run keeps the thread-local table and
    the ledger of the first, gets a fresh collector, and `join` waits for the second run too -/
example :
    ((run cfgNow [.spawn 0 1, .loc 1 .begin_, .loc 1 (.new 1 false false), .loc 1 (.new 2 true false), .loc 1 (.tset "r" ⟨1, 2⟩),
                  .loc 1 .end_, .spawn 0 1, .join 0 1, .spawn 0 1, .join 0 1, .loc 1 .begin_, .loc 1 (.tget "r"),
                  .loc 1 (.del ⟨1, 2⟩), .loc 1 (.new 3 false false), .loc 1 .end_, .join 0 1, .join 0 1] G.init).2.map
        (fun eo => eo.2.show))
      = ["spawned", "begun depth=0 gc=1 exc=1", "ok", "ok", "ok", "fin=[1] garbage=0", "bad", "joined", "spawned", "blocked",
         "begun depth=0 gc=1 exc=1", "val=1.2", "fin=0", "ok", "fin=[1,3] garbage=0", "joined", "ub"] := by decide

/-- the hypotheses of `C13_exn_isolated` hold for a running thread and a nested program (one filter names an object twice) -/
example :
    let g := (run cfgNow [.spawn 0 1, .loc 1 .begin_, .loc 0 (.exn (.tryCatch (.throw 3) [] (.stmt 1)))] G.init).1
    let p : Exn.Prog := .tryCatch (.tryCatch (.throw 1) [2, 2] (.stmt 5)) [1] (.stmt 6)
    (g.thr 1).phase = .running ∧ (g.thr 1).exc = some Exn.St.init ∧ cfgNow.consume = true ∧
    Exn.St.init.depth + Exn.nest p ≤ cfgNow.maxDepth ∧ Exn.inDomain p = true := by decide

/-- **`Isolated` is met by the documented usage** `var x = new(Thread, f); call(x); … join(x);` when the worker sets
    no thread-local values and the creator does not collect between `call` and `join`: main makes the Thread object,
    collects (the worker is unborn, its table empty), calls it, the worker allocates, churns, collects and returns, main
    joins and collects again holding `x` (the worker is done, `__GC` / `__Exception` are gone from its table).
    Every collection of main does meet the Thread object (`heldThreads` = [1]), no step is a race, and main's outcomes
    are those of its solo run. -/
def demoManaged : List Ev :=
  [.loc 0 (.new 1 false false), .loc 0 (.new (thrBase + 1) false false), .bind 0 1, .loc 0 (.collect [1, thrBase + 1]),
   .spawn 0 1, .loc 1 .begin_, .loc 1 (.new 1 false false), .loc 1 (.churn 3), .loc 1 (.collect []), .loc 1 .end_,
   .join 0 1, .loc 0 (.churn 2), .loc 0 (.collect [thrBase + 1])]

example :
    Isolated cfgMark demoManaged G.init = true ∧ races cfgMark demoManaged G.init = 0 ∧
    heldThreads (run cfgMark demoManaged G.init).1 0 [thrBase + 1] = [1] ∧
    ((run cfgMark demoManaged G.init).2.map (fun eo => eo.2.show)) =
      ["ok", "ok", "ok", "fin=[] garbage=0", "spawned", "begun depth=0 gc=1 exc=1", "ok", "ok", "fin=[1] garbage=3",
       "fin=[1] garbage=3", "joined", "ok", "fin=[1] garbage=2"] ∧
    localOuts 0 (run cfgMark demoManaged G.init).2 = (solo cfgMark 0 (proj 0 (run cfgMark demoManaged G.init).2) [] TS.main).2 := by
  decide

/-- both clauses of `quiet` are needed: a worker that has *finished* (and was joined) but left a thread-local value
    behind still changes what main's collection finalises, through the Thread object main holds -/
example :
    let s : List Ev := [.loc 0 (.new 1 false false), .loc 0 (.new (thrBase + 1) false false), .bind 0 1, .spawn 0 1, .loc 1 .begin_,
      .loc 1 (.tset "a" ⟨0, 1⟩), .loc 1 .end_, .join 0 1, .loc 0 (.collect [thrBase + 1])]
    Isolated cfgMark s G.init = false ∧ races cfgMark s G.init = 0 ∧
    (localOuts 0 (run cfgMark s G.init).2).map Out.show = ["ok", "ok", "fin=[] garbage=0"] ∧
    (solo cfgMark 0 (proj 0 (run cfgMark s G.init).2) [] TS.main).2.map Out.show = ["ok", "ok", "fin=[1] garbage=0"] := by decide

/-- **the guarded variant in the model** (commit 80c795e, withdrawn by 0a0ad73). With `Thread_Mark` marking only
    `current(Thread)`'s table (`foreignMark := false`) the refuting schedule is isolated and main's outcomes are those of
    its solo run (`C13_noninterference_guarded_variant`); the price is `C13_guarded_variant_loses_objects` -/
example :
    cfgGuarded.foreignMark = false ∧ Isolated cfgGuarded witnessMark G.init = true ∧ KeepsWrappers cfgGuarded witnessMark G.init = true ∧
    localOuts 0 (run cfgGuarded witnessMark G.init).2 = (solo cfgGuarded 0 (proj 0 (run cfgGuarded witnessMark G.init).2) [] TS.main).2 := by
  decide

/-- the sweep that would free the Thread object of a live thread is not executed (`ub`): a worker makes and calls a
    Thread object and returns without joining it; the same teardown after the join is fine, and a later `call` / `join`
    on the finalised Thread object is `ub` -/
example :
    ((run cfgMark [.spawn 0 1, .loc 1 .begin_, .loc 1 (.new (thrBase + 2) false false), .bind 1 2, .spawn 1 2, .loc 2 .begin_,
                   .loc 1 .end_, .loc 2 .end_, .join 1 2, .loc 1 .end_, .spawn 0 2, .join 0 2] G.init).2.map (fun eo => eo.2.show))
      = ["spawned", "begun depth=0 gc=1 exc=1", "ok", "ok", "spawned", "begun depth=0 gc=1 exc=1", "ub", "fin=[] garbage=0",
         "joined", "fin=[] garbage=0", "ub", "ub"] := by decide

/-- the hypothesis `hub` of `C13_teardown_step` holds for a worker that returns while it holds no Thread object -/
example :
    let g := (run cfgMark [.spawn 0 1, .loc 1 .begin_, .loc 1 (.new 1 false false)] G.init).1
    (g.thr 1).phase = .running ∧ (step cfgMark g (.loc 1 .end_)).2 ≠ .ub := by decide

/-- `C13_join_publishes_own_object`, both sides: a result made with `new` dangles after the join, one made with
    `new_root` is live; the self-join raises ResourceError (OLD variant: returned `early`), the worker carries on and the
    outcomes of the worker — the exception included — are those of its solo run; the hypotheses of `C13_join_self_raises` -/
example :
    let s : List Ev := [.spawn 0 1, .loc 1 .begin_, .loc 1 (.new 2 true false), .loc 1 (.pubo ⟨1, 2⟩), .join 1 1, .loc 1 .end_,
                   .join 0 1, .rdo 0 1]
    ((run cfgNow (witnessResult ++ [.join 0 1, .rdo 0 1, .rdo 0 2]) G.init).2.map (fun eo => eo.2.show)).drop 5
      = ["joined", "dangling=1.1", "noval"] ∧
    ((run cfgNow s G.init).2.map (fun eo => eo.2.show))
      = ["spawned", "begun depth=0 gc=1 exc=1", "ok", "ok", "ResourceError", "fin=[] garbage=0", "joined", "val=1.2"] ∧
    ((run cfgOldJoin s G.init).2.map (fun eo => eo.2.show))
      = ["spawned", "begun depth=0 gc=1 exc=1", "ok", "ok", "early", "fin=[] garbage=0", "joined", "val=1.2"] ∧
    (localOuts 1 (run cfgNow s G.init).2).map Out.show = ["begun depth=0 gc=1 exc=1", "ok", "ok", "ResourceError", "fin=[] garbage=0"] ∧
    Isolated cfgNow s G.init = true ∧
    localOuts 1 (run cfgNow s G.init).2 = (solo cfgNow 1 (proj 1 (run cfgNow s G.init).2) [] TS.unborn).2 ∧
    cfgNow.joinIgnoresDeadlk = false ∧
    running (run cfgNow (s.take 4) G.init).1 1 = true ∧ wrapperGone (run cfgNow (s.take 4) G.init).1 1 = false := by decide


/-! ### extension round: the synchronisation wrappers as extracted translation ∘ pthread primitive -/


/-- the translation tables of the four synchronisation wrappers as the translator reads them from /repo now -/
def tabsSrc : SyncTabs :=
  { lock := CelloGen.Thr.lockErr, trylock := CelloGen.Thr.trylockErr, tryDefault := CelloGen.Thr.trylockDefault,
    unlock := CelloGen.Thr.unlockErr, join := CelloGen.Thr.joinErr }

/-- the tables of the source before commit 484991f (`Thread_Join` without the EDEADLK case) -/
def tabsOldJoin : SyncTabs := { tabsSrc with join := [("EINVAL", "ValueError"), ("ESRCH", "ValueError")] }

/-- the tables of the current source agree with the model on every return value the primitives produce -/
theorem C13_sync_tables_current_source (scan : Nat × Nat → Bool) : TabsAgree (cfgSrc scan) tabsSrc := by
  refine ⟨by decide, by decide, by decide, by decide, by decide, ?_⟩
  have : joinTrOf (cfgSrc scan) .edeadlk = some .resourceError := by
    simp [joinTrOf, (C13_join_repair_in_current_source.2 scan), joinTr]
  rw [this]; decide

/-- **The synchronisation events of the model are the extracted translation applied to the primitive's return value
    (current source).**  For `lock`, `trylock`, `unlock` and `join` — in every state, for every thread — the step of the
    holder / phase machine all C13 theorems are about is: test `t->thread` (join), call the primitive once (`pmLock`,
    `pmTrylock`, `pmUnlock`, `pJoin`), look its return value up in the table the translator extracted from `Mutex_Lock` /
    `Mutex_Trylock` / `Mutex_Unlock` / `Thread_Join`, raise what the table says or return; the Mutex changes hands only when
    the primitive returned 0.  An edit of a table entry that matters (EBUSY of trylock no longer `false`, success raising,
    the EDEADLK case of join) breaks `C13_sync_tables_current_source`. -/
theorem C13_sync_step_is_translated_primitive (scan : Nat × Nat → Bool) (g : G) (e : Ev) (r : G × Out)
    (hs : syncStep tabsSrc g e = some r) : step (cfgSrc scan) g e = r :=
  syncStep_eq_step _ _ (C13_sync_tables_current_source scan) g e r hs

/-- the same composition with the table of `Thread_Join` before commit 484991f is the OLD variant of the model: the
    `early` return of a self-join is "the table has no entry for the EDEADLK `pthread_join` reported" -/
theorem C13_sync_step_old_join_variant (g : G) (e : Ev) (r : G × Out) (hs : syncStep tabsOldJoin g e = some r) :
    step cfgOldJoin g e = r :=
  syncStep_eq_step cfgOldJoin tabsOldJoin ⟨by decide, by decide, by decide, by decide, by decide, by decide⟩ g e r hs

/-- `syncStep` is defined exactly on the four synchronisation events -/
theorem C13_sync_step_domain (tabs : SyncTabs) (g : G) (e : Ev) :
    (syncStep tabs g e).isSome = true ↔ (∃ t m, e = .lock t m) ∨ (∃ t m, e = .trylock t m) ∨ (∃ t m, e = .unlock t m) ∨ (∃ t u, e = .join t u) := by
  cases e <;> simp [syncStep]

/-- **`Mutex_Trylock`, every error code** (about the table and the final `return` extracted from the source): it returns
    `false` iff `pthread_mutex_trylock` returned EBUSY, raises (ValueError) iff it returned EINVAL, and returns `true` for
    every other return value — 0, and also any other error code. -/
theorem C13_trylock_translation (e : Errno) :
    (tryTable CelloGen.Thr.trylockErr CelloGen.Thr.trylockDefault e = .val false ↔ e = .ebusy) ∧
    (tryTable CelloGen.Thr.trylockErr CelloGen.Thr.trylockDefault e = .val true ↔ e ≠ .ebusy ∧ e ≠ .einval) ∧
    (∀ x, tryTable CelloGen.Thr.trylockErr CelloGen.Thr.trylockDefault e = .raises x ↔ e = .einval ∧ x = .valueError) ∧
    tryTable CelloGen.Thr.trylockErr CelloGen.Thr.trylockDefault e ≠ .malformed := by
  cases e <;> exact ⟨by decide, by decide, fun x => by cases x <;> decide, by decide⟩

/-- the full statement "trylock returns true only if the primitive succeeded", over every error code -/
def C13_trylock_true_only_on_success_statement : Prop :=
  ∀ e, tryTable CelloGen.Thr.trylockErr CelloGen.Thr.trylockDefault e = .val true → e = .zero

/-- … does not hold of the table: an error code `Mutex_Trylock` has no case for (EAGAIN: the recursion limit of a recursive
    mutex; also EDEADLK, EPERM, ESRCH) falls through to `return true`.  Not reachable through the library: `Mutex_New` makes
    default-kind mutexes (`pthread_mutex_init(&m->mutex, NULL)`), whose trylock returns 0 or EBUSY only — see `_partial`. -/
theorem C13_trylock_true_only_on_success_refuted : ¬ C13_trylock_true_only_on_success_statement := by
  intro h
  have := h .eagain (by decide)
  cases this

/-- **trylock returns true iff the primitive returned 0, false iff EBUSY** — for every return value of the primitive of a
    default-kind mutex (`pmTrylock`: 0 or EBUSY), which is what `Mutex_New` creates -/
theorem C13_trylock_true_only_on_success_partial (h : Option Tid) (e : Errno) (hp : pmTrylock h = .ret e) :
    (tryTable CelloGen.Thr.trylockErr CelloGen.Thr.trylockDefault e = .val true ↔ e = .zero) ∧
    (tryTable CelloGen.Thr.trylockErr CelloGen.Thr.trylockDefault e = .val false ↔ e = .ebusy) := by
  cases h <;> simp only [pmTrylock, Prim.ret.injEq] at hp <;> subst hp <;> decide

/-- **trylock in the machine**: a running thread's `trylock m` yields `true` iff the primitive returned 0 — and then the
    caller is the holder —, `false` iff it returned EBUSY — and then nothing at all changes —, and never raises -/
theorem C13_trylock_true_iff_primitive_succeeded (scan : Nat × Nat → Bool) (g : G) (t : Tid) (m : Nat) (hr : running g t = true) :
    ((step (cfgSrc scan) g (.trylock t m)).2 = .tried true ↔ pmTrylock (g.holder m) = .ret .zero) ∧
    ((step (cfgSrc scan) g (.trylock t m)).2 = .tried false ↔ pmTrylock (g.holder m) = .ret .ebusy) ∧
    (∀ x, (step (cfgSrc scan) g (.trylock t m)).2 ≠ .raised x) ∧
    (pmTrylock (g.holder m) = .ret .zero → (step (cfgSrc scan) g (.trylock t m)).1.holder m = some t) ∧
    (pmTrylock (g.holder m) = .ret .ebusy → (step (cfgSrc scan) g (.trylock t m)).1 = g) := by
  cases hh : g.holder m <;> simp [step, hr, pmTrylock, hh, upd]

/-- **the join protocol, for every state of the flags** (`t->thread` zero or not, the target never called / called and
    running / finished / finished and joined, the target being the caller): `join u` by a running thread `t` on a Thread
    object that still exists
    * returns without calling the primitive (`nothread`) iff `t->thread` is 0 (the object was never called);
    * returns normally after the primitive (`joined`) iff `t->thread ≠ 0` and `pthread_join` returned 0 — which it does
      only when `u` has finished `Thread_Init_Run`, has not been joined before and is not the caller;
    * raises ResourceError iff the caller is the target; never returns although `pthread_join` failed (`early`);
    * does not return (`blocked`) iff the target is another thread that is still live. -/
theorem C13_join_protocol (scan : Nat × Nat → Bool) (g : G) (t u : Tid) (hr : running g t = true) (hw : wrapperGone g u = false) :
    ((step (cfgSrc scan) g (.join t u)).2 = .nothread ↔ threadField g u = false) ∧
    ((step (cfgSrc scan) g (.join t u)).2 = .joined ↔
       threadField g u = true ∧ pJoin t u (g.thr u).phase (g.joined u) = .ret .zero) ∧
    (pJoin t u (g.thr u).phase (g.joined u) = .ret .zero ↔ (g.thr u).phase = .done ∧ g.joined u = false ∧ t ≠ u) ∧
    ((step (cfgSrc scan) g (.join t u)).2 = .raised .resourceError ↔ t = u) ∧
    (step (cfgSrc scan) g (.join t u)).2 ≠ .early ∧
    ((step (cfgSrc scan) g (.join t u)).2 = .blocked ↔ t ≠ u ∧ isLive (g.thr u).phase = true) := by
  have hx : joinTrOf (cfgSrc scan) .edeadlk = some .resourceError := by
    simp [joinTrOf, (C13_join_repair_in_current_source.2 scan), joinTr]
  by_cases htu : t = u
  · subst htu
    have hph : (g.thr t).phase = .running := by simpa [running] using hr
    simp [step, hr, hw, hx, threadField, pJoin, hph]
  · cases hp : (g.thr u).phase <;> cases hj : g.joined u <;> simp [step, hr, hw, htu, threadField, pJoin, hp, hj, isLive]

/-- the order of flag test, primitive call and error tests inside the wrappers, and the life cycle of the flags, as the
    translator reads them from the source: `Thread_Join` and `Thread_Stop` test `t->thread` first and call their primitive
    once, on `t->thread`, before any test of `err`; the Mutex wrappers call their primitive once on the object's own
    `pthread_mutex_t` before any test of `err` and before any `return`; `is_running` is set by the prologue of
    `Thread_Init_Run` and **not cleared by its epilogue** (`running(x)` stays true after the function has returned and
    after `join`); `Thread_Call` copies the argument tuple before `pthread_create` -/
theorem C13_wrapper_order_current_source :
    CelloGen.Thr.joinGuardsThread = true ∧ CelloGen.Thr.stopGuardsThread = true ∧ CelloGen.Thr.lockCallsPrimFirst = true ∧
    CelloGen.Thr.trylockCallsPrimFirst = true ∧ CelloGen.Thr.unlockCallsPrimFirst = true ∧
    CelloGen.Thr.prologueSetsRunning = true ∧ CelloGen.Thr.epilogueClearsRunning = false ∧
    CelloGen.Thr.callCopiesArgsFirst = true := by decide

/-- `Thread_Stop` (pthread_kill) and `Thread_Call` (pthread_create): the model's translation is the table extracted from
    the current source, for every error code -/
theorem C13_stop_create_translation_current_source (e : Errno) :
    stopTr e = trTable CelloGen.Thr.stopErr e ∧ createTr e = trTable CelloGen.Thr.createErr e := by
  cases e <;> exact ⟨by decide, by decide⟩

/-- **a failing `Thread_Call` / `Thread_Stop` is local to the caller**: when `pthread_create` (`pthread_kill`) reports `e`,
    the outcome is the exception the extracted table names (or a normal return), the caller's exception record takes it,
    and nothing else of the caller's component — collector, thread-local table, ledger, phase — changes; no other
    thread's component is touched (`C13_frame`) and no thread comes into being (the phase of every thread is as before) -/
theorem C13_create_stop_failure_is_local (cfg : Cfg) (g : G) (t : Tid) (e : Errno) (f : PFn) (hf : f = .create ∨ f = .stop)
    (hr : (g.thr t).phase = .running) :
    (step cfg g (.loc t (.perr f e))).2 =
      (match trTable (if f = .create then CelloGen.Thr.createErr else CelloGen.Thr.stopErr) e with
       | some x => .raised x | none => .ok) ∧
    (∀ u, ((step cfg g (.loc t (.perr f e))).1.thr u).phase = (g.thr u).phase) ∧
    (∀ u, u ≠ t → (step cfg g (.loc t (.perr f e))).1.thr u = g.thr u) ∧
    ((step cfg g (.loc t (.perr f e))).1.thr t).gc = (g.thr t).gc ∧
    ((step cfg g (.loc t (.perr f e))).1.thr t).tls = (g.thr t).tls ∧
    ((step cfg g (.loc t (.perr f e))).1.thr t).fin = (g.thr t).fin := by
  have hk : wrapperKilled g t (lstep cfg t g.cache (foreignMarks cfg g t (.perr f e)) (.perr f e) (g.thr t)).1 = false :=
    wrapperKilled_gc g t _ (by rcases hf with rfl | rfl <;> simp only [lstep, lrun, hr, if_true] <;> split <;> rfl)
  rw [step_loc, hk]
  rcases hf with rfl | rfl <;> cases e <;>
    simp [lstep, lrun, hr, createTr, stopTr, upd, trTable, Errno.cname, excNamed, CelloGen.Thr.createErr, CelloGen.Thr.stopErr, List.lookup] <;>
    (refine ⟨fun u => ?_, fun u hu hut => absurd hut hu⟩; by_cases hu : u = t <;> simp [hu, hr])

/-! non-vacuity of the composition: a contended schedule, executed by `syncStep` -/
example :
    (syncStep tabsSrc G.init (.trylock 0 3)).map (·.2) = some (.tried true) ∧
    (syncStep tabsSrc (run cfgNow [.lock 0 3] G.init).1 (.trylock 0 3)).map (·.2) = some (.tried false) ∧
    (syncStep tabsSrc (run cfgNow [.lock 0 3] G.init).1 (.lock 0 3)).map (·.2) = some .blocked ∧
    (syncStep tabsSrc G.init (.unlock 0 3)).map (·.2) = some .ub ∧
    (syncStep tabsSrc G.init (.join 0 1)).map (·.2) = some .nothread ∧
    (syncStep tabsSrc G.init (.join 0 0)).map (·.2) = some (.raised .resourceError) ∧
    (syncStep tabsOldJoin G.init (.join 0 0)).map (·.2) = some .early ∧
    (syncStep tabsSrc (run cfgNow [.spawn 0 1] G.init).1 (.join 0 1)).map (·.2) = some .blocked ∧
    (syncStep tabsSrc (run cfgNow [.spawn 0 1, .loc 1 .begin_, .loc 1 .end_] G.init).1 (.join 0 1)).map (·.2) = some .joined ∧
    (syncStep tabsSrc (run cfgNow [.spawn 0 1, .loc 1 .begin_, .loc 1 .end_, .join 0 1] G.init).1 (.join 0 1)).map (·.2) = some .ub := by
  decide

example : (run cfgNow [.loc 0 (.perr .create .eagain), .loc 0 (.perr .create .eperm), .loc 0 (.perr .stop .esrch), .loc 0 (.perr .stop .zero)] G.init).2.map (·.2)
    = [.raised .outOfMemoryError, .ok, .raised .valueError, .ok] := by decide


/-
  PARTIAL — what these theorems do not say (and the harness covers by running real threads under schedule noise):
  the model is sequentially consistent at operation granularity, so real data races, memory-model effects, the pthread
  implementation and signal delivery cannot be exhibited in it; a collection is modelled with an arbitrary marked
  set (the conservative stack scan is not modelled).  In particular the walk of another thread's thread-local table
  by the mark phase is an atomic read here (its *logical* effect — which objects survive — is modelled, and is what
  refutes non-interference), whereas in C it is a data race with the owner's `Table_Set` / `Table_Rem` / rehash
  (`races` counts the steps where it would be one; the harness keeps free-running schedules at `races = 0` and runs the
  witness in a forked child).  Known findings, each with its full statement kept as a `def …_statement` and refuted:
  KF-C13-mark-foreign-tls (`C13_noninterference_refuted`; the guarded variant of commit 80c795e, in which the statement
  holds, was withdrawn by commit 0a0ad73: `C13_guarded_variant_loses_objects`; the hypothesis under which the statement is
  proved was narrowed in round 3 from `Isolated` to `IsolatedN` — the table of a *live* thread never decides what another
  thread's collection finalises: `C13_noninterference_walks`), KF-C13-join-result-finalised
  (`C13_join_publishes_object_refuted`), KF-C13-thread-arg-collected (`C13_args_refuted`; `C13_args_partial` under `ArgsSafe`).
  Repaired by commit 484991f and kept as an OLD variant with its witness:
  KF-C13-join-edeadlk (`C13_join_old_refuted`; full statement `C13_join_current_source`).  Not modelled: `set` on a Thread
  object other than `current(Thread)` (data handed to a thread before it is called), Thread objects as
  thread-local values, `Thread_Assign` (copies another thread's table), mutual joins, an uncaught exception in a worker
  (`Exception_Error` exits the whole process: a counter-example, by design of the library, to "never diverts another
  thread's control flow"; every generated exception program is wrapped in a catch-all).  A `with` block left by an
  exception leaves the Mutex locked by the thread (the jump skips `stop_in`): in the model that is `lock` followed by the
  exception program — the thread stays the holder, `C13_mutex` applies as it stands (op `wthrow`, corpus/thr_wthrow.ops).
-/

end Cello.Thr
