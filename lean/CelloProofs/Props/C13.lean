import Cello.Threads
namespace Cello.Thr
theorem C13_stub_frame (cfg : Cfg) (g : G) (t u : Tid) (op : LOp) (h : u ≠ t) :
    (step cfg g (.loc t op)).1.thr u = g.thr u := by
  simp [step, upd, h]
end Cello.Thr
