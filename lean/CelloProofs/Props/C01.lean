/-
  C01 — the collector never reclaims a reachable object.

  Property theorems only; helper lemmas are in CelloProofs/Lemmas/Mark.lean and MarkRec.lean.
  Model: Cello/Heap.lean (`fields`, `dfs` = GC_Mark_Item/GC_Recurse/GC_Mark_And_Recurse as a worklist, `gcMark` = the three
  phases of GC_Mark, `sweep` = the unlink phase of GC_Sweep, `collect`; `gcMarkFrom` = GC_Mark on a registry whose mark bits
  are partly set already, `release` = the release loop of GC_Sweep with Box_Del → del → GC_Rem_Ptr, `collectAll` = one whole
  collection from given bits, `collectWhole` = `GC_Mark; GC_Sweep` as the source has it (with `GC_Unmark` first, fix d8f0c4f),
  `GState.run` = histories whose state includes the mark bits), Cello/HeapRec.lean (the mark phase with the C
  call structure and a depth budget).  Source-derived facts: CelloGen/GcMark.lean (leaf list of GC_Recurse, types declaring Mark, shape of
  GC_Mark_And_Recurse, TLS callback, scan bound, texts of the Mark instances, the guard of Thread_Mark), entering through
  `Cfg.current`; whether GC_Mark clears the mark bits first: `clearFirstNow`.  The collector before a repair is an explicit OLD
  variant of the model (`clearFirst := false`, `remPtrPre`, `tlsCallback := false`, `guarded := false`); the withdrawn guard of
  Thread_Mark (80c795e, reverted by 0a0ad73) is the variant `Cfg.threadGuarded`.
  All theorems hold for every implementation `S : MarkSet σ` of the mark bits (the driver runs the hash-set one).
-/
import Cello.Heap
import Cello.HeapRec
import CelloGen.GcMark
import CelloProofs.Lemmas.Mark
import CelloProofs.Lemmas.MarkRec
import CelloProofs.Lemmas.MarkRetype
import CelloProofs.Lemmas.MarkBits
import CelloProofs.Lemmas.MarkRelease
import CelloProofs.Lemmas.MarkWitness
import CelloProofs.Lemmas.MarkType
import Cello.HeapMid
import CelloGen.GcMid
import CelloProofs.Lemmas.MarkMid
import CelloProofs.Lemmas.MarkDeep
import Cello.HeapWalk
import CelloProofs.Lemmas.MarkWalk

namespace Cello.Heap

/-! ### the source-derived facts the model stands on (first, so that a source change that breaks them is named first) -/

/-- the parts of GC.c and of the Mark instances the model was written against are the ones in /repo now -/
theorem C01_source_as_modelled :
    CelloGen.GcMark.itemRejects = CelloGen.GcMark.itemRejectsModelled ∧
    CelloGen.GcMark.rootPhase = CelloGen.GcMark.rootPhaseModelled ∧
    CelloGen.GcMark.sweepFrees = CelloGen.GcMark.sweepFreesModelled ∧
    CelloGen.GcMark.markBodies.map (fun x => x.1) = ["Array", "List", "Table", "Tree", "Tuple", "Thread"] ∧
    CelloGen.GcMark.markBodies.map (fun x => x.2.1) = CelloGen.GcMark.markBodies.map (fun x => x.2.2) :=
  ⟨rfl, rfl, rfl, rfl, rfl⟩

/-- **Every Mark instance hands every occupied element to the callback, unconditionally** (generated facts, re-extracted
    from the source on every run): in `Array_Mark`, `List_Mark`, `Table_Mark`, `Tree_Mark`, `Tuple_Mark`, `Thread_Mark`
    there is no `return` (but Tuple's `items is NULL`), the loop runs over all items / all slots / up to Terminal, and no
    struct member is read but the loop bound — in particular no cached "holds no references" flag; the container structs
    have no member the model does not know; and the element / key / value types are (re)defined by `X_New` and `X_Assign`
    only (the two model operations that type a container). -/
theorem C01_mark_instances_unconditional :
    CelloGen.GcMark.markFacts = CelloGen.GcMark.markFactsModelled ∧
    (∀ ty ∈ ["Array", "List", "Table", "Tree", "Tuple", "Thread"], CelloGen.GcMark.markVisitsAll ty = true) ∧
    CelloGen.GcMark.containerStructs = CelloGen.GcMark.containerStructsModelled ∧
    CelloGen.GcMark.typeWriters = CelloGen.GcMark.typeWritersModelled := by
  refine ⟨rfl, by decide, rfl, rfl⟩

/-- **The life of a mark bit and the release path, as modelled** (generated facts): a new or re-inserted registry entry starts
    unmarked (`GC_Set_Ptr`), the second loop of `GC_Sweep` — after the unlink loop, before the release loop — clears every bit,
    `GC_Set` runs `GC_Mark(gc); GC_Sweep(gc);` with no handler in between (an exception that leaves `GC_Mark` skips the sweep);
    the release loop of `GC_Sweep`, `Box_Del` (deletes its target), `del` (→ `rem(current(GC), ·)`), the two branches of
    `GC_Rem_Ptr` (free list, then registry) and which container destructors `destruct` their embedded elements are the ones
    `Cello.Heap.release` / `owns` were written against, including the early-out of `GC_Rem_Ptr` for NULL (fix d3e4e44).  Whether
    `GC_Mark` clears the bits before it starts enters the theorems as `clearFirstNow` (= `CelloGen.GcMark.markClearsFirst`);
    that it does (fix d8f0c4f) is part of `C01_tables`. -/
theorem C01_collector_state_as_modelled :
    CelloGen.GcMark.markBitLife = (true, true, true) ∧
    CelloGen.GcMark.releaseLoop = CelloGen.GcMark.releaseLoopModelled ∧
    CelloGen.GcMark.boxDel = CelloGen.GcMark.boxDelModelled ∧
    CelloGen.GcMark.delBy = CelloGen.GcMark.delByModelled ∧
    CelloGen.GcMark.remPtr = CelloGen.GcMark.remPtrModelled ∧
    CelloGen.GcMark.elementDestructors = CelloGen.GcMark.elementDestructorsModelled :=
  ⟨rfl, rfl, rfl, rfl, rfl, rfl⟩

section main
variable {σ : Type} (S : MarkSet σ) (c : Cfg) (h : Heap)

/-- **T1 `mark_closed`.** When the marker stops, every registered word of a marked object is marked, and every
    registered root word is marked. -/
theorem C01_mark_closed (wf : h.WF) (roots : List Word) :
    (∀ a b, S.mem a (dfs S c h roots S.empty) = true → Points c h a b → (h.lookup b).isSome = true →
        S.mem b (dfs S c h roots S.empty) = true) ∧
    (∀ w ∈ roots, (h.lookup w).isSome = true → S.mem w (dfs S c h roots S.empty) = true) := by
  obtain ⟨_, h2, h3⟩ := dfs_spec S c h roots S.empty (closed_empty S c h roots)
  refine ⟨?_, fun w hw hreg => h2 w hw (accepts_of_registered wf hreg)⟩
  intro a b ha hp hreg
  obtain ⟨e, hl, hb⟩ := hp
  rcases h3 a ha b (by rw [fieldsAt_lookup hl]; exact hb) (accepts_of_registered wf hreg) with h | h
  · exact h
  · cases h

/-- **T1 `mark_complete` (the marker).** Every registered object reachable from the root words — through any chain of
    representations, with no bound on the size or shape of the graph — is marked. -/
theorem C01_mark_complete (wf : h.WF) (roots : List Word) (a : Addr) (hr : Reachable c h roots a) :
    S.mem a (dfs S c h roots S.empty) = true :=
  dfs_complete S c h roots a ((reachable_iff_reach wf roots a).mp hr)

/-- **T1 `mark_sound`.** Nothing else is marked: the mark bits after the mark phase are exactly the reachable set
    (so the result does not depend on the order in which containers enumerate their elements). -/
theorem C01_mark_exact (wf : h.WF) (roots : List Word) (a : Addr) :
    S.mem a (dfs S c h roots S.empty) = true ↔ Reachable c h roots a := by
  rw [dfs_iff_reach, reachable_iff_reach wf]

/-- **T1 `GC_Mark` marks everything reachable from the three kinds of roots**: a word of thread-local storage, a
    root-registered entry, a word of the stack (or registers flushed to it). -/
theorem C01_gcMark_complete (wf : h.WF) (thread : Obj) (stack : List Word) (a : Addr)
    (hr : Reachable c h (tlsWords c thread ++ (rootAddrs h ++ stack)) a) :
    S.mem a (gcMark S c h thread stack) = true := by
  rw [gcMark_eq]
  exact C01_mark_complete S c h wf _ a hr

/-- the three root kinds, spelled out -/
theorem C01_roots_of_each_kind (thread : Obj) (stack : List Word) (w : Word) :
    (w ∈ tlsWords c thread → w ∈ rootWords c h thread stack) ∧
    ((∃ e, h.lookup w = some e ∧ e.root = true) → w ∈ rootWords c h thread stack) ∧
    (w ∈ stack → w ∈ rootWords c h thread stack) := by
  refine ⟨fun hw => List.mem_append_left _ hw, ?_, fun hw => List.mem_append_right _ (List.mem_append_right _ hw)⟩
  rintro ⟨e, hl, hr⟩
  exact List.mem_append_right _ (List.mem_append_left _ (mem_rootAddrs hl hr))

/-- **T1 `sweep_safe`: the mark phase and the unlink phase of the sweep, on a registry whose mark bits are clear.**  After
    `GC_Mark` and the first two loops of `GC_Sweep`, every registered object reachable from thread-local storage, from a
    root-registered entry or from a stack word — along a chain of REGISTERED objects: `Points` reads the registry, as
    `GC_Mark_Item` does; an object allocated with `new_raw` (or otherwise unregistered) in the middle of a path is not
    traced unless it is handed to the callback by the Mark instance of a registered holder — is still registered, with the
    same contents and root flag, and is not on the pending (to be finalised and freed) list.  Root-registered entries are
    never swept, reachable or not.  What the release loop then does, and what happens when mark bits are already set, is
    `C01_collect_safe_partial`. -/
theorem C01_sweep_safe (wf : h.WF) (thread : Obj) (stack : List Word) (a : Addr)
    (hr : Reachable c h (rootWords c h thread stack) a) :
    (collect S c h thread stack).1.lookup a = h.lookup a ∧ (h.lookup a).isSome = true ∧
      a ∉ (collect S c h thread stack).2 := by
  have hm : S.mem a (gcMark S c h thread stack) = true := C01_gcMark_complete S c h wf thread stack a hr
  have hreg : (h.lookup a).isSome = true := by
    cases hr with
    | root _ hreg => exact hreg
    | step _ _ hreg => exact hreg
  have hns : sweeps S h (gcMark S c h thread stack) a = false := by
    cases hs : sweeps S h (gcMark S c h thread stack) a with
    | false => rfl
    | true =>
      obtain ⟨e, _, _, hmf⟩ := (sweeps_iff S h _ a).mp hs
      rw [hm] at hmf; cases hmf
  refine ⟨?_, hreg, ?_⟩
  · simp only [collect, sweep_lookup, hns]; rfl
  · intro hp
    have := ((mem_pending S h _ a).mp hp).2
    rw [hns] at this; cases this

theorem C01_roots_never_swept (m : σ) (a : Addr) (e : Entry) (hl : h.lookup a = some e) (hroot : e.root = true) :
    (sweep S h m).1.lookup a = some e ∧ a ∉ (sweep S h m).2 := by
  have hns : sweeps S h m a = false := by simp [sweeps, hl, hroot]
  refine ⟨by simp only [sweep_lookup, hns]; exact hl, ?_⟩
  intro hp
  have := ((mem_pending S h m a).mp hp).2
  rw [hns] at this; cases this

/-- what the sweep frees is exactly the registered, non-root, unreachable part; everything else is untouched -/
theorem C01_sweep_exact (wf : h.WF) (thread : Obj) (stack : List Word) (a : Addr) :
    a ∈ (collect S c h thread stack).2 ↔
      ∃ e, h.lookup a = some e ∧ e.root = false ∧ ¬ Reachable c h (rootWords c h thread stack) a := by
  simp only [collect, mem_pending, sweeps_iff]
  constructor
  · rintro ⟨_, e, hl, hr, hm⟩
    refine ⟨e, hl, hr, ?_⟩
    intro hreach
    rw [C01_gcMark_complete S c h wf thread stack a hreach] at hm; cases hm
  · rintro ⟨e, hl, hr, hnr⟩
    refine ⟨h.complete a e hl, e, hl, hr, ?_⟩
    cases hm : S.mem a (gcMark S c h thread stack) with
    | false => rfl
    | true =>
      exfalso; apply hnr
      rw [gcMark_eq] at hm
      exact (C01_mark_exact S c h wf _ a).mp hm

/-- the registry stays well formed across a sweep (so the theorems apply to the next collection as well) -/
theorem C01_sweep_preserves_wf (wf : h.WF) (m : σ) : (sweep S h m).1.WF := sweep_wf S h wf m

/-- **T1 `mark_mono`.** More root words can only mark more: stale words found by the conservative stack scan never
    cause a reachable object to be lost. -/
theorem C01_mark_mono (r1 r2 : List Word) (hsub : ∀ w ∈ r1, w ∈ r2) (a : Addr)
    (ha : S.mem a (dfs S c h r1 S.empty) = true) : S.mem a (dfs S c h r2 S.empty) = true :=
  (dfs_iff_reach S c h r2 a).mpr (reach_mono c h hsub ((dfs_iff_reach S c h r1 a).mp ha))

theorem C01_gcMark_mono (thread : Obj) (s1 s2 : List Word) (hsub : ∀ w ∈ s1, w ∈ s2) (a : Addr)
    (ha : S.mem a (gcMark S c h thread s1) = true) : S.mem a (gcMark S c h thread s2) = true := by
  rw [gcMark_eq] at ha ⊢
  refine C01_mark_mono S c h _ _ ?_ a ha
  intro w hw
  simp only [rootWords, List.mem_append] at hw ⊢
  rcases hw with hw | hw | hw
  · exact .inl hw
  · exact .inr (.inl hw)
  · exact .inr (.inr (hsub w hw))

end main

/-! ### the whole collection: mark bits that are already set, and the release loop -/

section whole
variable {σ : Type} (S : MarkSet σ) (c : Cfg) (h : Heap)

/-- **The mark phase from bits that are already set** (the `marked` field of a registry entry survives when an exception
    leaves `GC_Mark`: `GC_Sweep`, which clears it, is skipped).  `GC_Mark` then sets exactly: the bits that were set, and the
    bits of the registered objects reachable from the roots THROUGH ENTRIES WHOSE BIT WAS CLEAR — the root loop skips a marked
    root entry and `GC_Mark_Item` does not trace an entry it finds marked. -/
theorem C01_mark_exact_from (wf : h.WF) (thread : Obj) (stack : List Word) (m0 : σ) (a : Addr) :
    S.mem a (gcMarkFrom S c h thread stack m0) = true ↔
      S.mem a m0 = true ∨ ReachableUnmarked c h (fun x => S.mem x m0) (rootWords c h thread stack) a :=
  gcMarkFrom_iff S c h wf thread stack m0 a

/-- … and the sweep frees exactly the registered, non-root entries whose bit was clear and that are not reachable through
    entries whose bit was clear.  With no bit set this is `C01_sweep_exact`. -/
theorem C01_sweep_exact_from (wf : h.WF) (thread : Obj) (stack : List Word) (m0 : σ) (a : Addr) :
    a ∈ (collectAll S c h thread stack m0).pending ↔
      ∃ e, h.lookup a = some e ∧ e.root = false ∧ S.mem a m0 = false ∧
        ¬ ReachableUnmarked c h (fun x => S.mem x m0) (rootWords c h thread stack) a := by
  rw [collectAll_pending]; exact collectFrom_pending_iff S c h wf thread stack m0 a

/-- with no bit set, reachability through unmarked entries is reachability -/
theorem C01_unmarked_is_reachable (roots : List Word) (a : Addr) :
    ReachableUnmarked c h (fun _ => false) roots a ↔ Reachable c h roots a :=
  reachableUnmarked_none roots a

/-- **The release loop** (`dealloc(destruct(item))` for every item of the free list; `Box_Del` → `del` → `GC_Rem_Ptr`, which
    finalises a target it finds on the free list OR IN THE REGISTRY; container destructors destruct embedded elements):
    when no entry the sweep frees owns an entry that stays registered, only items of the pending list are finalised and the
    registry is left as the unlink phase left it.  The nesting budget of the model never runs out (for every heap, with or
    without the hypothesis): each nested destructor is preceded by the removal of an item from the free list or of an entry
    from the registry. -/
theorem C01_release_within_pending (thread : Obj) (stack : List Word) (m0 : σ)
    (hbox : boxExclusive S c h thread stack m0 = true) :
    (collectAll S c h thread stack m0).heap = (collectFrom S c h thread stack m0).1 ∧
    (∀ x ∈ (collectAll S c h thread stack m0).finalised, x ∈ (collectAll S c h thread stack m0).pending) ∧
    (collectAll S c h thread stack m0).exhausted = false := by
  have hx : ownsSurvivor S h (gcMarkFrom S c h thread stack m0) = false := by simpa [boxExclusive] using hbox
  obtain ⟨r1, r2⟩ := release_within_pending h (collectFrom S c h thread stack m0).1 (collectFrom S c h thread stack m0).2
    (ownsSurvivor_false S h hx)
  exact ⟨r1, r2, collectAll_bounded S c h thread stack m0⟩

theorem C01_release_bounded (thread : Obj) (stack : List Word) (m0 : σ) :
    (collectAll S c h thread stack m0).exhausted = false :=
  collectAll_bounded S c h thread stack m0

/-- **Box's ownership contract implies the decidable hypothesis.**  "No registered object that is reachable from the roots is
    owned by an unreachable object" (a Box owns its target; a container owns the targets of its embedded Boxes) gives
    `boxExclusive = true` on a registry whose mark bits are clear. -/
theorem C01_box_contract (wf : h.WF) (thread : Obj) (stack : List Word)
    (hc : ∀ b v, v ∈ h.ownsAt b → Reachable c h (rootWords c h thread stack) v → Reachable c h (rootWords c h thread stack) b) :
    boxExclusive S c h thread stack S.empty = true :=
  boxExclusive_of_contract S c h wf thread stack hc

/-- **T1 `collect_safe` for one WHOLE collection — partial.**  `GC_Mark` — with `GC_Unmark` first iff `cf` —, `GC_Sweep` including
    its release loop, entered with the mark bits `m0` set.  Every registered object reachable from thread-local storage, a
    root-registered entry or a stack word (along registered objects) is still registered afterwards with unchanged contents,
    was not put on the pending list and was not finalised, UNDER TWO EXPLICIT HYPOTHESES:
    * `hclean` — `GC_Mark` clears the bits first (`cf = true`: the source since fix d8f0c4f, `C01_collect_safe_current`), or no
      mark bit is set when the collection begins.  Without it (the OLD variant `cf = false` entered with stale bits — a mark
      phase that an exception left keeps its bits): `C01_collect_safe_stale_refuted`.
    * `hbox` — no entry the sweep frees owns an entry that stays registered.  This is Box's ownership contract (a Box deletes its
      target when it dies), a restriction of the property, not a defect: `C01_box_contract` derives it from "no reachable
      object is owned by an unreachable one"; without it `C01_collect_safe_box_refuted`.
    The full statement is `C01_collect_safe_statement`. -/
theorem C01_collect_safe_partial (cf : Bool) (wf : h.WF) (thread : Obj) (stack : List Word) (m0 : σ) (a : Addr)
    (hr : Reachable c h (rootWords c h thread stack) a)
    (hclean : cf = true ∨ ∀ x, S.mem x m0 = false)
    (hbox : boxExclusive S c h thread stack (startBits S cf m0) = true) :
    (collectWhole S c cf h thread stack m0).heap.lookup a = h.lookup a ∧ (h.lookup a).isSome = true ∧
      a ∉ (collectWhole S c cf h thread stack m0).pending ∧ a ∉ (collectWhole S c cf h thread stack m0).finalised := by
  have hreg : (h.lookup a).isSome = true := by
    cases hr with
    | root _ hreg => exact hreg
    | step _ _ hreg => exact hreg
  have hcl : ∀ x, S.mem x (startBits S cf m0) = false := by
    intro x
    unfold startBits
    split
    · exact S.mem_empty x
    · rename_i hcf
      rcases hclean with h1 | h1
      · exact absurd h1 hcf
      · exact h1 x
  have hm : S.mem a (gcMarkFrom S c h thread stack (startBits S cf m0)) = true := by
    rw [gcMarkFrom_iff S c h wf]
    right
    have : (fun x => S.mem x (startBits S cf m0)) = fun _ => false := funext hcl
    rw [this]
    exact (reachableUnmarked_none _ _).mpr hr
  obtain ⟨e1, e2, e3⟩ := collectAll_keeps_marked S c h thread stack (startBits S cf m0) a hm hbox
  exact ⟨e1, hreg, e2, e3⟩

end whole

/-- in the source as it is, the three phases of `GC_Mark` start from no bits, whatever was set (`GC_Unmark`, fix d8f0c4f) -/
theorem C01_starts_clean {σ : Type} (S : MarkSet σ) (m0 : σ) : startBits S clearFirstNow m0 = S.empty := by
  have : clearFirstNow = true := by decide
  simp [startBits, this]

/-- **`collect_safe` for one whole collection of the code in /repo now: NO hypothesis on the mark bits.**  Whatever bits are set
    when `GC_Mark` is entered (left by a mark phase that an exception left, or by anything else), every registered object
    reachable from the roots stays registered with unchanged contents, off the pending list and is not finalised — at every
    collection at which no freed entry owns a surviving one (Box's ownership contract, the remaining exclusion). -/
theorem C01_collect_safe_current {σ : Type} (S : MarkSet σ) (h : Heap) (wf : h.WF) (thread : Obj) (stack : List Word) (m0 : σ)
    (a : Addr) (hr : Reachable Cfg.current h (rootWords Cfg.current h thread stack) a)
    (hbox : boxExclusive S Cfg.current h thread stack S.empty = true) :
    (collectWhole S Cfg.current clearFirstNow h thread stack m0).heap.lookup a = h.lookup a ∧ (h.lookup a).isSome = true ∧
      a ∉ (collectWhole S Cfg.current clearFirstNow h thread stack m0).pending ∧
      a ∉ (collectWhole S Cfg.current clearFirstNow h thread stack m0).finalised :=
  C01_collect_safe_partial S Cfg.current h clearFirstNow wf thread stack m0 a hr (.inl (by decide))
    (by rw [C01_starts_clean]; exact hbox)

/-- the full statement of `collect_safe` for one whole collection: no hypothesis on the mark bits that are set when it begins,
    none on what the freed objects own (`cf`: does `GC_Mark` clear the bits first) -/
def C01_collect_safe_statement (cf : Bool) : Prop :=
  ∀ (h : Heap), h.WF → ∀ (thread : Obj) (stack : List Word) (marked : List Addr) (a : Addr),
    Reachable Cfg.current h (rootWords Cfg.current h thread stack) a →
      a ∉ (collectWhole listSet Cfg.current cf h thread stack (seed listSet marked)).pending ∧
      a ∉ (collectWhole listSet Cfg.current cf h thread stack (seed listSet marked)).finalised

/-- the statement with Box's ownership contract as its only hypothesis: any mark bits may be set when the collection begins -/
def C01_collect_safe_any_bits_statement (cf : Bool) : Prop :=
  ∀ (h : Heap), h.WF → ∀ (thread : Obj) (stack : List Word) (marked : List Addr) (a : Addr),
    Reachable Cfg.current h (rootWords Cfg.current h thread stack) a →
    boxExclusive listSet Cfg.current h thread stack (startBits listSet cf (seed listSet marked)) = true →
      a ∉ (collectWhole listSet Cfg.current cf h thread stack (seed listSet marked)).pending ∧
      a ∉ (collectWhole listSet Cfg.current cf h thread stack (seed listSet marked)).finalised

/-- **… which is a theorem for the code in /repo now** (it was refuted before fix d8f0c4f: `C01_collect_safe_stale_refuted`) -/
theorem C01_collect_safe_any_bits : C01_collect_safe_any_bits_statement clearFirstNow := by
  intro h wf thread stack marked a hr hbox
  obtain ⟨_, _, e3, e4⟩ := C01_collect_safe_partial listSet Cfg.current h clearFirstNow wf thread stack (seed listSet marked) a hr
    (.inl (by decide)) hbox
  exact ⟨e3, e4⟩

/-- **Refuted (Box's ownership contract, an exclusion): `collect_safe` without `hbox`**, whether `GC_Mark` clears the bits first or
    not.  4096 ↦ a root-registered Ref to the Probe at 4160, 4224 ↦ a Box on the same Probe that nothing refers to.  One
    collection on clear mark bits: the Probe is marked and stays off the pending list; the Box is swept; the release loop runs
    `Box_Del`, `del` finds the Probe IN THE REGISTRY and finalises it — a reachable, root-referenced object (witness
    corpus/gcmark_box_shared_target.ops). -/
theorem C01_collect_safe_box_refuted (cf : Bool) :
    boxHeap.WF ∧ Reachable Cfg.current boxHeap (rootWords Cfg.current boxHeap emptyThread []) 4160 ∧
    4160 ∈ (collectWhole listSet Cfg.current cf boxHeap emptyThread [] (seed listSet [])).finalised ∧
    4160 ∉ (collectWhole listSet Cfg.current cf boxHeap emptyThread [] (seed listSet [])).pending ∧
    boxExclusive listSet Cfg.current boxHeap emptyThread [] (startBits listSet cf (seed listSet [])) = false ∧
    ¬ C01_collect_safe_statement cf := by
  have hs : startBits listSet cf (seed listSet []) = [] := by cases cf <;> rfl
  obtain ⟨h1, h2, h3⟩ := boxHeap_collect
  have h1' : 4160 ∈ (collectWhole listSet Cfg.current cf boxHeap emptyThread [] (seed listSet [])).finalised := by
    unfold collectWhole; rw [hs]; exact h1
  have h2' : 4160 ∉ (collectWhole listSet Cfg.current cf boxHeap emptyThread [] (seed listSet [])).pending := by
    unfold collectWhole; rw [hs]; exact h2
  refine ⟨boxHeap_wf, boxHeap_reach, h1', h2', by rw [hs]; exact h3, ?_⟩
  intro hst
  exact (hst boxHeap boxHeap_wf emptyThread [] [] 4160 boxHeap_reach).2 h1'

/-- **Refuted for the OLD variant (the collector before fix d8f0c4f, `cf = false`; was known finding KF-C01-stale-marks):
    `collect_safe` entered with stale bits.**  4096 ↦ a root-registered Ref that points to the Probe at 4224, 4160 ↦ an (empty)
    heap Tuple on the stack; the bits of 4096 and 4160 are still set from a mark phase that an exception left.  Without
    `GC_Unmark` the root loop of `GC_Mark` skips the marked root entry, `GC_Mark_Item` skips the marked Tuple: the Probe —
    referenced directly by a root-registered entry — is not marked and is swept.  No entry owns anything here (`hbox` holds).
    With the bits cleared first (`cf = true`, the code in /repo now) the Probe is kept. -/
theorem C01_collect_safe_stale_refuted :
    staleHeap2.WF ∧ Reachable Cfg.current staleHeap2 (rootWords Cfg.current staleHeap2 emptyThread [4160]) 4224 ∧
    4224 ∈ (collectWhole listSet Cfg.current false staleHeap2 emptyThread [4160] (seed listSet [4096, 4160])).pending ∧
    boxExclusive listSet Cfg.current staleHeap2 emptyThread [4160] (startBits listSet false (seed listSet [4096, 4160])) = true ∧
    4224 ∉ (collectWhole listSet Cfg.current true staleHeap2 emptyThread [4160] (seed listSet [4096, 4160])).pending ∧
    ¬ C01_collect_safe_any_bits_statement false ∧ ¬ C01_collect_safe_statement false := by
  have hb := boxExclusive_of_no_owner listSet Cfg.current staleHeap2 emptyThread [4160]
    (startBits listSet false (seed listSet [4096, 4160])) staleHeap2_no_owner
  have hsw : 4224 ∈ (collectWhole listSet Cfg.current false staleHeap2 emptyThread [4160] (seed listSet [4096, 4160])).pending :=
    staleHeap2_swept
  refine ⟨staleHeap2_wf, staleHeap2_reach, hsw, hb, staleHeap2_kept, ?_, ?_⟩
  · intro hs
    exact (hs staleHeap2 staleHeap2_wf emptyThread [4160] [4096, 4160] 4224 staleHeap2_reach hb).1 hsw
  · intro hs
    exact (hs staleHeap2 staleHeap2_wf emptyThread [4160] [4096, 4160] 4224 staleHeap2_reach).1 hsw

/-! ### histories -/

/-- the hypothesis on a collection event under which the release loop stays within the pending list -/
def GEvent.exclusive {σ : Type} (S : MarkSet σ) (c : Cfg) (ev : GEvent) : Bool :=
  boxExclusive S c ev.before.heap ev.before.thread ev.before.stack (seed S ev.started)

/-- **C01 over histories — partial.**  The state of a history is the registry, thread-local storage, the stack AND THE MARK
    BITS of the registry entries.  Operations: allocations, stores into registered objects (pointer stores, container
    insertions and removals: any new contents), re-typing operations (`assign` between containers, `copy`, `resize(…, 0)`),
    changes of thread-local storage and of the stack, explicit deletions, collections that run to completion, collections
    whose mark phase is left by an exception after any number of marking events (`GOp.raise`: the bits set so far stay, the
    sweep is skipped), registry rehashes (which clear the bits).  `cf` says whether `GC_Mark` clears the bits before it starts.
    If `cf = true` (the code in /repo now: `C01_current_source_history`, no such hypothesis), or if no bit is set initially and
    no exception leaves a mark phase (`GOp.completes`), then from any well-formed registry: the registry stays well formed,
    every completed collection starts its three phases with all bits clear, and every object reachable at that moment from
    thread-local storage, a root-registered entry or a stack word is not put on the pending list, stays registered — and, at
    every collection at which no freed entry owns a surviving one (`GEvent.exclusive`, Box's ownership contract), is not
    finalised by the release loop and keeps its contents.
    The full statement is `C01_history_safe_statement cf`; refuted for either `cf` without the ownership hypothesis by
    `C01_box_shared_target_refuted`; with the ownership hypothesis only (`C01_history_safe_exclusive_statement cf`) it is a
    theorem for the current source and refuted for the OLD variant `cf = false` by `C01_stale_marks_refuted`. -/
theorem C01_history_safe_partial {σ : Type} (S : MarkSet σ) (c : Cfg) (cf : Bool) (ops : List GOp) (s0 : GState)
    (wf : s0.heap.WF) (hok : ∀ op ∈ ops, op.ok)
    (hclean : cf = true ∨ (s0.stale = [] ∧ ∀ op ∈ ops, op.completes = true)) :
    (GState.run S c cf ops s0).1.heap.WF ∧
    ∀ ev ∈ (GState.run S c cf ops s0).2, ev.started = [] ∧ ∀ a,
      Reachable c ev.before.heap (rootWords c ev.before.heap ev.before.thread ev.before.stack) a →
        a ∉ ev.pending ∧ (ev.before.heap.lookup a).isSome = true ∧
        (ev.exclusive S c = true → a ∉ ev.finalised ∧ ev.after.lookup a = ev.before.heap.lookup a) := by
  obtain ⟨h1, h2⟩ := grun_events S c cf ops s0 wf hok hclean
  refine ⟨h1, ?_⟩
  intro ev hev
  obtain ⟨hwf, hs0, hp, hf, ha⟩ := h2 ev hev
  refine ⟨hs0, ?_⟩
  intro a hr
  have hsw := C01_sweep_safe S c ev.before.heap hwf ev.before.thread ev.before.stack a hr
  refine ⟨?_, hsw.2.1, ?_⟩
  · rw [hp, collectAll_pending]; exact hsw.2.2
  · intro hex
    have hbox : boxExclusive S c ev.before.heap ev.before.thread ev.before.stack (startBits S true S.empty) = true := by
      simpa [GEvent.exclusive, hs0, seed_nil, startBits] using hex
    obtain ⟨e1, _, _, e4⟩ := C01_collect_safe_partial S c ev.before.heap true hwf ev.before.thread ev.before.stack S.empty a hr
      (.inl rfl) hbox
    exact ⟨by rw [hf]; exact e4, by rw [ha]; exact e1⟩

/-- the full statement over histories, for a collector whose `GC_Mark` clears the bits first (`cf = true`) or not -/
def C01_history_safe_statement (cf : Bool) : Prop :=
  ∀ (ops : List GOp) (s0 : GState), s0.heap.WF → s0.stale = [] → (∀ op ∈ ops, op.ok) →
    ∀ ev ∈ (GState.run listSet Cfg.current cf ops s0).2, ∀ a,
      Reachable Cfg.current ev.before.heap (rootWords Cfg.current ev.before.heap ev.before.thread ev.before.stack) a →
        a ∉ ev.pending ∧ a ∉ ev.finalised

/-- the statement over ALL histories — exceptions may leave mark phases, any bits may be set initially — with Box's ownership
    contract as the only hypothesis, at the collections it concerns -/
def C01_history_safe_exclusive_statement (cf : Bool) : Prop :=
  ∀ (ops : List GOp) (s0 : GState), s0.heap.WF → (∀ op ∈ ops, op.ok) →
    ∀ ev ∈ (GState.run listSet Cfg.current cf ops s0).2, ∀ a,
      Reachable Cfg.current ev.before.heap (rootWords Cfg.current ev.before.heap ev.before.thread ev.before.stack) a →
        a ∉ ev.pending ∧ (ev.exclusive listSet Cfg.current = true → a ∉ ev.finalised ∧ ev.after.lookup a = ev.before.heap.lookup a)

/-- **Refuted for the OLD variant (the collector before fix d8f0c4f, `cf = false`; was known finding KF-C01-stale-marks):
    histories in which an exception leaves a mark phase.**
    Start: 4096 ↦ a root-registered Ref (empty), 4160 ↦ a heap Tuple whose only item (4288) has been deleted by hand
    (KF-C01-dangling-tuple-item), 4224 ↦ a Probe; the Tuple and the Probe are on the stack; no bit is set.
    1. a collection: the root loop marks 4096, the stack scan marks 4160, `Tuple_Mark` hands 4288 to `GC_Mark_And_Recurse`,
       which calls `GC_Recurse` on the freed block — outside the model (`.ub`); on the real machine `type_of` throws ValueError
       on the `0xDeadCe110` fill.  The exception leaves `GC_Mark` after two marking events: no sweep, both bits stay (`GOp.raise 2`);
    2. the program catches it, empties the Tuple, stores the Probe into the root Ref and drops it from the stack;
    3. the next collection: WITHOUT `GC_Unmark` both roots are skipped as already marked, the Probe — referenced DIRECTLY by a
       root-registered entry — is put on the pending list.  (Witness corpus/gcmark_stale_marks_fixed.ops, with a Mark instance
       that throws: a regression input now.)
    With the bits cleared at the start of `GC_Mark` (`cf = true`: the code in /repo now) the same history keeps the Probe. -/
theorem C01_stale_marks_refuted :
    staleStart.heap.WF ∧ staleStart.stale = [] ∧ (∀ op ∈ staleOps, op.ok) ∧
    markEvents Cfg.current staleStart.heap staleStart.thread staleStart.stack [] = [4096, 4160, 4224] ∧
    (∀ d, (level listSet Cfg.current staleStart.heap (d + 2)).item 4160 [] = .ub) ∧
    (∃ ev ∈ (GState.run listSet Cfg.current false staleOps staleStart).2,
      Reachable Cfg.current ev.before.heap (rootWords Cfg.current ev.before.heap ev.before.thread ev.before.stack) 4224 ∧
      4224 ∈ ev.pending ∧ ev.started = [4096, 4160] ∧ ev.exclusive listSet Cfg.current = true) ∧
    (∀ ev ∈ (GState.run listSet Cfg.current true staleOps staleStart).2, 4224 ∉ ev.pending) ∧
    ¬ C01_history_safe_statement false ∧ ¬ C01_history_safe_exclusive_statement false := by
  have hex : ∃ ev ∈ (GState.run listSet Cfg.current false staleOps staleStart).2,
      Reachable Cfg.current ev.before.heap (rootWords Cfg.current ev.before.heap ev.before.thread ev.before.stack) 4224 ∧
      4224 ∈ ev.pending ∧ ev.started = [4096, 4160] ∧ ev.exclusive listSet Cfg.current = true := by
    rw [staleRun_events false]
    refine ⟨_, List.mem_cons_self, staleHeap2_reach, staleHeap2_swept, rfl, ?_⟩
    exact boxExclusive_of_no_owner listSet _ _ _ _ _ staleHeap2_no_owner
  refine ⟨staleHeap_wf, rfl, staleOps_ok, staleHeap_events, ?_, hex, ?_, ?_, ?_⟩
  · intro d
    exact tuple_unregistered_item_ub listSet Cfg.current staleHeap staleHeap_wf (by decide) (by decide) (by decide)
      4160 4288 [] false rfl rfl d
  · intro ev hev
    rw [staleRun_events true] at hev
    simp only [List.mem_cons, List.not_mem_nil, or_false] at hev
    subst hev
    exact staleHeap2_kept
  · intro hs
    obtain ⟨ev, hev, hr, hp, _, _⟩ := hex
    exact (hs staleOps staleStart staleHeap_wf rfl staleOps_ok ev hev 4224 hr).1 hp
  · intro hs
    obtain ⟨ev, hev, hr, hp, _, _⟩ := hex
    exact (hs staleOps staleStart staleHeap_wf staleOps_ok ev hev 4224 hr).1 hp

/-- **Refuted (Box's ownership contract, an exclusion): histories without `GEvent.exclusive`**, whether `GC_Mark` clears the
    bits first or not: one collection on `boxHeap` (a garbage Box on a Probe that a root-registered Ref refers to). -/
theorem C01_box_shared_target_refuted (cf : Bool) : ¬ C01_history_safe_statement cf := by
  intro hs
  have hrun : (GState.run listSet Cfg.current cf [.base .collect] ⟨boxHeap, emptyThread, [], []⟩).2 =
      [⟨⟨boxHeap, emptyThread, [], []⟩, [],
        (collectAll listSet Cfg.current boxHeap emptyThread [] (seed listSet [])).pending,
        (collectAll listSet Cfg.current boxHeap emptyThread [] (seed listSet [])).finalised,
        (collectAll listSet Cfg.current boxHeap emptyThread [] (seed listSet [])).heap⟩] := by
    cases cf <;> simp [GState.run, GState.step]
  have := hs [.base .collect] ⟨boxHeap, emptyThread, [], []⟩ boxHeap_wf rfl (by intro op hop; simp at hop; subst hop; trivial)
    _ (by rw [hrun]; exact List.mem_cons_self) 4160 boxHeap_reach
  exact this.2 boxHeap_collect.1

/-! ### containers whose element / key / value types change during their life -/

/-- **What a container presents to the marker is determined by its CURRENT element types.**  An Array / List whose
    current element type is `ety` presents the words of its elements iff `ety` is not a leaf type; a Table / Tree with
    current key type `kty` and value type `vty` presents the words of the keys iff `kty` is not a leaf type and the words
    of the values iff `vty` is not.  For the source as it is now: Ref elements / keys / values present their word, Int,
    Float and String ones present nothing — whatever the types of the container were earlier in its life. -/
theorem C01_fields_typed (ty : String) (hl : Cfg.current.isLeaf ty = false) (hm : Cfg.current.hasMark ty = true)
    (vals : List (List Word)) (kvs : List (List Word × List Word)) :
    (∀ ety, fields Cfg.current (.cont ty (seqElems ety vals)) = vals.flatMap (elemWords Cfg.current ety)) ∧
    (∀ kty vty, fields Cfg.current (.cont ty (mapElems kty vty kvs)) =
        kvs.flatMap (fun kv => elemWords Cfg.current kty kv.1 ++ elemWords Cfg.current vty kv.2)) ∧
    (∀ ws, elemWords Cfg.current "Ref" ws = ws) ∧
    (∀ ety ∈ ["Int", "Float", "String"], ∀ ws, elemWords Cfg.current ety ws = []) := by
  refine ⟨fun ety => ?_, fun kty vty => ?_, fun ws => ?_, ?_⟩
  · rw [fields_cont _ hl hm, fieldsL_seqElems]
  · rw [fields_cont _ hl hm, fieldsL_mapElems]
  · exact elemWords_scan _ (by decide) (by decide) (by decide) ws
  · intro ety he ws
    simp only [List.mem_cons, List.not_mem_nil, or_false] at he
    rcases he with h | h | h <;> subst h <;> exact elemWords_leaf _ (by decide) ws

/-- **Re-typing.** After `assign(dst, src)` (`Array_Assign`, `List_Assign`, `Table_Assign`, `Tree_Assign`, `Tuple_Assign`)
    the target presents to the marker exactly the words the source presents — whatever the target held and whatever its
    element types were before (leaf → reference-bearing: everything the source reaches; reference-bearing → leaf: nothing);
    `copy(src)` presents what `src` presents; `resize(…, 0)` presents nothing. -/
theorem C01_assign_retypes (c : Cfg) (h : Heap) {ty ty' : String} (hl : c.isLeaf ty = false) (hm : c.hasMark ty = true)
    (hl' : c.isLeaf ty' = false) (hm' : c.hasMark ty' = true) (es0 es : List Obj) (i0 items : List Word) :
    fields c (Obj.assignFrom h (.cont ty es0) (.cont ty' es)) = fields c (.cont ty' es) ∧
    fields c (Obj.assignFrom h (.tup ty i0) (.tup ty' items)) = fields c (.tup ty' items) ∧
    fields c (Obj.assignFrom h (.cont ty es0) (.tup ty' items)) = items.flatMap (fun w => elemWords c "Ref" [h.derefIfPtr w]) ∧
    fields c (Obj.copyOf h (.cont ty' es)) = fields c (.cont ty' es) ∧
    fields c (Obj.cleared (.cont ty es0)) = [] :=
  ⟨fields_assignFrom_cont c h hl hm hl' hm' es0 es, fields_assignFrom_tup c h hl hm hl' hm' i0 items,
   fields_assignFrom_cont_tup c h hl hm es0 items, rfl, fields_cleared_cont c es0⟩

/-- **A re-typed container as the sole path.**  In any state with a well-formed registry: a container at `a` (whatever
    its contents and element types — e.g. a Table constructed as String → Int) is `assign`ed from the container at `b`;
    `b` is deleted; only `a` is held by the stack.  Then every registered object `x` that the SOURCE presented to the
    marker (a Ref value or key of `b`) survives the mark and unlink phases of the next collection (on clear mark bits; the
    release loop and bits that are already set: `C01_collect_safe_partial`): it is not put on the pending list and is still
    registered afterwards. -/
theorem C01_retyped_sole_path_safe {σ : Type} (S : MarkSet σ) (c : Cfg) (s : HState) (wf : s.heap.WF)
    (a b x : Addr) (ty ty' : String) (es0 es : List Obj) (ra rb : Bool) (hab : a ≠ b) (hxb : x ≠ b)
    (ha : s.heap.lookup a = some ⟨.cont ty es0, ra⟩) (hb : s.heap.lookup b = some ⟨.cont ty' es, rb⟩)
    (hty : c.isLeaf ty = false ∧ c.hasMark ty = true) (hty' : c.isLeaf ty' = false ∧ c.hasMark ty' = true)
    (hx : x ∈ fields c (.cont ty' es)) (hreg : (s.heap.lookup x).isSome = true) :
    (∀ ev ∈ (HState.run S c [.assign a b, .del b, .setStack [a], .collect] s).2, x ∉ ev.pending) ∧
    (HState.run S c [.assign a b, .del b, .setStack [a], .collect] s).2.length = 1 ∧
    ((HState.run S c [.assign a b, .del b, .setStack [a], .collect] s).1.heap.lookup x).isSome = true := by
  -- the heap the collection runs on
  let h2 : Heap := (s.heap.write a (.cont ty es)).remove b
  have hrun : HState.run S c [.assign a b, .del b, .setStack [a], .collect] s =
      ({ heap := (collect S c h2 s.thread [a]).1, thread := s.thread, stack := [a] },
       [⟨{ heap := h2, thread := s.thread, stack := [a] }, (collect S c h2 s.thread [a]).2⟩]) := by
    simp only [HState.run, HState.step, ha, hb]
    rfl
  have wf2 : h2.WF := remove_wf (write_wf wf a _) b
  have la : h2.lookup a = some ⟨.cont ty es, ra⟩ := by
    show ((s.heap.write a (.cont ty es)).remove b).lookup a = _
    rw [remove_lookup_ne hab, write_lookup_self ha]
  have lx : (h2.lookup x).isSome = true := by
    show (((s.heap.write a (.cont ty es)).remove b).lookup x).isSome = true
    rw [remove_lookup_ne hxb, write_isSome]; exact hreg
  have hfx : x ∈ fields c (.cont ty es) := by
    rw [fields_cont c hty.1 hty.2]; rw [fields_cont c hty'.1 hty'.2] at hx; exact hx
  have hreach : Reachable c h2 (rootWords c h2 s.thread [a]) x :=
    .step (.root (by simp [rootWords]) (by rw [la]; rfl)) ⟨_, la, hfx⟩ lx
  obtain ⟨e1, _, e3⟩ := C01_sweep_safe S c h2 wf2 s.thread [a] x hreach
  rw [hrun]
  refine ⟨?_, rfl, ?_⟩
  · intro ev hev
    simp only [List.mem_cons, List.not_mem_nil, or_false] at hev
    subst hev; exact e3
  · show ((collect S c h2 s.thread [a]).1.lookup x).isSome = true
    rw [e1]; exact lx

/-- non-vacuity: the hypotheses of `C01_retyped_sole_path_safe` hold for a Table constructed as String → Int (at 4096) that
    is assigned from a Table String → Ref (at 4160) whose value points to the Probe at 4224; and before the re-typing the
    target presents nothing (its Int value equals the address 4224 and is not a reference) -/
example : retypeHeap.WF ∧
    retypeHeap.lookup 4096 = some ⟨.cont "Table" (mapElems "String" "Int" [([0], [4224])]), false⟩ ∧
    retypeHeap.lookup 4160 = some ⟨.cont "Table" (mapElems "String" "Ref" [([0], [4224])]), false⟩ ∧
    (Cfg.current.isLeaf "Table" = false ∧ Cfg.current.hasMark "Table" = true) ∧
    (4224 : Addr) ∈ fields Cfg.current (.cont "Table" (mapElems "String" "Ref" [([0], [4224])])) ∧
    fields Cfg.current (.cont "Table" (mapElems "String" "Int" [([0], [4224])])) = [] ∧
    (retypeHeap.lookup 4224).isSome = true :=
  ⟨retypeHeap_wf, rfl, rfl, by decide, by decide, by decide, rfl⟩

/-- **Refuted: a Mark instance that consults a verdict cached at construction.**  Let `Table_Mark` skip the table when a
    flag computed by `Table_New` from the key / value types says "no references" (and not recomputed by `Table_Assign`):
    for the marker that is the table as it was CONSTRUCTED (4096 ↦ String → Int, presenting nothing) although its current
    value is the assigned one.  Then the Probe at 4224 — reachable from the stack word 4096 through the re-typed table in
    the heap as it is — is put on the pending list. -/
theorem C01_cached_leaf_flag_refuted :
    let hNow : Heap := (retypeHeap.write 4096 (.cont "Table" (mapElems "String" "Ref" [([0], [4224])]))).remove 4160
    let hSeen : Heap := retypeHeap.remove 4160     -- what a marker trusting the construction-time flag traces
    let thread : Obj := .thr "Thread" (.cont "Table" [])
    Reachable Cfg.current hNow (rootWords Cfg.current hNow thread [4096]) 4224 ∧
    4224 ∈ (collect listSet Cfg.current hSeen thread [4096]).2 ∧
    4224 ∉ (collect listSet Cfg.current hNow thread [4096]).2 := by
  intro hNow hSeen thread
  have wfNow : hNow.WF := remove_wf (write_wf retypeHeap_wf _ _) _
  have la : hNow.lookup 4096 = some ⟨.cont "Table" (mapElems "String" "Ref" [([0], [4224])]), false⟩ := by
    show ((retypeHeap.write 4096 _).remove 4160).lookup 4096 = _
    rw [remove_lookup_ne (by decide), write_lookup_self (e := ⟨_, false⟩) rfl]
  have lx : (hNow.lookup 4224).isSome = true := by
    show (((retypeHeap.write 4096 _).remove 4160).lookup 4224).isSome = true
    rw [remove_lookup_ne (by decide), write_isSome]; rfl
  have hreach : Reachable Cfg.current hNow (rootWords Cfg.current hNow thread [4096]) 4224 :=
    .step (.root (by simp [rootWords]) (by rw [la]; rfl)) ⟨_, la, by decide⟩ lx
  refine ⟨hreach, ?_, (C01_sweep_safe listSet Cfg.current hNow wfNow thread [4096] 4224 hreach).2.2⟩
  rw [C01_sweep_exact listSet Cfg.current hSeen (remove_wf retypeHeap_wf _) thread [4096] 4224]
  refine ⟨⟨.raw "Probe" [7], false⟩, rfl, rfl, ?_⟩
  intro hr
  -- from the stack word 4096 the table as constructed (String → Int) leads nowhere
  have key : ∀ y, Reachable Cfg.current hSeen (rootWords Cfg.current hSeen thread [4096]) y → y = 4096 := by
    intro y hy
    induction hy with
    | root hmem _ =>
      have hw : rootWords Cfg.current hSeen thread [4096] = [4096] := by decide
      rw [hw] at hmem
      simpa using hmem
    | step _ hp _ ih =>
      subst ih
      obtain ⟨e, hl, hb⟩ := hp
      have he : e = ⟨.cont "Table" (mapElems "String" "Int" [([0], [4224])]), false⟩ := by
        have : hSeen.lookup 4096 = some ⟨.cont "Table" (mapElems "String" "Int" [([0], [4224])]), false⟩ := rfl
        rw [this] at hl; exact (Option.some.inj hl).symm
      subst he
      have hf : fields Cfg.current (.cont "Table" (mapElems "String" "Int" [([0], [4224])])) = [] := by decide
      rw [hf] at hb; cases hb
  exact absurd (key 4224 hr) (by decide)

/-- **T1 `terminates`.** The marker is a total function on every heap (Lean accepted `dfs` with the measure
    (unmarked registered entries, worklist length)); with the mark bits kept as the list of marking events, no
    entry is marked — hence traced — twice, and only registered entries are marked. -/
theorem C01_terminates (c : Cfg) (h : Heap) (roots : List Word) :
    (dfs listSet c h roots []).Nodup ∧ ∀ a ∈ dfs listSet c h roots [], a ∈ h.regs :=
  ⟨dfs_list_nodup c h roots [] List.nodup_nil, fun a ha => by
    have := dfs_list_regs c h roots [] (by intro x hx; cases hx) a ha
    exact this⟩

/-- **T2 the C recursion completes.** With the guarded callback (the code as it is now), the recursive marker with
    the call structure of GC.c returns, for every budget at which it completes, exactly the worklist marker's bits. -/
theorem C01_rec_agrees {σ : Type} (S : MarkSet σ) (c : Cfg) (h : Heap) (hg : c.guarded = true) (d : Nat)
    (ws : List Word) (m m' : σ) (hok : foldRes (level S c h d).item ws m = .ok m') : m' = dfs S c h ws m :=
  rec_items_agree S c h hg d ws m m' hok

/-- the same for the whole of `GC_Mark` (thread-local storage, root loop, stack words) -/
theorem C01_gcMark_rec_agrees {σ : Type} (S : MarkSet σ) (c : Cfg) (h : Heap) (hg : c.guarded = true)
    (ht : c.tlsCallback = true) (wf : h.WF) (d : Nat) (thread : Obj) (stack : List Word) (m' : σ)
    (hok : gcMarkRec S c h d thread stack = .ok m') : m' = gcMark S c h thread stack :=
  gcMarkRec_agree S c h hg ht wf d thread stack m' hok

/-- **T2 every collection runs to completion** (the algorithm with the call structure of GC.c, guarded callback): for
    every heap — whatever its size and shape: cycles, sharing, self references, chains — in which Tuples hold pointers
    to registered objects, every list of root words and every state of the mark bits, there is a finite recursion depth
    at which `GC_Mark_Item`/`GC_Recurse`/`GC_Mark_And_Recurse` finish, and they return the worklist marker's bits (to
    which `C01_mark_complete` applies).  How deep a recursion the C stack holds is a run-time matter (known finding F27). -/
theorem C01_rec_completes {σ : Type} (S : MarkSet σ) (c : Cfg) (h : Heap) (hg : c.guarded = true)
    (safe : h.CallbackSafe) (ws : List Word) (m : σ) :
    ∃ d, foldRes (level S c h d).item ws m = .ok (dfs S c h ws m) :=
  rec_completes S c h hg safe ws m

/-! ### the current source -/

/-- **T1 table facts** over the lists generated from the source: every container type declares `Mark`, none of the
    pointer-carrying types is a leaf type, and the repairs (guarded callback 7d133ba, TLS through the callback fc3452e,
    `GC_Mark` clears the mark bits first d8f0c4f) and the scan bound are in place; `Thread_Mark` presents the table of every
    Thread object (the guard of 80c795e was withdrawn by 0a0ad73: `C01_thread_guard_refuted`). -/
theorem C01_tables :
    (∀ ty ∈ ["Array", "List", "Table", "Tree", "Tuple", "Thread"],
        Cfg.current.hasMark ty = true ∧ Cfg.current.isLeaf ty = false) ∧
    (∀ ty ∈ ["Ref", "Box", "Probe", "ProbeD"], Cfg.current.hasMark ty = false ∧ Cfg.current.isLeaf ty = false) ∧
    (∀ ty ∈ ["Int", "Float", "String"], Cfg.current.isLeaf ty = true) ∧
    Cfg.current.guarded = true ∧ Cfg.current.tlsCallback = true ∧ Cfg.current.scanInclusive = true ∧
    Cfg.current.foreignTls = true ∧ clearFirstNow = true := by
  decide

/-- **Reachability goes through every representation** (for the source as it is now): the words the collector
    presents to `GC_Mark_Item` when it traces … -/
theorem C01_fields_current (ws : List Word) (w : Word) (es : List Obj) :
    -- a plain struct, a Ref, a Box: all its words
    fields Cfg.current (.raw "Probe" ws) = ws ∧
    fields Cfg.current (.raw "Ref" [w]) = [w] ∧
    fields Cfg.current (.raw "Box" [w]) = [w] ∧
    -- Array, List (elements), Table, Tree (keys and values): the words of every embedded element
    fields Cfg.current (.cont "Array" es) = fieldsL Cfg.current es ∧
    fields Cfg.current (.cont "List" es) = fieldsL Cfg.current es ∧
    fields Cfg.current (.cont "Table" es) = fieldsL Cfg.current es ∧
    fields Cfg.current (.cont "Tree" es) = fieldsL Cfg.current es ∧
    -- heap Tuple: every stored pointer
    fields Cfg.current (.tup "Tuple" ws) = ws ∧
    -- thread-local storage: the words of every key and value of the thread's table
    tlsWords Cfg.current (.thr "Thread" (.cont "Table" es)) = fieldsL Cfg.current es := by
  have hc : Cfg.current.scanInclusive = true := by decide
  have hcfg : Cfg.current.leaf = ["Int", "Float", "String", "Type", "File", "Process", "Function"] ∧
      Cfg.current.mark = ["Array", "List", "Table", "Thread", "Tree", "Tuple", "ProbeM"] ∧
      Cfg.current.tlsCallback = true := by decide
  obtain ⟨hleaf, hmark, htls⟩ := hcfg
  refine ⟨?_, ?_, ?_, ?_, ?_, ?_, ?_, ?_, ?_⟩ <;>
    simp [fields, viaMark, tlsWords, scanWords, hc, Cfg.isLeaf, Cfg.hasMark, hleaf, hmark, htls]

/-- **`Thread_Mark` presents the table of EVERY Thread object the marker meets** (the source as it is: the guard
    `self is current(Thread)` of 80c795e was withdrawn by 0a0ad73).  A Thread object found in the registry — never `current(Thread)`
    of the marking thread: `new(Thread, f)` before it is called, or one that never runs — presents every key and value of its
    table, exactly as `current(Thread)` does in the thread-local-storage phase of `GC_Mark`: objects stored with
    `set(t, key, obj)` are reachable through the Thread object.  (The unsynchronised walk of a RUNNING thread's table is a known
    limitation of the source, C13.) -/
theorem C01_thread_table_traced (es : List Obj) :
    fields Cfg.current (.thr "Thread" (.cont "Table" es)) = fieldsL Cfg.current es ∧
    tlsWords Cfg.current (.thr "Thread" (.cont "Table" es)) = fieldsL Cfg.current es ∧
    (∀ tls, fields Cfg.threadGuarded (.thr "Thread" tls) = []) := by
  have hcfg : Cfg.current.leaf = ["Int", "Float", "String", "Type", "File", "Process", "Function"] ∧
      Cfg.current.mark = ["Array", "List", "Table", "Thread", "Tree", "Tuple", "ProbeM"] ∧
      Cfg.current.tlsCallback = true ∧ Cfg.current.foreignTls = true := by decide
  obtain ⟨hleaf, hmark, htls, hf⟩ := hcfg
  refine ⟨?_, ?_, ?_⟩
  · simp [fields, viaMark, Cfg.isLeaf, Cfg.hasMark, hleaf, hmark, hf]
  · simp [viaMark, tlsWords, Cfg.hasMark, hmark, htls]
  · intro tls
    have hl' : Cfg.threadGuarded.leaf = Cfg.current.leaf := rfl
    have hm' : Cfg.threadGuarded.mark = Cfg.current.mark := rfl
    have hf' : Cfg.threadGuarded.foreignTls = false := rfl
    simp [fields, Cfg.isLeaf, Cfg.hasMark, hl', hm', hf', hleaf, hmark]

/-- **Refuted for the variant with the WITHDRAWN repair 80c795e (`Thread_Mark` guarded by `self is current(Thread)`).**
    4096 ↦ a Thread object that is not `current(Thread)` (created, not started), held by a stack word; the program has stored the
    Probe at 4160 in it with `set(t, key, probe)`; nothing else refers to the Probe.  The Probe is reachable (for the source as
    it is: `C01_thread_table_traced`) and a collection keeps it; with the guard the marker traces nothing below the Thread
    object and the Probe is put on the pending list while the table still holds it (witness
    corpus/gcmark_thread_table_sole_path.ops, the case that caught the withdrawn repair). -/
theorem C01_thread_guard_refuted :
    threadHeap.WF ∧ Reachable Cfg.current threadHeap (rootWords Cfg.current threadHeap emptyThread [4096]) 4160 ∧
    4160 ∉ (collect listSet Cfg.current threadHeap emptyThread [4096]).2 ∧
    4160 ∈ (collect listSet Cfg.threadGuarded threadHeap emptyThread [4096]).2 := by
  have l0 : threadHeap.lookup 4096 = some ⟨.thr "Thread" (.cont "Table" [.raw "String" [0], .raw "Ref" [4160]]), false⟩ := rfl
  have hreach : Reachable Cfg.current threadHeap (rootWords Cfg.current threadHeap emptyThread [4096]) 4160 :=
    .step (.root (by simp [rootWords]) (by rw [l0]; rfl)) ⟨_, l0, by decide⟩ (by decide)
  refine ⟨threadHeap_wf, hreach, (C01_sweep_safe listSet Cfg.current threadHeap threadHeap_wf emptyThread [4096] 4160 hreach).2.2, ?_⟩
  rw [C01_sweep_exact listSet Cfg.threadGuarded threadHeap threadHeap_wf emptyThread [4096] 4160]
  refine ⟨⟨.raw "Probe" [7], false⟩, rfl, rfl, ?_⟩
  intro hr
  have key : ∀ y, Reachable Cfg.threadGuarded threadHeap (rootWords Cfg.threadGuarded threadHeap emptyThread [4096]) y → y = 4096 := by
    intro y hy
    induction hy with
    | root hmem _ =>
      have hw : rootWords Cfg.threadGuarded threadHeap emptyThread [4096] = [4096] := by decide
      rw [hw] at hmem
      simpa using hmem
    | step _ hp _ ih =>
      subst ih
      obtain ⟨e, hl, hb⟩ := hp
      rw [l0] at hl
      have he := (Option.some.inj hl).symm
      subst he
      have hf : fields Cfg.threadGuarded (.thr "Thread" (.cont "Table" [.raw "String" [0], .raw "Ref" [4160]])) = [] := by decide
      rw [hf] at hb; cases hb
  exact absurd (key 4160 hr) (by decide)

/-- **`del(NULL)` is a no-op in every state of the release loop** (fix d3e4e44; was known finding KF-C17-null-del-sweep): a
    destructor that deletes an optional member which is NULL (`owns (.raw "ProbeD" _) = [0]`) changes nothing — not the free
    list, not the registry, not the list of finalised objects. -/
theorem C01_del_null_noop (fin : RState → Addr → RState) (st : RState) :
    remPtr fin st 0 = st ∧ owns (.raw "ProbeD" [7]) = [0] :=
  ⟨remPtr_null fin st, rfl⟩

/-- **Refuted for the OLD variant (`GC_Rem_Ptr` before fix d3e4e44, `remPtrPre`)**: the release loop is finalising the item at
    4096 — it has set the item's slot of the free list to NULL — and the item's destructor calls `del(NULL)`: the free-list loop
    of `GC_Rem_Ptr` compares `gc->freelist[i] is ptr`, finds the NULL slot and runs `dealloc(destruct(NULL))` (address 0 is
    "finalised": a NULL dereference in C).  `remPtr`, the code as it is, returns at once; and for a pointer that is not NULL the
    two agree. -/
theorem C01_del_null_old_refuted :
    let st : RState := { heap := boxHeap, pending := [none], finalised := [4096], exhausted := false }
    0 ∈ (remPtrPre (finaliseAt boxHeap 1) st 0).finalised ∧ (remPtr (finaliseAt boxHeap 1) st 0).finalised = [4096] ∧
    ∀ (fin : RState → Addr → RState) (s : RState) (v : Word), v ≠ 0 → remPtr fin s v = remPtrPre fin s v := by
  refine ⟨by decide, by decide, ?_⟩
  intro fin s v hv
  obtain ⟨h1, h2⟩ := remPtr_nonnull fin s v hv
  rw [h1, h2]

/-- an element embedded in a container contributes its own words, wherever it sits -/
theorem C01_fieldsL_mem (c : Cfg) (es : List Obj) (e : Obj) (he : e ∈ es) (w : Word) (hw : w ∈ fields c e) :
    w ∈ fieldsL c es := by
  induction es with
  | nil => cases he
  | cons x xs ih =>
    simp only [fieldsL, List.mem_append]
    rcases List.mem_cons.mp he with h | h
    · subst h; exact .inl hw
    · exact .inr (ih h)

/-- **C01 for the code in /repo now**, one collection: mark phase and unlink phase on clear mark bits. -/
theorem C01_current_source {σ : Type} (S : MarkSet σ) (h : Heap) (wf : h.WF) (thread : Obj) (stack : List Word) (a : Addr)
    (hr : Reachable Cfg.current h (rootWords Cfg.current h thread stack) a) :
    (collect S Cfg.current h thread stack).1.lookup a = h.lookup a ∧ (h.lookup a).isSome = true ∧
      a ∉ (collect S Cfg.current h thread stack).2 :=
  C01_sweep_safe S Cfg.current h wf thread stack a hr

/-- **C01 for the code in /repo now, over ALL histories with the mark bits in the state** — with what `GC_Mark` does to the bits
    before it starts in the CURRENT source (`clearFirstNow` = `CelloGen.GcMark.markClearsFirst`, re-extracted on every run: `true`
    since fix d8f0c4f).  No hypothesis on the initial bits, none on exceptions: a mark phase may be left by an exception after any
    number of marking events, any number of times; every later collection still keeps every object reachable from thread-local
    storage, a root-registered entry or a stack word off the pending list, registered, and — where no freed entry owns a
    surviving one — not finalised and with unchanged contents.  (For the collector before the fix the hypothesis "no exception
    leaves a mark phase" was needed: `C01_stale_marks_refuted`.) -/
theorem C01_current_source_history {σ : Type} (S : MarkSet σ) (ops : List GOp) (s0 : GState)
    (wf : s0.heap.WF) (hok : ∀ op ∈ ops, op.ok) :
    (GState.run S Cfg.current clearFirstNow ops s0).1.heap.WF ∧
    ∀ ev ∈ (GState.run S Cfg.current clearFirstNow ops s0).2, ev.started = [] ∧ ∀ a,
      Reachable Cfg.current ev.before.heap (rootWords Cfg.current ev.before.heap ev.before.thread ev.before.stack) a →
        a ∉ ev.pending ∧ (ev.before.heap.lookup a).isSome = true ∧
        (ev.exclusive S Cfg.current = true → a ∉ ev.finalised ∧ ev.after.lookup a = ev.before.heap.lookup a) :=
  C01_history_safe_partial S Cfg.current clearFirstNow ops s0 wf hok (.inl (by decide))

/-- **`C01_history_safe_exclusive_statement` is a theorem for the code in /repo now** (refuted for the collector before fix
    d8f0c4f: `C01_stale_marks_refuted`) -/
theorem C01_history_safe_exclusive : C01_history_safe_exclusive_statement clearFirstNow := by
  intro ops s0 wf hok ev hev a hr
  obtain ⟨e1, _, e3⟩ := ((C01_current_source_history listSet ops s0 wf hok).2 ev hev).2 a hr
  exact ⟨e1, e3⟩

/-! ### non-vacuity and the repaired defects, on concrete heaps -/

/-- non-vacuity: the hypotheses of `C01_sweep_safe` hold on the demo heap for an object three hops from a stack word,
    through an Array element, a Ref and a self-containing heap Tuple; and for one reachable only from thread-local storage -/
example : Reachable Cfg.current demoHeap (rootWords Cfg.current demoHeap demoThread [12, 4100, 4096]) 4224 := by
  have r0 : Reachable Cfg.current demoHeap (rootWords Cfg.current demoHeap demoThread [12, 4100, 4096]) 4096 :=
    .root (by simp [rootWords]) (by decide)
  have r1 : Reachable Cfg.current demoHeap (rootWords Cfg.current demoHeap demoThread [12, 4100, 4096]) 4160 :=
    .step r0 ⟨_, rfl, by decide⟩ (by decide)
  exact .step r1 ⟨_, rfl, by decide⟩ (by decide)

example : Reachable Cfg.current demoHeap (rootWords Cfg.current demoHeap demoThread []) 4288 :=
  .root (by simp [rootWords]; left; decide) (by decide)

/-- non-vacuity of the standing hypotheses: a concrete heap with an Array, a self-containing Tuple, plain structs and
    garbage is well formed and callback-safe; a history with allocation, store, root change, deletion and two
    collections consists of admissible operations -/
example : demoHeap.WF ∧ demoHeap.CallbackSafe := ⟨demoHeap_wf, demoHeap_safe⟩

example : ∀ op ∈ [HOp.alloc 4416 ⟨.raw "Ref" [4096], false⟩, .write 4224 (.raw "Probe" [4416]), .setStack [4160],
    .collect, .del 4352, .setThread demoThread, .collect], op.ok := by
  intro op hop
  simp only [List.mem_cons, List.not_mem_nil, or_false] at hop
  rcases hop with h | h | h | h | h | h | h <;> subst h <;> simp [HOp.ok]

/-- non-vacuity of the hypotheses of `C01_collect_safe_partial` / `C01_collect_safe_current` / `C01_history_safe_partial`: a registry with a Box that is used
    within its contract (root-registered Ref → Box → Probe, plus garbage) is well formed, the Probe is reachable through the
    Box, "no reachable object is owned by an unreachable one" holds, hence `boxExclusive`; no bit is set in the empty set; and
    a history with a store, a rehash and two completed collections meets `GOp.ok` and `GOp.completes`; the event of a
    collection on that registry meets `GEvent.exclusive` -/
example : okBoxHeap.WF ∧ Reachable Cfg.current okBoxHeap (rootWords Cfg.current okBoxHeap emptyThread []) 4224 ∧
    boxExclusive listSet Cfg.current okBoxHeap emptyThread [] listSet.empty = true ∧ (∀ x, listSet.mem x listSet.empty = false) :=
  ⟨okBoxHeap_wf, okBoxHeap_target_reach,
    C01_box_contract listSet Cfg.current okBoxHeap okBoxHeap_wf emptyThread [] okBoxHeap_contract, listSet.mem_empty⟩

example : (∀ op ∈ [GOp.base (.write 4288 (.raw "Probe" [4224])), .base .collect, .rehash, .base (.setStack [4288]), .base .collect],
      op.ok ∧ op.completes = true) ∧
    GEvent.exclusive listSet Cfg.current ⟨⟨okBoxHeap, emptyThread, [], []⟩, [], [], [], okBoxHeap⟩ = true := by
  refine ⟨?_, C01_box_contract listSet Cfg.current okBoxHeap okBoxHeap_wf emptyThread [] okBoxHeap_contract⟩
  intro op hop
  simp only [List.mem_cons, List.not_mem_nil, or_false] at hop
  rcases hop with h | h | h | h | h <;> subst h <;> simp [GOp.ok, HOp.ok, GOp.completes]

/-- **Refuted (F25, repaired by fc3452e).** With thread-local storage handed to `GC_Mark_Item` only, the object at 4288 —
    reachable, but only from thread-local storage — is not marked and ends up on the pending list. -/
theorem C01_tls_item_only_refuted :
    let c : Cfg := { Cfg.current with tlsCallback := false }
    Reachable Cfg.current demoHeap (rootWords Cfg.current demoHeap demoThread []) 4288 ∧
    4288 ∈ (collect listSet c demoHeap demoThread []).2 := by
  refine ⟨.root (by simp [rootWords]; left; decide) (by decide), ?_⟩
  have hm : gcMark listSet { Cfg.current with tlsCallback := false } demoHeap demoThread [] = [] := by
    have h1 : tlsWords { Cfg.current with tlsCallback := false } demoThread = [] := by decide
    have h2 : rootAddrs demoHeap = [] := by decide
    simp only [gcMark, h1, h2, dfs_nil]
    rfl
  simp only [collect, hm]
  rw [mem_pending]
  exact ⟨by decide, by decide⟩

/-- **Refuted (F26, repaired by 7d133ba).** With the unconditional `GC_Mark_Item(ptr); GC_Recurse(ptr);` the recursive
    marker does not complete on the one-object heap `tuple [self]`, whatever the depth budget: the collection never ends. -/
theorem C01_unguarded_callback_refuted {σ : Type} (S : MarkSet σ) :
    let c : Cfg := { Cfg.current with guarded := false }
    ∀ d, (level S c selfTupleHeap d).item 4096 S.empty = .deep :=
  fun d => selfTuple_diverges S _ (by decide) (by decide) rfl d

/-- **Refuted (known finding F27, not repaired): "every collection runs to completion within a fixed stack".**
    Full statement that fails: `∃ d, ∀ h ws, (foldRes (level S Cfg.current h d).item ws S.empty) ≠ .deep`.
    For every depth budget `d` there is a heap — a chain of `d+1` Refs, well formed and callback-safe, every object
    reachable from the root word 8 — on which the marker with the call structure of GC.c needs more than `d` nested
    activations: on the real machine, a chain longer than the C stack allows overflows it (witness
    corpus/kf_c01_deep_chain.ops).  What is proved instead: `C01_rec_completes` (some finite depth always suffices). -/
theorem C01_fixed_stack_refuted {σ : Type} (S : MarkSet σ) (d : Nat) :
    (chainHeap (d + 1)).WF ∧ (chainHeap (d + 1)).CallbackSafe ∧
    (level S Cfg.current (chainHeap (d + 1)) d).item 8 S.empty = .deep :=
  ⟨chainHeap_wf _, chainHeap_safe _, chain_exceeds_budget S Cfg.current (by decide) (by decide) (by decide) d⟩

/-- **Refuted (known finding KF-C01-dangling-tuple-item, not repaired): completion without `CallbackSafe`.**
    Full statement that fails: `C01_rec_completes` without the hypothesis `h.CallbackSafe`.
    On a well-formed heap whose Tuple holds the address of an object that has been deleted by hand, the marker with the
    call structure of GC.c does not complete for any budget ≥ 2: `GC_Mark_And_Recurse` finds the pointer unregistered and
    calls `GC_Recurse` on it — memory the model knows nothing about (on the real machine: a freed block, witness
    corpus/kf_c01_dangling_tuple.ops).  When the freed block has not been reused, `type_of` throws ValueError there: the exception
    LEAVES `GC_Mark` with the mark bits set so far and `GC_Sweep` is skipped; since fix d8f0c4f the next `GC_Mark` clears those bits
    first (`C01_current_source_history`); before it the NEXT collection reclaimed objects reachable only through the stale-marked
    entries (`C01_stale_marks_refuted`). -/
theorem C01_dangling_tuple_item_refuted {σ : Type} (S : MarkSet σ) (d : Nat) :
    danglingHeap.WF ∧ ¬ danglingHeap.CallbackSafe ∧
    (level S Cfg.current danglingHeap (d + 2)).item 4096 S.empty = .ub := by
  refine ⟨danglingHeap_wf, ?_, dangling_ub S Cfg.current (by decide) (by decide) (by decide) d⟩
  intro hs
  have := hs 4096 ⟨.tup "Tuple" [4160], false⟩ rfl 4160 (by simp [handed])
  exact absurd this (by decide)

/-- **Refuted (known finding KF-C01-tuple-aliases-elements, not repaired): completion after `assign(tuple, array)`.**
    `Tuple_Assign(t, obj)` stores `get(obj, i)`: for an Array / List source these are pointers to the elements EMBEDDED in the
    source's storage — words that are not registered objects (no embedded element is ever registered) and that dangle as
    soon as the source grows, shrinks or is cleared.  In every well-formed heap, a registered Tuple whose first stored
    pointer is not a registered object makes the marker with the call structure of GC.c leave the model at every budget ≥ 2:
    `GC_Mark_And_Recurse` finds the pointer unregistered and calls `GC_Recurse` on it (on the real machine: a freed or
    reallocated block, witness corpus/kf_c01_tuple_alias.ops).  This is why `Obj.assignFrom` has no Tuple ← Array / List
    case and the histories assign a Tuple only from a Tuple. -/
theorem C01_tuple_aliases_elements_refuted {σ : Type} (S : MarkSet σ) (h : Heap) (wf : h.WF) (a w : Addr) (rest : List Word)
    (r : Bool) (ha : h.lookup a = some ⟨.tup "Tuple" (w :: rest), r⟩) (hw : h.lookup w = none) (d : Nat) :
    ¬ h.CallbackSafe ∧ (level S Cfg.current h (d + 2)).item a S.empty = .ub := by
  refine ⟨?_, tuple_unregistered_item_ub S Cfg.current h wf (by decide) (by decide) (by decide) a w rest r ha hw d⟩
  intro hs
  have := hs a _ ha w (by simp [handed])
  rw [hw] at this; cases this

/-- non-vacuity: the heap of the other dangling-Tuple finding meets the hypotheses -/
example {σ : Type} (S : MarkSet σ) (d : Nat) : (level S Cfg.current danglingHeap (d + 2)).item 4096 S.empty = .ub :=
  (C01_tuple_aliases_elements_refuted S danglingHeap danglingHeap_wf 4096 4160 [] false rfl rfl d).2

/-- … while the guarded callback completes on it and marks it (non-vacuity of `C01_rec_agrees`) -/
example : (level listSet Cfg.current selfTupleHeap 3).item 4096 [] = .ok [4096] := by decide

/-! ### the header's type pointer: a run-time Type is not kept alive by its instances (known finding KF-C01-type-outlived)

  `Cello/HeapRec.lean` (`TyMap`, `ReachableT`, `typesAnchored`, `TState.run`): an object refers to its Type through its header, which lies in
  front of the address the collector knows; the collector neither marks through that pointer nor orders the release.  The unconditional
  statement — reachability INCLUDING the header edge, every collection runs to completion — is refuted for the source as it is; the theorems
  hold under the explicit, decidable hypothesis "the types of all registered objects are static, root-registered, or themselves reachable
  from the roots" (`typesAnchored`, checked whenever a mark phase begins: `TState.anchored`). -/

/-- the unconditional statement over typed histories: every mark phase runs to completion (no `GC_Recurse` on an object whose Type has been
    released) and no object reachable from the roots — along the words the collector reads OR along a header's type pointer — is put on the
    pending list -/
def C01_type_edge_statement : Prop :=
  ∀ (ops : List TOp) (s0 : TState), s0.g.heap.WF → (∀ op ∈ TOp.erase ops, op.ok) →
    ∃ s2 evs, TState.run listSet Cfg.current clearFirstNow ops s0 = some (s2, evs) ∧
      ∀ tev ∈ evs, ∀ a,
        ReachableT Cfg.current tev.ev.before.heap tev.ty
          (rootWords Cfg.current tev.ev.before.heap tev.ev.before.thread tev.ev.before.stack) a → a ∉ tev.ev.pending

/-- **Refuted (known finding KF-C01-type-outlived, not repaired): the header's type pointer is not traced.**
    `T = new(Type, …)` at 4160 (an ordinary non-root registry entry: `Type_Alloc` → `alloc_by` → `GC_Set`), `x = new(T)` at 4096 held by a stack
    word; nothing but `header(x)->type` refers to `T`.  (1) `T` is reachable through the header edge, not along the words the collector reads;
    (2) one collection puts `T` on the pending list and releases it while `x` stays registered; (3) the NEXT collection marks `x` and calls
    `GC_Recurse(gc, x)` → `type_of(x)` → `type_instance(T, Mark)` on the released block: undefined behaviour, the typed history has no result
    (on the real machine: SIGSEGV / heap-use-after-free in `GC_Recurse`, witness corpus/kf_c01_type_outlived.ops); (4) the hypothesis
    `typesAnchored` is false on this heap, and true as soon as the program also keeps `T` in a stack word — then nothing is lost. -/
theorem C01_type_outlived_refuted :
    typeHeap.WF ∧
    ReachableT Cfg.current typeHeap typeTy (rootWords Cfg.current typeHeap emptyThread [4096]) 4160 ∧
    ¬ Reachable Cfg.current typeHeap (rootWords Cfg.current typeHeap emptyThread [4096]) 4160 ∧
    4160 ∈ (collectWhole listSet Cfg.current clearFirstNow typeHeap emptyThread [4096] (seed listSet [])).pending ∧
    (collectWhole listSet Cfg.current clearFirstNow typeHeap emptyThread [4096] (seed listSet [])).heap.lookup 4096 =
      some ⟨.raw "Probe" [7], false⟩ ∧
    TState.run listSet Cfg.current clearFirstNow [.op (.base .collect), .op (.base .collect)] typeStart = none ∧
    typesAnchored listSet Cfg.current typeHeap typeTy emptyThread [4096] = false ∧
    typesAnchored listSet Cfg.current typeHeap typeTy emptyThread [4096, 4160] = true ∧
    ¬ C01_type_edge_statement := by
  have hcf : clearFirstNow = true := by decide
  obtain ⟨c1, c2, _⟩ := typeHeap_collect
  have hrun : TState.run listSet Cfg.current clearFirstNow [.op (.base .collect), .op (.base .collect)] typeStart = none := by
    rw [hcf]; exact typeHeap_second_collection_ub
  refine ⟨typeHeap_wf, typeHeap_type_reachT, typeHeap_type_unreachable, ?_, ?_, hrun, ?_, ?_, ?_⟩
  · rw [hcf]; exact c1
  · rw [hcf]; exact c2
  · cases ha : typesAnchored listSet Cfg.current typeHeap typeTy emptyThread [4096] with
    | false => rfl
    | true =>
      obtain ⟨e, hl, hor⟩ := typesAnchored_spec listSet Cfg.current ha 4096 (by decide) 4160 rfl
      have he : e = ⟨.raw "Type" [0], false⟩ := by
        have : typeHeap.lookup 4160 = some ⟨.raw "Type" [0], false⟩ := rfl
        rw [this] at hl; exact (Option.some.inj hl).symm
      subst he
      rcases hor with h | h
      · cases h
      · exact absurd ((reachable_iff_reach typeHeap_wf _ _).mpr
          ((gcMark_iff_reach listSet Cfg.current typeHeap emptyThread [4096] 4160).mp h)) typeHeap_type_unreachable
  · have hm : listSet.mem 4160 (gcMark listSet Cfg.current typeHeap emptyThread [4096, 4160]) = true :=
      (gcMark_iff_reach listSet Cfg.current typeHeap emptyThread [4096, 4160] 4160).mpr
        (.root (by rw [typeHeap_roots]; simp) (accepts_of_registered typeHeap_wf (by decide)))
    unfold typesAnchored
    rw [List.all_eq_true]
    intro a ha
    have : a = 4096 ∨ a = 4160 := by simpa [typeHeap] using ha
    rcases this with h | h <;> subst h
    · have l2 : typeHeap.lookup 4160 = some ⟨.raw "Type" [0], false⟩ := rfl
      have t1 : typeTy 4096 = some 4160 := rfl
      simp only [t1, l2, hm, Bool.or_true]
    · have t2 : typeTy 4160 = none := rfl
      simp only [t2, Bool.or_true]
  · intro hs
    obtain ⟨s2, evs, h1, _⟩ := hs [.op (.base .collect), .op (.base .collect)] typeStart typeHeap_wf
      (by intro op hop; simp [TOp.erase] at hop; subst hop; trivial)
    rw [hrun] at h1; cases h1

/-- **C01 for the code in /repo now over typed histories, under `TState.anchored`**: whenever a mark phase begins, the type of every
    registered object is static, root-registered, or reachable from the roots along the words the collector reads (decidable; false exactly
    in the territory of KF-C01-type-outlived: `C01_type_outlived_refuted`).  Then every mark phase runs to completion — no `GC_Recurse` meets
    a released Type —, the collections are those of the untyped history (`C01_current_source_history` applies to them), and every object
    reachable from thread-local storage, a root-registered entry or a stack word ALONG POINTER WORDS OR HEADER TYPE POINTERS stays off the
    pending list, registered, and (Box's ownership contract) not finalised and with unchanged contents.  `TOp.retag` (the allocator writes the
    header of a block it hands out) may change any object's type at any time; no hypothesis on the mark bits or on exceptions. -/
theorem C01_current_source_history_typed {σ : Type} (S : MarkSet σ) (ops : List TOp) (s0 : TState)
    (wf : s0.g.heap.WF) (hok : ∀ op ∈ TOp.erase ops, op.ok)
    (hanch : TState.anchored S Cfg.current clearFirstNow ops s0 = true) :
    ∃ s2 evs, TState.run S Cfg.current clearFirstNow ops s0 = some (s2, evs) ∧
      evs.map (·.ev) = (GState.run S Cfg.current clearFirstNow (TOp.erase ops) s0.g).2 ∧
      ∀ tev ∈ evs, ∀ a,
        ReachableT Cfg.current tev.ev.before.heap tev.ty
          (rootWords Cfg.current tev.ev.before.heap tev.ev.before.thread tev.ev.before.stack) a →
        a ∉ tev.ev.pending ∧ (tev.ev.before.heap.lookup a).isSome = true ∧
        (tev.ev.exclusive S Cfg.current = true → a ∉ tev.ev.finalised ∧ tev.ev.after.lookup a = tev.ev.before.heap.lookup a) := by
  obtain ⟨s2, evs, h1, h2, _, h4⟩ := run_of_anchored S Cfg.current clearFirstNow ops s0 hanch
  refine ⟨s2, evs, h1, h2, ?_⟩
  intro tev htev a hr
  have hmem : tev.ev ∈ (GState.run S Cfg.current clearFirstNow (TOp.erase ops) s0.g).2 := by
    rw [← h2]; exact List.mem_map_of_mem htev
  have hwf : tev.ev.before.heap.WF :=
    ((grun_events S Cfg.current clearFirstNow (TOp.erase ops) s0.g wf hok (.inl (by decide))).2 tev.ev hmem).1
  have hr' := reachableT_reachable S Cfg.current hwf (h4 tev htev) a hr
  exact ((C01_current_source_history S (TOp.erase ops) s0.g wf hok).2 tev.ev hmem).2 a hr'

/-- non-vacuity: with the Type also held by a stack word the hypothesis holds for a history that re-tags an object and collects -/
example : TState.anchored listSet Cfg.current clearFirstNow [.retag 4096 (some 4160), .op (.base (.setStack [4096, 4160])), .op (.base .collect)]
    ⟨⟨typeHeap, emptyThread, [], []⟩, fun _ => none⟩ = true := by
  have h := C01_type_outlived_refuted.2.2.2.2.2.2.2.1
  have hty : (TState.retag ⟨⟨typeHeap, emptyThread, [], []⟩, fun _ => none⟩ 4096 (some 4160)).ty = typeTy := by
    funext x; simp [TState.retag, typeTy]
  simp only [TState.anchored, GOp.marks, Bool.not_true, Bool.false_or, Bool.not_false, Bool.true_or, Bool.true_and, Bool.and_true]
  rw [hty]
  exact h

/-- **`levelX` is a conservative extension of `level`**: with no live unregistered object known it is the marker all the theorems above are about -/
theorem C01_levelX_conservative {σ : Type} (S : MarkSet σ) (c : Cfg) (h : Heap) (d : Nat) :
    levelX S c h (fun _ => none) d = level S c h d := by
  induction d with
  | zero => rfl
  | succ d ih =>
    have hcb : callbackX c h (fun _ => none) (level S c h d) = callback c h (level S c h d) := by
      funext w m
      cases hg : c.guarded <;> cases hl : h.lookup w <;> simp [callbackX, callback, hg, hl]
    simp only [levelX, level, ih, hcb]

/-- **The marker completes on a Tuple whose items are live unregistered objects, and follows the path through them** (the case the hypothesis
    `CallbackSafe` of `C01_rec_completes` excluded although the C code is right): on `extHeap` the recursion with the call structure of GC.c
    finishes at depth 7, having marked the Tuple and the Probe that is reachable only THROUGH the `new_raw` Array; `level`, which knows registered
    objects only, answers `.ub` there; and with one of the three items neither registered nor live (`ext` without the stack Int) the answer is
    `.ub` again — the territory of KF-C01-dangling-tuple-item / KF-C01-tuple-aliases-elements, and nothing more. -/
theorem C01_tuple_live_items_complete :
    (levelX listSet Cfg.current extHeap extLive 7).item 4096 [] = .ok [4160, 4096] ∧
    (level listSet Cfg.current extHeap 5).item 4096 [] = .ub ∧
    (levelX listSet Cfg.current extHeap (fun a => if a = 5008 then none else extLive a) 5).item 4096 [] = .ub := by
  refine ⟨by decide, by decide, by decide⟩

/-- the full statement the follow-up to audit 2 item 2 asks for — completion for EVERY heap whose Tuples / user Mark instances hand out pointers to
    registered objects or to live unregistered objects (`ext`) whose own handed pointers are live in turn and whose nesting is finite (`rank`) —
    is NOT proved in general: `C01_rec_completes` covers `ext = ∅` (every handed pointer registered), `C01_tuple_live_items_complete` a concrete
    heap with static, stack and `new_raw` items; the general induction over `levelX` (the worklist `dfs` would have to splice the words of live
    unregistered objects into the stack) is missing. -/
def C01_rec_completes_live_statement : Prop :=
  ∀ {σ : Type} (S : MarkSet σ) (h : Heap) (ext : Ext) (rank : Addr → Nat),
    (∀ a e, h.lookup a = some e → ∀ w ∈ handed e.obj, (h.lookup w).isSome = true ∨ (ext w).isSome = true) →
    (∀ a o, ext a = some o → ∀ w ∈ handed o, (h.lookup w).isSome = true ∨ ∃ o', ext w = some o' ∧ rank w < rank a) →
    ∀ (ws : List Word) (m : σ), ∃ d m', foldRes (levelX S Cfg.current h ext d).item ws m = .ok m'

end Cello.Heap


/-! ### a collection INSIDE a container operation: mark-safe intermediate states

  `Cello.Heap.Mid` (Cello/HeapMid.lean) runs the statement lists that translate/g_gcmark.py extracts from Array.c, List.c, Table.c and Tree.c
  (`CelloGen/GcMid.lean`: where `destruct` / `assign` of an element stand relative to `nitems--`, `List_Unlink`, `memset`, `free`, …) and records,
  for every call of element code, what the container's Mark instance presents at that moment (`View`).  `MarkSafe`: every view reads only
  constructed elements and presents every element the container holds when the operation completes (operand elements excepted: the caller
  holds the operand).  `C01_mid_op_collection_safe` turns that into the property: a collection that runs inside such a call finalises nothing
  that is reachable when the operation completes. -/

namespace Cello.Heap.Mid
open CelloGen.GcMid
variable {α : Type}

/-- where the model uses one statement list for several branches of the source, the branches agree; `X_Assign` empties the target through
    `X_Clear`; `Tree_Mark` presents nothing when `nitems is 0` -/
theorem C01_mid_source_consistent :
    treeSetRoot = treeSetLeft ∧ treeSetLeft = treeSetRight ∧ listRem = listPopAt ∧ listPop.tail = listPopAt.tail ∧
    arrayAssignHead.head? = some Ev.clear ∧ treeClear.head? = some Ev.clear ∧ treeMarkEmptyWhenLen0 = true := by decide

/-- **Array_Pop_At (and Array_Rem, which calls it): `destruct(Array_Item(a, i))` runs while `nitems` still counts every element.**  For every
    Array (any block size, whatever the spare slots hold) and every index: inside the destructor of the removed element `Array_Mark`
    presents exactly the elements the Array held, all of them constructed — in particular every element it keeps.  The statement order is
    `CelloGen.GcMid.arrayPopAt`, re-extracted from src/Array.c on every run: with `a->nitems--` in front of `destruct` (seeded change c01_h)
    this theorem is false (`C01_array_pop_at_dec_first_refuted`). -/
theorem C01_array_pop_at_mark_safe (elems : List α) (spare : List (Cell α)) (env : Env α) (hs : env.shape = Shape.array)
    (hi : env.i < elems.length) :
    MarkSafe env ((Mach.initCap elems spare).exec env (prog .array false .popAt)) := by
  -- the one view is the array as it was: `nitems` is decremented after the destructor has run
  have hview : ∀ st : Mach α, st.views = [⟨Tag.dtor, elems.map some⟩] → ∀ v ∈ st.views,
      (∀ c ∈ v.cells, c ≠ none) ∧ ∀ x, some x ∈ elems.map some → some x ∈ v.cells := by
    intro st hst v hv
    rw [hst, List.mem_singleton] at hv
    subst hv
    exact ⟨all_some_map elems, fun x hx => hx⟩
  have hcnt := moveCount_neg_one hi
  have hlen : env.i + 1 + (elems.length - env.i - 1) ≤ (elems.map some ++ spare).length := by simp; omega
  have hk : elems.length - 1 = env.i + (elems.length - env.i - 1) := by omega
  have hfin : ∀ (cells : List (Cell α)) (x : α),
      (cells = moveDown (elems.map some ++ spare) env.i (elems.length - env.i - 1) ∨
       cells = (moveDown (elems.map some ++ spare) env.i (elems.length - env.i - 1)).take (elems.length - 1)) →
      some x ∈ takePad (elems.length - 1) cells → some x ∈ elems.map some := by
    intro cells x hc hx
    have h1 : some x ∈ cells.take (elems.length - 1) := by
      rcases mem_takePad hx with h | h
      · exact h
      · cases h
    have h2 : some x ∈ (moveDown (elems.map some ++ spare) env.i (elems.length - env.i - 1)).take (elems.length - 1) := by
      rcases hc with rfl | rfl
      · exact h1
      · rw [List.take_take, Nat.min_self] at h1; exact h1
    rw [hk] at h2
    have h3 := mem_take_moveDown hlen h2
    have h4 : env.i + 1 + (elems.length - env.i - 1) = elems.length := by omega
    rw [h4] at h3
    have h5 : (elems.map some ++ spare).take elems.length = elems.map some := List.take_left' (by simp)
    rw [h5] at h3
    exact h3
  intro v hv
  simp only [prog, Mach.exec, Mach.instr, arrayPopAt, Mach.run, Mach.step, Mach.view, Mach.initCap, Mach.presented, presented, hs,
    Shape.array, List.foldl, Bool.false_and, Bool.false_eq_true, if_false, if_true, takePad_map_some, hcnt, Mach.final] at hv ⊢
  split at hv <;> rename_i hb
  · obtain ⟨h1, h2⟩ := hview _ rfl v hv
    refine ⟨h1, fun x hx => Or.inr (Or.inr (h2 x ?_))⟩
    simp only [hb, if_true, mem_filterMap_id] at hx
    exact hfin _ x (Or.inr rfl) hx
  · obtain ⟨h1, h2⟩ := hview _ rfl v hv
    refine ⟨h1, fun x hx => Or.inr (Or.inr (h2 x ?_))⟩
    simp only [hb, if_false, mem_filterMap_id] at hx
    exact hfin _ x (Or.inl rfl) hx

/-- Array_Pop -/
theorem C01_array_pop_mark_safe (elems : List α) (k : Nat) (env : Env α) (hs : env.shape = Shape.array) :
    MarkSafe env ((Mach.initCap elems (List.replicate k none)).exec env (prog .array false .pop)) := by
  apply markSafe_of_views_pre (exec_from env elems _ _ (initCap_from env elems _ (spare_from env elems k)))
  intro v hv
  simp only [prog, Mach.exec, Mach.instr, arrayPop, Mach.run, Mach.step, Mach.view, Mach.initCap, Mach.presented, presented, hs,
    Shape.array, List.foldl, Bool.false_and, Bool.false_eq_true, if_false, if_true, takePad_map_some] at hv
  split at hv <;> simp at hv <;> rw [hv]

/-- Array_Push -/
theorem C01_array_push_mark_safe (elems : List α) (k : Nat) (env : Env α) (hs : env.shape = Shape.array) :
    MarkSafe env ((Mach.initCap elems (List.replicate k none)).exec env (prog .array false .push)) := by
  apply markSafe_of_views_cover (exec_from env elems _ _ (initCap_from env elems _ (spare_from env elems k)))
  have hrun : ∃ rest, (Mach.initCap elems (List.replicate k none)).exec env (prog .array false .push) =
      Mach.run env [.alloc .last, .assign .last] { cells := elems.map some ++ none :: rest, n := elems.length + 1 } := by
    by_cases hk : k = 0
    · subst hk
      have : elems.length + 1 + (elems.length + 1) / 2 - elems.length = (elems.length + 1) / 2 + 1 := by omega
      refine ⟨List.replicate ((elems.length + 1) / 2) none, ?_⟩
      simp [prog, Mach.exec, Mach.instr, arrayPush, Mach.run, Mach.step, Mach.initCap, this, List.replicate_succ]
    · obtain ⟨k', rfl⟩ := Nat.exists_eq_succ_of_ne_zero hk
      refine ⟨List.replicate k' none, ?_⟩
      simp [prog, Mach.exec, Mach.instr, arrayPush, Mach.run, Mach.step, Mach.initCap, List.replicate_succ]
  obtain ⟨rest, hrun⟩ := hrun
  rw [hrun, array_push_state elems rest env hs]
  intro v hv
  rw [List.mem_singleton] at hv
  subst hv
  refine ⟨?_, fun x hx => List.mem_append_left _ (some_mem_map_some.mpr hx)⟩
  intro c hc
  rcases List.mem_append.mp hc with h | h
  · exact all_some_map elems c h
  · rw [List.mem_singleton] at h; rw [h]; simp

/-- Array_Push_At: `nitems++`, room, the elements from `i` on move up, the slot is zeroed, then `assign`: inside the Assign instance the Array
    holds every old element and the new one -/
theorem C01_array_push_at_mark_safe (elems : List α) (k : Nat) (env : Env α) (hs : env.shape = Shape.array) (hi : env.i ≤ elems.length) :
    MarkSafe env ((Mach.initCap elems (List.replicate k none)).exec env (prog .array false .pushAt)) := by
  apply markSafe_of_views_cover (exec_from env elems _ _ (initCap_from env elems _ (spare_from env elems k)))
  have hrun : ∃ rest, (Mach.initCap elems (List.replicate k none)).exec env (prog .array false .pushAt) =
      Mach.run env [.moveUp (-1), .alloc .idx, .assign .idx] { cells := elems.map some ++ none :: rest, n := elems.length + 1 } := by
    by_cases hk : k = 0
    · subst hk
      have : elems.length + 1 + (elems.length + 1) / 2 - elems.length = (elems.length + 1) / 2 + 1 := by omega
      refine ⟨List.replicate ((elems.length + 1) / 2) none, ?_⟩
      simp [prog, Mach.exec, Mach.instr, arrayPushAt, Mach.run, Mach.step, Mach.initCap, this, List.replicate_succ]
    · obtain ⟨k', rfl⟩ := Nat.exists_eq_succ_of_ne_zero hk
      refine ⟨List.replicate k' none, ?_⟩
      simp [prog, Mach.exec, Mach.instr, arrayPushAt, Mach.run, Mach.step, Mach.initCap, List.replicate_succ]
  obtain ⟨rest, hrun⟩ := hrun
  have hsplit : elems.map some = (elems.map some).take env.i ++ (elems.map some).drop env.i := (List.take_append_drop _ _).symm
  have hlenA : ((elems.map some).take env.i).length = env.i := by simp [hi]
  have hlen : elems.length + 1 = ((elems.map some).take env.i).length + ((elems.map some).drop env.i).length + 1 := by simp; omega
  rw [hrun]
  have hst := array_push_at_state ((elems.map some).take env.i) ((elems.map some).drop env.i) rest env hs hlenA.symm
  rw [← hsplit, ← hlen] at hst
  rw [hst]
  intro v hv
  rw [List.mem_singleton] at hv
  subst hv
  refine ⟨?_, ?_⟩
  · intro c hc
    simp only [List.mem_append, List.mem_cons] at hc
    rcases hc with h | h | h
    · exact all_some_map elems c (List.mem_of_mem_take h)
    · rw [h]; simp
    · exact all_some_map elems c (List.mem_of_mem_drop h)
  · intro x hx
    have : some x ∈ (elems.map some).take env.i ++ (elems.map some).drop env.i := by rw [← hsplit]; exact some_mem_map_some.mpr hx
    simp only [List.mem_append, List.mem_cons] at this ⊢
    rcases this with h | h
    · exact Or.inl h
    · exact Or.inr (Or.inr h)

/-- Array_Set / List_Set: the element is overwritten in place -/
theorem C01_seq_set_mark_safe (elems : List α) (env : Env α) (hi : env.i < elems.length) :
    (env.shape = Shape.array → MarkSafe env ((Mach.init elems).exec env (prog .array false .set))) ∧
    (env.shape = Shape.list → MarkSafe env ((Mach.init elems).exec env (prog .list false .set))) := by
  have hget : (elems.map some)[env.i]? = some (some elems[env.i]) := by simp [hi]
  constructor <;> intro hs
  · apply markSafe_of_views_post
    · intro v hv
      simp only [prog, Mach.exec, Mach.instr, arraySet, Mach.run, Mach.step, Mach.view, Mach.init, Mach.initCap, Mach.presented, Mach.pos,
        List.foldl, List.append_nil, hget, List.mem_singleton] at hv ⊢
      rw [hv]
    · intro c hc
      simp only [prog, Mach.exec, Mach.instr, arraySet, Mach.run, Mach.step, Mach.view, Mach.init, Mach.initCap, Mach.presented, Mach.pos,
        List.foldl, List.append_nil, hget] at hc
      rcases mem_presented hc with h | h
      · rcases List.mem_or_eq_of_mem_set h with h | h
        · exact all_some_map elems c h
        · rw [h]; simp
      · simp only [hs, Shape.array, presented, Bool.false_and, Bool.false_eq_true, if_false, if_true] at hc
        rw [takePad_of_le (by simp)] at hc
        have := List.mem_of_mem_take hc
        rcases List.mem_or_eq_of_mem_set this with h' | h'
        · exact all_some_map elems c h'
        · rw [h']; simp
  · apply markSafe_of_views_post
    · intro v hv
      simp only [prog, Mach.exec, Mach.instr, CelloGen.GcMid.listSet, Mach.run, Mach.step, Mach.view, Mach.init, Mach.initCap, Mach.presented, Mach.pos,
        List.foldl, List.append_nil, hget, List.mem_singleton] at hv ⊢
      rw [hv]
    · intro c hc
      simp only [prog, Mach.exec, Mach.instr, CelloGen.GcMid.listSet, Mach.run, Mach.step, Mach.view, Mach.init, Mach.initCap, Mach.presented, Mach.pos,
        List.foldl, List.append_nil, hget, hs, presented_list] at hc
      rcases List.mem_or_eq_of_mem_set hc with h | h
      · exact all_some_map elems c h
      · rw [h]; simp

/-- Array_Clear -/
theorem C01_array_clear_mark_safe (elems : List α) (k : Nat) (env : Env α) (hs : env.shape = Shape.array) :
    MarkSafe env ((Mach.initCap elems (List.replicate k none)).exec env (prog .array false .clear)) := by
  apply markSafe_of_views_pre (exec_from env elems _ _ (initCap_from env elems _ (spare_from env elems k)))
  have hloop := eachLoop_views_pre env arrayClearLoop (elems.map some)
    (by
      intro j st hp hv
      simp only [arrayClearLoop, Mach.run, List.foldl, Mach.step, Mach.view]
      refine ⟨hp, ?_⟩
      intro v hvm
      rcases List.mem_cons.mp hvm with h | h
      · rw [h]; exact hp
      · exact hv v h)
    (List.range elems.length) (Mach.initCap elems (List.replicate k none))
    (by simp [Mach.presented, presented, hs, Shape.array, Mach.initCap, takePad_map_some])
    (by simp [Mach.initCap])
  intro v hv
  simp only [prog, clearProg, Mach.exec, List.foldl, Mach.instr, arrayClearPre, arrayClearTail, Mach.run, Mach.step, hs, Shape.array,
    if_true] at hv
  exact hloop.2 v (by simpa [Mach.initCap] using hv)

/-- Array_Resize (shrinking): `destruct(last); nitems--` — the views are ever shorter prefixes, all at least as long as what stays -/
theorem C01_array_resize_mark_safe (elems : List α) (env : Env α) (hs : env.shape = Shape.array) :
    MarkSafe env ((Mach.init elems).exec env (prog .array false .resize)) := by
  -- invariant of the loop: the block is untouched, nitems only falls, every view is a prefix at least nitems long
  let I : Mach α → Prop := fun st => st.cells = elems.map some ∧ st.n ≤ elems.length ∧
    ∀ v ∈ st.views, ∃ t, v.cells = (elems.map some).take t ∧ st.n ≤ t
  have hI0 : I (Mach.init elems) := ⟨by simp [Mach.init, Mach.initCap], by simp [Mach.init, Mach.initCap], by simp [Mach.init, Mach.initCap]⟩
  have hstep : ∀ st, I st → env.m < st.n → I (st.run env arrayResizeLoop) := by
    intro st ⟨hc, hn, hv⟩ _
    simp only [arrayResizeLoop, Mach.run, List.foldl, Mach.step, Mach.view, Mach.presented, presented, hs, Shape.array, Bool.false_and,
      Bool.false_eq_true, if_false, if_true]
    refine ⟨hc, by simp only; omega, ?_⟩
    intro v hvm
    rcases List.mem_cons.mp hvm with h | h
    · refine ⟨st.n, ?_, by simp only; omega⟩
      rw [h, hc, takePad_of_le (by simpa using hn)]
    · obtain ⟨t, ht, hle⟩ := hv v h
      exact ⟨t, ht, by simp only; omega⟩
  have hloop := whileLoop_inv env arrayResizeLoop I hstep (elems.length + 1) (Mach.init elems) hI0
  intro v hv
  simp only [prog, Mach.exec, List.foldl, Mach.instr, arrayResizePre, arrayResizeTail, Mach.run, Mach.step] at hv ⊢
  have hn0 : (Mach.init elems).n = elems.length := by simp [Mach.init, Mach.initCap]
  rw [hn0] at hv ⊢
  obtain ⟨hc, hn, hvs⟩ := hloop
  obtain ⟨t, ht, hle⟩ := hvs v hv
  refine ⟨?_, ?_⟩
  · rw [ht]; exact fun c hcm => all_some_map elems c (List.mem_of_mem_take hcm)
  · intro x hx
    right; right
    simp only [Mach.final, Mach.presented, presented, hs, Shape.array, Bool.false_and, Bool.false_eq_true, if_false, if_true,
      mem_filterMap_id, hc] at hx
    rw [ht]
    rcases mem_takePad_takePad hx with h | h
    · exact List.take_subset_take_left _ hle h
    · cases h

/-- List_Pop_At: the cell is unlinked before its element is destructed -/
theorem C01_list_pop_at_mark_safe (elems : List α) (env : Env α) (hs : env.shape = Shape.list) :
    MarkSafe env ((Mach.init elems).exec env (prog .list false .popAt)) := list_unlink_safe elems env hs .idx

/-- List_Pop -/
theorem C01_list_pop_mark_safe (elems : List α) (env : Env α) (hs : env.shape = Shape.list) :
    MarkSafe env ((Mach.init elems).exec env (prog .list false .pop)) := list_unlink_safe elems env hs .last

/-- List_Rem -/
theorem C01_list_rem_mark_safe (elems : List α) (env : Env α) (hs : env.shape = Shape.list) :
    MarkSafe env ((Mach.init elems).exec env (prog .list false .remVal)) := list_unlink_safe elems env hs .idx

/-- List_Push / List_Push_At: the new cell is linked after its element was assigned -/
theorem C01_list_push_mark_safe (elems : List α) (env : Env α) (hs : env.shape = Shape.list) :
    MarkSafe env ((Mach.init elems).exec env (prog .list false .push)) ∧
    MarkSafe env ((Mach.init elems).exec env (prog .list false .pushAt)) := by
  constructor <;>
  · apply markSafe_of_views_pre (exec_from env elems _ _ (init_from env elems))
    intro v hv
    simp only [prog, Mach.exec, Mach.instr, listPush, listPushAt, Mach.run, Mach.step, Mach.view, Mach.init, Mach.initCap, Mach.presented, hs,
      presented_list, List.foldl, List.append_nil, List.mem_singleton] at hv
    rw [hv]

/-- List_Resize (shrinking): `unlink(tail); destruct; free; nitems--` -/
theorem C01_list_resize_mark_safe (elems : List α) (env : Env α) (hs : env.shape = Shape.list) :
    MarkSafe env ((Mach.init elems).exec env (prog .list false .resize)) := by
  let I : Mach α → Prop := fun st => (∃ t, st.cells = (elems.map some).take t ∧
    ∀ v ∈ st.views, ∃ t', v.cells = (elems.map some).take t' ∧ min t (elems.length) ≤ t')
  have hI0 : I (Mach.init elems) := ⟨elems.length, by simp [Mach.init, Mach.initCap, List.take_of_length_le], by simp [Mach.init, Mach.initCap]⟩
  have hstep : ∀ st, I st → env.m < st.n → I (st.run env listResizeLoop) := by
    intro st ⟨t, hc, hv⟩ _
    simp only [listResizeLoop, Mach.run, List.foldl, Mach.step, Mach.view, Mach.presented, presented, hs, Shape.list, Bool.false_and,
      Bool.false_eq_true, if_false, Mach.pos]
    have herase : st.cells.eraseIdx (st.cells.length - 1) = (elems.map some).take (min t elems.length - 1) := by
      rw [hc, List.eraseIdx_eq_take_drop_succ]
      have hl : ((elems.map some).take t).length = min t elems.length := by simp
      rw [hl, List.take_take]
      by_cases h0 : min t elems.length = 0
      · have : (List.take t (List.map some elems)) = [] := by
          apply List.eq_nil_of_length_eq_zero; rw [hl]; exact h0
        simp [h0, this]
      · have h1 : min t elems.length - 1 + 1 = min t elems.length := by omega
        rw [h1, List.drop_of_length_le (by rw [hl]; exact Nat.le_refl _), List.append_nil]
        congr 1; omega
    refine ⟨min t elems.length - 1, herase, ?_⟩
    intro v hvm
    rcases List.mem_cons.mp hvm with h | h
    · exact ⟨min t elems.length - 1, by rw [h]; exact herase, by omega⟩
    · obtain ⟨t', ht', hle⟩ := hv v h
      exact ⟨t', ht', by omega⟩
  have hloop := whileLoop_inv env listResizeLoop I hstep (elems.length + 1) (Mach.init elems) hI0
  intro v hv
  simp only [prog, Mach.exec, List.foldl, Mach.instr] at hv ⊢
  have hn0 : (Mach.init elems).n = elems.length := by simp [Mach.init, Mach.initCap]
  rw [hn0] at hv ⊢
  obtain ⟨t, hc, hvs⟩ := hloop
  obtain ⟨t', ht', hle⟩ := hvs v hv
  refine ⟨?_, ?_⟩
  · rw [ht']; exact fun c hcm => all_some_map elems c (List.mem_of_mem_take hcm)
  · intro x hx
    right; right
    simp only [Mach.final, Mach.presented, presented, hs, Shape.list, Bool.false_and, Bool.false_eq_true, if_false,
      mem_filterMap_id, hc] at hx
    rw [ht']
    have : (elems.map some).take t = (elems.map some).take (min t elems.length) := by
      rw [List.take_eq_take_iff]; simp
    rw [this] at hx
    exact List.take_subset_take_left _ hle hx

/-- List_Concat: `List_Push` of every element of the source — the list only grows, by constructed elements -/
theorem C01_list_concat_mark_safe (elems : List α) (env : Env α) (hs : env.shape = Shape.list) :
    MarkSafe env ((Mach.init elems).exec env (prog .list false .concat)) := by
  apply markSafe_of_views_cover (exec_from env elems _ _ (init_from env elems))
  let I : Mach α → Prop := fun st => Good elems st.cells ∧ ∀ v ∈ st.views, Good elems v.cells
  have hI0 : I (Mach.init elems) := by
    refine ⟨⟨?_, ?_⟩, by simp [Mach.init, Mach.initCap]⟩
    · simpa [Mach.init, Mach.initCap] using all_some_map elems
    · intro x hx; simpa [Mach.init, Mach.initCap] using hx
  have hstep : ∀ j st, I st → I (st.run { env with j := j } listPush) := by
    intro j st ⟨hg, hv⟩
    simp only [listPush, Mach.run, List.foldl, Mach.step, Mach.view, Mach.presented, hs, presented_list]
    refine ⟨⟨?_, ?_⟩, ?_⟩
    · intro c hc
      rcases (List.mem_insertIdx (linkPos_le _ _ _)).mp hc with h | h
      · rw [h]; simp
      · exact hg.1 c h
    · intro x hx
      exact (List.mem_insertIdx (linkPos_le _ _ _)).mpr (Or.inr (hg.2 x hx))
    · intro v hvm
      rcases List.mem_cons.mp hvm with h | h
      · rw [h]; exact hg
      · exact hv v h
  have hloop := eachLoop_inv env listPush I hstep (List.range env.src.length) (Mach.init elems) hI0
  intro v hv
  simp only [prog, Mach.exec, List.foldl, Mach.instr] at hv
  exact hloop.2 v hv

/-- Table_Set_Move: the new entry is built in the swap space; the old entry (if the key exists) is destructed in its slot, then overwritten -/
theorem C01_table_set_mark_safe (elems : List α) (env : Env α) (hs : env.shape = Shape.table) :
    MarkSafe env ((Mach.init elems).exec env (prog .table false .set)) ∧
    MarkSafe env ((Mach.init elems).exec env (prog .table false .setNew)) := by
  constructor
  · apply markSafe_of_views_pre (exec_from env elems _ _ (init_from env elems))
    intro v hv
    simp only [prog, Mach.exec, Mach.instr, tableSetNew, tableSetEqual, List.cons_append, List.nil_append, Mach.run, Mach.step,
      Mach.view, Mach.init, Mach.initCap, Mach.presented, hs, presented_table, List.foldl, List.append_nil, List.mem_cons, List.mem_nil_iff,
      or_false] at hv
    rcases hv with rfl | rfl | rfl | rfl <;> rfl
  · apply markSafe_of_views_pre (exec_from env elems _ _ (init_from env elems))
    intro v hv
    simp only [prog, Mach.exec, Mach.instr, tableSetNew, tableSetEmpty, List.cons_append, List.nil_append, Mach.run, Mach.step,
      Mach.view, Mach.init, Mach.initCap, Mach.presented, hs, presented_table, List.foldl, List.append_nil, List.mem_cons, List.mem_nil_iff,
      or_false, apply_ite Mach.views] at hv
    rcases hv with rfl | rfl <;> rfl

/-- Table_Rem: key and value are destructed in their slot, then the slot is cleared -/
theorem C01_table_rem_mark_safe (elems : List α) (env : Env α) (hs : env.shape = Shape.table) :
    MarkSafe env ((Mach.init elems).exec env (prog .table false .remKey)) := by
  apply markSafe_of_views_pre (exec_from env elems _ _ (init_from env elems))
  intro v hv
  simp only [prog, Mach.exec, Mach.instr, tableRem, Mach.run, Mach.step, Mach.view, Mach.init, Mach.initCap, Mach.presented, hs,
    presented_table, List.foldl, List.append_nil, List.mem_cons, List.mem_nil_iff, or_false] at hv
  rcases hv with h | h <;> rw [h]

/-- Table_Clear -/
theorem C01_table_clear_mark_safe (elems : List α) (env : Env α) (hs : env.shape = Shape.table) :
    MarkSafe env ((Mach.init elems).exec env (prog .table false .clear)) := by
  apply markSafe_of_views_pre (exec_from env elems _ _ (init_from env elems))
  have hloop := eachLoop_views_pre env tableClearLoop (elems.map some)
    (by
      intro j st hp hv
      simp only [tableClearLoop, Mach.run, List.foldl, Mach.step, Mach.view]
      refine ⟨hp, ?_⟩
      intro v hvm
      rcases List.mem_cons.mp hvm with h | h
      · rw [h]; exact hp
      · rcases List.mem_cons.mp h with h | h
        · rw [h]; exact hp
        · exact hv v h)
    (List.range elems.length) (Mach.init elems)
    (by simp [Mach.presented, hs, presented_table, Mach.init, Mach.initCap])
    (by simp [Mach.init, Mach.initCap])
  intro v hv
  simp only [prog, clearProg, Mach.exec, List.foldl, Mach.instr, tableClearTail, Mach.run, Mach.step, hs, Shape.table] at hv
  exact hloop.2 v (by simpa [Mach.init, Mach.initCap] using hv)

/-- Table_Assign: Table_Clear (every destructor sees the table as it was), then `Table_Set_Move` of every entry of the source into the emptied
    table (every Assign call sees the entries stored so far) -/
theorem C01_table_assign_mark_safe (elems : List α) (env : Env α) (hs : env.shape = Shape.table) :
    MarkSafe env ((Mach.init elems).exec env (prog .table false .assign)) := by
  -- the clearing loop: nothing but views changes
  let I : Mach α → Prop := fun st => st.cells = elems.map some ∧ st.out = none ∧ st.pend = none ∧ ∀ v ∈ st.views, v.cells = elems.map some
  have hI0 : I (Mach.init elems) := by simp [I, Mach.init, Mach.initCap]
  have hI : ∀ j st, I st → I (st.run { env with j := j } tableClearLoop) := by
    intro j st ⟨hc, ho, hp, hv⟩
    simp only [tableClearLoop, Mach.run, List.foldl, Mach.step, Mach.view, Mach.presented, hs, presented_table]
    refine ⟨hc, ho, hp, ?_⟩
    intro v hvm
    rcases List.mem_cons.mp hvm with h | h
    · rw [h]; exact hc
    · rcases List.mem_cons.mp h with h | h
      · rw [h]; exact hc
      · exact hv v h
  have h1 := eachLoop_inv env tableClearLoop I hI (List.range elems.length) (Mach.init elems) hI0
  -- the filling loop: the table holds constructed elements of the source only
  let J : Mach α → Prop := fun st => st.From env [] ∧ (∀ c ∈ st.cells, c ≠ none) ∧
    ∀ v ∈ st.views, ∀ c ∈ v.cells, c ≠ none
  have hJ : ∀ j st, J st → J (st.run { env with j := j } (tableSetNew ++ tableSetEmpty)) := by
    intro j st ⟨hf, hc, hv⟩
    refine ⟨run_from { env with j := j } [] _ st hf, ?_, ?_⟩
    · simp only [tableSetNew, tableSetEmpty, List.cons_append, List.nil_append, Mach.run, List.foldl, Mach.step, Mach.view, Mach.pos]
      intro c hcm
      by_cases hlt : env.i < st.cells.length
      · simp only [hlt, ↓reduceIte] at hcm
        rcases List.mem_or_eq_of_mem_set hcm with h | h
        · exact hc c h
        · rw [h]; simp
      · simp only [hlt, ↓reduceIte] at hcm
        rcases List.mem_append.mp hcm with h | h
        · exact hc c h
        · rw [List.mem_singleton] at h; rw [h]; simp
    · simp only [tableSetNew, tableSetEmpty, List.cons_append, List.nil_append, Mach.run, List.foldl, Mach.step, Mach.view, Mach.presented, hs,
        presented_table]
      intro v hvm
      rcases List.mem_cons.mp hvm with h | h
      · rw [h]; exact hc
      · rcases List.mem_cons.mp h with h | h
        · rw [h]; exact hc
        · exact hv v h
  intro v hv
  simp only [prog, clearProg, List.cons_append, List.nil_append, Mach.exec, List.foldl, Mach.instr, hs, Shape.table, Bool.false_eq_true, if_false] at hv ⊢
  have hlen : (Mach.init elems).cells.length = elems.length := by simp [Mach.init, Mach.initCap]
  rw [hlen] at hv ⊢
  generalize Mach.eachLoop env tableClearLoop (List.range elems.length) (Mach.init elems) = st1 at h1 hv ⊢
  obtain ⟨hc1, ho1, hp1, hv1⟩ := h1
  have hJ1 : J (st1.run env tableClearTail) := by
    simp only [tableClearTail, Mach.run, List.foldl, Mach.step]
    refine ⟨⟨by simp, by simp [ho1], by simp [hp1]⟩, by simp, ?_⟩
    intro w hw c hcm
    rw [hv1 w hw] at hcm
    exact all_some_map elems c hcm
  have h2 := eachLoop_inv env (tableSetNew ++ tableSetEmpty) J hJ (List.range env.src.length) _ hJ1
  obtain ⟨hf2, _, hv2⟩ := h2
  refine ⟨hv2 v hv, fun x hx => ?_⟩
  rcases final_from hf2 hx with h | h | h
  · cases h
  · exact Or.inl h
  · exact Or.inr (Or.inl h)

/-- Tree_Rem: key and value are destructed while the node is linked; Tree_Set of a new key: the node is linked after its key and value were assigned -/
theorem C01_tree_rem_setnew_mark_safe (elems : List α) (env : Env α) (hs : env.shape = Shape.tree) :
    MarkSafe env ((Mach.init elems).exec env (prog .tree false .remKey)) ∧
    MarkSafe env ((Mach.init elems).exec env (prog .tree false .setNew)) ∧
    MarkSafe env ((Mach.init elems).exec env (prog .tree true .setNew)) := by
  refine ⟨?_, ?_, ?_⟩ <;>
  · apply markSafe_of_views_pre (exec_from env elems _ _ (init_from env elems))
    intro v hv
    simp only [prog, Mach.exec, Mach.instr, treeRem, treeSetLeft, treeSetRoot, Mach.run, Mach.step, Mach.view, Mach.init, Mach.initCap, Mach.presented,
      hs, presented_tree_init, List.foldl, List.append_nil, List.mem_cons, List.mem_nil_iff, or_false, if_true, Bool.false_eq_true, if_false,
      apply_ite Mach.views] at hv
    rcases hv with rfl | rfl <;> rfl

/-- Tree_Set of a key that is there: key and value are assigned in place, in the linked node -/
theorem C01_tree_set_mark_safe (elems : List α) (env : Env α) (hs : env.shape = Shape.tree) (hi : env.i < elems.length) :
    MarkSafe env ((Mach.init elems).exec env (prog .tree false .set)) := by
  have hget : (elems.map some)[env.i]? = some (some elems[env.i]) := by simp [hi]
  have hn : ¬ (elems.length = 0) := by omega
  have hpres : ∀ cells : List (Cell α), presented Shape.tree cells elems.length = cells := by
    intro cells; simp [presented, Shape.tree, hn]
  intro v hv
  simp only [prog, Mach.exec, Mach.instr, treeSetEqual, Mach.run, Mach.step, Mach.view, Mach.init, Mach.initCap, Mach.presented, Mach.pos,
    hs, hpres, List.foldl, List.append_nil, hget, List.mem_cons, List.mem_nil_iff, or_false, Mach.final] at hv ⊢
  have hall : ∀ c ∈ (elems.map some).set env.i (some env.val), c ≠ none := by
    intro c hc
    rcases List.mem_or_eq_of_mem_set hc with h | h
    · exact all_some_map elems c h
    · rw [h]; simp
  rcases hv with rfl | rfl
  · -- inside Assign of the value: the node already holds the new value
    refine ⟨hall, fun x hx => Or.inr (Or.inr (mem_filterMap_id.mp hx))⟩
  · -- inside Assign of the key: the tree as it was
    refine ⟨all_some_map elems, fun x hx => ?_⟩
    rcases List.mem_or_eq_of_mem_set (mem_filterMap_id.mp hx) with h | h
    · exact Or.inr (Or.inr h)
    · have hx' : x = env.val := by simpa using h
      rcases from_val env elems with h0 | ⟨y, hy, hfrom⟩
      · cases h0
      · have : y = x := by rw [hx'] ; exact (Option.some.inj hy).symm
        subst this
        rcases hfrom with h1 | h1 | h1
        · exact Or.inr (Or.inr (some_mem_map_some.mpr h1))
        · exact Or.inl h1
        · exact Or.inr (Or.inl h1)

/-! known findings: the full statements, refuted on the model (which runs the statement order of the source), and what does hold -/

def C01_list_clear_mark_safe_statement : Prop :=
  ∀ (elems : List Nat) (env : Env Nat), env.shape = Shape.list → MarkSafe env ((Mach.init elems).exec env (prog .list false .clear))

/-- **KF-C01-clear-freed-cells (List).**  `List_Clear` frees each cell right after its destructor while `l->head` and the links still lead to it:
    a collection inside the destructor of the SECOND element walks the freed first cell. -/
theorem C01_list_clear_mark_safe_refuted : ¬ C01_list_clear_mark_safe_statement := by
  intro h
  have h2 := h [1, 2] { shape := Shape.list, zero := 0 } rfl ⟨Tag.dtor, [none, some 2]⟩
    (by simp [prog, clearProg, Mach.exec, Mach.instr, Mach.eachLoop, listClearPre, listClearLoop, listClearTail, Mach.run, Mach.step, Mach.view,
          Mach.init, Mach.initCap, Mach.presented, presented, Shape.list, Mach.pos, List.range, List.range.loop])
  exact h2.1 none (by simp) rfl

/-- … the destructor of the FIRST element sees the whole list -/
theorem C01_list_clear_first_call_partial (elems : List α) (env : Env α) (hs : env.shape = Shape.list) :
    ((Mach.init elems).run { env with j := 0 } listClearLoop).views = [⟨Tag.dtor, elems.map some⟩] := by
  simp [listClearLoop, Mach.run, Mach.step, Mach.view, Mach.init, Mach.initCap, Mach.presented, presented, hs, Shape.list]

def C01_tree_clear_mark_safe_statement : Prop :=
  ∀ (elems : List Nat) (env : Env Nat), env.shape = Shape.tree → MarkSafe env ((Mach.init elems).exec env (prog .tree false .clear))

/-- **KF-C01-clear-freed-cells (Tree).**  `Tree_Clear_Entry` frees a node (post-order) while its parent still links it and `m->root` is set:
    a collection inside a destructor of any node but the first walks freed nodes. -/
theorem C01_tree_clear_mark_safe_refuted : ¬ C01_tree_clear_mark_safe_statement := by
  intro h
  have h2 := h [1, 2] { shape := Shape.tree, zero := 0 } rfl ⟨Tag.dtor, [none, some 2]⟩
    (by simp [prog, clearProg, expand, Mach.exec, Mach.instr, Mach.eachLoop, treeClear, treeClearEntry, Mach.run, Mach.step, Mach.view,
          Mach.init, Mach.initCap, Mach.presented, presented, Shape.tree, treeMarkEmptyWhenLen0, Mach.pos, List.range, List.range.loop])
  exact h2.1 none (by simp) rfl

theorem C01_tree_clear_first_call_partial (elems : List α) (env : Env α) (hs : env.shape = Shape.tree) (hne : elems ≠ []) :
    ((Mach.init elems).run { env with j := 0 } treeClearEntry).views = [⟨Tag.dtor, elems.map some⟩, ⟨Tag.dtorKey, elems.map some⟩] := by
  have : ¬ (elems.length = 0) := fun h => hne (List.eq_nil_of_length_eq_zero h)
  simp [treeClearEntry, Mach.run, Mach.step, Mach.view, Mach.init, Mach.initCap, Mach.presented, presented, hs, Shape.tree, this]

def C01_array_fill_mark_safe_statement : Prop :=
  ∀ (elems : List Nat) (env : Env Nat), env.shape = Shape.array →
    MarkSafe env ((Mach.init elems).exec env (prog .array false .assign)) ∧ MarkSafe env ((Mach.init elems).exec env (prog .array false .concat))

/-- **KF-C01-array-uninit-slots.**  `Array_Assign` sets `nitems = len(obj)` over a fresh `malloc` block (and `Array_Concat` adds `len(obj)` to
    `nitems` before the new slots exist): a collection inside the Assign instance of any element but the last makes `Array_Mark` read slots
    that hold no element yet. -/
theorem C01_array_fill_mark_safe_refuted : ¬ C01_array_fill_mark_safe_statement := by
  intro h
  have h2 := (h [] { shape := Shape.array, zero := 0, src := [1, 2] } rfl).1 ⟨Tag.asg, [some 1, none]⟩
    (by simp [prog, clearProg, expand, Mach.exec, Mach.instr, Mach.eachLoop, arrayAssignHead, arrayAssignLoop, arrayAssignTail, arrayClearPre,
          arrayClearLoop, arrayClearTail, Mach.run, Mach.step, Mach.view, Mach.init, Mach.initCap, Mach.presented, presented, Shape.array, Mach.pos,
          List.range, List.range.loop, Env.val, takePad])
  exact h2.1 none (by simp) rfl


/-! ### from the intermediate states to the property -/

/-- **A collection inside a container operation.**  `h` is the heap while the container at `a` is in an intermediate state `e.obj`; `post` is
    the container when the operation has completed.  If the intermediate state presents every word `post` presents, except words of the
    operand (`extra`, held by the caller's frame), then whatever is reachable — from thread-local storage, a root-registered entry or the
    stack — when the operation completes is not put on the pending list by a collection that runs now, stays registered, unchanged. -/
theorem C01_mid_collection_safe {σ : Type} (S : MarkSet σ) (c : Cfg) (h : Heap) (wf : h.WF) (thread : Obj) (stack extra : List Word)
    (a : Addr) (e : Entry) (hl : h.lookup a = some e) (post : Obj)
    (hcov : ∀ w ∈ fields c post, w ∈ fields c e.obj ∨ w ∈ extra)
    (x : Addr) (hr : Reachable c (h.write a post) (rootWords c (h.write a post) thread stack) x) :
    (collect S c h thread (stack ++ extra)).1.lookup x = h.lookup x ∧ (h.lookup x).isSome = true ∧
      x ∉ (collect S c h thread (stack ++ extra)).2 :=
  mid_collection_safe S c h wf thread stack extra a e hl post hcov x hr

/-- **…for every operation with mark-safe intermediate states** (all the `C01_*_mark_safe` theorems above): the container of embedded elements
    at `a` is, inside the element call of view `v`, the container `.cont ty v.elems`; when the operation completes it is `.cont ty (r.final env)`.
    A collection inside that call (the operand's words on the stack) keeps everything that is reachable when the operation completes. -/
theorem C01_mid_op_collection_safe {σ : Type} (S : MarkSet σ) (c : Cfg) (h : Heap) (wf : h.WF) (thread : Obj) (stack : List Word)
    (a : Addr) (root : Bool) (ty : String) (env : Env Obj) (r : Mach Obj) (hsafe : MarkSafe env r) (v : View Obj) (hv : v ∈ r.views)
    (hl : h.lookup a = some ⟨.cont ty v.elems, root⟩)
    (x : Addr) (hr : Reachable c (h.write a (.cont ty (r.final env))) (rootWords c (h.write a (.cont ty (r.final env))) thread stack) x) :
    (collect S c h thread (stack ++ (fieldsL c env.src ++ fields c env.zero))).1.lookup x = h.lookup x ∧ (h.lookup x).isSome = true ∧
      x ∉ (collect S c h thread (stack ++ (fieldsL c env.src ++ fields c env.zero))).2 :=
  mid_collection_safe S c h wf thread stack _ a _ hl _ (fields_covered_of_markSafe c ty hsafe hv) x hr

/-! ### the class of seeded change c01_h, and non-vacuity -/

/-- **`a->nitems--` in front of `destruct(Array_Item(a, i))`** (seeded change c01_h; the memmove count then reads `a->nitems - i`): inside the
    destructor of element 0 of [1, 2, 3] `Array_Mark` stops before element 3, which the Array keeps. -/
theorem C01_array_pop_at_dec_first_refuted :
    ¬ ∀ (elems : List Nat) (env : Env Nat), env.shape = Shape.array → env.i < elems.length →
        MarkSafe env ((Mach.init elems).exec env [.seq [.dec, .destruct .idx, .moveDown 0, .reserveLess]]) := by
  intro h
  have h2 := h [1, 2, 3] { shape := Shape.array, zero := 0 } rfl (by decide) ⟨Tag.dtor, [some 1, some 2]⟩
    (by simp [Mach.exec, Mach.instr, Mach.run, Mach.step, Mach.view, Mach.init, Mach.initCap, Mach.presented, presented, Shape.array, takePad,
          moveDown, moveCount])
  have h3 := h2.2 3 (by simp [Mach.exec, Mach.instr, Mach.run, Mach.step, Mach.view, Mach.init, Mach.initCap, Mach.presented, presented,
    Shape.array, takePad, moveDown, moveCount, Mach.final])
  simp at h3

/-- the current source on a concrete Array: one destructor call, which sees [10, 20, 30]; [20, 30] stay -/
example : ((runOp .array .popAt { shape := Shape.array, zero := 0, i := 0 } [10, 20, 30]).views.map (·.cells) = [[some 10, some 20, some 30]]) ∧
    (runOp .array .popAt { shape := Shape.array, zero := (0 : Nat), i := 0 } [10, 20, 30]).final { shape := Shape.array, zero := 0 } = [20, 30] := by
  decide

/-- the hypotheses of `C01_mid_op_collection_safe` are met by a concrete, non-trivial state: the Array at 4096 holds Refs to 4160 and 4224,
    element 0 is being popped, a collection runs inside its destructor with no other root than the Array: 4224 (kept) survives -/
example : MarkSafe { shape := Shape.array, zero := Obj.raw "Ref" [0], i := 0 }
      ((Mach.init [Obj.raw "Ref" [4160], Obj.raw "Ref" [4224]]).exec { shape := Shape.array, zero := Obj.raw "Ref" [0], i := 0 } (prog .array false .popAt)) :=
  C01_array_pop_at_mark_safe _ [] _ rfl (by decide)

end Cello.Heap.Mid

/-! ### element types whose Assign instance ALLOCATES: the publication order of the operations that assign an element

  An element type like `struct Record { var name; var tags; }` with a deep-copying `Record_Assign` allocates once per field; every allocation
  may run a threshold collection.  At allocation point `k` the first `k` fields of the copy are stored in the target element and are
  reachable through nothing else.  `DMach` (Cello/HeapMid.lean) runs the statement lists of the current source and records what the
  container's Mark instance presents at every allocation point (`AView`); `DeepSafe`: only constructed cells, every kept element, and the
  element under assignment as soon as it holds a new field.  Proved for the operations that assign in place behind the publication
  (`Array_Push`, `Array_Push_At`, `Array_Set`, `List_Set`, `Tree_Set` on an existing key); refuted for the order of the seeded changes c01_l /
  c01_j and — a known finding of the unchanged tree — for the operations that build the entry outside the structure (`List_Push`,
  `List_Push_At`, `Table_Set_Move`, `Tree_Set` on a new key). -/

namespace Cello.Heap.Mid
open CelloGen.GcMid
variable {α : Type}

/-- **Array_Push, element type with an allocating Assign instance.**  For every Array (any content, any block size), every element type
    (`D`: any sequence of partly assigned states) and every operand: at EVERY allocation point of the Assign instance `Array_Mark` reads only
    constructed elements, presents every element the Array held, and presents the new element in its partly assigned state — `nitems++` and
    `Array_Alloc` (zeroed slot, valid header) come BEFORE `assign` in `CelloGen.GcMid.arrayPush`, re-extracted from src/Array.c on every run.
    With `nitems++` behind `assign` (seeded change c01_l) this theorem is false: `C01_array_push_count_after_assign_refuted`. -/
theorem C01_array_push_deep_safe (D : Deep α) (elems : List α) (k : Nat) (env : Env α) (hs : env.shape = Shape.array) :
    DeepSafe env ((DMach.initCap elems (List.replicate k none)).exec D env (prog .array false .push)) := by
  have hrun : ∃ rest, (DMach.initCap elems (List.replicate k none)).exec D env (prog .array false .push) =
      DMach.run D env [.alloc .last, .assign .last] { m := { cells := elems.map some ++ none :: rest, n := elems.length + 1 } } := by
    by_cases hk : k = 0
    · subst hk
      have : elems.length + 1 + (elems.length + 1) / 2 - elems.length = (elems.length + 1) / 2 + 1 := by omega
      refine ⟨List.replicate ((elems.length + 1) / 2) none, ?_⟩
      simp [prog, DMach.exec, DMach.instr, arrayPush, DMach.run, DMach.step, Mach.step, DMach.initCap, Mach.initCap, this, List.replicate_succ]
    · obtain ⟨k', rfl⟩ := Nat.exists_eq_succ_of_ne_zero hk
      refine ⟨List.replicate k' none, ?_⟩
      simp [prog, DMach.exec, DMach.instr, arrayPush, DMach.run, DMach.step, Mach.step, DMach.initCap, Mach.initCap, List.replicate_succ]
  obtain ⟨rest, hrun⟩ := hrun
  rw [hrun]
  refine deepSafe_of_avs (array_push_dstate D elems rest env hs) ?_ ?_ ?_
  · intro q c hc
    rcases List.mem_append.mp hc with h | h
    · exact all_some_map elems c h
    · rw [List.mem_singleton] at h; rw [h]; simp
  · intro q; simp
  · intro q x hx
    rw [DMach.run_m, array_push_final elems rest env hs] at hx
    rcases List.mem_append.mp hx with h | h
    · exact Or.inr (List.mem_append_left _ (some_mem_map_some.mpr h))
    · rw [List.mem_singleton] at h; exact Or.inl h

/-- **Array_Push_At**, the same: `nitems++`, room, memmove, `Array_Alloc(i)`, then `assign` (seeded change c01_j moves `nitems++` behind it:
    `C01_array_push_at_count_after_assign_refuted`) -/
theorem C01_array_push_at_deep_safe (D : Deep α) (elems : List α) (k : Nat) (env : Env α) (hs : env.shape = Shape.array)
    (hi : env.i ≤ elems.length) :
    DeepSafe env ((DMach.initCap elems (List.replicate k none)).exec D env (prog .array false .pushAt)) := by
  have hrun : ∃ rest, (DMach.initCap elems (List.replicate k none)).exec D env (prog .array false .pushAt) =
      DMach.run D env [.moveUp (-1), .alloc .idx, .assign .idx] { m := { cells := elems.map some ++ none :: rest, n := elems.length + 1 } } := by
    by_cases hk : k = 0
    · subst hk
      have : elems.length + 1 + (elems.length + 1) / 2 - elems.length = (elems.length + 1) / 2 + 1 := by omega
      refine ⟨List.replicate ((elems.length + 1) / 2) none, ?_⟩
      simp [prog, DMach.exec, DMach.instr, arrayPushAt, DMach.run, DMach.step, Mach.step, DMach.initCap, Mach.initCap, this, List.replicate_succ]
    · obtain ⟨k', rfl⟩ := Nat.exists_eq_succ_of_ne_zero hk
      refine ⟨List.replicate k' none, ?_⟩
      simp [prog, DMach.exec, DMach.instr, arrayPushAt, DMach.run, DMach.step, Mach.step, DMach.initCap, Mach.initCap, List.replicate_succ]
  obtain ⟨rest, hrun⟩ := hrun
  have hsplit : elems.map some = (elems.map some).take env.i ++ (elems.map some).drop env.i := (List.take_append_drop _ _).symm
  have hlenA : ((elems.map some).take env.i).length = env.i := by simp [hi]
  have hlen : elems.length + 1 = ((elems.map some).take env.i).length + ((elems.map some).drop env.i).length + 1 := by simp; omega
  have hst := array_push_at_dstate D ((elems.map some).take env.i) ((elems.map some).drop env.i) rest env hs hlenA.symm
  have hfin := array_push_at_final ((elems.map some).take env.i) ((elems.map some).drop env.i) rest env hs hlenA.symm
  rw [← hsplit, ← hlen] at hst hfin
  rw [hrun]
  refine deepSafe_of_avs hst ?_ ?_ ?_
  · intro q c hc
    simp only [List.mem_append, List.mem_cons] at hc
    rcases hc with h | h | h
    · exact all_some_map elems c (List.mem_of_mem_take h)
    · rw [h]; simp
    · exact all_some_map elems c (List.mem_of_mem_drop h)
  · intro q; simp
  · intro q x hx
    rw [Mach.final, DMach.run_m, hfin, mem_filterMap_id] at hx
    simp only [List.mem_append, List.mem_cons] at hx ⊢
    rcases hx with h | h | h
    · exact Or.inr (Or.inl h)
    · exact Or.inl (Option.some.inj h)
    · exact Or.inr (Or.inr (Or.inr h))

/-- the allocation points of an in-place assignment, on a container whose Mark instance presents all its cells -/
theorem C01_in_place_assign_deep_safe (D : Deep α) (elems : List α) (env : Env α) (hi : env.i < elems.length) (st : DMach α)
    (hc : st.m.cells = elems.map some) (hn : st.m.n = elems.length) (hav : st.aviews = [])
    (hp : ∀ cells : List (Cell α), cells.length = elems.length → presented env.shape cells elems.length = cells) :
    DeepSafe env (DMach.run D env [.assign .idx] st) := by
  obtain ⟨h1, h2⟩ := set_dstate D elems env hi st hc hn hav hp
  refine deepSafe_of_avs h1 (fun q => all_some_set) (fun q => self_mem_set _ (by simpa using hi)) ?_
  intro q x hx
  rw [Mach.final, h2, mem_filterMap_id] at hx
  rcases mem_set_other (q := some q) hx with h | h
  · exact Or.inl (Option.some.inj h)
  · exact Or.inr h

/-- **Array_Set / List_Set**: the element is assigned in place, inside the range the Mark instance walks -/
theorem C01_seq_set_deep_safe (D : Deep α) (elems : List α) (env : Env α) (hi : env.i < elems.length) :
    (env.shape = Shape.array → DeepSafe env ((DMach.initCap elems []).exec D env (prog .array false .set))) ∧
    (env.shape = Shape.list → DeepSafe env ((DMach.initCap elems []).exec D env (prog .list false .set))) := by
  constructor <;> intro hs
  · exact C01_in_place_assign_deep_safe D elems env hi _ (by simp [DMach.initCap, Mach.initCap]) rfl rfl
      (fun cells hl => by rw [hs]; exact presented_array_full cells _ hl)
  · exact C01_in_place_assign_deep_safe D elems env hi _ (by simp [DMach.initCap, Mach.initCap]) rfl rfl
      (fun cells _ => by rw [hs]; exact presented_list cells _)

/-- **Tree_Set on a key that exists**: key and value are assigned in the node that is linked in the tree -/
theorem C01_tree_set_deep_safe (D : Deep α) (elems : List α) (env : Env α) (hs : env.shape = Shape.tree) (hi : env.i < elems.length) :
    DeepSafe env ((DMach.initCap elems []).exec D env (prog .tree false .set)) := by
  have hrun : (DMach.initCap elems []).exec D env (prog .tree false .set) =
      DMach.run D env [.assign .idx] ((DMach.initCap elems []).step D env (.assignKey .idx)) := by
    simp [prog, DMach.exec, DMach.instr, treeSetEqual, DMach.run]
  rw [hrun]
  exact C01_in_place_assign_deep_safe D elems env hi _ (by simp [DMach.step, Mach.step, Mach.view, DMach.initCap, Mach.initCap])
    (by simp [DMach.step, Mach.step, Mach.view, DMach.initCap, Mach.initCap]) (by simp [DMach.step, DMach.initCap])
    (fun cells _ => by rw [hs]; exact presented_tree_full cells _ (by omega))

/-! the publication order `nitems++` AFTER `assign` (seeded changes c01_l: Array_Push, c01_j: Array_Push_At) -/

/-- the claim for an arbitrary statement order of an Array operation that adds one element -/
def DeepSafeOrder (evs : List Ev) : Prop :=
  ∀ (D : Deep (List Nat)) (elems : List (List Nat)) (env : Env (List Nat)), env.shape = Shape.array → env.i ≤ elems.length →
    DeepSafe env ((DMach.initCap elems []).exec D env [.seq evs])

/-- an allocation point at which a stored field of the element under assignment is not presented: a collection there frees the object -/
def LosesField (r : DMach (List Nat)) : Prop := ∃ v ∈ r.aviews, v.k ≠ 0 ∧ some v.part ∉ v.cells

theorem C01_loses_field_not_deep_safe {env : Env (List Nat)} {r : DMach (List Nat)} (h : LosesField r) : ¬ DeepSafe env r := by
  intro hs
  obtain ⟨v, hv, hk, hp⟩ := h
  rcases (hs v hv).2.1 with h0 | h0
  · exact hk h0
  · exact hp h0

/-- a record of two pointer fields, pushed into the empty Array / List / Table / Tree; the copies will be the objects 4160 and 4224 -/
def deepEnv (sh : Shape) : Env (List Nat) := { shape := sh, zero := [0, 0], src := [[4160, 4224]] }

/-- **`a->nitems++` behind `assign(Array_Item(a, a->nitems), obj)`** (seeded change c01_l): pushing the record [4160, 4224] into the empty Array, the
    allocation point of the second field finds the first field stored in a slot `Array_Mark` does not walk: the view presents nothing, object 4160
    is held by nothing the collector sees -/
theorem C01_array_push_count_after_assign_refuted :
    LosesField ((DMach.initCap [] []).exec (Deep.words 2) (deepEnv Shape.array) [.seq [.reserveFor 1, .alloc .atLen, .assign .atLen, .inc]]) ∧
    ¬ DeepSafeOrder [.reserveFor 1, .alloc .atLen, .assign .atLen, .inc] := by
  have h : LosesField ((DMach.initCap [] []).exec (Deep.words 2) (deepEnv Shape.array) [.seq [.reserveFor 1, .alloc .atLen, .assign .atLen, .inc]]) :=
    ⟨⟨0, 1, [4160, 0], []⟩, by decide, by decide, by decide⟩
  exact ⟨h, fun hall => C01_loses_field_not_deep_safe h (hall _ _ _ rfl (by decide))⟩

/-- the same order in Array_Push_At (seeded change c01_j) -/
theorem C01_array_push_at_count_after_assign_refuted :
    ¬ DeepSafeOrder [.reserveFor 1, .moveUp 0, .alloc .idx, .assign .idx, .inc] := by
  intro hall
  refine C01_loses_field_not_deep_safe ?_ (hall (Deep.words 2) [] (deepEnv Shape.array) rfl (by decide))
  exact ⟨⟨0, 1, [4160, 0], []⟩, by decide, by decide, by decide⟩

/-! known finding KF-C01-unlinked-entry-assign: the unchanged tree builds the new entry of a List / Table / Tree OUTSIDE the structure -/

/-- the full statement: every operation that assigns an element is deep-safe -/
def C01_entry_assign_deep_safe_statement : Prop :=
  ∀ (D : Deep (List Nat)) (elems : List (List Nat)) (env : Env (List Nat)), env.i ≤ elems.length →
    (env.shape = Shape.list → DeepSafe env ((DMach.initCap elems []).exec D env (prog .list false .push)) ∧
                              DeepSafe env ((DMach.initCap elems []).exec D env (prog .list false .pushAt))) ∧
    (env.shape = Shape.table → DeepSafe env ((DMach.initCap elems []).exec D env (prog .table false .setNew)) ∧
                               DeepSafe env ((DMach.initCap elems []).exec D env (prog .table false .set))) ∧
    (env.shape = Shape.tree → DeepSafe env ((DMach.initCap elems []).exec D env (prog .tree elems.isEmpty .setNew)))

/-- **KF-C01-unlinked-entry-assign.**  `List_Push` / `List_Push_At` assign the new element in a cell that `List_Link` has not linked in yet,
    `Table_Set_Move` builds the entry in the swap space, `Tree_Set` assigns key and value of a node that no parent links yet: at the second
    allocation point of the value's Assign instance the first stored field is presented by no Mark instance (the statement lists are those of
    the current source, `CelloGen.GcMid`) — with the record [4160, 4224] pushed into / set in the empty container, a collection there frees
    object 4160 -/
theorem C01_entry_assign_deep_safe_refuted :
    LosesField (runOpD (Deep.words 2) .list .push (deepEnv Shape.list) []) ∧
    LosesField (runOpD (Deep.words 2) .list .pushAt (deepEnv Shape.list) []) ∧
    LosesField (runOpD (Deep.words 2) .table .setNew (deepEnv Shape.table) []) ∧
    LosesField (runOpD (Deep.words 2) .table .set (deepEnv Shape.table) []) ∧
    LosesField (runOpD (Deep.words 2) .tree .setNew (deepEnv Shape.tree) []) ∧
    ¬ C01_entry_assign_deep_safe_statement := by
  have h1 : LosesField (runOpD (Deep.words 2) .list .push (deepEnv Shape.list) []) := ⟨⟨0, 1, [4160, 0], []⟩, by decide, by decide, by decide⟩
  refine ⟨h1, ⟨⟨0, 1, [4160, 0], []⟩, by decide, by decide, by decide⟩, ⟨⟨0, 1, [4160, 0], []⟩, by decide, by decide, by decide⟩,
    ⟨⟨0, 1, [4160, 0], []⟩, by decide, by decide, by decide⟩, ⟨⟨0, 1, [4160, 0], []⟩, by decide, by decide, by decide⟩, ?_⟩
  intro hall
  exact C01_loses_field_not_deep_safe h1 ((hall (Deep.words 2) [] (deepEnv Shape.list) (by decide)).1 rfl).1

/-- … what does hold there: at the FIRST allocation point (nothing stored yet) every element the container keeps is presented -/
theorem C01_list_push_first_point_partial (D : Deep α) (elems : List α) (env : Env α) (hs : env.shape = Shape.list) :
    ∀ v ∈ ((DMach.initCap elems []).exec D env (prog .list false .push)).aviews, v.cells = elems.map some := by
  intro v hv
  simp only [prog, DMach.exec, DMach.instr, listPush, DMach.run, DMach.step, Mach.step, Mach.view, DMach.initCap, Mach.initCap, Mach.presented,
    hs, presented_list, List.foldl, List.append_nil, List.nil_append] at hv
  exact (mem_avs hv).2

end Cello.Heap.Mid

namespace Cello.Heap
open Cello.Heap.Mid

/-- a container of embedded elements presents the words of its elements: more elements, more words -/
theorem C01_fields_cont_mono (c : Cfg) (ty : String) {es es' : List Obj} (h : ∀ e ∈ es, e ∈ es') :
    ∀ w ∈ fields c (.cont ty es), w ∈ fields c (.cont ty es') := by
  intro w hw
  simp only [fields] at hw ⊢
  split at hw
  · cases hw
  · split at hw
    · rename_i hleaf hmark
      simp only [hleaf, hmark, if_true, if_false, Bool.false_eq_true]
      obtain ⟨e, he, hwe⟩ := mem_fieldsL.mp hw
      exact mem_fieldsL.mpr ⟨e, h e he, hwe⟩
    · cases hw

/-- **A collection at an allocation point of an element's Assign instance.**  The container of embedded elements at `a` is, at the allocation
    point of view `v`, the container `.cont ty v.elems`.  `keep`: elements the container holds when the operation completes, other than the
    operand's copies that are not complete yet.  For a deep-safe operation, a collection that runs NOW (no extra root: the copies are held by
    nothing but the container) keeps everything that is reachable through the kept elements and through the element under assignment as far as
    it is assigned (`v.part`, once a field is stored): registered, unchanged, off the pending list. -/
theorem C01_deep_op_collection_safe {σ : Type} (S : MarkSet σ) (c : Cfg) (h : Heap) (wf : h.WF) (thread : Obj) (stack : List Word)
    (a : Addr) (root : Bool) (ty : String) (env : Env Obj) (r : DMach Obj) (hsafe : DeepSafe env r) (v : AView Obj) (hv : v ∈ r.aviews)
    (keep : List Obj) (hkeep : ∀ x ∈ keep, x ∈ r.m.final env ∧ x ∉ env.src.drop v.j ∧ x ≠ env.zero)
    (hl : h.lookup a = some ⟨.cont ty v.elems, root⟩) (x : Addr)
    (hr : Reachable c (h.write a (.cont ty (keep ++ (if v.k = 0 then [] else [v.part]))))
            (rootWords c (h.write a (.cont ty (keep ++ (if v.k = 0 then [] else [v.part])))) thread stack) x) :
    (collect S c h thread stack).1.lookup x = h.lookup x ∧ (h.lookup x).isSome = true ∧ x ∉ (collect S c h thread stack).2 := by
  obtain ⟨_, hpart, hfin⟩ := hsafe v hv
  have hsub : ∀ e ∈ keep ++ (if v.k = 0 then [] else [v.part]), e ∈ v.elems := by
    intro e he
    rcases List.mem_append.mp he with h1 | h1
    · obtain ⟨hf, hnd, hnz⟩ := hkeep e h1
      rcases hfin e hf with h2 | h2 | h2
      · exact mem_filterMap_id.mpr h2
      · exact absurd h2 hnd
      · exact absurd h2 hnz
    · split at h1
      · cases h1
      · rename_i hk
        rw [List.mem_singleton] at h1
        rcases hpart with h2 | h2
        · exact absurd h2 hk
        · rw [h1]; exact mem_filterMap_id.mpr h2
  have := mid_collection_safe S c h wf thread stack [] a _ hl _
    (fun w hw => Or.inl (C01_fields_cont_mono c ty hsub w hw)) x hr
  simpa using this

end Cello.Heap

namespace Cello.Heap.Mid
open CelloGen.GcMid

/-- the current source on a concrete Array: the record [4160, 4224] is pushed behind [5000, 5064]; the three allocation points of a two-field
    record see the old element and the new one with 0, 1, 2 fields stored; the hypotheses of `C01_array_push_deep_safe` are met -/
example : ((runOpD (Deep.words 2) .array .push (deepEnv Shape.array) [[5000, 5064]]).aviews.map fun v => (v.k, v.cells)) =
    [(0, [some [5000, 5064], some [0, 0]]), (1, [some [5000, 5064], some [4160, 0]]), (2, [some [5000, 5064], some [4160, 4224]])] := by decide

example : DeepSafe (deepEnv Shape.array) ((DMach.initCap [[5000, 5064]] (List.replicate 0 none)).exec (Deep.words 2) (deepEnv Shape.array) (prog .array false .push)) :=
  C01_array_push_deep_safe _ _ 0 _ rfl

end Cello.Heap.Mid

/-! ### extension round: the loops of the Mark instances, the pointer bounds of `GC_Set`, the two loops of `GC_Mark_Stack`, as terms extracted from
    the source (CelloGen/GcWalk.lean) and interpreted by Cello/HeapWalk.lean -/
namespace Cello.Heap
open CelloGen.GcWalk

/-- **`Array_Mark` hands every element of the block to the callback, each once, in order, and nothing else** — for every Array content.  The loop
    header is the one extracted from src/Array.c on this run; a header that starts at 1, stops at `nitems-1`, steps by 2 or runs to `<= nitems`
    makes `CountLoop.Complete` false and this theorem fail. -/
theorem C01_array_mark_presents_all :
    ∃ L, arrayMarkLoop = some L ∧ ∀ es : List Obj, Walk.arrayPresented L es = es :=
  ⟨_, rfl, fun es => Walk.arrayPresented_all _ (by decide) rfl es⟩

/-- **`Table_Mark` hands key and value of EVERY occupied slot to the callback** — the first and the last slot included, for every slot array —
    and tests the hash word before it touches a slot. -/
theorem C01_table_mark_presents_all :
    ∃ L, tableMarkLoop = some L ∧ L.guard = true ∧ ∀ slots : List Walk.Slot, Walk.tablePresented L slots = Walk.tableElems slots :=
  ⟨_, rfl, rfl, fun s => Walk.tablePresented_all _ (by decide) rfl s⟩

/-- the class of seeded change c01_n spelled out: an entry in the LAST slot of a table of any size is presented -/
theorem C01_table_mark_last_slot :
    ∃ L, tableMarkLoop = some L ∧ ∀ (slots : List Walk.Slot) (k v : Obj),
      Walk.tablePresented L (slots ++ [some (k, v)]) = Walk.tableElems slots ++ [k, v] := by
  obtain ⟨L, hL, _, h⟩ := C01_table_mark_presents_all
  refine ⟨L, hL, fun slots k v => ?_⟩
  rw [h]; simp [Walk.tableElems]

/-- **`List_Mark` visits every cell from `head` to the cell whose link is NULL**, **`Tuple_Mark` every item in front of the Terminal** (and returns
    on `items is NULL` first) -/
theorem C01_list_mark_presents_all : ∃ L, listMarkLoop = some L ∧ ∀ n, L.visits n = List.range n :=
  ⟨_, rfl, fun n => PtrLoop.visits_complete _ (by decide) n⟩

theorem C01_tuple_mark_presents_all : ∃ L, tupleMarkLoop = some L ∧ L.nullGuard = true ∧ ∀ n, L.visits n = List.range n :=
  ⟨_, rfl, rfl, fun n => SentLoop.visits_complete _ (by decide) n⟩

/-- what the abstract model takes a container to present (`fields` of `Obj.cont`: ALL elements; keys and values of ALL entries) is what the
    extracted loops present on the concrete block / slot array: the layer the `C01_mark_complete` family quantifies over loses nothing -/
theorem C01_cont_fields_are_loop_walks :
    (∀ L, arrayMarkLoop = some L → ∀ es, fieldsL Cfg.current (Walk.arrayPresented L es) = fields Cfg.current (.cont "Array" es)) ∧
    (∀ L, tableMarkLoop = some L → ∀ slots, fieldsL Cfg.current (Walk.tablePresented L slots) = fields Cfg.current (.cont "Table" (Walk.tableElems slots))) := by
  constructor
  · intro L hL es
    obtain ⟨L', hL', h⟩ := C01_array_mark_presents_all
    rw [hL] at hL'; cases hL'
    rw [h, fields, if_neg (by decide), if_pos (by decide)]
  · intro L hL slots
    obtain ⟨L', hL', _, h⟩ := C01_table_mark_presents_all
    rw [hL] at hL'; cases hL'
    rw [h, fields, if_neg (by decide), if_pos (by decide)]

/-- planted variants are refuted on concrete blocks: the exclusive bound `nslots - 1` loses the last slot (and wraps on an empty table), a start at 1
    loses the first, `<=` leaves the block, a step of 2 loses every other position; `while (*List_Next(l, item))` loses the last cell -/
theorem C01_mark_loop_variants_refuted :
    ({ start := 0, cmp := .lt, sub := 1, step := 1, guard := true, presents := [.key, .val] } : CountLoop).visits 5 = [0, 1, 2, 3] ∧
    ({ start := 1, cmp := .lt, sub := 0, step := 1, guard := false, presents := [.item] } : CountLoop).visits 3 = [1, 2] ∧
    ({ start := 0, cmp := .le, sub := 0, step := 1, guard := false, presents := [.item] } : CountLoop).visits 3 = [0, 1, 2, 3] ∧
    ({ start := 0, cmp := .lt, sub := 0, step := 2, guard := false, presents := [.item] } : CountLoop).visits 4 = [0, 2] ∧
    ({ start := 0, cmp := .le, sub := 1, step := 1, guard := false, presents := [.item] } : CountLoop).visits 0 = [0, 1] ∧
    ({ fromHead := true, cond := .next, advNext := true } : PtrLoop).visits 3 = [0, 1] ∧
    ({ start := 1, nullGuard := true, step := 1 } : SentLoop).visits 3 = [1, 2] := by decide

example : ∃ L, tableMarkLoop = some L ∧ L.visits 5 = [0, 1, 2, 3, 4] := ⟨_, rfl, by decide⟩
example : ∃ L, listMarkLoop = some L ∧ L.visits 3 = [0, 1, 2] ∧ L.visits 0 = [] := ⟨_, rfl, by decide, by decide⟩

/-- **The pointer bounds `GC_Mark_Item` filters with contain every registered address**: the two conditional expressions of `GC_Set` (their
    comparison operators extracted) compute `max` / `min` of the old bound and the new pointer — `Heap.register` is that step —, they and the
    registration stand in front of the threshold collection, `GC_New` starts from the empty interval, and no other statement of GC.c writes them. -/
theorem C01_gc_set_bounds :
    gcSetBoundsBeforeCollect = true ∧ gcNewBoundsInit = (true, true) ∧ gcBoundWrites = 4 ∧
    (∀ key cur, Walk.boundStep gcSetMaxOp key cur = max cur key) ∧ (∀ key cur, Walk.boundStep gcSetMinOp key cur = min cur key) ∧
    (∀ (h : Heap) a e, (h.lookup a).isSome = false →
      (h.register a e).maxptr = Walk.boundStep gcSetMaxOp a h.maxptr ∧ (h.register a e).minptr = Walk.boundStep gcSetMinOp a h.minptr) := by
  refine ⟨rfl, rfl, rfl, Walk.boundStep_max, Walk.boundStep_min, fun h a e hn => ?_⟩
  have e1 : gcSetMaxOp = ">" := rfl
  have e2 : gcSetMinOp = "<" := rfl
  rw [e1, e2, Walk.boundStep_max, Walk.boundStep_min]
  unfold Heap.register
  rw [if_neg (by simp [hn])]
  exact ⟨rfl, rfl⟩

/-- a `GC_Set` that kept the smaller pointer as `maxptr` is refuted: the second, higher object falls outside the interval -/
theorem C01_gc_set_bounds_variant_refuted : Walk.boundStep "<" 4096 1024 = 1024 ∧ Walk.boundStep ">" 4096 1024 = 4096 := by decide

/-- **`GC_Mark_Stack` hands every word between `&stk` and `gc->bottom`, both ends included, to `GC_Mark_Item`**, whichever way the stack grows
    (addresses in words; the two loops are the ones extracted from the source) -/
theorem C01_stack_scan_covers :
    stackScanProlog = true ∧
    ∀ top bot w, top ≠ bot → min top bot ≤ w → w ≤ max top bot → w ∈ Walk.stackVisits stackScanLoops top bot := by
  refine ⟨rfl, fun top bot w hne hlo hhi => ?_⟩
  have e : stackScanLoops = [("<", "top", ">=", "bot", "-"), (">", "top", "<=", "bot", "+")] := rfl
  rw [e]
  simp only [Walk.stackVisits, List.flatMap_cons, List.flatMap_nil, List.append_nil, List.mem_append]
  by_cases hb : bot < top
  · left
    have : Walk.scanLoop ("<", "top", ">=", "bot", "-") top bot = (List.range (top - bot + 1)).map (fun j => top - j) := by
      simp [Walk.scanLoop, hb]
    rw [this, List.mem_map]
    exact ⟨top - w, by rw [List.mem_range]; omega, by omega⟩
  · right
    have hb' : bot > top := by omega
    have : Walk.scanLoop (">", "top", "<=", "bot", "+") top bot = (List.range (bot - top + 1)).map (fun j => top + j) := by
      simp [Walk.scanLoop, hb']
    rw [this, List.mem_map]
    exact ⟨w - top, by rw [List.mem_range]; omega, by omega⟩

/-- the exclusive comparisons lose the word at `gc->bottom` -/
theorem C01_stack_scan_exclusive_refuted :
    10 ∉ Walk.stackVisits [("<", "top", ">", "bot", "-"), (">", "top", "<", "bot", "+")] 14 10 ∧
    10 ∈ Walk.stackVisits stackScanLoops 14 10 ∧ 14 ∈ Walk.stackVisits stackScanLoops 10 14 := by decide

end Cello.Heap
