/-
  C08 — type-class dispatch returns exactly what the type declares.

  Property theorems only.  Model: Cello/Dispatch.lean (Type_Scan, Type_Instance with the Type_Cache_Entry list,
  Type_Implements, Type_Method_At_Offset, Type_Implements_Method_At_Offset, Type_Of, cast, Type_New word by word on a
  storage with any previous contents, re-construction in place; the small-step machine of one lookup as a sequence of
  atomic word accesses; the heap of several type objects whose class objects are themselves re-constructible, deletable
  type objects with memoised addresses).  Spec: `declared` = the instance of the first triple with
  the class's name; `specObs` = what each lookup must return as a function of the declaration only.
  Source-derived facts: CelloGen/Disp.lean (Type_Cache_Entry table, CELLO_CACHE_NUM, CELLO_NBUILTINS, the declared
  matrix of every Cello(…) object, the texts of the modelled functions).  Lemmas: CelloProofs/Lemmas/Disp*.lean.
-/
import Cello.Dispatch
import CelloGen.Disp
import CelloProofs.Lemmas.Disp
import CelloProofs.Lemmas.DispConc
import CelloProofs.Lemmas.DispWorld
import CelloProofs.Lemmas.DispSolo
import CelloProofs.Lemmas.DispLive
import CelloProofs.Lemmas.DispNew
import CelloProofs.Lemmas.DispHeap
import CelloProofs.Lemmas.DispBorrow
import CelloProofs.Lemmas.DispId
import CelloProofs.Lemmas.DispShared
import Cello.DispatchMsg

namespace Cello.Dispatch

/-- the Type_Cache_Entry table of the current source as the model uses it: slot index ↦ class object (library classes
    are the class objects with identity 0 and their declared name) -/
def slotsNow : List (Nat × Cls) := CelloGen.Disp.cacheSlots.map (fun p => (p.1, ⟨0, p.2⟩))

/-! ## facts about the generated tables (`decide` over the finite tables regenerated from the source on every run) -/

/-- G3/G4: the cache indices of `Type_Instance` are pairwise distinct and inside the `CELLO_CACHE_NUM` cache words, the
    cached classes are pairwise distinct. Two classes wired to one slot, or an index ≥ CELLO_CACHE_NUM, break the build here. -/
theorem C08_cache_table :
    (CelloGen.Disp.cacheSlots.map Prod.fst).Nodup ∧
    (∀ s ∈ CelloGen.Disp.cacheSlots, s.1 < CelloGen.Disp.cacheNum) ∧
    (CelloGen.Disp.cacheSlots.map Prod.snd).Nodup := by decide

/-- the table is usable by the model: what the lookup theorems assume about it -/
theorem C08_slots_ok : SlotsOK slotsNow CelloGen.Disp.cacheNum := by
  constructor
  · have h : slotsNow.map Prod.fst = CelloGen.Disp.cacheSlots.map Prod.fst := by
      simp [slotsNow, Function.comp_def]
    rw [h]; exact C08_cache_table.1
  · intro s hs
    simp only [slotsNow, List.mem_map] at hs
    obtain ⟨p, hp, rfl⟩ := hs
    exact C08_cache_table.2.1 p hp

/-- G4: layout of a type object as the model assumes it: the static initialiser reserves exactly `CELLO_CACHE_NUM` cache
    words, they are a whole number of `struct Type` cells, and the first instance triple is cell
    `CELLO_CACHE_NUM/3 + 2` (after the cache cells, `__Name` and `__Size`): an off-by-one in `CELLO_NBUILTINS` fails here. -/
theorem C08_layout :
    CelloGen.Disp.cacheHeaderNulls = CelloGen.Disp.cacheNum ∧ CelloGen.Disp.cacheNum % 3 = 0 ∧
    CelloGen.Disp.nBuiltinsDiv = 3 ∧ CelloGen.Disp.nBuiltins = CelloGen.Disp.cacheNum / 3 + 2 ∧
    CelloGen.Disp.magicNum ≠ CelloGen.Disp.deadMagic := by decide

/-- every cached class is a declared type object, and every class used in an `Instance(…)` is a declared type object
    whose struct arity is known (so that the member flags of the matrix are padded to the full struct) -/
theorem C08_matrix_closed :
    (∀ s ∈ CelloGen.Disp.cacheSlots, CelloGen.Disp.declared.any (fun d => d.1 = s.2) = true) ∧
    (∀ d ∈ CelloGen.Disp.declared, ∀ i ∈ d.2,
        CelloGen.Disp.classArity.any (fun a => a.1 = i.1 && a.2 = i.2.length) = true) ∧
    (CelloGen.Disp.declared.map Prod.fst).Nodup := by decide

/-- the functions and macros the model mirrors have, in the current source, the text the model was written against -/
theorem C08_source_as_modelled :
    CelloGen.Disp.typeScanSrc = CelloGen.Disp.typeScanSrcModelled ∧
    CelloGen.Disp.cacheEntrySrc = CelloGen.Disp.cacheEntrySrcModelled ∧
    CelloGen.Disp.typeInstanceTailSrc = CelloGen.Disp.typeInstanceTailSrcModelled ∧
    CelloGen.Disp.typeImplementsSrc = CelloGen.Disp.typeImplementsSrcModelled ∧
    CelloGen.Disp.methodAtSrc = CelloGen.Disp.methodAtSrcModelled ∧
    CelloGen.Disp.implementsMethodAtSrc = CelloGen.Disp.implementsMethodAtSrcModelled ∧
    CelloGen.Disp.castSrc = CelloGen.Disp.castSrcModelled ∧
    CelloGen.Disp.typeOfSrc = CelloGen.Disp.typeOfSrcModelled ∧
    CelloGen.Disp.typeNewSrc = CelloGen.Disp.typeNewSrcModelled ∧
    CelloGen.Disp.wrappersSrc = CelloGen.Disp.wrappersSrcModelled ∧
    CelloGen.Disp.celloObjectMacro = CelloGen.Disp.celloObjectMacroModelled ∧
    CelloGen.Disp.instanceMacro = CelloGen.Disp.instanceMacroModelled ∧
    CelloGen.Disp.typeStruct = CelloGen.Disp.typeStructModelled ∧
    CelloGen.Disp.methodMacros = CelloGen.Disp.methodMacrosModelled :=
  ⟨rfl, rfl, rfl, rfl, rfl, rfl, rfl, rfl, rfl, rfl, rfl, rfl, rfl, rfl⟩

/-! ## sequential lookups: every type record, every class, every history -/

/-- **C08 (core, one declaration).** For every Type_Cache_Entry table with distinct in-range indices, every type record `t` — any number
    of triples in any order, duplicate class names, distinct class objects that share a name — in any state that satisfies
    the invariant relative to a declaration `D` (in particular any state reachable from a freshly built record, see
    `C08_fresh_inv`), and every **history** of lookups (`type_instance`/`instance`, `type_implements`/`implements`,
    `type_method`/`method`, `type_implements_method`/`implements_method`, white-box resets) in any order, cold or warm:
    what each lookup returns is `specObs D` — a function of the declaration and the requested class only, not of the
    history — and the invariant (cache word empty or declared instance of its slot's class; memoised class pointer empty
    or a class of the triple's name on the declared triple; triples unchanged) holds again afterwards. -/
theorem C08_lookup_exact_record (slots : List (Nat × Cls)) (n : Nat) (hs : SlotsOK slots n)
    (D : String → Option Inst) (t : TypeRec) (h : Inv D slots n t) (ops : List Op) :
    (runOps slots t ops).2 = ops.map (specObs t.sentinel D) ∧ Inv D slots n (runOps slots t ops).1 :=
  runOps_spec hs ops t h

/-- a freshly built type object — what `Cello(…)`/`CelloEmpty(…)` initialise statically and what `Type_New` builds at run
    time — satisfies the invariant relative to its own triples, and its declaration is "first triple with that name" -/
theorem C08_fresh_inv (slots : List (Nat × Cls)) (n : Nat) (hdr sent : Bool) (es : List (String × Inst)) :
    Inv (declared (mkType n hdr es sent).entries) slots n (mkType n hdr es sent) ∧
    ∀ nm, declared (mkType n hdr es sent).entries nm = (es.find? (fun p => p.1 = nm)).map (·.2) :=
  ⟨mkType_inv slots n hdr sent es, fun nm => declared_mkEntries es nm⟩

/-- **C08 for the code as it is in /repo now**: with the Type_Cache_Entry table and `CELLO_CACHE_NUM` read from the
    current source, every history of lookups on every freshly built type object (static or run-time, 0…∞ instances)
    returns, lookup by lookup, what the first triple with the class's name declares. -/
theorem C08_current_source (hdr sent : Bool) (es : List (String × Inst)) (ops : List Op) :
    (runOps slotsNow (mkType CelloGen.Disp.cacheNum hdr es sent) ops).2 =
      ops.map (specObs sent (fun nm => (es.find? (fun p => p.1 = nm)).map (·.2))) := by
  have h := (C08_lookup_exact_record slotsNow _ C08_slots_ok _ _ (mkType_inv slotsNow CelloGen.Disp.cacheNum hdr sent es) ops).1
  rw [h]
  have hD : declared (mkType CelloGen.Disp.cacheNum hdr es sent).entries
      = fun nm => (es.find? (fun p => p.1 = nm)).map (·.2) := funext (declared_mkEntries es)
  rw [hD]
  rfl

/-! ## the life cycle of run-time type objects: construction on any storage, re-construction in place -/

/-- the layout constants of the current source as the model of `Type_New` uses them -/
def layoutNow : Layout :=
  { cacheNum := CelloGen.Disp.cacheNum, nBuiltins := CelloGen.Disp.nBuiltins, maxInstances := CelloGen.Disp.maxInstances }

/-- G4: in the current source the cache words are whole `struct Type` cells and the instance triples start right after
    the `__Name` and `__Size` cells — what `Type_New`'s index arithmetic (`cache_entries+0/1`, `CELLO_NBUILTINS-2+i`) needs -/
theorem C08_layout_ok : LayoutOK layoutNow := ⟨by decide, by decide⟩

/-- G5: `Type` declares `Instance(New, Type_New, NULL)` — a constructor and NO destructor, so `destruct(T)` leaves every
    word of a type object as it is and `Type_New` alone decides what a re-constructed type object contains — and its own
    `Assign` and `Copy` members (both refuse with ValueError): a type object cannot be overwritten through assign/copy. -/
theorem C08_type_new_is_the_only_writer :
    ((CelloGen.Disp.declared.find? (fun d => d.1 = "Type")).map
        (fun d => (d.2.find? (fun i => i.1 = "New")).map (·.2))) = some (some [true, false]) ∧
    ((CelloGen.Disp.declared.find? (fun d => d.1 = "Type")).map
        (fun d => ((d.2.find? (fun i => i.1 = "Assign")).map (·.2), (d.2.find? (fun i => i.1 = "Copy")).map (·.2))))
      = some (some [true], some [true]) := by decide

/-- **`Type_New` re-establishes the invariant from ANY previous contents of the storage.** For the layout of the current
    source, every storage `mem` of the size `Type_Alloc` reserves — no hypothesis on its words: zeroes, junk, or the
    warmed cache words, memoised class pointers and triples of a previous incarnation of the type — and every instance
    list of at most CELLO_MAX_INSTANCES: `Type_New` writes word for word the fresh type object of that list (all
    CELLO_CACHE_NUM cache words NULL, `__Name`, `__Size`, the triples in argument order with NULL `cls` words, the NULL
    terminator; the words after the terminator keep their old values), that storage reads back as `mkType … es`, and it
    satisfies the lookup invariant ("each cache word is empty or holds the CURRENT declaration's instance, each memoised
    class pointer is empty or sound") relative to the NEW declaration `declOf es`.  With more instances it raises
    OutOfMemoryError before writing anything. -/
theorem C08_type_new_any_storage (slots : List (Nat × Cls)) (hdr sent : Bool) (mem : List Word) (name : String) (size : Nat)
    (es : List (String × Inst)) (hlen : mem.length = 3 * layoutNow.cells) :
    (es.length ≤ CelloGen.Disp.maxInstances →
      typeNewRaw layoutNow mem name size es =
        ((freshStore layoutNow hdr sent name size es (mem.drop (3 * (layoutNow.nBuiltins + es.length + 1)))).toRaw, .ok ()) ∧
      constructAt layoutNow hdr sent mem name size es =
        (some (freshStore layoutNow hdr sent name size es (mem.drop (3 * (layoutNow.nBuiltins + es.length + 1)))), .ok ()) ∧
      StoreOK layoutNow (declOf es) slots
        (freshStore layoutNow hdr sent name size es (mem.drop (3 * (layoutNow.nBuiltins + es.length + 1))))) ∧
    (CelloGen.Disp.maxInstances < es.length →
      typeNewRaw layoutNow mem name size es = (mem, .raised .OutOfMemoryError)) := by
  have sp := constructAt_spec C08_layout_ok slots hdr sent mem name size es hlen
  constructor
  · intro hn
    have hfit : 3 * (layoutNow.nBuiltins + es.length + 1) ≤ mem.length := by
      rw [hlen]; unfold Layout.cells; show _ ≤ 3 * (layoutNow.nBuiltins + CelloGen.Disp.maxInstances + 1); omega
    exact ⟨typeNewRaw_eq_toRaw C08_layout_ok hdr sent mem name size es hn hfit, (sp.1 hn).1, (sp.1 hn).2⟩
  · intro hn
    have hn' : es.length > layoutNow.maxInstances := hn
    unfold typeNewRaw
    rw [if_pos hn']

/-- a storage reads back (with the indices the C code uses) as exactly the type object whose words it holds: the raw
    level and the record level of the model describe the same object -/
theorem C08_storage_view (s : Store) (hc : s.trec.cache.length = CelloGen.Disp.cacheNum) :
    Store.ofRaw layoutNow s.trec.hdr s.trec.sentinel s.toRaw = some s :=
  ofRaw_toRaw C08_layout_ok s hc

/-- **Re-construction in place** — `destruct(T); construct(T, name, size, instances…)` on a live run-time type object, in
    ANY state of its cache words, memoised class pointers and triples (no invariant is assumed of the old incarnation, only
    the size of the storage): the record becomes `mkType … es` — every cache word empty again, in EVERY slot — and the
    object satisfies the invariant relative to the new declaration; with more than CELLO_MAX_INSTANCES instances
    OutOfMemoryError is raised and the object is unchanged. -/
theorem C08_reconstruct_in_place (slots : List (Nat × Cls)) (s : Store) (name : String) (size : Nat)
    (es : List (String × Inst)) (hlen : s.toRaw.length = 3 * layoutNow.cells) :
    (es.length ≤ CelloGen.Disp.maxInstances →
      (constructIn layoutNow s name size es).2 = .ok () ∧
      (constructIn layoutNow s name size es).1.trec = mkType CelloGen.Disp.cacheNum s.trec.hdr es s.trec.sentinel ∧
      StoreOK layoutNow (declOf es) slots (constructIn layoutNow s name size es).1) ∧
    (CelloGen.Disp.maxInstances < es.length → constructIn layoutNow s name size es = (s, .raised .OutOfMemoryError)) :=
  constructIn_spec C08_layout_ok slots s name size es hlen

/-- **C08 (core, whole life cycle).** For the Type_Cache_Entry table and layout of the current source, every run-time type
    object whose record satisfies the invariant relative to the declaration `D` in force, and every **history** that
    interleaves lookups (`type_instance`/`instance`, `type_implements`/`implements`, `type_method`/`method`,
    `type_implements_method`/`implements_method`, white-box resets) — cold or warm, for classes in every cache slot and for
    uncached classes — with **re-constructions in place** with arbitrary other instance lists (classes added, removed,
    instance pointers changed, order changed, too many instances): every lookup returns `specObs` of the declaration
    CURRENTLY in force (`specLife`: the instance list of the last successful construction), never of an earlier one; a
    construction succeeds exactly when it has at most CELLO_MAX_INSTANCES instances and otherwise changes nothing; and the
    invariant holds at the end relative to the declaration then in force.  (This theorem is about ONE type object whose
    classes are given as values — pointer and name; class objects that are themselves re-constructed, deleted or replaced
    during the history, several type objects, and casts are the subject of `C08_world_history`.) -/
theorem C08_lookup_exact (D : String → Option Inst) (s : Store) (h : StoreOK layoutNow D slotsNow s) (ops : List LOp) :
    (runLife layoutNow slotsNow s ops).2 = specLife CelloGen.Disp.maxInstances s.trec.sentinel D ops ∧
    StoreOK layoutNow (declAfter CelloGen.Disp.maxInstances D ops) slotsNow (runLife layoutNow slotsNow s ops).1 :=
  runLife_spec C08_layout_ok C08_slots_ok ops D s h

/-- the same for any table and layout that satisfy the two side conditions (`SlotsOK`, `LayoutOK`) -/
theorem C08_lookup_exact_any_layout (L : Layout) (hL : LayoutOK L) (slots : List (Nat × Cls)) (hs : SlotsOK slots L.cacheNum)
    (D : String → Option Inst) (s : Store) (h : StoreOK L D slots s) (ops : List LOp) :
    (runLife L slots s ops).2 = specLife L.maxInstances s.trec.sentinel D ops ∧
    StoreOK L (declAfter L.maxInstances D ops) slots (runLife L slots s ops).1 :=
  runLife_spec hL hs ops D s h

/-- a storage as `Type_Alloc` returns it (calloc: all words NULL) -/
def zeroStorage : List Word := List.replicate (3 * layoutNow.cells) Word.null

/-- Non-vacuity of `C08_lookup_exact` / `C08_reconstruct_in_place` and the behaviour that a partial clearing of the cache
    words would break: a type constructed with `Hash = A, Len = B, Show = C, Cmp = D`; `Hash` (slot 6), `Len` (slot 7) looked up —
    the cache words 6 and 7 and two memoised class pointers are now set; re-constructed in place with `Show = C', Hash = A'`:
    all cache words and memo words are empty again, the old fourth triple lies untouched after the new terminator, `Hash` now answers
    `A'`, `Len` is absent (NULL, ClassError), and a 257-instance construction is refused and changes nothing. -/
example :
    let A : Inst := ⟨1, [true]⟩; let B : Inst := ⟨2, [true]⟩; let C : Inst := ⟨3, [true, false]⟩
    let A' : Inst := ⟨11, [true]⟩; let C' : Inst := ⟨13, [false, true]⟩
    let D : Inst := ⟨4, [true]⟩
    let s0 := freshStore layoutNow true false "Foo" 8 [("Hash", A), ("Len", B), ("Show", C), ("Cmp", D)] (zeroStorage.drop (3 * (layoutNow.nBuiltins + 4 + 1)))
    let hash : Cls := ⟨0, "Hash"⟩; let len : Cls := ⟨0, "Len"⟩
    let warm := runLife layoutNow slotsNow s0 [.look (.lookup hash), .look (.methodAt len 0)]
    let r := runLife layoutNow slotsNow warm.1
      [.construct "Foo" 8 [("Show", C'), ("Hash", A')], .look (.lookup hash), .look (.lookup len), .look (.methodAt len 0),
       .construct "Big" 0 (List.replicate 257 ("Cmp", A)), .look (.implements hash)]
    s0.toRaw.length = 3 * layoutNow.cells ∧
    warm.1.trec.cache[6]? = some (some A) ∧ warm.1.trec.cache[7]? = some (some B) ∧
    warm.1.trec.entries.map (·.memo) = [some hash, some len, none, none] ∧
    warm.2 = [.look (.inst (.ok (some A))), .look (.meth (.ok B))] ∧
    r.2 = [.constructed (.ok ()), .look (.inst (.ok (some A'))), .look (.inst (.ok none)), .look (.meth (.raised .ClassError)),
           .constructed (.raised .OutOfMemoryError), .look (.bool (.ok true))] ∧
    r.1.trec.cache[6]? = some (some A') ∧ r.1.trec.cache[7]? = some none ∧
    r.1.trec.entries.map (·.name) = ["Show", "Hash"] ∧ r.1.name = "Foo" ∧
    r.1.rest.take 3 = [Word.null, .str "Cmp", .inst D] := by
  decide +kernel

/-- A `Type_New` that cleared only the first `CELLO_CACHE_NUM/3` cache WORDS (`memset(t, 0, sizeof(var) * cache_entries)`: the
    planted bug of the self-test) instead of `CELLO_CACHE_NUM/3` cells is refuted by the invariant on a warm type object:
    word 6 (`Hash`) keeps the instance of the previous incarnation, which is not what the new instance list declares —
    whereas the model of the code as it is (`constructIn`) empties that word. -/
theorem C08_partial_cache_clear_refuted :
    let A : Inst := ⟨1, [true]⟩; let A' : Inst := ⟨11, [true]⟩
    let s0 := freshStore layoutNow true false "Foo" 8 [("Hash", A)] (zeroStorage.drop (3 * (layoutNow.nBuiltins + 1 + 1)))
    let warm := (runLife layoutNow slotsNow s0 [.look (.lookup ⟨0, "Hash"⟩)]).1
    let partialClear := List.replicate (layoutNow.cacheNum / 3) Word.null ++ warm.toRaw.drop (layoutNow.cacheNum / 3)
    (viewCache (partialClear.take layoutNow.cacheNum)).map (·[6]?) = some (some (some A)) ∧
    declOf [("Hash", A')] "Hash" = some A' ∧ A ≠ A' ∧
    (constructIn layoutNow warm "Foo" 8 [("Hash", A')]).1.trec.cache[6]? = some none := by
  decide +kernel

/-- the record-level `typeNew` (used wherever only the record matters) is the word-level `Type_New` run on the calloc'ed
    storage of `Type_Alloc`, read back as a record: at most `CELLO_MAX_INSTANCES` instances give the fresh record of the
    argument list on both levels, more are refused with OutOfMemoryError on both levels -/
theorem C08_type_new (name : String) (size : Nat) (es : List (String × Inst)) :
    (es.length ≤ CelloGen.Disp.maxInstances →
      typeNew CelloGen.Disp.cacheNum CelloGen.Disp.maxInstances es = .ok (mkType CelloGen.Disp.cacheNum true es) ∧
      (constructAt layoutNow true false zeroStorage name size es).1.map (·.trec) = some (mkType CelloGen.Disp.cacheNum true es)) ∧
    (CelloGen.Disp.maxInstances < es.length →
      typeNew CelloGen.Disp.cacheNum CelloGen.Disp.maxInstances es = .raised .OutOfMemoryError ∧
      (typeNewRaw layoutNow zeroStorage name size es).2 = .raised .OutOfMemoryError) := by
  have hlen : zeroStorage.length = 3 * layoutNow.cells := by simp [zeroStorage]
  have sp := C08_type_new_any_storage slotsNow true false zeroStorage name size es hlen
  constructor
  · intro hn
    refine ⟨?_, ?_⟩
    · unfold typeNew
      rw [if_neg (by omega)]
    · rw [(sp.1 hn).2.1]; rfl
  · intro hn
    refine ⟨?_, ?_⟩
    · unfold typeNew
      rw [if_pos hn]
    · rw [sp.2 hn]

/-- `implements` / `implements_method` agree with `instance` / `method` on every reachable state: the class is
    implemented iff `instance` is non-NULL; the member is implemented iff the method lookup succeeds. -/
theorem C08_implements_agree (slots : List (Nat × Cls)) (n : Nat) (hs : SlotsOK slots n)
    (D : String → Option Inst) (t : TypeRec) (h : Inv D slots n t) (cls : Cls) (k : Nat)
    (hk : ∀ inst, D cls.name = some inst → k < inst.members.length) :
    ((implementsT t cls).2 = true ↔ ∃ inst, (instanceOf slots t cls).2 = .ok (some inst)) ∧
    ((implementsMethodAt t cls k).2 = .ok true ↔ ∃ inst, (methodAt slots t cls k).2 = .ok inst) := by
  have h1 := (applyOp_spec hs h (.implements cls)).1
  have h2 := (applyOp_spec hs h (.lookup cls)).1
  have h3 := (applyOp_spec hs h (.implementsMethodAt cls k)).1
  have h4 := (applyOp_spec hs h (.methodAt cls k)).1
  simp only [applyOp, specObs, Obs.bool.injEq, Obs.inst.injEq, Outcome.ok.injEq] at h1 h2 h3 h4
  rw [h1, h2]
  constructor
  · cases D cls.name <;> simp
  · cases hD : D cls.name with
    | none =>
      rw [hD] at h3 h4
      simp only [Obs.bool.injEq, Obs.meth.injEq] at h3 h4
      rw [h3, h4]; simp
    | some inst =>
      rw [hD] at h3 h4
      have hlt := hk inst hD
      simp only [memberAt, hlt, dite_true, Obs.bool.injEq] at h3 h4
      rw [h3]
      cases hm : inst.members[k] <;> simp [hm] at h4 ⊢ <;> rw [h4] <;> simp

/-! ## ClassError exactly when the class or the member is absent (known finding: `Terminal` in the message) -/

/-- the full statement: a method lookup for an absent class raises ClassError — for every type and class -/
def C08_absent_raises_ClassError_statement : Prop :=
  ∀ (hdr sent : Bool) (es : List (String × Inst)) (cls : Cls) (k : Nat),
    (es.find? (fun p => p.1 = cls.name)) = none →
    (methodAt slotsNow (mkType CelloGen.Disp.cacheNum hdr es sent) cls k).2 = .raised .ClassError

/-- **Refuted** (known finding KF-C08-terminal-message): when the type or the class is the `Terminal` object, that object
    ends the argument tuple of the error message early, the format lacks an argument and `exception_throw` raises
    FormatError in place of ClassError. Witness: `type_method(T, Terminal, m)` for an empty type `T`. -/
theorem C08_absent_raises_ClassError_refuted : ¬ C08_absent_raises_ClassError_statement := by
  intro h
  have := h false false [] terminalCls 0 rfl
  revert this
  decide

/-- **Proved part**: for every type other than `Terminal` and every class other than `Terminal`, in every reachable state:
    the method lookup raises ClassError exactly when the class is absent or the member is NULL, and otherwise returns the
    declared instance (nothing is called: the result is the instance, the member is not applied). -/
theorem C08_classerror_partial (slots : List (Nat × Cls)) (n : Nat) (hs : SlotsOK slots n)
    (D : String → Option Inst) (t : TypeRec) (h : Inv D slots n t) (cls : Cls) (k : Nat)
    (hT : t.sentinel = false) (hC : cls ≠ terminalCls)
    (hk : ∀ inst, D cls.name = some inst → k < inst.members.length) :
    ((methodAt slots t cls k).2 = .raised .ClassError ↔
        (D cls.name = none ∨ ∃ inst, D cls.name = some inst ∧ inst.members[k]? = some false)) ∧
    (∀ inst, (methodAt slots t cls k).2 = .ok inst ↔ (D cls.name = some inst ∧ inst.members[k]? = some true)) ∧
    (∀ e, (methodAt slots t cls k).2 = .raised e → e = .ClassError) ∧ (methodAt slots t cls k).2 ≠ .ub := by
  have h4 := (applyOp_spec hs h (.methodAt cls k)).1
  simp only [applyOp, specObs] at h4
  have hth2 : thrown .ClassError [t.sentinel, decide (cls = terminalCls)] = .ClassError := by simp [thrown, hT, hC]
  have hth3 : thrown .ClassError [t.sentinel, decide (cls = terminalCls), false] = .ClassError := by simp [thrown, hT, hC]
  cases hD : D cls.name with
  | none =>
    rw [hD] at h4
    simp only [Obs.meth.injEq] at h4
    rw [h4, hth2]; simp
  | some inst =>
    rw [hD] at h4
    have hlt := hk inst hD
    have hget : inst.members[k]? = some inst.members[k] := List.getElem?_eq_getElem hlt
    simp only [memberAt, hlt, dite_true] at h4
    cases hm : inst.members[k] with
    | true =>
      simp only [hm, Obs.meth.injEq] at h4
      rw [h4]
      refine ⟨⟨?_, ?_⟩, ?_, ?_, ?_⟩
      · intro hh; cases hh
      · intro hh
        rcases hh with hh | ⟨i, hi, hf⟩
        · cases hh
        · cases hi; rw [hget, hm] at hf; cases hf
      · intro i; constructor
        · intro hi; cases hi; exact ⟨rfl, by rw [hget, hm]⟩
        · intro hi; cases hi.1; rfl
      · intro e he; cases he
      · intro hh; cases hh
    | false =>
      simp only [hm, Obs.meth.injEq] at h4
      rw [h4, hth3]
      refine ⟨⟨?_, ?_⟩, ?_, ?_, ?_⟩
      · intro _; exact Or.inr ⟨inst, rfl, by rw [hget, hm]⟩
      · intro _; rfl
      · intro i; constructor
        · intro hi; cases hi
        · intro hi; cases hi.1; have := hi.2; rw [hget, hm] at this; cases this
      · intro e he; cases he; rfl
      · intro hh; cases hh

/-! ## cast -/

/-- **cast raises ValueError exactly on a different type** (types without their own `cast` member; neither type is
    `Terminal`): for a well-formed object of type number `tid` in any world whose record of `tid` satisfies the invariant,
    `cast(self, ty)` returns `self` when `ty` is the object's type and raises ValueError otherwise; a type with its own
    non-NULL `cast` member gets that member called instead. -/
theorem C08_cast_exact (w : World) (n : Nat) (hs : SlotsOK w.slots n) (D : String → Option Inst)
    (tid ty : Nat) (t : TypeRec) (hget : w.get tid = some t) (h : Inv D w.slots n t) (castCls : Cls)
    (hm : ∀ c, D castCls.name = some c → 0 < c.members.length) :
    (castW castCls w (.obj .good tid) ty).2 =
      (match D castCls.name with
       | some c => if c.members[0]? = some true then Outcome.ok CastRes.custom
                   else if tid = ty then .ok .self
                   else .raised (thrown .ValueError [w.isSentinel tid, w.isSentinel ty])
       | none => if tid = ty then .ok .self
                 else .raised (thrown .ValueError [w.isSentinel tid, w.isSentinel ty])) :=
  castW_spec w n hs D tid ty t hget h castCls hm

/-- the same known finding seen through `cast`: casting an object to the type `Terminal` (or an object of type `Terminal`
    to anything else) raises FormatError in place of ValueError -/
theorem C08_cast_terminal_refuted :
    let w : World := { slots := slotsNow, theType := 0,
                       types := [(1, mkType CelloGen.Disp.cacheNum false [] true), (2, mkType CelloGen.Disp.cacheNum false [])] }
    (castW ⟨0, "Cast"⟩ w (.obj .good 2) 1).2 = .raised .FormatError ∧
    (castW ⟨0, "Cast"⟩ w (.obj .good 2) 2).2 = .ok .self := by decide

/-- **A well-formed object that is not a type object, used where a type is expected** (`type_instance(obj, cls)`,
    `type_implements(obj, cls)`): `Type_Scan` refuses it with TypeError — but `Type_Instance` reaches `Type_Scan` only for
    classes WITHOUT a cache slot.  For a class with a cache slot it first reads `((var*)self)[i]`, a word of (or past) the
    object's own body, and returns it when it is not NULL: no exception, an arbitrary word as "the instance" — `ub` in the
    model.  The two routes differ for the same misuse; the property's "instead of invoking anything" is about absent
    classes and members of a TYPE, so this is outside its quantifier, and no lookup of that kind is generated
    (`assumptions` of the evidence). -/
theorem C08_bad_self (w : World) (cls : Cls) (tid : Nat) (hne : tid ≠ w.theType) :
    (typeScanW w (.obj .good tid) cls).2 = .raised (thrown .TypeError [w.isSentinel tid]) ∧
    (slotOf w.slots cls = none → (typeInstanceW w (.obj .good tid) cls).2 = .raised (thrown .TypeError [w.isSentinel tid])) ∧
    (slotOf w.slots cls ≠ none → (typeInstanceW w (.obj .good tid) cls).2 = .ub) := by
  have h1 : (typeScanW w (.obj .good tid) cls).2 = .raised (thrown .TypeError [w.isSentinel tid]) := by
    simp [typeScanW, typeOfW, hne]
  refine ⟨h1, ?_, ?_⟩
  · intro hn
    simp only [typeInstanceW, hn]
    exact h1
  · intro hn
    cases hso : slotOf w.slots cls with
    | none => exact absurd hso hn
    | some p => simp only [typeInstanceW, hso]

/-- evaluations of the model's `Type_Of` (not counted as proof obligations): a NULL, freed or foreign `self` is refused
    with ValueError by every object-level lookup and by cast, before any lookup happens -/
example (w : World) (cls castCls : Cls) (tid ty : Nat) :
    (instanceW w .null cls).2 = .raised .ValueError ∧ (castW castCls w .null ty).2 = .raised .ValueError ∧
    (instanceW w (.obj .dead tid) cls).2 = .raised .ValueError ∧ (castW castCls w (.obj .dead tid) ty).2 = .raised .ValueError ∧
    (instanceW w (.obj .bad tid) cls).2 = .raised .ValueError ∧ (castW castCls w (.obj .bad tid) ty).2 = .raised .ValueError ∧
    (implementsW w .null cls).2 = .raised .ValueError ∧ (methodAtW w .null cls 0).2 = .raised .ValueError :=
  ⟨rfl, rfl, rfl, rfl, rfl, rfl, rfl, rfl⟩

/-- Non-vacuity of the third conjunct of `C08_bad_self`, on the table of the current source: `Size` has a cache slot -/
example : slotOf slotsNow ⟨0, "Size"⟩ ≠ none ∧ slotOf slotsNow ⟨0, "Show"⟩ = none := by decide

/-- **NULL as the class argument** (misuse; NULL is not a class, so this is outside "every class" — stated so that the
    audited file says what the code does).  `Type_Scan(T, NULL)`'s pointer loop matches the first triple whose `cls` word
    is still NULL: on a record with at least one un-memoised triple `type_instance(T, NULL)` returns that triple's
    instance (and `type_implements(T, NULL)` is true) without any exception; the answer moves as lookups memoise
    triples; once every triple is memoised the name loop reads through the NULL pointer (`ub`); an empty type answers
    NULL.  No lookup with a NULL class is generated except the harness probe `E nullcls` on records where the answer is
    defined. -/
theorem C08_null_class (n : Nat) (hdr sent : Bool) (p : String × Inst) (es : List (String × Inst)) :
    (scanNull (mkType n hdr (p :: es) sent)).2 = .ok (some p.2) ∧
    (scanNull (mkType n hdr [] sent)).2 = .ok none ∧
    (∀ t : TypeRec, t.entries ≠ [] → (∀ e ∈ t.entries, e.memo ≠ none) → (scanNull t).2 = .ub) := by
  refine ⟨rfl, rfl, ?_⟩
  intro t hne hall
  unfold scanNull
  have hf : t.entries.find? (fun e => e.memo.isNone) = none := by
    rw [List.find?_eq_none]
    intro e he
    have := hall e he
    cases hm : e.memo with
    | none => exact absurd hm this
    | some c => simp
  simp only [hf]
  cases hes : t.entries with
  | nil => exact absurd hes hne
  | cons e rest => rfl

/-- the answer for a NULL class depends on the history: the same type answers with its first triple when cold, with its
    second triple after the first one was looked up, and reads through NULL once both are memoised -/
example :
    let t := mkType CelloGen.Disp.cacheNum true [("Show", ⟨1, [true]⟩), ("Doc", ⟨2, [true]⟩)]
    let t1 := (scan t ⟨0, "Show"⟩).1
    let t2 := (scan t1 ⟨0, "Doc"⟩).1
    (scanNull t).2 = .ok (some ⟨1, [true]⟩) ∧ (scanNull t1).2 = .ok (some ⟨2, [true]⟩) ∧ (scanNull t2).2 = .ub := by
  decide

/-! ## several type objects; class objects that are re-constructed, deleted, replaced at the same address; cast histories -/

/-- **cast of a type object** (`cast(Int, Type)`, `cast(Int, Int)`): `type_of` of a type object is `Type`, the `Cast` lookup
    happens in `Type`'s own record, and the answer is `self` exactly when the requested type is `Type` (ValueError for any
    other, the type's own `cast` member if `Type` had one) — in every world whose records satisfy the invariant. -/
theorem C08_cast_type_object (w : World) (hs : w.slots = slotsNow)
    (hall : ∀ x t, w.get x = some t → Inv (declared t.entries) w.slots CelloGen.Disp.cacheNum t)
    (tid ty : Nat) (t tT : TypeRec) (hget : w.get tid = some t) (hgetT : w.get w.theType = some tT) :
    (castW castClsLib w (.typeObj tid) ty).2 = specCast (declared tT.entries) tT.sentinel (w.isSentinel ty) w.theType ty := by
  have hso : SlotsOK w.slots CelloGen.Disp.cacheNum := by rw [hs]; exact C08_slots_ok
  exact (castW_typeObj_spec hso hall hget hgetT ty).1

/-- **value equality of class values is pointer equality.**  The model writes a class pointer as the value
    "address + `__Name` of the object living there now".  In every heap that satisfies `Coherent` (part of `HeapOK`, preserved
    by `C08_world_history`), for every `cls` word `c` of every record and every class `cls` a reference denotes now:
    `c = cls` (what `scanPtr` tests) holds exactly when the addresses are equal (what `t->cls is cls` tests). -/
theorem C08_ptr_eq_is_value_eq (h : Heap) (hc : Coherent h) (tid : Nat) (t : TypeRec) (hget : h.w.get tid = some t)
    (c : Cls) (hmem : c ∈ memosOf t) (r : CRef) (cls : Cls) (hr : h.resolve r = some cls) : ptrEq c cls ↔ c = cls :=
  ptrEq_iff_eq hc hget hmem hr

/-- the record that the heap-level construction installs at an address is the record the word-level `Type_New` leaves
    there: from ANY words on fresh or re-used storage (`constructAt`), and from the words of the live incarnation when a
    type object is re-constructed in place (`constructIn`) -/
theorem C08_heap_construct_is_type_new (h : Heap) (addr : Nat) (name : String) (size : Nat) (es : List (String × Inst))
    (hn : es.length ≤ CelloGen.Disp.maxInstances) :
    (∀ mem : List Word, mem.length = 3 * layoutNow.cells → h.w.get addr = none →
      ((h.construct layoutNow addr name es).1.w.get addr) = (constructAt layoutNow true false mem name size es).1.map (·.trec)) ∧
    (∀ s : Store, s.toRaw.length = 3 * layoutNow.cells → h.w.get addr = some s.trec →
      ((h.construct layoutNow addr name es).1.w.get addr) = some (constructIn layoutNow s name size es).1.trec) := by
  have hbig : ¬ es.length > layoutNow.maxInstances := by show ¬ es.length > CelloGen.Disp.maxInstances; omega
  constructor
  · intro mem hlen hget
    rw [((C08_type_new_any_storage slotsNow true false mem name size es hlen).1 hn).2.1]
    simp only [Heap.construct, hbig, if_false, hget, get_put_same]
    rfl
  · intro s hlen hget
    rw [((C08_reconstruct_in_place slotsNow s name size es hlen).1 hn).2.1]
    simp only [Heap.construct, hbig, if_false, hget, get_put_same]
    rfl

/-- **C08 over several type objects (histories with class life cycles and casts).**  For the table and layout of the current
    source, every heap of type objects — statically declared ones and run-time ones, any of which may serve as a CLASS of
    others — that satisfies `HeapOK` (every record satisfies the lookup invariant relative to its own declaration; every
    memoised class pointer points at a live class object that still carries the memoised name, or at a dead one), and every
    **history** of: lookups through the four type-level entry points on any type with any class reference (a library class,
    or "the type object at address a", whose name is read WHEN the lookup runs), white-box resets, casts of objects and of
    type objects, constructions of new type objects (on fresh addresses or on the address of a deleted one),
    re-constructions in place (of types and of type objects used as classes), deletions — provided the history is `safe`:
    whenever `Type_New` writes a NAME at an address, every memoised class pointer that holds this address already reads as a
    class of that name (no record memoises the address — never looked up through, or caches reset — or the type object keeps
    its name).  Then every lookup answers `specObs` of the declaration in force for that type and of the class's CURRENT
    name, every cast answers `specCast`, constructions succeed exactly up to CELLO_MAX_INSTANCES, a dead type or class gives
    `ub`; `specHeap` is a function of declarations and names only — not of which lookups happened before.  `HeapOK` holds
    again at the end.  `safe` is executable and is evaluated on the states of the history itself; what happens outside
    it is the known finding KF-C08-class-memo-stale (`C08_memo_stale_refuted`). -/
theorem C08_world_history (h : Heap) (hs : h.w.slots = slotsNow) (hok : HeapOK CelloGen.Disp.cacheNum h) (ops : List HOp)
    (hsafe : Heap.safe layoutNow h ops = true) :
    (Heap.run layoutNow h ops).2 = specHeap CelloGen.Disp.maxInstances h.w.theType h.abs ops ∧
    HeapOK CelloGen.Disp.cacheNum (Heap.run layoutNow h ops).1 := by
  have hso : SlotsOK h.w.slots layoutNow.cacheNum := by rw [hs]; exact C08_slots_ok
  exact Heap.run_spec ops h h.abs hso hok (absRel_self h) hsafe

/-- the full statement: the same without the side condition `safe` -/
def C08_world_history_statement : Prop :=
  ∀ (h : Heap) (ops : List HOp), h.w.slots = slotsNow → HeapOK CelloGen.Disp.cacheNum h →
    (Heap.run layoutNow h ops).2 = specHeap CelloGen.Disp.maxInstances h.w.theType h.abs ops

/-- witness heap of the known finding: `Type` (address 0), a type `T` (address 1) that declares one instance for the class
    object `K` (address 2, named `Foo`, itself a run-time type object) -/
def staleHeap : Heap :=
  { w := { slots := slotsNow, theType := 0,
           types := [(0, mkType CelloGen.Disp.cacheNum false []), (1, mkType CelloGen.Disp.cacheNum true [("Foo", ⟨7, [true]⟩)]),
                     (2, mkType CelloGen.Disp.cacheNum true [])] },
    names := [(1, "T"), (2, "Foo")] }

/-- **Refuted** (known finding KF-C08-class-memo-stale).  `Type_Scan` memoises the ADDRESS of a class object and later
    answers by address alone; a run-time type object used as a class can be given another name in place (`Type` has no
    destructor, `Type_New` rewrites `__Name`), or be deleted and its address handed out to another type object.  Witnesses on
    the model that mirrors the code (and on the real library: corpus/kf_c08_class_renamed.ops):
    (1) `type_instance(T, K)` (memoised), `destruct(K); construct(K, "Bar")`, `type_instance(T, K)`: still the `Foo` instance,
    although `T` declares nothing for a class named `Bar` — and the same lookup on the same declaration answers NULL when no
    lookup came before;  (2) the same with `del(K)` and a new type object named `Beta` on `K`'s address. -/
theorem C08_memo_stale_refuted : ¬ C08_world_history_statement := by
  intro hst
  have hok : HeapOK CelloGen.Disp.cacheNum staleHeap := heapOK_of_okb (by decide +kernel)
  have := hst staleHeap [.look 1 .inst (.rt 2), .construct 2 "Bar" [], .look 1 .inst (.rt 2)] rfl hok
  revert this
  decide +kernel

/-- what the model (= the code) answers on the two witnesses, next to what the declaration says; the rename is exactly the
    step at which `safe` fails; the cold lookup after the same rename is right -/
example :
    let ins : Inst := ⟨7, [true]⟩
    let rename : List HOp := [.look 1 .inst (.rt 2), .construct 2 "Bar" [], .look 1 .inst (.rt 2), .look 1 .impl (.rt 2)]
    let aba : List HOp := [.look 1 .impl (.rt 2), .delete 2, .construct 2 "Beta" [("Show", ⟨9, [true]⟩)], .look 1 (.meth 0) (.rt 2)]
    let cold : List HOp := [.construct 2 "Bar" [], .look 1 .inst (.rt 2)]
    (Heap.run layoutNow staleHeap rename).2 =
      [.look (.inst (.ok (some ins))), .constructed (.ok ()), .look (.inst (.ok (some ins))), .look (.bool (.ok true))] ∧
    specHeap CelloGen.Disp.maxInstances 0 staleHeap.abs rename =
      [.look (.inst (.ok (some ins))), .constructed (.ok ()), .look (.inst (.ok none)), .look (.bool (.ok false))] ∧
    (Heap.run layoutNow staleHeap aba).2 = [.look (.bool (.ok true)), .unit, .constructed (.ok ()), .look (.meth (.ok ins))] ∧
    specHeap CelloGen.Disp.maxInstances 0 staleHeap.abs aba =
      [.look (.bool (.ok true)), .unit, .constructed (.ok ()), .look (.meth (.raised .ClassError))] ∧
    Heap.safe layoutNow staleHeap rename = false ∧ Heap.safe layoutNow staleHeap aba = false ∧
    Heap.safe layoutNow staleHeap cold = true ∧
    (Heap.run layoutNow staleHeap cold).2 = [.constructed (.ok ()), .look (.inst (.ok none))] := by
  decide +kernel

/-- **`safe` is needed only until the heap satisfies its invariant again.**  `Heap.safe` speaks at the step that WRITES a name
    (it fails as soon as some record memoises the address under another name), although a stale answer needs a LOOKUP that
    meets the stale word.  This theorem covers the histories in between: after ANY prefix — safe or not: a class object
    renamed while memoised, deleted and replaced — once the heap satisfies the executable invariant `okb` again (the
    memoising records were reset or re-constructed: decidable, evaluated on the state the prefix itself produces), every
    later operation of a `safe` rest is answered by `specHeap` of the declarations and names then in force.  What stays outside:
    a lookup on a heap in which some OTHER `cls` word (one this lookup does not meet) is stale; the code answers it
    correctly, the statement that covers it needs the invariant without the name clause of the memo words plus a side
    condition on the looked-up record only (not proved here). -/
theorem C08_world_history_resumes (h : Heap) (pre rest : List HOp)
    (hs : (Heap.run layoutNow h pre).1.w.slots = slotsNow)
    (hmid : (Heap.run layoutNow h pre).1.okb CelloGen.Disp.cacheNum = true)
    (hsafe : Heap.safe layoutNow (Heap.run layoutNow h pre).1 rest = true) :
    (Heap.run layoutNow h (pre ++ rest)).2 = (Heap.run layoutNow h pre).2 ++
      specHeap CelloGen.Disp.maxInstances (Heap.run layoutNow h pre).1.w.theType (Heap.run layoutNow h pre).1.abs rest ∧
    HeapOK CelloGen.Disp.cacheNum (Heap.run layoutNow h (pre ++ rest)).1 := by
  have hw := C08_world_history (Heap.run layoutNow h pre).1 hs (heapOK_of_okb hmid) rest hsafe
  rw [Heap.run_append]
  exact ⟨by rw [hw.1], hw.2⟩

/-- the history the second audit names — the class object `K` renamed while `T` memoises it, THEN `T` reset, then the lookup:
    `Heap.safe` rejects it at the rename, `C08_world_history_resumes` covers it (the invariant holds again after the
    reset), and the lookup answers NULL as the declaration says -/
example :
    let pre : List HOp := [.look 1 .inst (.rt 2), .construct 2 "Bar" [], .reset 1]
    let rest : List HOp := [.look 1 .inst (.rt 2), .look 1 .impl (.rt 2), .look 1 .inst (.lib "Foo")]
    Heap.safe layoutNow staleHeap (pre ++ rest) = false ∧
    (Heap.run layoutNow staleHeap (pre.take 2)).1.okb CelloGen.Disp.cacheNum = false ∧
    (Heap.run layoutNow staleHeap pre).1.okb CelloGen.Disp.cacheNum = true ∧
    (Heap.run layoutNow staleHeap pre).1.w.slots = slotsNow ∧
    Heap.safe layoutNow (Heap.run layoutNow staleHeap pre).1 rest = true ∧
    (Heap.run layoutNow staleHeap (pre ++ rest)).2.drop 3 =
      [.look (.inst (.ok none)), .look (.bool (.ok false)), .look (.inst (.ok (some ⟨7, [true]⟩)))] := by
  decide +kernel

/-- Non-vacuity of `C08_world_history`: a `safe` history on the same heap that re-constructs the memoised class object `K`
    under its OLD name (harmless), renames it after a white-box reset of `T` (harmless: no record memoises it), deletes it
    and builds another type object on its address, re-constructs `T` itself with an instance for that new class, looks
    classes up through dead references, and casts objects and type objects — all answered by `specHeap`. -/
example :
    let ins : Inst := ⟨7, [true]⟩
    let ops : List HOp :=
      [.look 1 .inst (.rt 2), .construct 2 "Foo" [("Cmp", ⟨8, [true]⟩)], .look 1 (.meth 0) (.rt 2), .look 2 .impl (.lib "Cmp"),
       .reset 1, .construct 2 "Bar" [], .look 1 .inst (.rt 2), .look 1 .inst (.lib "Foo"),
       .delete 2, .look 1 .inst (.rt 2), .construct 2 "Beta" [], .look 1 .impl (.rt 2),
       .construct 1 "T" [("Beta", ⟨9, [false]⟩), ("Cast", ⟨10, [false]⟩)], .look 1 (.meth 0) (.rt 2), .look 1 .inst (.rt 2),
       .cast 1 1, .cast 1 2, .castType 1 0, .castType 2 1, .construct 5 "Big" (List.replicate 257 ("Cmp", ins)), .look 5 .inst (.lib "Cmp")]
    staleHeap.okb CelloGen.Disp.cacheNum = true ∧ Heap.safe layoutNow staleHeap ops = true ∧
    (Heap.run layoutNow staleHeap ops).2 =
      [.look (.inst (.ok (some ins))), .constructed (.ok ()), .look (.meth (.ok ins)), .look (.bool (.ok true)),
       .unit, .constructed (.ok ()), .look (.inst (.ok none)), .look (.inst (.ok (some ins))),
       .unit, .ub, .constructed (.ok ()), .look (.bool (.ok false)),
       .constructed (.ok ()), .look (.meth (.raised .ClassError)), .look (.inst (.ok (some ⟨9, [false]⟩))),
       .cast (.ok .self), .cast (.raised .ValueError), .cast (.ok .self), .cast (.raised .ValueError),
       .constructed (.raised .OutOfMemoryError), .ub] ∧
    (Heap.run layoutNow staleHeap ops).1.okb CelloGen.Disp.cacheNum = true := by
  decide +kernel

/-! ## type objects have identities, not addresses: creation, deletion and re-use of addresses; dispatching calls -/

/-- G5': every library function of src/*.c that dispatches on its receiver — written with `method(self, C, M, …)`, or starting
    `struct C* c = instance(self, C); if (c and c->M) …` — names a class struct of include/Cello.h and a member inside it (the
    member index is the position of `M` in `struct C`, i.e. `offsetof(struct C, M) / sizeof(var)`); these are the functions
    the harness calls on objects of run-time types (ops `c`, `d`, `f`, `g`) -/
theorem C08_dispatch_sites :
    (∀ s ∈ CelloGen.Disp.methodSites ++ CelloGen.Disp.instanceSites,
      CelloGen.Disp.classArity.any (fun a => a.1 = s.2.1 && s.2.2.2 < a.2) = true) ∧
    20 ≤ CelloGen.Disp.methodSites.length := by decide

/-- **A dispatching call invokes exactly what the receiver's type declares.**  For every world, every type object whose record
    satisfies the invariant relative to a declaration `D`, and every use of it — the four lookups, a call of a library function
    written with `method(self, C, M, …)` on an object of the type (`.call false k`), of one written with
    `instance(self, C)` + member test (`.call true k`), `type_method(T, C, M, …)` (`.typeCall k`): the answer is `specUse`, a
    function of `D` — member `k` of the declared instance is invoked; ClassError (nothing invoked) when a hard call finds no
    instance or a NULL member; the default code when a soft one does. -/
theorem C08_call_exact (w : World) (hs : w.slots = slotsNow) (a : Nat) (t : TypeRec) (hget : w.get a = some t)
    (D : String → Option Inst) (hinv : Inv D w.slots CelloGen.Disp.cacheNum t) (way : Way) (cls : Cls) :
    (useW w a way cls).2 = specUse t.sentinel D way cls := by
  have hso : SlotsOK w.slots CelloGen.Disp.cacheNum := by rw [hs]; exact C08_slots_ok
  exact useW_spec hso hget hinv way cls

/-- **History independence (type objects named by identity, any address assignment).**  For the table and layout of the
    current source, every heap of type objects named by ids that satisfies `AOK` (the heap invariant; no `cls` word holds the
    address of a run-time type object; ids name live type objects, one each), and every **history** of
    creations of run-time type objects at ANY address the allocator answers — a new one, or one at which any number of type
    objects lived and died before (`allocOK`: only never a live one) —, deletions, white-box resets, and uses (the four
    lookups, hard and soft dispatching calls on objects, `type_method`) with library classes:
    the observations are `specIds` of the history WITH THE ADDRESSES ERASED — every use of a live type object is answered
    from the instance list that very object was created with (`declOf es`: first triple with the class's name), a use of a
    deleted one is `ub`, whatever lived at its address before, whatever was looked up on the previous occupant, whichever
    cache words and memoised class pointers the previous occupant had warmed: `Type_Alloc`'s calloc and `Type_New` leave
    none of it (`C08_type_new_any_storage`), and nothing outside the type object remembers a type by its address. -/
theorem C08_history_independent (x : AHeap) (hs : x.h.w.slots = slotsNow) (hok : AOK CelloGen.Disp.cacheNum x)
    (ops : List AOp) (hal : x.allocOK layoutNow ops = true) :
    (AHeap.run layoutNow x ops).2 = specIds CelloGen.Disp.maxInstances x.decls (ops.map AOp.erase) ∧
    AOK CelloGen.Disp.cacheNum (AHeap.run layoutNow x ops).1 := by
  have hso : SlotsOK x.h.w.slots layoutNow.cacheNum := by rw [hs]; exact C08_slots_ok
  exact AHeap.run_spec ops x hso hok hal

/-- **The address assignment is irrelevant**: two histories that differ only in the addresses the allocator answered (same
    creations, deletions and uses of the same ids), run on heaps whose ids name type objects with the same declarations,
    produce the same observations. -/
theorem C08_address_assignment_irrelevant (x y : AHeap) (hsx : x.h.w.slots = slotsNow) (hsy : y.h.w.slots = slotsNow)
    (hx : AOK CelloGen.Disp.cacheNum x) (hy : AOK CelloGen.Disp.cacheNum y) (hd : x.decls = y.decls)
    (ops ops' : List AOp) (he : ops.map AOp.erase = ops'.map AOp.erase)
    (hax : x.allocOK layoutNow ops = true) (hay : y.allocOK layoutNow ops' = true) :
    (AHeap.run layoutNow x ops).2 = (AHeap.run layoutNow y ops').2 := by
  rw [(C08_history_independent x hsx hx ops hax).1, (C08_history_independent y hsy hy ops' hay).1, hd, he]

/-- the C-level identity of a type object is its address AND its generation: a successful creation at `addr` names the
    type object `⟨addr, g⟩` where `g` type objects were constructed at `addr` before, and the count goes up — the next
    occupant of the same address is another identity -/
theorem C08_identity_is_address_and_generation (x : AHeap) (id addr : Nat) (name : String) (es : List (String × Inst))
    (h : (x.step layoutNow (.create id addr name es)).2 = .constructed (.ok ())) :
    (x.step layoutNow (.create id addr name es)).1.ident id = some ⟨addr, x.genAt addr⟩ ∧
    (x.step layoutNow (.create id addr name es)).1.genAt addr = x.genAt addr + 1 := by
  by_cases hc : ((x.addrOf id).isSome || (x.h.w.get addr).isSome) = true
  · simp [AHeap.step, hc] at h
  · cases hr : (x.h.construct layoutNow addr name es).2 with
    | ok u =>
      have hstep : x.step layoutNow (.create id addr name es) =
          ({ h := (x.h.construct layoutNow addr name es).1, loc := (id, addr) :: x.loc, gen := x.bump addr },
           .constructed (.ok ())) := by
        simp only [AHeap.step, hc, hr, Bool.false_eq_true, if_false]
      rw [hstep]
      simp [AHeap.ident, AHeap.addrOf, AHeap.genAt, AHeap.bump]
    | raised e => simp [AHeap.step, hc, hr] at h
    | ub => simp [AHeap.step, hc, hr] at h

/-- witness heap: `Type` (id 0 at address 0) alone -/
def idHeap : AHeap :=
  { h := { w := { slots := slotsNow, theType := 0, types := [(0, mkType CelloGen.Disp.cacheNum false [])] }, names := [] },
    loc := [(0, 0)], gen := [(0, 1)] }

/-- Non-vacuity of `C08_history_independent`, and the history of the seeded inline cache on the model of the code as it is:
    `Alpha` (id 1) is created at address 7 with `Call = A`, `Len = L1`; `call_with` (hard, uncached class), `len` (hard, cached
    class: the cache word and the memoised class pointer of the OCCUPANT are warmed), a soft `hash` (absent: default code) are
    called on an `Alpha` object; `Alpha` is deleted; `Beta` (id 2) is created AT THE SAME ADDRESS with another `Call` instance
    and a `Len` instance whose member is NULL; `Gamma` (id 3), after `Beta` is deleted, again at address 7 with nothing: the same
    calls answer `B`, ClassError, ClassError — and `Alpha`, used after its deletion, is `ub`.  The generation of address 7 is 3. -/
example :
    let A : Inst := ⟨1, [true]⟩; let L1 : Inst := ⟨2, [true]⟩; let B : Inst := ⟨3, [true]⟩; let L2 : Inst := ⟨4, [false]⟩
    let ops : List AOp :=
      [.create 1 7 "Alpha" [("Call", A), ("Len", L1)], .use 1 (.call false 0) "Call", .use 1 (.call false 0) "Len",
       .use 1 (.call true 0) "Hash", .use 1 (.look .inst) "Len", .delete 1,
       .create 2 7 "Beta" [("Call", B), ("Len", L2)], .use 2 (.call false 0) "Call", .use 2 (.call false 0) "Len",
       .use 2 (.typeCall 0) "Call", .use 1 (.call false 0) "Call", .delete 2,
       .create 3 7 "Gamma" [], .use 3 (.call false 0) "Call", .use 3 (.look (.implMeth 0)) "Len", .use 3 (.look .inst) "Len"]
    idHeap.okb CelloGen.Disp.cacheNum = true ∧ idHeap.allocOK layoutNow ops = true ∧
    (AHeap.run layoutNow idHeap ops).2 =
      [.constructed (.ok ()), .call (.ok (.invoked A 0)), .call (.ok (.invoked L1 0)), .call (.ok .fallback),
       .look (.inst (.ok (some L1))), .unit,
       .constructed (.ok ()), .call (.ok (.invoked B 0)), .call (.raised .ClassError), .call (.ok (.invoked B 0)), .ub, .unit,
       .constructed (.ok ()), .call (.raised .ClassError), .look (.bool (.ok false)), .look (.inst (.ok none))] ∧
    (AHeap.run layoutNow idHeap ops).1.ident 3 = some ⟨7, 2⟩ ∧ (AHeap.run layoutNow idHeap ops).1.genAt 7 = 3 := by
  decide +kernel

/-- what the theorem needs of the initial heap is decidable: `AHeap.okb` implies `AOK` -/
example : AOK CelloGen.Disp.cacheNum idHeap := aok_of_okb (by decide +kernel)

/-- the full statement for a VARIANT of the code in which a call site (or a lookup function) remembers, under the ADDRESS of the
    receiver's type, the instance it found last time (`MemoHeap`: an inline cache in the `method` macro, a "last lookup" memo
    in `Type_Instance`): every hard call made at a call site answers what the address-free spec says -/
def C08_address_keyed_memo_statement : Prop :=
  ∀ (ops : List MOp), idHeap.allocOK layoutNow (ops.map MOp.plain) = true →
    (MemoHeap.run layoutNow { x := idHeap, memo := [] } ops).2 =
      specIds CelloGen.Disp.maxInstances idHeap.decls (ops.map (fun o => o.plain.erase))

/-- **Refuted** — such a memo is not the code (the `method` macro keeps no state, `C08_source_as_modelled`; `Type_Instance` keeps
    its memo inside the type object, which dies with it), and it cannot be: an address does not identify a type object.
    `Alpha` with `Call = A` at address 7, `call_with` at call site 0, `Alpha` deleted, `Beta` with `Call = B` created at address 7,
    `call_with` at call site 0 on a `Beta` object: `A` — the member of a type object that no longer exists — is invoked;
    with `Gamma`, which declares no `Call`, ClassError is not raised.  The same erased history with `Beta` at address 8 is
    answered correctly, so the observations depend on the allocator. -/
theorem C08_address_keyed_memo_refuted : ¬ C08_address_keyed_memo_statement := by
  intro hst
  have := hst [.op (.create 1 7 "Alpha" [("Call", ⟨1, [true]⟩)]), .callAt 0 1 "Call" 0, .op (.delete 1),
               .op (.create 2 7 "Beta" [("Call", ⟨3, [true]⟩)]), .callAt 0 2 "Call" 0] (by decide +kernel)
  revert this
  decide +kernel

/-- what the variant answers on the two witnesses, next to the same histories with the second type object at another
    address (answered correctly), and the model of the code as it is on the same histories -/
example :
    let A : Inst := ⟨1, [true]⟩; let B : Inst := ⟨3, [true]⟩
    let pre : List MOp := [.op (.create 1 7 "Alpha" [("Call", A)]), .callAt 0 1 "Call" 0, .op (.delete 1)]
    let m0 : MemoHeap := { x := idHeap, memo := [] }
    (MemoHeap.run layoutNow m0 (pre ++ [.op (.create 2 7 "Beta" [("Call", B)]), .callAt 0 2 "Call" 0])).2.drop 3 =
      [.constructed (.ok ()), .call (.ok (.invoked A 0))] ∧
    (MemoHeap.run layoutNow m0 (pre ++ [.op (.create 2 8 "Beta" [("Call", B)]), .callAt 0 2 "Call" 0])).2.drop 3 =
      [.constructed (.ok ()), .call (.ok (.invoked B 0))] ∧
    (MemoHeap.run layoutNow m0 (pre ++ [.op (.create 2 7 "Gamma" []), .callAt 0 2 "Call" 0])).2.drop 3 =
      [.constructed (.ok ()), .call (.ok (.invoked A 0))] ∧
    (AHeap.run layoutNow idHeap ((pre ++ [MOp.op (.create 2 7 "Gamma" []), MOp.callAt 0 2 "Call" 0]).map MOp.plain)).2.drop 3 =
      [.constructed (.ok ()), .call (.raised .ClassError)] := by
  decide +kernel

/-! ## names are pointers: the strings a run-time type object borrows (known finding KF-C08-borrowed-name) -/

/-- the full statement: every lookup of a history over type objects answers from the declarations as they were GIVEN to
    `Type_New` — type names and class names as the TEXTS they were when the construction ran (`XHeap.values`) — whatever the
    caller does to its own strings afterwards (`XOp.scribble`: a write into a buffer that was once passed as `$S(buf)`) -/
def C08_names_are_texts_statement : Prop :=
  ∀ (x : XHeap) (xs : List XOp), x.h.w.slots = slotsNow → HeapOK CelloGen.Disp.cacheNum x.h →
    Heap.safe layoutNow x.h (x.values layoutNow xs) = true →
    (XHeap.run layoutNow x xs).2 = specHeap CelloGen.Disp.maxInstances x.h.w.theType x.h.abs (x.values layoutNow xs)

/-- witness of the known finding: `Type` alone; the caller's buffer 1 holds "Alpha"; `T` (address 2) is constructed with
    `$S(buf)` as its name, `K2` (address 3) with the literal "Alpha", `U` (address 1) with one instance whose class object is
    `T`; a lookup of `K2` on `U`, a white-box reset of `U`; then the caller writes "Beta" into its buffer and the same two
    lookups (`K2`, `T`) are made again — no function of the library was called on `T`, `K2` or `U` in between -/
def borrowHeap : XHeap :=
  XHeap.ofHeap { w := { slots := slotsNow, theType := 0, types := [(0, mkType CelloGen.Disp.cacheNum false [])] }, names := [] }

def borrowOps : List XOp :=
  [.scribble 1 "Alpha", .construct 2 (.buf 1) [], .construct 3 (.lit "Alpha") [], .construct 1 (.lit "U") [(.rt 2, ⟨7, [true]⟩)],
   .op (.look 1 .inst (.rt 3)), .op (.reset 1), .scribble 1 "Beta",
   .op (.look 1 .inst (.rt 3)), .op (.look 1 .inst (.rt 2)), .op (.look 1 .impl (.lib "Beta"))]

/-- **Refuted** (known finding KF-C08-borrowed-name).  `Type_New` stores the `char*` inside the caller's String object as the
    type's `__Name` and copies the class's `__Name` word into every triple: a run-time type owns neither its name nor the
    class names of its triples.  On the model that mirrors the code (and on the real library: corpus/kf_c08_borrowed_name.ops)
    after the caller's `strcpy(buf, "Beta")` the type `U`, which was given an instance for the class named `Alpha`, answers
    NULL for the class object `K2` named `Alpha` and implements a class named `Beta`. -/
theorem C08_borrowed_name_refuted : ¬ C08_names_are_texts_statement := by
  intro hst
  have hok : HeapOK CelloGen.Disp.cacheNum borrowHeap.h := heapOK_of_okb (by decide +kernel)
  have := hst borrowHeap borrowOps rfl hok (by decide +kernel)
  revert this
  decide +kernel

/-- what the model (= the code) answers on the witness next to what the texts given to `Type_New` declare; `quiet` fails
    exactly at the second write (the first one hits a buffer nothing points into yet), and the same history without it is
    `quiet` and answered by the value-level spec -/
example :
    let ins : Inst := ⟨7, [true]⟩
    (XHeap.run layoutNow borrowHeap borrowOps).2 =
      [.constructed (.ok ()), .constructed (.ok ()), .constructed (.ok ()), .look (.inst (.ok (some ins))), .unit,
       .look (.inst (.ok none)), .look (.inst (.ok (some ins))), .look (.bool (.ok true))] ∧
    specHeap CelloGen.Disp.maxInstances 0 borrowHeap.h.abs (borrowHeap.values layoutNow borrowOps) =
      [.constructed (.ok ()), .constructed (.ok ()), .constructed (.ok ()), .look (.inst (.ok (some ins))), .unit,
       .look (.inst (.ok (some ins))), .look (.inst (.ok (some ins))), .look (.bool (.ok false))] ∧
    (XHeap.run layoutNow borrowHeap borrowOps).1.h.nameAt 2 = some "Beta" ∧
    borrowHeap.quiet layoutNow borrowOps = false ∧ borrowHeap.quiet layoutNow (borrowOps.take 6) = true ∧
    borrowHeap.quiet layoutNow (borrowOps.take 6 ++ [.scribble 9 "Beta"] ++ borrowOps.drop 7) = true := by
  decide +kernel

/-- **Proved part: names are texts as long as the caller leaves the borrowed buffers alone.**  For every heap of type objects
    with the provenance of its name words (`XHeap`: which caller's buffer a `__Name` cell and a triple's name word point
    into) and every history of `HOp` operations, pointer-level constructions (`Type_New` with `$S(buf)` or a literal as the
    name and instances given by their class OBJECTS, whose `__Name` word the triple copies) and caller's writes into
    buffers that is `quiet` — a write hits only a buffer that no `__Name` cell and no triple name word points into (decidable,
    evaluated on the states of the history itself) — every operation answers what the value-level history `values` (each
    construction with the texts it saw when it ran) answers in `C08_world_history`: `specHeap`, a function of declarations
    and names.  Everything in this file that treats names as texts is therefore about the code under exactly this
    hypothesis. -/
theorem C08_names_are_texts_partial (x : XHeap) (xs : List XOp) (hs : x.h.w.slots = slotsNow)
    (hok : HeapOK CelloGen.Disp.cacheNum x.h) (hq : x.quiet layoutNow xs = true)
    (hsafe : Heap.safe layoutNow x.h (x.values layoutNow xs) = true) :
    (XHeap.run layoutNow x xs).2 = specHeap CelloGen.Disp.maxInstances x.h.w.theType x.h.abs (x.values layoutNow xs) ∧
    HeapOK CelloGen.Disp.cacheNum (XHeap.run layoutNow x xs).1.h := by
  have hr := XHeap.run_quiet layoutNow xs x hq
  have hw := C08_world_history x.h hs hok (x.values layoutNow xs) hsafe
  rw [hr.1, hr.2]
  exact hw

/-! ## concurrency: every interleaving of atomic steps of any number of threads -/

/-- **C08 (concurrent).** Any number of threads, each with any program of lookups (`Type_Instance` through the cache or
    `Type_Scan` directly), started on a shared type object in any state that satisfies the invariant, under **every**
    schedule (any interleaving of their atomic word reads and writes; word-atomic loads and stores assumed):
    every result any thread has obtained is the declared instance of the class it asked for, no thread ever accesses a
    word outside the object, the shared object satisfies the invariant at the end (hence at every prefix) and still
    declares `D`. -/
theorem C08_concurrent (slots : List (Nat × Cls)) (n : Nat) (hs : SlotsOK slots n)
    (D : String → Option Inst) (t : TypeRec) (h : Inv D slots n t)
    (progs : List (List (Bool × Cls))) (sched : List Nat) :
    let s := runSched slots { shared := t, threads := progs.map Thread.new } sched
    Inv D slots n s.shared ∧ (∀ nm, declared s.shared.entries nm = D nm) ∧
    s.threads.length = progs.length ∧
    ∀ th ∈ s.threads, (∀ p ∈ th.log, p.2 = D p.1.name) ∧ th.pc ≠ some .stuck := by
  have h0 : SysOK D slots n { shared := t, threads := progs.map Thread.new } := by
    refine ⟨h, ?_⟩
    intro th hth
    simp only [List.mem_map] at hth
    obtain ⟨p, _, rfl⟩ := hth
    exact ⟨by intro pc hpc; simp [Thread.new] at hpc, by intro p hp; simp [Thread.new] at hp⟩
  have sp := runSched_spec hs sched _ h0
  refine ⟨sp.1.1, sp.1.1.decl, by simpa using sp.2.2, ?_⟩
  intro th hth
  have ht := sp.1.2 th hth
  refine ⟨ht.2, ?_⟩
  intro hst
  exact ht.1 _ hst

/-- **Completion.** If the schedule gives every thread at least `(2·n + 10)` steps per lookup of its program (in any
    order, interleaved with the others in any way), then at the end every thread has completed all its lookups — and, by
    `C08_concurrent`, every result is the declared instance. No lookup can be delayed or starved by the other threads. -/
theorem C08_concurrent_complete (slots : List (Nat × Cls)) (n : Nat) (hs : SlotsOK slots n)
    (D : String → Option Inst) (t : TypeRec) (h : Inv D slots n t)
    (progs : List (List (Bool × Cls))) (sched : List Nat)
    (hfair : ∀ tid p, progs[tid]? = some p → p.length * (2 * t.entries.length + 10) ≤ sched.count tid) :
    let s := runSched slots { shared := t, threads := progs.map Thread.new } sched
    ∀ th ∈ s.threads, th.finished = true ∧ ∀ p ∈ th.log, p.2 = D p.1.name := by
  intro s th hth
  have hc := C08_concurrent slots n hs D t h progs sched
  refine ⟨?_, (hc.2.2.2 th hth).1⟩
  obtain ⟨tid, htid⟩ := List.getElem?_of_mem hth
  have hlt : tid < progs.length := by
    have : tid < s.threads.length := by
      rcases Nat.lt_or_ge tid s.threads.length with h' | h'
      · exact h'
      · simp [List.getElem?_eq_none h'] at htid
    rw [hc.2.2.1] at this; exact this
  have h0 : SysOK D slots n { shared := t, threads := progs.map Thread.new } := by
    refine ⟨h, ?_⟩
    intro th hth
    simp only [List.mem_map] at hth
    obtain ⟨p, _, rfl⟩ := hth
    exact ⟨by intro pc hpc; simp [Thread.new] at hpc, by intro p hp; simp [Thread.new] at hp⟩
  have hinit : ({ shared := t, threads := progs.map Thread.new } : Sys).threads[tid]? = some (Thread.new progs[tid]) := by
    simp [List.getElem?_map, List.getElem?_eq_getElem hlt]
  have hmeas : thMeasure t.entries.length (Thread.new progs[tid]) ≤ sched.count tid := by
    have := hfair tid progs[tid] (List.getElem?_eq_getElem hlt)
    simpa [thMeasure, Thread.new] using this
  obtain ⟨th', hth', hfin⟩ := sched_progress hs sched _ h0 rfl tid _ hinit hmeas
  have : th' = th := by
    have e : some th' = some th := by rw [← hth', ← htid]
    exact Option.some.inj e
  rw [← this]; exact hfin

/-- **Wait-freedom.** Each atomic step of a lookup strictly decreases a measure that depends only on the thread's own
    state and the number of triples, whatever the shared object contains: a lookup finishes within `2·n + 8` of its own
    steps regardless of what the other threads do. -/
theorem C08_wait_free (slots : List (Nat × Cls)) (t : TypeRec) (pc : PC)
    (hnd : ∀ c v, pc ≠ .done c v) (hns : pc ≠ .stuck) :
    pcMeasure t.entries.length (step slots t pc).2 < pcMeasure t.entries.length pc ∧
    pcMeasure t.entries.length pc ≤ soloFuel t.entries.length ∧
    (step slots t pc).1.entries.length = t.entries.length :=
  step_measure slots t pc hnd hns

/-- **The type-level entry points run the record-level functions on the type's record and store the record back**:
    `type_instance` is `instanceOf`, `type_implements` is `scan`, `type_method` is `methodAt`, `type_implements_method` is
    `implementsMethodAt` — result, new record of the type, every other type object untouched (`WStep`: same type objects,
    each related by a record-level step that keeps the invariant).  The object-level entry points are these on
    `type_of(self)` (next `example`), so `C08_lookup_exact`, `C08_classerror_partial`, `C08_concurrent` and
    `C08_world_history` speak about every entry point. -/
theorem C08_entry_points (w : World) (hs : w.slots = slotsNow) (tid : Nat) (t : TypeRec) (hget : w.get tid = some t)
    (l : Look) (cls : Cls) :
    (lookW w tid l cls).2 = (applyOp w.slots t (l.op cls)).2 ∧
    (lookW w tid l cls).1.get tid = some (applyOp w.slots t (l.op cls)).1 ∧
    WStep CelloGen.Disp.cacheNum cls w (lookW w tid l cls).1 := by
  have hso : SlotsOK w.slots CelloGen.Disp.cacheNum := by rw [hs]; exact C08_slots_ok
  have sp := lookW_spec hso hget l cls
  exact ⟨sp.1, sp.2.2, sp.2.1⟩

/-- evaluations of the model (not counted as proof obligations): for a well-formed object whose header names type object
    `tid`, `instance`/`method`/`implements_method` are `type_instance`/`type_method`/`type_implements_method` of that type object -/
example (w : World) (tid : Nat) (cls : Cls) (k : Nat) :
    instanceW w (.obj .good tid) cls = typeInstanceW w (.typeObj tid) cls ∧
    methodAtW w (.obj .good tid) cls k = typeMethodAtW w (.typeObj tid) cls k ∧
    implementsMethodAtW w (.obj .good tid) cls k = typeImplementsMethodAtW w (.typeObj tid) cls k := ⟨rfl, rfl, rfl⟩

/-- **The small-step machine refines the sequential model.** Run alone, from any state of any type object (no invariant
    needed), the sequence of atomic steps of one lookup ends — within `2·n + 8` steps — in exactly the state and the result
    of the sequential functions `scan` (`Type_Scan`) and `instanceOf` (`Type_Instance`), which are the functions compared
    with the C code state by state.  Hence `C08_concurrent` and `C08_lookup_exact` speak about the same lookups. -/
theorem C08_machine_refines_sequential (slots : List (Nat × Cls)) (t : TypeRec) (cls : Cls) :
    runSolo slots (soloFuel t.entries.length) t (.start false cls) = ((scan t cls).1, .done cls (scan t cls).2) ∧
    ∀ r, (instanceOf slots t cls).2 = .ok r →
      runSolo slots (soloFuel t.entries.length) t (.start true cls) = ((instanceOf slots t cls).1, .done cls r) :=
  ⟨runSolo_scan slots t cls, runSolo_instanceOf slots t cls⟩

/-! ## non-vacuity and witnesses -/

/-- a library type of the current source (first row of the generated matrix that has ≥ 10 instances) as a model record -/
def sampleRow : List (String × Inst) :=
  match CelloGen.Disp.declared.find? (fun d => d.1 = "Array") with
  | some d => ((List.range d.2.length).zip d.2).map (fun p => (p.2.1, ⟨p.1, p.2.2⟩))
  | none => []

/-- Non-vacuity of `C08_current_source` / `C08_lookup_exact`: on `Array`'s record of the current source a cold lookup of a
    cached class fills the cache word and memoises the class pointer, the warm lookup returns the same instance, an uncached
    class is found by name, a member that `Array` leaves NULL (`Show.look`) raises ClassError, an absent class gives NULL. -/
example :
    let t := mkType CelloGen.Disp.cacheNum false sampleRow
    let r := runOps slotsNow t [.lookup ⟨0, "Cmp"⟩, .lookup ⟨0, "Cmp"⟩, .lookup ⟨7, "Show"⟩, .methodAt ⟨0, "Show"⟩ 0,
                               .methodAt ⟨0, "Show"⟩ 1, .implements ⟨0, "Cast"⟩, .implementsMethodAt ⟨0, "Get"⟩ 4]
    sampleRow.length = 14 ∧ invb slotsNow r.1 = true ∧ r.1.cache[4]? = some (some ⟨4, [true]⟩) ∧
    r.2 = [.inst (.ok (some ⟨4, [true]⟩)), .inst (.ok (some ⟨4, [true]⟩)), .inst (.ok (some ⟨12, [true, false]⟩)),
           .meth (.ok ⟨12, [true, false]⟩), .meth (.raised .ClassError), .bool (.ok false), .bool (.ok false)] := by
  decide

/-- Non-vacuity of `C08_concurrent`: three threads race on a cold record with a duplicated class name; under a concrete
    interleaving all finish, all obtain the first triple's instance, and the cache word is filled. -/
example :
    let es : List (String × Inst) := [("Show", ⟨0, [true]⟩), ("Cmp", ⟨1, [true]⟩), ("Cmp", ⟨2, [false]⟩)]
    let t := mkType CelloGen.Disp.cacheNum false es
    let progs : List (List (Bool × Cls)) := [[(true, ⟨0, "Cmp"⟩)], [(true, ⟨0, "Cmp"⟩), (false, ⟨0, "Show"⟩)], [(false, ⟨5, "Cmp"⟩)]]
    let sched := (List.range 20).flatMap (fun _ => [0, 1, 2, 2, 1])
    let s := runSched slotsNow { shared := t, threads := progs.map Thread.new } sched
    s.threads.all (fun th => th.finished) = true ∧
    s.threads.map (fun th => th.log.map (fun p => p.2.map (·.id))) = [[some 1], [some 0, some 1], [some 1]] ∧
    s.shared.cache[4]? = some (some ⟨1, [true]⟩) := by
  decide +kernel

/-- A scan that stopped at the first non-matching triple (the planted bug of the self-test) is refuted by the model's own
    spec on a two-triple record: the declared instance of the second class would be missed. -/
theorem C08_first_triple_only_refuted :
    let es : List Entry := [⟨none, "Show", ⟨0, [true]⟩⟩, ⟨none, "Cmp", ⟨1, [true]⟩⟩]
    declared es "Cmp" = some ⟨1, [true]⟩ ∧ (match es with | e :: _ => if e.name = "Cmp" then some e.inst else none | [] => none) = none := by
  decide

/-! ## extension round: the shared stores of the lookup path, read from the source -/

/-- which machine the current source is: does the by-name pass of Type_Scan compare with a variable of static storage that the
    lookup path stores to?  (computed from the extracted store list and the extracted strcmp operand) -/
def sharedNameNow : Bool := sharedNameOf CelloGen.Disp.sharedStores CelloGen.Disp.scanNameOperand

/-- **The stores of the lookup path, as extracted from src/Type.c, are exactly the three the step machine performs**, all of
    them through a pointer into the type object (header type word, `cls` word of a triple, cache word); no lookup-path function
    has a `static` local, none stores to a file-scope variable, and the by-name pass compares with a value private to the
    thread.  (`decide` over the generated list: one more store anywhere in Type_Of / Type_Builtin_Name / Type_Scan /
    Type_Instance + Type_Cache_Entry / Type_Implements / Type_[Implements_]Method_At_Offset / the public wrappers / any function of
    Type.c they call — a swap of triples, a `static` scratch variable, a hit counter — breaks the build here.) -/
theorem C08_shared_stores_current_source :
    CelloGen.Disp.sharedStores = modelStores ∧ CelloGen.Disp.staticLocals = [] ∧ sharedNameNow = false := by
  refine ⟨by rfl, by rfl, by decide⟩

/-- **Every step of the machine changes the shared record by its store and by nothing else, and every store of the machine is a
    store of the source** (`writeOf`: at most one per step; `Wr.source` ∈ the extracted list). -/
theorem C08_machine_stores (slots : List (Nat × Cls)) (t : TypeRec) (pc : PC) :
    ((step slots t pc).1 = match writeOf t pc with
      | none => t
      | some w => w.apply t) ∧
    ∀ w, writeOf t pc = some w → w.source ∈ CelloGen.Disp.sharedStores := by
  refine ⟨step_effect slots t pc, ?_⟩
  intro w _
  cases w <;> (simp only [Wr.source]; decide)

/-- **The shared stores are idempotent and answer-preserving**: a thread whose local state is valid (`PCOK`: what it has read
    so far is consistent with the declaration) stores only what every other thread would store at that location for that
    class name — the class word of a triple receives a class of THAT triple's name and only where the triple is the declared
    one, a cache word receives the declared instance of its slot's class — so the invariant "partially warmed but consistent"
    (`Inv`) survives the store at ANY later moment, the immutable part of the record is untouched, and storing twice is storing once. -/
theorem C08_shared_stores_idempotent (slots : List (Nat × Cls)) (n : Nat) (hs : SlotsOK slots n)
    (D : String → Option Inst) (t : TypeRec) (pc : PC) (hp : PCOK D slots t.entries pc)
    (w : Wr) (hw : writeOf t pc = some w)
    (t' : TypeRec) (h' : Inv D slots n t') (hsk : t'.entries.map Entry.skel = t.entries.map Entry.skel) :
    Inv D slots n (w.apply t') ∧ (∀ nm, declared (w.apply t').entries nm = D nm) ∧
    (w.apply t').entries.map Entry.skel = t'.entries.map Entry.skel ∧ w.apply (w.apply t') = w.apply t' := by
  have hok : WrOK D slots t.entries w := writeOf_ok hp hw
  have hok' : WrOK D slots t'.entries w := by
    cases w with
    | hdr => trivial
    | memo pos cls =>
      obtain ⟨e, he, hn, hd⟩ := hok
      obtain ⟨e', he', hn', hi'⟩ := skel_getElem? hsk pos he
      exact ⟨e', he', by rw [hn', hn], by rw [hi', hd]⟩
    | cache i v => exact hok
  have sp := Wr.apply_inv hs h' w hok'
  exact ⟨sp.1, sp.1.decl, sp.2, Wr.apply_idem t' w⟩

/-- **Interleaving theorem for the machine the source is** (`stepG sharedNameNow`: the step machine with the lookup path's
    static-storage name variable, if it has one).  Any number of threads, any programs of lookups, ANY schedule of their atomic
    steps, any initial content of the register, from any consistent (cold, warm or partially warmed) record: the shared record
    stays consistent, every completed lookup of every thread returned what the declaration declares, no thread is stuck.
    The side condition `sharedNameNow = false` is discharged from the extracted stores (`C08_shared_stores_current_source`);
    with a shared name variable the statement is false: `C08_shared_name_refuted`. -/
theorem C08_interleaving_exact (n : Nat) (hs : SlotsOK slotsNow n)
    (D : String → Option Inst) (t : TypeRec) (h : Inv D slotsNow n t)
    (progs : List (List (Bool × Cls))) (sched : List Nat) (reg : String) :
    let g := grunSched sharedNameNow slotsNow { shared := ⟨t, reg⟩, threads := progs.map GThread.new } sched
    Inv D slotsNow n g.shared.ty ∧ (∀ nm, declared g.shared.ty.entries nm = D nm) ∧
    g.threads.length = progs.length ∧
    ∀ th ∈ g.threads, (∀ p ∈ th.log, p.2 = D p.1.name) ∧ th.pc ≠ some (.base .stuck) := by
  have hb : sharedNameNow = false := C08_shared_stores_current_source.2.2
  have hc := C08_concurrent slotsNow n hs D t h progs sched
  intro g
  have hg : g = (runSched slotsNow { shared := t, threads := progs.map Thread.new } sched).lift reg := by
    show grunSched sharedNameNow slotsNow _ sched = _
    rw [hb, lift_new]
    exact grunSched_false slotsNow reg sched { shared := t, threads := progs.map Thread.new }
  rw [hg]
  refine ⟨hc.1, hc.2.1, by simpa [Sys.lift] using hc.2.2.1, ?_⟩
  intro th hth
  simp only [Sys.lift, List.mem_map] at hth
  obtain ⟨th0, hth0, rfl⟩ := hth
  have h0 := hc.2.2.2 th0 hth0
  refine ⟨h0.1, ?_⟩
  intro hpc
  apply h0.2
  cases hp : th0.pc with
  | none => simp [Thread.lift, hp] at hpc
  | some pc =>
    simp only [Thread.lift, hp, Option.map_some, Option.some.injEq, GPC.base.injEq] at hpc
    rw [hpc]

/-- the statement of `C08_interleaving_exact` for a machine chosen by hand -/
def C08_interleaving_statement (sharedName : Bool) : Prop :=
  ∀ (t : TypeRec), invb slotsNow t = true → ∀ (progs : List (List (Bool × Cls))) (sched : List Nat) (reg : String),
    ∀ th ∈ (grunSched sharedName slotsNow { shared := ⟨t, reg⟩, threads := progs.map GThread.new } sched).threads,
      ∀ p ∈ th.log, p.2 = declared t.entries p.1.name

/-- **Refuted** for the machine with a shared name variable (what a `static const char* cls_name` hoisted out of the by-name
    loop makes of Type_Scan): two threads, cold record `Show, Cmp`; thread 0 asks for `Show` and has just stored "Show" into
    the variable when thread 1, asking for `Cmp`, stores "Cmp"; thread 0's by-name pass now compares with "Cmp", answers with
    the `Cmp` instance for `Show`, and memoises the class `Show` in the `Cmp` triple, so that every later lookup of `Show`
    by anyone — warm, single-threaded — answers with the `Cmp` instance too. Sequentially (one thread at a time) this machine
    is exact: the store is not idempotent across classes, and only the interleaving shows it. -/
theorem C08_shared_name_refuted : ¬ C08_interleaving_statement true := by
  intro hst
  have := hst (mkType CelloGen.Disp.cacheNum true [("Show", ⟨0, [true]⟩), ("Cmp", ⟨1, [true]⟩)]) (by decide +kernel)
    [[(false, ⟨0, "Show"⟩), (false, ⟨0, "Show"⟩)], [(false, ⟨0, "Cmp"⟩)]]
    (List.replicate 7 0 ++ List.replicate 7 1 ++ List.replicate 20 0) ""
  revert this
  decide +kernel

/-- the same schedule on the machine of the current source answers `Show` with the `Show` instance both times (non-vacuity of
    `C08_interleaving_exact`: the threads do complete lookups under this schedule) -/
example :
    let t := mkType CelloGen.Disp.cacheNum true [("Show", ⟨0, [true]⟩), ("Cmp", ⟨1, [true]⟩)]
    let g := grunSched sharedNameNow slotsNow { shared := ⟨t, ""⟩, threads :=
      [[(false, ⟨0, "Show"⟩), (false, ⟨0, "Show"⟩)], [(false, ⟨0, "Cmp"⟩)]].map GThread.new }
      (List.replicate 7 0 ++ List.replicate 7 1 ++ List.replicate 20 0)
    g.threads.map (fun th => th.log.map (fun p => p.2.map (·.id))) = [[some 0, some 0], []] := by
  decide +kernel

/-- … and on the machine with the shared name variable: `Show` answered with instance 1 (the `Cmp` instance), cold and warm -/
example :
    let t := mkType CelloGen.Disp.cacheNum true [("Show", ⟨0, [true]⟩), ("Cmp", ⟨1, [true]⟩)]
    let g := grunSched true slotsNow { shared := ⟨t, ""⟩, threads :=
      [[(false, ⟨0, "Show"⟩), (false, ⟨0, "Show"⟩)], [(false, ⟨0, "Cmp"⟩)]].map GThread.new }
      (List.replicate 7 0 ++ List.replicate 7 1 ++ List.replicate 20 0)
    g.threads.map (fun th => th.log.map (fun p => p.2.map (·.id))) = [[some 1, some 1], []] ∧
    g.shared.ty.entries.map (fun e => e.memo.map (·.name)) = [none, some "Show"] := by
  decide +kernel

/-! ## extension round: the text of the ClassError, the cells of `Type_Builtin_Name` / `Type_Builtin_Size` -/

/-- **The ClassError texts of the current source** (formats and argument lists of the two `throw` sites of
    Type_Method_At_Offset, extracted each run): for every type name, class name and member name, an absent class is reported as
    `Type 'T' does not implement class 'C'`, an empty member as `Type 'T' implements class 'C' but not the method 'M' required`,
    both as ClassError.  (A changed format, a swapped or dropped argument, another exception class break the build here.) -/
theorem C08_classerror_text (tname cname mname : String) :
    methodAtMsg CelloGen.Disp.methodAtThrows 0 tname cname mname =
      some ("ClassError", "Type '" ++ tname ++ ("' does not implement class '" ++ cname ++ "'")) ∧
    methodAtMsg CelloGen.Disp.methodAtThrows 1 tname cname mname =
      some ("ClassError", "Type '" ++ tname ++ ("' implements class '" ++ cname ++ ("' but not the method '" ++ mname ++ "' required"))) ∧
    CelloGen.Disp.methodAtThrows.length = 2 := by
  refine ⟨?_, ?_, by rfl⟩ <;>
    simp [methodAtMsg, CelloGen.Disp.methodAtThrows, render, showArg]

/-- **`Type_Method_At_Offset` with its texts follows `methodAt`** (the function the lookup theorems are about): same new
    record, the instance where `methodAt` returns it, an exception with one of the two texts exactly where `methodAt` raises
    (for types and classes other than Terminal: KF-C08-terminal-message), undefined exactly where `methodAt` is. -/
theorem C08_method_text_refines (slots : List (Nat × Cls)) (t : TypeRec) (tname : String) (cls : Cls) (k : Nat) (mname : String) :
    (methodAtText CelloGen.Disp.methodAtThrows slots t tname cls k mname).1 = (methodAt slots t cls k).1 ∧
    match (methodAt slots t cls k).2 with
    | .ok i => (methodAtText CelloGen.Disp.methodAtThrows slots t tname cls k mname).2 = .ok i
    | .raised _ => ∃ m, (methodAtText CelloGen.Disp.methodAtThrows slots t tname cls k mname).2 = .raised "ClassError" m ∧
        (m = "Type '" ++ tname ++ ("' does not implement class '" ++ cls.name ++ "'") ∨
         m = "Type '" ++ tname ++ ("' implements class '" ++ cls.name ++ ("' but not the method '" ++ mname ++ "' required")))
    | .ub => (methodAtText CelloGen.Disp.methodAtThrows slots t tname cls k mname).2 = .ub := by
  have h0 := (C08_classerror_text tname cls.name mname).1
  have h1 := (C08_classerror_text tname cls.name mname).2.1
  simp only [methodAtText, methodAt, h0, h1]
  rcases h : instanceOf slots t cls with ⟨t1, r⟩
  cases r with
  | ok v =>
    cases v with
    | none => exact ⟨rfl, _, rfl, Or.inl rfl⟩
    | some inst =>
      simp only
      cases hm : memberAt inst k with
      | ok b =>
        cases b with
        | true => exact ⟨rfl, rfl⟩
        | false => exact ⟨rfl, _, rfl, Or.inr rfl⟩
      | raised e => simp [memberAt] at hm; split at hm <;> simp at hm
      | ub => exact ⟨rfl, rfl⟩
  | raised e =>
    exfalso
    unfold instanceOf at h
    split at h
    · split at h
      · split at h <;> simp at h
      · simp at h
    · simp at h
  | ub => exact ⟨rfl, rfl⟩

/-- **`Type_Builtin_Name` / `Type_Builtin_Size` read the cells `Type_New` writes**: the index expressions of the two helpers
    (extracted each run) are `t[(CELLO_CACHE_NUM / 3)+0].inst` and `…+1`; on the words of ANY type object of the model (cold,
    warm, any remains after the terminator) they read the `__Name` string and the `__Size` number — the words `Type_New`
    stores (`C08_type_new_any_storage`: the storage after Type_New IS such a `toRaw`). -/
theorem C08_builtin_cells (s : Store) (hc : s.trec.cache.length = CelloGen.Disp.cacheNum) :
    builtinWord CelloGen.Disp.cacheNum CelloGen.Disp.builtinNameCell s.toRaw = some (.str s.name) ∧
    builtinWord CelloGen.Disp.cacheNum CelloGen.Disp.builtinSizeCell s.toRaw = some (.num s.size) := by
  have hl : (s.trec.cache.map Word.ofInst).length = 18 := by simp [hc, CelloGen.Disp.cacheNum]
  constructor
  · simp only [builtinWord, CelloGen.Disp.builtinNameCell, CelloGen.Disp.cacheNum, Store.toRaw]
    rw [List.getElem?_append_right (by omega)]
    simp [hl]
  · simp only [builtinWord, CelloGen.Disp.builtinSizeCell, CelloGen.Disp.cacheNum, Store.toRaw]
    rw [List.getElem?_append_right (by omega)]
    simp [hl]

/-- non-vacuity: on a cold `Show, Cmp` record named Alpha, member 1 of `Show` is empty and `Hash` is absent -/
example :
    let t := mkType CelloGen.Disp.cacheNum true [("Show", ⟨0, [true, false]⟩), ("Cmp", ⟨1, [true]⟩)]
    (methodAtText CelloGen.Disp.methodAtThrows slotsNow t "Alpha" ⟨0, "Show"⟩ 1 "look").2 =
      .raised "ClassError" "Type 'Alpha' implements class 'Show' but not the method 'look' required" ∧
    (methodAtText CelloGen.Disp.methodAtThrows slotsNow t "Alpha" ⟨0, "Hash"⟩ 0 "hash").2 =
      .raised "ClassError" "Type 'Alpha' does not implement class 'Hash'" ∧
    (methodAtText CelloGen.Disp.methodAtThrows slotsNow t "Alpha" ⟨0, "Cmp"⟩ 0 "cmp").2 = .ok ⟨1, [true]⟩ := by
  decide +kernel

end Cello.Dispatch
