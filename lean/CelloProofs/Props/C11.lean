import Cello.Iter
namespace Cello.Iter
theorem C11_placeholder : (arrayI [1, 2, 3]).len = some 3 := rfl
end Cello.Iter
