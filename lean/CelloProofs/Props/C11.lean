/-
  C11 — iteration agrees with len and get, forwards and backwards, for views too.

  Property theorems only; the proofs are in CelloProofs/Lemmas/Iter*.lean.
  Model: Cello/Iter.lean — every iterable of /repo as a small state machine (`Iterable`: `init / next / last / prev`,
  `len`, `get`) that mirrors the C functions, `Run` = a walk that yields a list and then `Terminal`,
  `LawfulAs I l` = foreach over `I` yields exactly `l` and ends with Terminal, the backward walk yields the reverse of `l`,
  `len I = |l|` and `get I i = l[i]` (where the type implements Len / a positional Get).
  Containers that have been MUTATED before they are iterated (Cello/IterMut.lean): List with its head / tail / next / prev
  link words (`LL`, `llI`), Array with its backing store (`AR`, `arI`), Table and Tree with their `nitems` field; the
  theorems of the section "Mutated containers" hold for EVERY history of mutations.
  The model is tied to the C code by harness/h_iter.c ⇄ lean/Driver/Iter.lean on every run of `./check C11`.

  The property has a FORWARD half (`LawfulFwdAs`: foreach, len, get — what `foreach` uses) and a BACKWARD half
  (`LawfulBwdAs`); `LawfulAs` is both (`C11_lawful_iff_both`).  Every closure theorem is stated per direction, so a view
  over an iterable that is right in one direction only (a Zip of inputs of unequal length, a Slice whose stride fits one
  way) is still covered in that direction (`C11_compositions_lawful_fwd` / `_bwd`).
  Tuple and Range ABSORB a Terminal cursor (`AbsFwdAs` / `AbsBwdAs`: Terminal is answered with Terminal again), and so do
  Map / Filter / Slice over them; over such an iterable a Slice is right in the larger region `SliceRegionFwdAbs` /
  `SliceRegionBwdAbs` (the stride need not fit).

  Known findings (the C code is wrong, the model mirrors it, the full statements are refuted below):
    F11 Slice iteration outside the parameter region, F12 backward walk and negative `get` over a Zip of unequal inputs,
    F13 a Tuple holding one object twice; `get` on a Range / Map / Zip (or a Slice / enumerate over them) DURING a walk
    overwrites the cursor of the walk; one Range / Map / Zip object twice in a Zip shares one cursor;
    `mem` on a Slice never answers false (Slice_Mem's loop tests `curr != NULL`), `mem` on a Range treats a negative key as an
    index; a Range whose walk needs a value outside int64_t (one step beyond the last element) overflows.
-/
import CelloProofs.Lemmas.IterRun
import CelloProofs.Lemmas.IterContainers
import CelloProofs.Lemmas.IterTree
import CelloProofs.Lemmas.IterRange
import CelloProofs.Lemmas.IterViews
import CelloProofs.Lemmas.IterSlice
import CelloProofs.Lemmas.IterAbs
import CelloProofs.Lemmas.IterDir
import CelloProofs.Lemmas.IterGet
import CelloProofs.Lemmas.IterCompose
import CelloProofs.Lemmas.IterMutDenote
import CelloProofs.Lemmas.IterMem
import CelloProofs.Lemmas.IterRange64
import CelloProofs.Lemmas.IterZipNil
import CelloProofs.Lemmas.IterSrc

namespace Cello.Iter

/-! ## What `LawfulAs` means for the executable model (the thing the driver runs) -/

/-- If `I` is lawful for `l`, the fuelled interpreter that the driver runs (and that is compared with the C library on
    every check) computes exactly `l` then Terminal forwards, and the reverse backwards, from any state. -/
theorem C11_lawful_is_what_runs {α : Type} (I : Iterable α) (l : List α) (h : LawfulAs I l) (fuel : Nat)
    (hf : l.length < fuel) : I.forward fuel = (l, .term) ∧ I.backward fuel = (l.reverse, .term) :=
  ⟨(h.fwd I.s0).runFuel fuel hf, (h.bwd I.s0).runFuel fuel (by simpa using hf)⟩

/-- the same for one direction: the forward half gives what `foreach` computes, the backward half the backward walk -/
theorem C11_lawful_dir_is_what_runs {α : Type} (I : Iterable α) (l : List α) (fuel : Nat) (hf : l.length < fuel) :
    (LawfulFwdAs I l → I.forward fuel = (l, .term)) ∧ (LawfulBwdAs I l → I.backward fuel = (l.reverse, .term)) :=
  ⟨fun h => (h.fwd I.s0).runFuel fuel hf, fun h => (h.bwd I.s0).runFuel fuel (by simpa using hf)⟩

/-- **Lawful = forward half ∧ backward half** (for one and the same sequence) -/
theorem C11_lawful_iff_both {α : Type} (I : Iterable α) :
    (∀ l, LawfulAs I l ↔ LawfulFwdAs I l ∧ LawfulBwdAs I l) ∧ (Lawful I ↔ ∃ l, LawfulFwdAs I l ∧ LawfulBwdAs I l) :=
  ⟨lawfulAs_iff I, ⟨fun ⟨l, h⟩ => ⟨l, (lawfulAs_iff I l).mp h⟩, fun ⟨l, h⟩ => ⟨l, (lawfulAs_iff I l).mpr h⟩⟩⟩

/-! ## Containers -/

/-- **Array**: forward = the elements in order, backward = reverse, `len`, `get i` — for every content and length. -/
theorem C11_array_lawful {α : Type} (l : List α) : LawfulAs (arrayI l) l ∧ (arrayI l).len = some l.length :=
  ⟨array_lawfulAs l, rfl⟩

/-- **List** (linked nodes) -/
theorem C11_list_lawful {α : Type} (l : List α) : LawfulAs (listI l) l ∧ (listI l).len = some l.length :=
  ⟨list_lawfulAs l, rfl⟩

/-- **Table**: for every slot array (any pattern of holes), iteration yields exactly the keys of the occupied slots in
    slot order, backwards the reverse, and `len` is their number. -/
theorem C11_table_lawful {α : Type} (slots : List (Option α)) :
    LawfulAs (tableI slots) (occupied slots) ∧ (tableI slots).len = some (occupied slots).length :=
  ⟨table_lawfulAs slots, rfl⟩

/-- **Tree**: for every tree shape (balanced or not), successor / predecessor stepping through child and parent
    pointers yields exactly the in-order sequence, backwards the reverse, and `len` is the number of nodes. -/
theorem C11_tree_lawful {α : Type} (t : T α) :
    LawfulAs (treeI t) t.inorder ∧ (treeI t).len = some t.inorder.length :=
  ⟨tree_lawfulAs t, by simp [treeI, T.size_eq_length]⟩

/-- **Tuple**, when no object occurs twice (F13 otherwise): the position is found again by searching for the pointer. -/
theorem C11_tuple_lawful (ids : List Nat) (hnd : ids.Nodup) :
    LawfulAs (tupleI ids) ids ∧ (tupleI ids).len = some ids.length :=
  ⟨tuple_lawfulAs ids hnd, rfl⟩

/-- **Tuple absorbs a Terminal cursor**: after a walk, Tuple_Iter_Next / _Prev called with Terminal search for it, find
    nothing and answer Terminal — again and again (this is what makes stepped Slices over a Tuple right) -/
theorem C11_tuple_absorbs (ids : List Nat) (hnd : ids.Nodup) : AbsFwdAs (tupleI ids) ids ∧ AbsBwdAs (tupleI ids) ids :=
  tuple_abs ids hnd

/-- full statement for Tuple (every tuple, also with a repeated object) — refuted by `C11_tuple_dup_refuted` -/
def C11_tuple_statement : Prop := ∀ ids : List Nat, LawfulAs (tupleI ids) ids

/-- **F13**: over `tuple(x, x)` the forward walk never reaches Terminal (every call finds the first occurrence again). -/
theorem C11_tuple_dup_refuted : ¬ C11_tuple_statement := by
  intro H
  have h := ((H [7, 7]).fwd none).runFuel 8 (by decide)
  revert h; decide

/-! ## Range -/

/-- **Range on ℤ**, for ALL `(start, stop, step)` — step 0, negative steps, empty ranges, lengths not divisible by the step:
    forward iteration yields `rangeList`, the backward walk its reverse, `Range_Len` is its length and `Range_Get i` its
    `i`-th element.  (This is the statement that F09/F10 violated before the `fix:` commits.)
    `rangeI` computes in ℤ; the C fields and the cursor are `int64_t`: the same statement about the machine with the overflow
    test of every signed operation is `C11_range64_lawful`, under the explicit hypotheses `RangeFitsFwd` / `RangeFitsBwd`, and
    is refuted without them (`C11_range64_refuted`). -/
theorem C11_range_lawful (start stop step : Int) :
    LawfulAs (rangeI start stop step) (rangeList start stop step) ∧
    (rangeI start stop step).len = some (rangeList start stop step).length :=
  ⟨range_lawfulAs start stop step, by simp [rangeI, rangeList]⟩

/-- **Range absorbs a Terminal cursor**: Range_Iter_Next / _Prev ignore the cursor and the arithmetic stays beyond the end -/
theorem C11_range_absorbs (start stop step : Int) :
    AbsFwdAs (rangeI start stop step) (rangeList start stop step) ∧
    AbsBwdAs (rangeI start stop step) (rangeList start stop step) :=
  range_abs start stop step

/-- **Range on `int64_t`** (`rangeI64`: `i->val += r->step` overflows = undefined behaviour), per direction: if the FORWARD
    walk stays inside int64_t — the fields, and the value ONE STEP BEYOND THE LAST ELEMENT, which Range_Iter_Next computes
    before it compares (`RangeFitsFwd`) — foreach yields `rangeList` and then Terminal; if the BACKWARD walk does —
    Range_Len's own subtraction, and the value one step before the first element (`RangeFitsBwd`) — the backward walk yields
    the reverse; `len` and `get` agree.  On these ranges the int64 machine IS the machine on ℤ that the composition theorems
    are about. -/
theorem C11_range64_lawful (start stop step : Int) :
    (RangeFitsFwd start stop step → LawfulFwdAs (rangeI64 start stop step) (rangeList start stop step)) ∧
    (RangeFitsBwd start stop step → LawfulBwdAs (rangeI64 start stop step) (rangeList start stop step)) :=
  ⟨fun h => ⟨range64_fwdAs start stop step h, range64_lenGet start stop step⟩,
   fun h => ⟨range64_bwdAs start stop step h, range64_lenGet start stop step⟩⟩

/-- full statement for the Range on int64_t: every Range whose three fields are int64_t values is lawful — refuted by
    `C11_range64_refuted` -/
def C11_range64_statement : Prop :=
  ∀ a b c : Int, isI64 a = true → isI64 b = true → isI64 c = true → LawfulAs (rangeI64 a b c) (rangeList a b c)

/-- **a Range near the limits of int64_t**: `range(MAX-2, MAX, 5)` has the one element `MAX-2` (`len` = 1); after it
    Range_Iter_Next adds 5 — a signed overflow (compiled without a trap the cursor wraps to `MIN+2`, is "below stop" again
    and the walk runs away).  `range(MIN, MIN+8, 3)` walks forwards correctly and overflows backwards (`MIN - 3`). -/
theorem C11_range64_refuted : ¬ C11_range64_statement ∧
    (rangeI64 (2 ^ 63 - 3) (2 ^ 63 - 1) 5).forward 10 = ([2 ^ 63 - 3], .undef) ∧ rangeLen (2 ^ 63 - 3) (2 ^ 63 - 1) 5 = 1 ∧
    ¬ RangeFitsFwd (2 ^ 63 - 3) (2 ^ 63 - 1) 5 ∧
    (rangeI64 (-(2 ^ 63)) (-(2 ^ 63) + 8) 3).forward 10 = ([-(2 ^ 63), -(2 ^ 63) + 3, -(2 ^ 63) + 6], .term) ∧
    (rangeI64 (-(2 ^ 63)) (-(2 ^ 63) + 8) 3).backward 10 = ([-(2 ^ 63) + 6, -(2 ^ 63) + 3, -(2 ^ 63)], .undef) ∧
    RangeFitsFwd (-(2 ^ 63)) (-(2 ^ 63) + 8) 3 ∧ ¬ RangeFitsBwd (-(2 ^ 63)) (-(2 ^ 63) + 8) 3 := by
  refine ⟨?_, by decide, by decide, by decide, by decide, by decide, by decide, by decide⟩
  intro H
  have h := ((H (2 ^ 63 - 3) (2 ^ 63 - 1) 5 (by decide) (by decide) (by decide)).fwd (rangeI64 (2 ^ 63 - 3) (2 ^ 63 - 1) 5).s0).runFuel 10 (by decide)
  revert h; decide

/-- the hypotheses are met at the very limits: `range(MAX-7, MAX, 7)` (one element; `MAX` itself is the value beyond it) and
    `range(MIN+3, MIN+9, 3)` backwards (`MIN` is the value before the first) -/
example : RangeFitsFwd (2 ^ 63 - 8) (2 ^ 63 - 1) 7 ∧ RangeFitsBwd (2 ^ 63 - 8) (2 ^ 63 - 1) 7 ∧
    RangeFitsFwd (-(2 ^ 63) + 3) (-(2 ^ 63) + 9) 3 ∧ RangeFitsBwd (-(2 ^ 63) + 3) (-(2 ^ 63) + 9) 3 ∧
    (rangeI64 (2 ^ 63 - 8) (2 ^ 63 - 1) 7).forward 10 = ([2 ^ 63 - 8], .term) ∧
    (rangeI64 (-(2 ^ 63) + 3) (-(2 ^ 63) + 9) 3).backward 10 = ([-(2 ^ 63) + 6, -(2 ^ 63) + 3], .term) := by decide

/-- `rangeList` is the definition of the property text: for a positive step exactly the numbers `start + step*j`
    (`j = 0, 1, …`) below `stop`; for a negative step exactly the numbers `stop-1 + step*j` not below `start`;
    nothing for step 0. -/
theorem C11_rangeList_mem (start stop step x : Int) :
    x ∈ rangeList start stop step ↔
      (step > 0 ∧ ∃ j : Nat, x = start + step * j ∧ x < stop) ∨
      (step < 0 ∧ ∃ j : Nat, x = stop - 1 + step * j ∧ x ≥ start) := by
  simp only [rangeList, List.mem_map, List.mem_range]
  rcases Int.lt_trichotomy step 0 with hc | hc | hc
  · have hnc : ¬ (step > 0) := by omega
    simp only [hnc, if_false, false_and, false_or, hc, true_and]
    constructor
    · rintro ⟨j, hj, rfl⟩; exact ⟨j, rfl, (rangeLen_neg_iff start stop step hc j).mpr hj⟩
    · rintro ⟨j, rfl, hx⟩; exact ⟨j, (rangeLen_neg_iff start stop step hc j).mp hx, rfl⟩
  · subst hc; simp [rangeLen]
  · have hnc : ¬ (step < 0) := by omega
    simp only [hc, gt_iff_lt, if_true, true_and, hnc, false_and, or_false]
    constructor
    · rintro ⟨j, hj, rfl⟩; exact ⟨j, rfl, (rangeLen_pos_iff start stop step hc j).mpr hj⟩
    · rintro ⟨j, rfl, hx⟩; exact ⟨j, (rangeLen_pos_iff start stop step hc j).mp hx, rfl⟩

/-- **Range_Get is defined exactly inside the range** (fix 81e7452: the index is tested against `Range_Len` before anything is
    computed): it answers an element for the indices `-len ≤ k < len` (negative = from the end) and raises
    IndexOutOfBoundsError for every other — in particular for every index when the step is 0. -/
theorem C11_rangeGet_defined_iff (a b c k : Int) :
    (rangeGet a b c k).isSome ↔ (-(rangeLen a b c : Int) ≤ k ∧ k < (rangeLen a b c : Int)) := by
  simp only [rangeGet]
  by_cases hk : k < 0
  · simp only [hk, if_true]
    rcases Int.lt_trichotomy c 0 with hc | hc | hc
    · have hnc : ¬ (c > 0) := by omega
      simp only [hnc, false_and, if_false, hc, true_and]
      split <;> simp <;> omega
    · subst hc
      have hz : rangeLen a b 0 = 0 := by simp [rangeLen]
      simp only [Int.lt_irrefl, gt_iff_lt, false_and, if_false, hz]
      simp
    · simp only [gt_iff_lt, hc, true_and]
      split <;> simp <;> omega
  · simp only [hk, if_false]
    rcases Int.lt_trichotomy c 0 with hc | hc | hc
    · have hnc : ¬ (c > 0) := by omega
      simp only [hnc, false_and, if_false, hc, true_and]
      split <;> simp <;> omega
    · subst hc
      have hz : rangeLen a b 0 = 0 := by simp [rangeLen]
      simp only [Int.lt_irrefl, gt_iff_lt, false_and, if_false, hz]
      simp
    · simp only [gt_iff_lt, hc, true_and]
      split <;> simp <;> omega

/-- before commit 81e7452 `Range_Get` of a range with step 0 answered 0 for every index although the range is empty -/
theorem C11_rangeGet_old_refuted : rangeGetOld 0 5 0 3 = some 0 ∧ rangeLen 0 5 0 = 0 ∧ rangeGet 0 5 0 3 = none := by decide

/-! ## Views: closure PER DIRECTION, to any nesting depth -/

/-- **Filter**: over a lawful iterable, Filter yields exactly the accepted elements, in both directions (Filter implements
    Last/Prev with the same skipping loop).  `fuel` bounds the model of the C `while(true)`; any fuel above the length
    of the underlying sequence suffices. -/
theorem C11_filter_closed {α : Type} (I : Iterable α) (p : α → Bool) (fuel : Nat) (l : List α)
    (h : LawfulAs I l) (hf : l.length < fuel) : LawfulAs (filterI I p fuel) (l.filter p) :=
  filter_lawfulAs I p fuel h hf

/-- **Filter, per direction**: the forward walk of the Filter needs only the forward walk of the underlying iterable, the
    backward walk only the backward walk; absorption of a Terminal cursor is inherited (Filter has no Len / Get) -/
theorem C11_filter_closed_dir {α : Type} (I : Iterable α) (p : α → Bool) (fuel : Nat) (l : List α) (hf : l.length < fuel) :
    (FwdAs I l → FwdAs (filterI I p fuel) (l.filter p)) ∧ (BwdAs I l → BwdAs (filterI I p fuel) (l.filter p)) ∧
    (AbsFwdAs I l → AbsFwdAs (filterI I p fuel) (l.filter p)) ∧ (AbsBwdAs I l → AbsBwdAs (filterI I p fuel) (l.filter p)) :=
  ⟨fun h => filter_fwdAs I p fuel h hf, fun h => filter_bwdAs I p fuel h hf, fun h => filter_absFwd I p fuel h hf,
    fun h => filter_absBwd I p fuel h hf⟩

/-- **Map**: the images in order, in both directions, with the `len` and `get` of the underlying iterable. -/
theorem C11_map_closed {α β : Type} (I : Iterable α) (f : α → β) (l : List α) (h : LawfulAs I l) :
    LawfulAs (mapI I f) (l.map f) :=
  map_lawfulAs I f h

/-- **Map, per direction** (and `len` / `get`, and absorption, are inherited) -/
theorem C11_map_closed_dir {α β : Type} (I : Iterable α) (f : α → β) (l : List α) :
    (LawfulFwdAs I l → LawfulFwdAs (mapI I f) (l.map f)) ∧ (LawfulBwdAs I l → LawfulBwdAs (mapI I f) (l.map f)) ∧
    (AbsFwdAs I l → AbsFwdAs (mapI I f) (l.map f)) ∧ (AbsBwdAs I l → AbsBwdAs (mapI I f) (l.map f)) :=
  ⟨fun h => ⟨map_fwdAs I f h.fwd, map_lenGet I f h.lg⟩, fun h => ⟨map_bwdAs I f h.bwd, map_lenGet I f h.lg⟩,
    map_absFwd I f, map_absBwd I f⟩

/-- **Zip**, ANY arity (also `zip()`, no inputs: Zip_Iter_Init / Zip_Len test `num is 0` first), inputs of ANY lengths, each input needing only its FORWARD half: the forward walk yields the
    tuples up to the shortest input and then Terminal, `len` is the minimum and `get i` the `i`-th tuple.
    `zipI Is` gives every input its own cursor state: the inputs are DISTINCT objects (or objects whose cursor is the
    pointer the caller holds — `C11_zip_same_object_cursor_held`); one Range / Map / Zip object twice in a Zip is
    `zipSameI`, refuted in `C11_zip_same_object_refuted`. -/
theorem C11_zip_forward {α : Type} (Is : List (Iterable α)) (ls : List (List α))
    (h : All₂ (fun I l => LawfulFwdAs I l) Is ls) : LawfulFwdAs (zipI Is) (zipLists ls) := by
  by_cases hne : Is = []
  · subst hne; cases h
    exact ⟨zip_nil_lawfulAs.fwd, zip_nil_lawfulAs.len, zip_nil_lawfulAs.get⟩
  · exact ⟨zip_fwdAs Is ls hne (h.imp fun _ _ x => x.fwd), zip_lenGet Is ls hne (h.imp fun _ _ x => x.lg)⟩

/-- **a Zip of NO inputs** is lawful for the empty sequence; its `get`, however, answers the empty tuple for EVERY index instead of
    raising IndexOutOfBoundsError (the loop over the inputs is empty): this is why `GetFullAs` for a Zip (`C11_get_every_index`)
    keeps the hypothesis `Is ≠ []`, and why `defOf (.zip [])` is undefined in the composition theorems -/
theorem C11_zip_no_inputs {α : Type} : LawfulAs (zipI ([] : List (Iterable α))) [] ∧
    (∀ k : Int, (zipI ([] : List (Iterable α))).get.map (fun g => g k) = some (some [])) ∧
    ¬ GetFullAs (zipI ([] : List (Iterable α))) [] := by
  refine ⟨zip_nil_lawfulAs, zip_nil_get, fun H => ?_⟩
  have h := H _ rfl 0
  simp [getIdx] at h

/-- the zipped sequence has the length of the shortest input -/
theorem C11_zipLists_length {α : Type} (l : List α) (l' : List α) (ls : List (List α)) :
    (zipLists (l :: l' :: ls)).length = min l.length (zipLists (l' :: ls)).length := by
  simp [zipLists]

/-- **Zip**, inputs of EQUAL length: lawful in both directions. -/
theorem C11_zip_closed {α : Type} (Is : List (Iterable α)) (ls : List (List α)) (n : Nat)
    (hlen : ∀ l ∈ ls, l.length = n) (h : All₂ (fun I l => LawfulAs I l) Is ls) :
    LawfulAs (zipI Is) (zipLists ls) := by
  by_cases hne : Is = []
  · subst hne; cases h; exact zip_nil_lawfulAs
  · exact zip_lawfulAs Is ls hne n hlen h

/-- **Zip backward**, inputs of EQUAL length — or one input EMPTY (Zip_Iter_Last then answers Terminal at once): each
    input needing only its BACKWARD half.  (What is left outside is exactly F12: unequal lengths, none of them 0.) -/
theorem C11_zip_backward_equal {α : Type} (Is : List (Iterable α)) (ls : List (List α))
    (hlen : (∃ n, ∀ l ∈ ls, l.length = n) ∨ (∃ l ∈ ls, l = [])) (h : All₂ (fun I l => LawfulBwdAs I l) Is ls) :
    LawfulBwdAs (zipI Is) (zipLists ls) := by
  by_cases hne : Is = []
  · subst hne; cases h
    exact ⟨zip_nil_lawfulAs.bwd, zip_nil_lawfulAs.len, zip_nil_lawfulAs.get⟩
  refine ⟨?_, zip_lenGet Is ls hne (h.imp fun _ _ x => x.lg)⟩
  rcases hlen with ⟨n, hn⟩ | hemp
  · exact zip_bwdAs Is ls hne n hn (h.imp fun _ _ x => x.bwd)
  · exact zip_bwdAs_of_empty Is ls hne (h.imp fun _ _ x => x.bwd) hemp

/-- full statement for the backward walk of Zip (inputs of any lengths) — refuted by `C11_zip_backward_refuted` -/
def C11_zip_backward_statement : Prop :=
  ∀ (Is : List (Iterable Nat)) (ls : List (List Nat)), All₂ (fun I l => LawfulAs I l) Is ls →
    BwdAs (zipI Is) (zipLists ls)

/-- **F12**: `zip([1,2,3], [10,20])` walks backwards as (3,20) (2,10): Zip_Iter_Last takes each input's own last. -/
theorem C11_zip_backward_refuted : ¬ C11_zip_backward_statement := by
  intro H
  have h := (H [arrayI [1, 2, 3], arrayI [10, 20]] [[1, 2, 3], [10, 20]]
    (All₂.cons (array_lawfulAs _) (All₂.cons (array_lawfulAs _) All₂.nil)) (true, (none, none, ()))).runFuel 8 (by decide)
  revert h; decide

/-- **enumerate** = `zip(range(len I), I)`: the pairs `(i, x_i)`, lawful in both directions.  (`enumerate_stack` reads
    `len(I)`: the object exists only for an `I` that implements Len, `_hlen`.) -/
theorem C11_enumerate_closed {α : Type} (I : Iterable α) (inj : Int → α) (l : List α) (h : LawfulAs I l)
    (_hlen : I.len = some l.length) :
    LawfulAs (enumI I l.length inj) (enumSpec inj l) :=
  enum_lawfulAs I inj h

/-- **enumerate, per direction** -/
theorem C11_enumerate_closed_dir {α : Type} (I : Iterable α) (inj : Int → α) (l : List α) (_hlen : I.len = some l.length) :
    (LawfulFwdAs I l → LawfulFwdAs (enumI I l.length inj) (enumSpec inj l)) ∧
    (LawfulBwdAs I l → LawfulBwdAs (enumI I l.length inj) (enumSpec inj l)) :=
  ⟨fun h => ⟨enum_fwdAs I inj h.fwd, enum_lenGet I inj h.lg⟩, fun h => ⟨enum_bwdAs I inj h.bwd, enum_lenGet I inj h.lg⟩⟩

/-! ## Slice -/

/-- Slice_Arg as repaired in /repo (commit a67379b): negative = from the end, then clamped into `[0, n]` -/
theorem C11_sliceArg_clamps (n : Nat) (a : Int) :
    0 ≤ sliceArg n a ∧ sliceArg n a ≤ n ∧
    (0 ≤ a → a ≤ n → sliceArg n a = a) ∧ (a < 0 → -(n : Int) ≤ a → sliceArg n a = n + a) ∧
    (a < -(n : Int) → sliceArg n a = 0) ∧ (a > n → sliceArg n a = n) := by
  simp only [sliceArg]
  refine ⟨?_, ?_, ?_, ?_, ?_, ?_⟩ <;> intros <;> (repeat' split) <;> omega

/-- the comparison before the repair was unsigned: a bound below `-n` became `n` instead of 0 -/
theorem C11_sliceArg_old_refuted : sliceArgOld 3 (-9) = 3 ∧ sliceArg 3 (-9) = 0 := by decide

/-- **Slice_partial**: over an iterable of `n` items that implements Len (`slice_stack` reads it), with the stored
    (clamped) start `a`, stop `b` and step `c`: `len` and `get` are right for ALL parameters; the forward walk is right in
    `SliceRegionFwd`, the backward walk in `SliceRegionBwd` (e.g. the whole-sequence slices `slice(I)`, `slice(I,_,_,1)`,
    `reverse(I)`, and strides that fit exactly) — each needing only the walk of `I` it actually uses (a positive step walks
    `I` forwards, a negative step backwards).  These regions are what holds WHATEVER `I` does with a Terminal cursor;
    over an `I` that absorbs Terminal the regions are larger: `C11_slice_absorbing`.  Outside, the C code is wrong
    (known finding F11): full statement `C11_slice_statement`. -/
theorem C11_slice_partial {α : Type} (I : Iterable α) (l : List α) (hlg : LenGetAs I l) (_hlen : I.len = some l.length)
    (A B : Nat) (c : Int) (hA : A ≤ l.length) (hB : B ≤ l.length) :
    ((c > 0 → FwdAs I l) → (c < 0 → BwdAs I l) → SliceRegionFwd l.length A B c →
      FwdAs (sliceI I l.length A B c) (sliceSpec l A B c)) ∧
    ((c > 0 → BwdAs I l) → (c < 0 → FwdAs I l) → SliceRegionBwd l.length A B c →
      BwdAs (sliceI I l.length A B c) (sliceSpec l A B c)) ∧
    LenGetAs (sliceI I l.length A B c) (sliceSpec l A B c) :=
  ⟨fun hf hb => slice_fwdAs I hf hb A B hA hB, fun hb hf => slice_bwdAs I hb hf A B hA hB,
    ⟨(slice_len_get I hlg A B c hB).1, (slice_len_get I hlg A B c hB).2⟩⟩

/-- in both regions a Slice is lawful -/
theorem C11_slice_lawful_in_region {α : Type} (I : Iterable α) (l : List α) (h : LawfulAs I l) (A B : Nat) (c : Int)
    (hA : A ≤ l.length) (hB : B ≤ l.length)
    (hf : SliceRegionFwd l.length A B c) (hb : SliceRegionBwd l.length A B c) :
    LawfulAs (sliceI I l.length A B c) (sliceSpec l A B c) :=
  ⟨slice_fwdAs I (fun _ => h.fwd) (fun _ => h.bwd) A B hA hB hf, slice_bwdAs I (fun _ => h.bwd) (fun _ => h.fwd) A B hA hB hb,
    (slice_len_get I h.lg A B c hB).1, (slice_len_get I h.lg A B c hB).2⟩

/-- **Slice over an iterable that absorbs a Terminal cursor** (Tuple, Range, and Map / Filter / Slice over them): the walk
    simply visits the positions `sliceVisitFwd` / `sliceVisitBwd` (it runs to the end of the underlying sequence; `stop`
    resp. `start` is never looked at), so it is right — and the Slice absorbs Terminal in its turn — exactly when these are
    the positions the definition selects: `SliceRegionFwdAbs` / `SliceRegionBwdAbs`.  No divisibility condition: stepped
    forward slices over a Tuple or a Range of ANY length are right (`slice(tuple(1..7),_,_,2)`, `slice(range(7),_,_,3)`). -/
theorem C11_slice_absorbing {α : Type} (I : Iterable α) (l : List α) (A B : Nat) (c : Int)
    (hA : A ≤ l.length) (hB : B ≤ l.length) :
    ((c > 0 → AbsFwdAs I l) → (c < 0 → AbsBwdAs I l) → SliceRegionFwdAbs l.length A B c →
      AbsFwdAs (sliceI I l.length A B c) (sliceSpec l A B c)) ∧
    ((c > 0 → AbsBwdAs I l) → (c < 0 → AbsFwdAs I l) → SliceRegionBwdAbs l.length A B c →
      AbsBwdAs (sliceI I l.length A B c) (sliceSpec l A B c)) :=
  ⟨fun hf hb => slice_absFwd I hf hb A B hA hB, fun hb hf => slice_absBwd I hb hf A B hA hB⟩

/-- the absorbing regions in arithmetic (checked for every length up to 6, every clamped start and stop, every step in
    [-7, 7]): FORWARD, step > 0: `start = n`, or `start < stop` and `stop` lies beyond the last position `start + k*step`
    below `n`; step < 0: `stop = 0`, or `start < stop` and the lowest position `stop-1 - k*|step|` ≥ 0 is not below `start`.
    BACKWARD, step > 0: `stop = 0`, or `start < stop`, `start < step` and `step` divides `stop-1-start`; step < 0: `start = n`,
    or `start < stop`, `stop > n - |step|` and `|step|` divides `stop-1-start`. -/
theorem C11_slice_region_abs_arith_small :
    (List.range 7).all (fun n => (List.range (n + 1)).all (fun a => (List.range (n + 1)).all (fun b =>
      (stepsUpTo 7).all (fun c =>
        (decide (SliceRegionFwdAbs n a b c) ==
          decide ((c > 0 ∧ ((a : Int) = n ∨ (a < b ∧ ((n : Int) - 1 - a) / c = ((b : Int) - 1 - a) / c))) ∨
                  (c < 0 ∧ ((b : Int) = 0 ∨ (a < b ∧ ((b : Int) - 1) % (-c) ≥ a))) ∨ c = 0)) &&
        (decide (SliceRegionBwdAbs n a b c) ==
          decide ((c > 0 ∧ ((b : Int) = 0 ∨ (a < b ∧ (a : Int) < c ∧ ((b : Int) - 1 - a) % c = 0))) ∨
                  (c < 0 ∧ ((a : Int) = n ∨ (a < b ∧ (b : Int) > n + c ∧ ((b : Int) - 1 - a) % (-c) = 0))) ∨ c = 0)))))) = true := by
  decide +kernel

/-- `reverse(I)` = `slice(I, _, _, -1)` and the whole-sequence slice are inside both regions for every length -/
theorem C11_reverse_in_region (n : Nat) :
    SliceRegionFwd n 0 n (-1) ∧ SliceRegionBwd n 0 n (-1) ∧ SliceRegionFwd n 0 n 1 ∧ SliceRegionBwd n 0 n 1 := by
  refine ⟨Or.inr (Or.inl ⟨by omega, ?_⟩), Or.inr (Or.inl ⟨by omega, ?_⟩), Or.inl ⟨by omega, ?_⟩, Or.inl ⟨by omega, ?_⟩⟩
  · by_cases h : (n : Int) = 0
    · exact Or.inl h
    · exact Or.inr ⟨by simp, by omega⟩
  · by_cases h : (0 : Int) = n
    · exact Or.inl h
    · exact Or.inr ⟨by simp, by omega⟩
  · by_cases h : (0 : Int) = n
    · exact Or.inl h
    · exact Or.inr ⟨by simp, by omega⟩
  · by_cases h : (n : Int) = 0
    · exact Or.inl h
    · exact Or.inr ⟨by simp, by omega⟩

/-- full statement for Slice (all clamped parameters) — refuted by `C11_slice_refuted` -/
def C11_slice_statement : Prop :=
  ∀ (I : Iterable Nat) (l : List Nat) (A B : Nat) (c : Int), LawfulAs I l → A ≤ l.length → B ≤ l.length →
    LawfulAs (sliceI I l.length A B c) (sliceSpec l A B c)

/-- **F11**: `slice(x, 0, 2)` over six items walks over all six (stop is never consulted), and
    `slice(x, _, _, 2)` over seven items hands Terminal to Array_Iter_Next as a cursor. -/
theorem C11_slice_refuted : ¬ C11_slice_statement ∧
    (sliceI (arrayI [1, 2, 3, 4, 5, 6, 7]) 7 0 7 2).forward 20 = ([1, 3, 5, 7], .undef) := by
  refine ⟨?_, by decide⟩
  intro H
  have h := ((H (arrayI [1, 2, 3, 4, 5, 6]) [1, 2, 3, 4, 5, 6] 0 2 1 (array_lawfulAs _) (by decide) (by decide)).fwd none).runFuel
    10 (by decide)
  revert h; decide

/-- **F11 is there over absorbing iterables too**, only in a smaller region: `slice(tuple(1..6), 0, 2)` still walks over all six
    (`stop` cuts, `SliceRegionFwdAbs` fails), while `slice(tuple(1..7), _, _, 2)` and `slice(range(7), _, _, 3)` — outside
    `SliceRegionFwd` — are right -/
theorem C11_slice_absorbing_examples :
    (sliceI (tupleI [1, 2, 3, 4, 5, 6]) 6 0 2 1).forward 20 = ([1, 2, 3, 4, 5, 6], .term) ∧ ¬ SliceRegionFwdAbs 6 0 2 1 ∧
    (sliceI (tupleI [1, 2, 3, 4, 5, 6, 7]) 7 0 7 2).forward 20 = ([1, 3, 5, 7], .term) ∧
    SliceRegionFwdAbs 7 0 7 2 ∧ ¬ SliceRegionFwd 7 0 7 2 ∧
    (sliceI (rangeI 0 7 1) 7 0 7 3).forward 20 = ([0, 3, 6], .term) ∧ SliceRegionFwdAbs 7 0 7 3 ∧ ¬ SliceRegionFwd 7 0 7 3 := by
  decide

/-- the two regions are EXACT when an Array is underneath: for every length up to 5, every clamped start and stop and
    every step in [-6, 6], the model's walk is right if and only if the parameters lie in the region (exhaustive
    evaluation in the kernel; the harness compares the same verdicts with the C code on [-9,9]^3 and lengths 0..8) -/
theorem C11_slice_region_exact_small :
    (List.range 6).all (fun n => (List.range (n + 1)).all (fun a => (List.range (n + 1)).all (fun b =>
      (stepsUpTo 6).all (fun c =>
        (sliceFwdOk n a b c == decide (SliceRegionFwd n a b c)) &&
        (sliceBwdOk n a b c == decide (SliceRegionBwd n a b c)))))) = true := by
  decide +kernel

/-- … and the absorbing regions are EXACT when a Tuple is underneath (lengths up to 4, steps in [-5, 5]; the harness compares
    the same verdicts with the C code on [-9,9]^3 and lengths 0..8): the model's walk over
    `slice(tuple(0..n-1), a, b, c)` is right if and only if the parameters lie in `SliceRegionFwdAbs` / `SliceRegionBwdAbs` -/
theorem C11_slice_region_abs_exact_small :
    (List.range 5).all (fun n => (List.range (n + 1)).all (fun a => (List.range (n + 1)).all (fun b =>
      (stepsUpTo 5).all (fun c =>
        (sliceFwdOkT n a b c == decide (SliceRegionFwdAbs n a b c)) &&
        (sliceBwdOkT n a b c == decide (SliceRegionBwdAbs n a b c)))))) = true := by
  decide +kernel

/-! ## Mutated containers: lawful after ANY history -/

/-- **List, one mutation from any state in the invariant** (the inductive step).  `LL.Chain l xs` is the doubly-linked
    invariant: the nodes `xs` are distinct live blocks, `head` is the first and `tail` the last, the `prev` word of the
    first and the `next` word of the last are NULL, `next` of every node is its successor and `prev` its predecessor,
    `nitems` counts them.  From such a list every mutation (push, pop, push_at, pop_at, rem, set, concat, resize — built
    from List_Link, List_Unlink, List_At as in List.c): never reads or writes through NULL or a freed node (no `undef`),
    has the outcome and the effect on the element sequence of `listSpec`, leaves the list in the invariant, and changes
    nothing when it raises. -/
theorem C11_list_step_keeps_links {α : Type} [DecidableEq α] (z : α) (l : LL α) (xs : List (Nat × α))
    (h : LL.Chain l xs) (op : SOp α) :
    ∃ l' xs', LL.step z l op = (l', (listSpec z (LL.vals xs) op).2) ∧ LL.Chain l' xs' ∧
      LL.vals xs' = (listSpec z (LL.vals xs) op).1 ∧ ((listSpec z (LL.vals xs) op).2 ≠ .ok → l' = l) :=
  LL.step_chain z l xs h op

/-- **List, every history**: `new(List, T, init…)` followed by ANY sequence of mutations ends — without the model of
    List.c ever leaving the object — in a list in the doubly-linked invariant whose elements, and the outcome of every
    mutation, are those of the abstract run `LL.specRun`. -/
theorem C11_list_history_keeps_links {α : Type} [DecidableEq α] (z : α) (init : List α) (ops : List (SOp α)) :
    ∃ l0 l xs, LL.new init = (l0, .ok) ∧ LL.run z l0 ops = (l, (LL.specRun z init ops).2) ∧ LL.Chain l xs ∧
      LL.vals xs = (LL.specRun z init ops).1 := by
  obtain ⟨l0, xs0, e0, c0, v0⟩ := LL.new_chain init
  obtain ⟨l, xs, e, c, v⟩ := LL.run_chain z ops l0 xs0 c0
  rw [v0] at e v
  exact ⟨l0, l, xs, e0, e, c, v⟩

/-- the invariant in the words of `struct List`: `prev(head) = NULL`, `next(tail) = NULL`, `prev(next(x)) = x` for every
    node, and `nitems = 0` exactly when `head` is NULL -/
theorem C11_list_links_say {α : Type} (l : LL α) (xs : List (Nat × α)) (h : LL.Chain l xs) :
    (∀ a, l.head = some a → ∃ nd, l.mem a = some nd ∧ nd.prev = none) ∧
    (∀ a, l.tail = some a → ∃ nd, l.mem a = some nd ∧ nd.next = none) ∧
    (∀ x ∈ xs, ∀ nd, l.mem x.1 = some nd → ∀ y, nd.next = some y → ∃ nd', l.mem y = some nd' ∧ nd'.prev = some x.1) ∧
    (l.nitems = 0 ↔ l.head = none) :=
  chain_links l xs h

/-- **List in the invariant ⇒ lawful**: the forward walk along the `next` words yields the elements and then Terminal,
    the backward walk along the `prev` words their reverse, `len` (the `nitems` field) their number, `get i` (the
    two-ended walk of List_At) the `i`-th. -/
theorem C11_list_links_lawful {α : Type} (l : LL α) (xs : List (Nat × α)) (h : LL.Chain l xs) :
    LawfulAs (llI l) (LL.vals xs) ∧ (llI l).len = some (LL.vals xs).length :=
  ⟨ll_lawfulAs l xs h, by simp [llI, h.count, LL.vals]⟩

/-- **List: lawful after any history** — iteration over the list that `new(List, T, init…)` and ANY history of
    mutations leave is lawful for the sequence the documented meaning of the history leaves. -/
theorem C11_list_mutated_lawful {α : Type} [DecidableEq α] (z : α) (init : List α) (ops : List (SOp α)) :
    ∃ l0 l, LL.new init = (l0, .ok) ∧ (LL.run z l0 ops).1 = l ∧ LawfulAs (llI l) (LL.specRun z init ops).1 ∧
      (llI l).len = some (LL.specRun z init ops).1.length := by
  obtain ⟨l0, l, xs, e0, e, c, v⟩ := C11_list_history_keeps_links z init ops
  refine ⟨l0, l, e0, by rw [e], ?_, ?_⟩
  · rw [← v]; exact ll_lawfulAs l xs c
  · rw [← v]; simp [llI, c.count, LL.vals]

/-- a list of two nodes whose head still carries the `prev` word of a removed (freed) predecessor — what List_Unlink
    would leave if it did not clear it -/
def staleList : LL Int :=
  { mem := fun a => if a = 1 then some ⟨20, some 2, some 0⟩ else if a = 2 then some ⟨30, none, some 1⟩ else none,
    head := some 1, tail := some 2, nitems := 2, brk := 3 }

/-- the link words matter: `staleList` walks forwards correctly and agrees with `len` and `get`, but its backward walk
    leaves the list after the first element — it is not lawful for any sequence -/
theorem C11_list_stale_prev_refuted :
    (llI staleList).forward 10 = ([20, 30], .term) ∧ (llI staleList).backward 10 = ([30, 20], .undef) ∧
    ¬ Lawful (llI staleList) := by
  refine ⟨by decide, by decide, ?_⟩
  rintro ⟨xs, h⟩
  have hl : 2 = xs.length := h.len 2 rfl
  have h1 := (h.bwd none).runFuel 10 (by rw [List.length_reverse]; omega)
  have h0 : runFuel (llI staleList).prev 10 ((llI staleList).last none) = ([30, 20], .undef) := by decide
  rw [h0] at h1
  have h2 : End.undef = End.term := congrArg Prod.snd h1
  cases h2

/-- **Array, one mutation from any state in the store invariant** (`AR.Holds a vs`: cells `0 … nitems-1` of the backing
    store are initialised and hold `vs`, hence `nitems ≤ nslots`): Array_Reserve_More / _Less, the memmoves and the writes
    stay inside the store (no `undef`), outcome and effect are those of `arraySpec`, the invariant is kept, a mutation
    that raises changes nothing. -/
theorem C11_array_step_keeps_store {α : Type} [DecidableEq α] (a : AR α) (vs : List α) (h : AR.Holds a vs) (op : SOp α) :
    ∃ a', AR.step a op = (a', (arraySpec vs op).2) ∧ AR.Holds a' (arraySpec vs op).1 ∧
      ((arraySpec vs op).2 ≠ .ok → a' = a) :=
  AR.step_holds a vs h op

/-- **Array: lawful after any history** — growth by push / push_at / concat, shrinking by pop / pop_at / rem / resize,
    in any order: iteration over the store, `len` and `get` agree with the sequence the history leaves. -/
theorem C11_array_mutated_lawful {α : Type} [DecidableEq α] (init : List α) (ops : List (SOp α)) :
    ∃ a0 a, AR.new init = (a0, .ok) ∧ AR.run a0 ops = (a, (AR.specRun init ops).2) ∧ AR.Holds a (AR.specRun init ops).1 ∧
      LawfulAs (arI a) (AR.specRun init ops).1 ∧ (arI a).len = some (AR.specRun init ops).1.length := by
  obtain ⟨a0, e0, c0⟩ := AR.new_holds init
  obtain ⟨a, e, c⟩ := AR.run_holds ops a0 init c0
  exact ⟨a0, a, e0, e, c, ar_lawfulAs a _ c, by simp [arI, c.count]⟩

/-- **Table in the representation invariant ⇒ lawful** (`Cello.Table.Rep`, the invariant that C02 proves of every
    reachable table: here only imported): the slot scan yields the keys in slot order and then Terminal, backwards the
    reverse, `len` (the `nitems` FIELD) is their number = the number of bindings, and they are exactly the keys of the
    map, each once. -/
theorem C11_table_rep_lawful (t : MTab) (m : Cello.Table.Spec Int Int) (r : Cello.Table.Rep intHash t m) :
    LawfulAs (tabI t) (occupied (tabSlots t)) ∧ (tabI t).len = some m.length ∧
    (occupied (tabSlots t)).Perm (m.map Prod.fst) := by
  obtain ⟨h1, h2, h3⟩ := tabI_lawful t m r
  exact ⟨h1, by rw [← h2, ← h1.len t.nitems rfl]; rfl, h3⟩

/-- **Table: lawful after any history** of set / rem / resize (displacement, back-shift, rehash on growth and on
    shrinking, clearing): the model of Table.c — with the parameters read from the source on this run — never fails and the
    resulting table iterates lawfully over the keys of the finite map the history leaves. -/
theorem C11_table_mutated_lawful (init : List Int) (ops : List KOp) :
    ∃ t, mtableOf init ops = some t ∧ LawfulAs (tabI t) (occupied (tabSlots t)) ∧
      (tabI t).len = some (keyedRun [] (init.map KOp.set ++ ops)).1.length ∧
      (occupied (tabSlots t)).Perm ((keyedRun [] (init.map KOp.set ++ ops)).1.map Prod.fst) := by
  obtain ⟨t, e, r⟩ := mtableOf_spec init ops
  obtain ⟨h1, h2, h3⟩ := C11_table_rep_lawful t _ r
  exact ⟨t, e, h1, h2, h3⟩

/-- **Tree with a `nitems` field**: for EVERY shape (whatever rotations produced it) whose field equals its number of
    nodes — which is part of the invariant C03 proves of every reachable tree — the pointer walk is lawful over the
    in-order sequence and `len` agrees. -/
theorem C11_tree_field_lawful {α : Type} (t : T α) (n : Nat) (h : n = t.size) :
    LawfulAs (treeNI t n) t.inorder ∧ (treeNI t n).len = some t.inorder.length :=
  ⟨treeNI_lawfulAs t n h, by simp [treeNI, h, T.size_eq_length]⟩

/-- **Tree: lawful after any history** of set / rem / resize in the model (`nitems++` only for a new key, `nitems--` only
    for a present one, KeyError / FormatError leave it alone): the field counts the nodes, so iteration is lawful. -/
theorem C11_tree_mutated_lawful (init : List Int) (ops : List KOp) :
    LawfulAs (rbI (mtreeOf init ops)) (mtreeOf init ops).root.inorder ∧
    (rbI (mtreeOf init ops)).len = some (mtreeOf init ops).root.inorder.length :=
  C11_tree_field_lawful _ _ (mtreeOf_count init ops)

/-! ## Every composition, to any nesting depth -/

/-- **Compositions.** `denote` is the function the driver runs on an op-file expression (and the harness builds the same
    object from the real library); `defOf e` is the sequence the definitions select (defined whenever the object can be
    constructed), `dirOf e` says which walks of the object are right, and `specOf e = defOf e` exactly for the expressions
    BOTH of whose walks are outside known-finding territory (Tuples without a repeated object; a Slice over an iterable that
    absorbs Terminal — Tuple, Range, Map / Filter / Slice over them — inside `SliceRegionFwdAbs/BwdAbs`, over any other
    inside `SliceRegionFwd/Bwd`; Zips of inputs of equal length or with an empty input; Filters over fewer than `filterFuel` items; for a
    container given by a HISTORY of mutations it is defined for every history).  For every such expression — containers,
    mutated containers, Range, and Slice / reverse / Zip / enumerate / Filter / Map nested to ANY depth — the model object is
    constructed and is lawful for `specOf e`.  Proved by induction over the expression, per direction (`denote_dir`). -/
theorem C11_compositions_lawful (e : Expr) (l : List Val) (h : specOf e = some l) :
    ∃ I, denote e = .ok I ∧ LawfulAs I l :=
  let ⟨I, hd, hl, _⟩ := denote_lawful e l h
  ⟨I, hd, hl⟩

/-- **Compositions, forward half** — `specFwd e = defOf e` wherever the FORWARD walk is outside known-finding territory,
    whatever the backward walk does: in particular Filter / Map / Slice / enumerate / Zip over a Zip of inputs of UNEQUAL
    length, and over a Slice whose stride fits forwards only (`slice(x,_,_,2)` over six items): foreach yields exactly the
    defined sequence and then Terminal, `len` and `get` agree. -/
theorem C11_compositions_lawful_fwd (e : Expr) (l : List Val) (h : specFwd e = some l) :
    ∃ I, denote e = .ok I ∧ LawfulFwdAs I l :=
  denote_fwd e l h

/-- **Compositions, backward half** -/
theorem C11_compositions_lawful_bwd (e : Expr) (l : List Val) (h : specBwd e = some l) :
    ∃ I, denote e = .ok I ∧ LawfulBwdAs I l :=
  denote_bwd e l h

/-- the three specifications are restrictions of ONE sequence, the defined one; `specOf` is where both walks are right;
    `len` and `get` are right wherever the object can be constructed at all (also in known-finding territory) -/
theorem C11_spec_coherent (e : Expr) :
    (∀ l, specOf e = some l ↔ specFwd e = some l ∧ specBwd e = some l) ∧
    (∀ l, specFwd e = some l → defOf e = some l) ∧ (∀ l, specBwd e = some l → defOf e = some l) ∧
    (∀ l, defOf e = some l → ∃ I, denote e = .ok I ∧ LenGetAs I l) := by
  refine ⟨fun l => ?_, fun l h => ?_, fun l h => ?_, fun l h => ?_⟩
  · simp only [specOf, specFwd, specBwd]
    by_cases h1 : (dirOf e).1.ok = true <;> by_cases h2 : (dirOf e).2.ok = true <;> simp [h1, h2]
  · simp only [specFwd] at h; split at h
    · exact h
    · simp at h
  · simp only [specBwd] at h; split at h
    · exact h
    · simp at h
  · obtain ⟨I, hd, hlg, _⟩ := denote_dir e l h
    exact ⟨I, hd, hlg⟩

/-- … hence the interpreter the driver runs yields exactly `specOf e` forwards and its reverse backwards -/
theorem C11_compositions_run (e : Expr) (l : List Val) (h : specOf e = some l) (fuel : Nat) (hf : l.length < fuel) :
    ∃ I, denote e = .ok I ∧ I.forward fuel = (l, .term) ∧ I.backward fuel = (l.reverse, .term) :=
  let ⟨I, hd, hl⟩ := C11_compositions_lawful e l h
  ⟨I, hd, C11_lawful_is_what_runs I l hl fuel hf⟩

/-- … and `specFwd e` forwards where only the forward half holds -/
theorem C11_compositions_run_fwd (e : Expr) (l : List Val) (h : specFwd e = some l) (fuel : Nat) (hf : l.length < fuel) :
    ∃ I, denote e = .ok I ∧ I.forward fuel = (l, .term) :=
  let ⟨I, hd, hl⟩ := C11_compositions_lawful_fwd e l h
  ⟨I, hd, (C11_lawful_dir_is_what_runs I l fuel hf).1 hl⟩

/-! ## `get` during a walk, `get` at negative indices, one object twice in a Zip -/

/-- **a loop body that calls `get`, hypothesis made explicit**: `forwardWith body` is foreach whose body calls
    `get(I, k)` after item `i` whenever `body i = some k`.  If NO `get` is called on the iterable during the walk, or the
    iterable is one whose `get` leaves the cursor alone (`GetPure`: Array, List, Tuple, Table, Tree, Slice / Filter over
    them — `C11_get_pure_objects`), the walk is the plain walk. -/
theorem C11_walk_with_get {α : Type} (I : Iterable α) (l : List α) (h : FwdAs I l) (body : Nat → Option Int)
    (hyp : (∀ i, body i = none) ∨ GetPure I) (fuel : Nat) (hf : l.length < fuel) :
    I.forwardWith body fuel = (l, .term) := by
  have e : I.forwardWith body fuel = I.forward fuel := by
    rcases hyp with hb | hp
    · exact forwardWith_of_none I body hb fuel
    · exact forwardWith_of_pure I hp body fuel
  rw [e]; exact (h I.s0).runFuel fuel hf

/-- the objects whose `get` does not touch a walk: every expression of the op-file language built from containers with
    Slice and Filter only (`Expr.getPure`) -/
theorem C11_get_pure_objects (e : Expr) (I : Iterable Val) (hp : e.getPure = true) (hd : denote e = .ok I) : GetPure I :=
  denote_getPure e I hp hd

/-- full statement (a `get` in the loop body never disturbs the walk) — refuted by `C11_get_disturbs_walk_refuted` -/
def C11_get_during_walk_statement : Prop :=
  ∀ (I : Iterable Int) (l : List Int) (body : Nat → Option Int) (fuel : Nat), LawfulAs I l → l.length < fuel →
    I.forwardWith body fuel = (l, .term)

/-- **`get` on a Range, a Map or a Zip during a walk overwrites the cursor of the walk**: `foreach (i in range(5))` whose
    body calls `get(r, 0)` at the third item yields 7 items (`len` is 5); the same over `map(array, f)` and `zip(a, b)` of
    four items yields 6 -/
theorem C11_get_disturbs_walk_refuted : ¬ C11_get_during_walk_statement ∧
    (rangeI 0 5 1).forwardWith (fun i => if i = 2 then some 0 else none) 20 = ([0, 1, 2, 1, 2, 3, 4], .term) ∧
    (mapI (arrayI [10, 20, 30, 40]) (fun x => x + 1)).forwardWith (fun i => if i = 2 then some 0 else none) 20 =
      ([11, 21, 31, 21, 31, 41], .term) ∧
    (zipI [arrayI [10, 20, 30, 40], arrayI [1, 2, 3, 4]]).forwardWith (fun i => if i = 2 then some 0 else none) 20 =
      ([[10, 1], [20, 2], [30, 3], [20, 2], [30, 3], [40, 4]], .term) := by
  refine ⟨?_, by decide, by decide, by decide⟩
  intro H
  have h := H (rangeI 0 5 1) (rangeList 0 5 1) (fun i => if i = 2 then some 0 else none) 20 (range_lawfulAs 0 5 1) (by decide)
  revert h; decide

/-- **`get` at EVERY index** (`GetFullAs`: negative = from the end, outside `[-len, len)` = IndexOutOfBoundsError) for Array,
    List, Tuple, Range, and closed under Map, Slice (all clamped parameters) and Zip of inputs of EQUAL length -/
theorem C11_get_every_index {α : Type} :
    (∀ l : List α, GetFullAs (arrayI l) l ∧ GetFullAs (listI l) l) ∧ (∀ ids, GetFullAs (tupleI ids) ids) ∧
    (∀ a b c, GetFullAs (rangeI a b c) (rangeList a b c)) ∧
    (∀ (I : Iterable α) (f : α → α) l, GetFullAs I l → GetFullAs (mapI I f) (l.map f)) ∧
    (∀ (I : Iterable α) l (A B : Nat) (c : Int), LenGetAs I l → B ≤ l.length →
      GetFullAs (sliceI I l.length A B c) (sliceSpec l A B c)) ∧
    (∀ (Is : List (Iterable α)) ls n, Is ≠ [] → (∀ l ∈ ls, l.length = n) → All₂ (fun I l => GetFullAs I l) Is ls →
      GetFullAs (zipI Is) (zipLists ls)) :=
  ⟨fun l => ⟨array_getFull l, list_getFull l⟩, tuple_getFull, range_getFull, fun I f _ h => map_getFull I f h,
    fun I _ A B c hlg hB => slice_getFull I hlg A B c hB, fun Is ls n hne hlen h => zip_getFull Is ls n hne hlen h⟩

/-- full statement for `get` of a Zip at every index (inputs of any lengths) — refuted by `C11_zip_get_negative_refuted` -/
def C11_zip_get_statement : Prop :=
  ∀ (Is : List (Iterable Nat)) (ls : List (List Nat)), Is ≠ [] → All₂ (fun I l => GetFullAs I l) Is ls →
    GetFullAs (zipI Is) (zipLists ls)

/-- **F12 for `get`**: Zip_Get hands the key to every input, each normalises a negative key against its OWN length:
    `get(zip([1,2,3],[10,20]), -1)` is `(3,20)`; the last tuple of the zipped sequence is `(2,20)` -/
theorem C11_zip_get_negative_refuted : ¬ C11_zip_get_statement ∧
    (zipI [arrayI [1, 2, 3], arrayI [10, 20]]).get.map (fun g => g (-1)) = some (some [3, 20]) ∧
    getIdx (zipLists [[1, 2, 3], [10, 20]]) (-1) = some [2, 20] := by
  refine ⟨?_, by decide, by decide⟩
  intro H
  have h := H [arrayI [1, 2, 3], arrayI [10, 20]] [[1, 2, 3], [10, 20]] (by simp)
    (All₂.cons (array_getFull _) (All₂.cons (array_getFull _) All₂.nil)) _ rfl (-1)
  revert h; decide

/-- **one object several times in a Zip, cursor held by the caller**: when the cursor of a walk over `x` is the pointer the
    caller holds (`inObject = false`: Array, List, Table, Tree, Tuple, Slice / Filter over them), `zip(x, …, x)` is `k`
    independent cursors in the `values` tuple — the same as `k` distinct objects — and its forward walk is right -/
theorem C11_zip_same_object_cursor_held {α : Type} (I : Iterable α) (h : I.inObject = false) (k : Nat) (hk : 0 < k)
    (l : List α) (hf : FwdAs I l) :
    zipSameI I k = zipI (List.replicate k I) ∧ FwdAs (zipSameI I k) (zipLists (List.replicate k l)) :=
  ⟨zipSame_of_cursor_held I h k, zipSame_fwdAs I h k hk hf⟩

/-- full statement (any object `k` times) — refuted by `C11_zip_same_object_refuted` -/
def C11_zip_same_object_statement : Prop :=
  ∀ (I : Iterable Int) (l : List Int) (k : Nat), 0 < k → LawfulAs I l → FwdAs (zipSameI I k) (zipLists (List.replicate k l))

/-- **one Range twice in a Zip**: `zip(r, r)` over `r = range(4)` advances the one Int cell twice per step and shows it
    twice: `(0,0) (2,2)` instead of four pairs -/
theorem C11_zip_same_object_refuted : ¬ C11_zip_same_object_statement ∧
    (zipSameI (rangeI 0 4 1) 2).forward 10 = ([[0, 0], [2, 2]], .term) ∧
    zipLists (List.replicate 2 (rangeList 0 4 1)) = [[0, 0], [1, 1], [2, 2], [3, 3]] := by
  refine ⟨?_, by decide, by decide⟩
  intro H
  have h := ((H (rangeI 0 4 1) (rangeList 0 4 1) 2 (by decide) (range_lawfulAs 0 4 1)) (zipSameI (rangeI 0 4 1) 2).s0).runFuel 10 (by decide)
  revert h; decide

/-! ## `mem` — the third member of the Get instances of src/Iter.c -/

/-- **`mem` through `foreach`** (Zip_Mem, Filter_Mem, Map_Mem — and Slice_Mem once its loop tests `curr isnt Terminal`): over any
    iterable whose forward walk is right, `mem` answers exactly "the key is one of the elements" -/
theorem C11_mem_foreach {α : Type} (I : Iterable α) (l : List α) (h : FwdAs I l) (eq : α → Bool) (fuel : Nat)
    (hf : l.length < fuel) : I.memForeach eq fuel = if l.any eq then .yes else .no :=
  memForeach_of_run eq I.next _ l (h I.s0) fuel hf

/-- **Slice_Mem as it is** (`while (curr)`): a key that IS in the slice is found; for a key that is NOT, the loop does not end
    at Terminal — Terminal is compared with the key (`undef`: a stray ValueError for an Int key) -/
theorem C11_slice_mem_partial {α : Type} (I : Iterable α) (l : List α) (h : FwdAs I l) (eq : α → Bool) (fuel : Nat)
    (hf : l.length < fuel) : I.memWhileCurr eq fuel = if l.any eq then .yes else .undef :=
  memLoop_of_run eq I.next _ l (h I.s0) fuel hf

/-- … and whatever the iterable, the parameters and the key: Slice_Mem NEVER answers false -/
theorem C11_slice_mem_never_false {α : Type} (I : Iterable α) (eq : α → Bool) (fuel : Nat) : I.memWhileCurr eq fuel ≠ .no :=
  memLoop_ne_no eq I.next fuel _

/-- full statement for `mem` of a Slice — refuted by `C11_slice_mem_refuted` -/
def C11_slice_mem_statement : Prop :=
  ∀ (I : Iterable Int) (l : List Int) (key : Int) (fuel : Nat), FwdAs I l → l.length < fuel →
    I.memWhileCurr (fun x => x == key) fuel = if key ∈ l then .yes else .no

/-- **`mem(slice(array(1,2,3)), 9)`** does not answer false: the whole-sequence Slice is lawful, 9 is not in it, and the
    loop goes on to compare Terminal with 9.  With the one-token repair (`memForeach`) the answer is false. -/
theorem C11_slice_mem_refuted : ¬ C11_slice_mem_statement ∧
    (sliceI (arrayI [1, 2, 3]) 3 0 3 1).memWhileCurr (fun x => x == 9) 10 = .undef ∧
    (sliceI (arrayI [1, 2, 3]) 3 0 3 1).memWhileCurr (fun x => x == 2) 10 = .yes ∧
    (sliceI (arrayI [1, 2, 3]) 3 0 3 1).memForeach (fun x => x == 9) 10 = .no := by
  refine ⟨?_, by decide, by decide, by decide⟩
  intro H
  have hs : FwdAs (sliceI (arrayI [(1 : Int), 2, 3]) 3 0 3 1) (sliceSpec [(1 : Int), 2, 3] 0 3 1) :=
    slice_fwdAs (arrayI [(1 : Int), 2, 3]) (fun _ => (array_lawfulAs _).fwd) (fun _ => (array_lawfulAs _).bwd) 0 3 (by decide) (by decide)
      (C11_reverse_in_region 3).2.2.1
  have h := H (sliceI (arrayI [1, 2, 3]) 3 0 3 1) (sliceSpec [1, 2, 3] 0 3 1) 9 10 hs (by decide)
  revert h; decide

/-- **Range_Mem as it is**, for EVERY key: it answers the membership of `key` for a non-negative key — and the membership of
    `key + len` for a negative one (`i = i < 0 ? Range_Len(r)+i : i` treats the key as an index) -/
theorem C11_range_mem_is (start stop step key : Int) :
    rangeMem start stop step key =
      decide ((if key < 0 then (rangeLen start stop step : Int) + key else key) ∈ rangeList start stop step) := by
  rw [rangeMem_eq_fix, Bool.eq_iff_iff, rangeMemFix_iff]; simp

/-- hence Range_Mem is right for every non-negative key, and for exactly those negative keys on which `key` and `key + len`
    agree; without the normalisation line (proposed repair, `rangeMemFix`) it is right for every key -/
theorem C11_range_mem_partial (start stop step key : Int) :
    (0 ≤ key → rangeMem start stop step key = decide (key ∈ rangeList start stop step)) ∧
    (key < 0 → (rangeMem start stop step key = decide (key ∈ rangeList start stop step) ↔
      (key ∈ rangeList start stop step ↔ (rangeLen start stop step : Int) + key ∈ rangeList start stop step))) ∧
    rangeMemFix start stop step key = decide (key ∈ rangeList start stop step) := by
  refine ⟨fun h => ?_, fun h => ?_, ?_⟩
  · rw [C11_range_mem_is]; have : ¬ key < 0 := by omega
    simp [this]
  · rw [C11_range_mem_is]; simp only [h, if_true, decide_eq_decide]
    exact ⟨fun e => e.symm, fun e => e.symm⟩
  · rw [Bool.eq_iff_iff, rangeMemFix_iff]; simp

/-- full statement for `mem` of a Range — refuted by `C11_range_mem_refuted` -/
def C11_range_mem_statement : Prop :=
  ∀ a b c key : Int, rangeMem a b c key = decide (key ∈ rangeList a b c)

/-- **`mem(range(-5,5), -1)` is false although -1 is an element; `mem(range(0,10), -1)` is true although it is not** (9 is) -/
theorem C11_range_mem_refuted : ¬ C11_range_mem_statement ∧
    rangeMem (-5) 5 1 (-1) = false ∧ (-1 : Int) ∈ rangeList (-5) 5 1 ∧
    rangeMem 0 10 1 (-1) = true ∧ (-1 : Int) ∉ rangeList 0 10 1 ∧ rangeMem 0 10 (-2) 9 = true ∧ rangeMem 0 10 (-2) 8 = false := by
  refine ⟨?_, by decide, by decide, by decide, by decide, by decide, by decide⟩
  intro H
  have h := H 0 10 1 (-1)
  revert h; decide

/-! ## Non-vacuity -/

example : LawfulAs (arrayI [5, 6, 7]) [5, 6, 7] ∧ (arrayI [5, 6, 7]).forward 10 = ([5, 6, 7], .term) ∧
    (arrayI [5, 6, 7]).backward 10 = ([7, 6, 5], .term) := ⟨array_lawfulAs _, by decide, by decide⟩

example : [3, 1, 2].Nodup ∧ (tupleI [3, 1, 2]).forward 10 = ([3, 1, 2], .term) := by decide

example : (tableI [none, some 5, none, none, some 7, some 9, none]).forward 10 = ([5, 7, 9], .term) ∧
    (tableI [none, some 5, none, none, some 7, some 9, none]).backward 10 = ([9, 7, 5], .term) := by decide

example : (treeI (T.node (T.node .nil 1 .nil) 2 (T.node (T.node .nil 3 .nil) 4 .nil))).forward 10 = ([1, 2, 3, 4], .term) ∧
    (treeI (T.node (T.node .nil 1 .nil) 2 (T.node (T.node .nil 3 .nil) 4 .nil))).backward 10 = ([4, 3, 2, 1], .term) := by
  decide

example : rangeList 2 9 3 = [2, 5, 8] ∧ rangeList 2 9 (-3) = [8, 5, 2] ∧ rangeList 0 0 2 = [] ∧ rangeList 5 3 1 = [] ∧
    (rangeI 0 6 2).backward 10 = ([4, 2, 0], .term) := by decide

example : (filterI (arrayI [1, 2, 3, 4, 5, 6]) (fun x => x % 2 == 0) 100).forward 10 = ([2, 4, 6], .term) ∧
    [1, 2, 3, 4, 5, 6].length < 100 := by decide

example : (zipI [arrayI [1, 2, 3], arrayI [10, 20]]).forward 10 = ([[1, 10], [2, 20]], .term) ∧
    zipLists [[1, 2, 3], [10, 20]] = [[1, 10], [2, 20]] := by decide

example : SliceRegionFwd 5 1 4 2 ∧ SliceRegionBwd 5 1 4 2 ∧ sliceSpec [10, 11, 12, 13, 14] 1 4 2 = [11, 13] ∧
    (sliceI (arrayI [10, 11, 12, 13, 14]) 5 1 4 2).forward 10 = ([11, 13], .term) ∧
    (sliceI (arrayI [10, 11, 12, 13, 14]) 5 1 4 2).backward 10 = ([13, 11], .term) := by
  refine ⟨Or.inl ⟨by decide, Or.inr ⟨by decide, by decide⟩⟩, Or.inl ⟨by decide, Or.inr ⟨by decide, by decide⟩⟩, by decide, by decide, by decide⟩

example : (specOf (.slice (.map (.enum (.list [5, 6, 7])) 1 0) [none, none, some (-1)])).map (fun l => l.map Val.show) =
    some ["9", "7", "5"] := by decide

example : (specOf (.zip [.tuple [4, 5], .slice (.array [1, 2, 3, 4, 5]) [some 1, some 4, some 2]])).map
    (fun l => l.map Val.show) = some ["(4,2)", "(5,4)"] := by decide

/-- a List after removing its head, its tail and an inner element, inserting at the head and in the middle, clearing and
    refilling: both walks, from the link words -/
example : (mlistOf [10, 20, 30, 40] [.popAt 0]).map (fun l => ((llI l).forward 10, (llI l).backward 10)) =
      some (([20, 30, 40], .term), ([40, 30, 20], .term)) ∧
    (mlistOf [1, 2, 3, 4, 5] [.rem 1, .pop, .popAt 1, .pushAt 7 0, .pushAt 8 (-1), .resize 0, .push 6, .concat [9, 9]]).map
      (fun l => ((llI l).forward 10, (llI l).backward 10)) = some (([6, 9, 9], .term), ([9, 9, 6], .term)) ∧
    (LL.specRun 0 [1, 2, 3, 4, 5] [.rem 1, .pop, .popAt 1, .pushAt 7 0, .pushAt 8 (-1), .resize 0, .push 6, .concat [9, 9]]).1 = [6, 9, 9] ∧
    (LL.specRun 0 [1, 2, 3] [.popAt 5, .rem 9, .pushAt 4 3, .popAt (-1)]) = ([1, 2], [.index, .value, .index, .ok]) := by
  decide

example : (marrayOf [1, 2, 3] [.pushAt 9 (-1), .pushAt 8 0, .popAt 1, .resize 2, .resize 7, .push 5]).map
      (fun a => ((arI a).forward 10, (arI a).backward 10, a.nitems, a.store.length)) =
      some (([8, 2, 5], .term), ([5, 2, 8], .term), 3, 7) := by decide

example : (specOf (.slice (.mlist [1, 2, 3] [.popAt 0, .push 4]) [none, none, some (-1)])).map (fun l => l.map Val.show) =
    some ["4", "3", "2"] := by decide

/-- outside the admissible part `specOf` is undefined: a Slice outside its region, a Zip of unequal inputs -/
example : specOf (.slice (.array [1, 2, 3, 4, 5, 6]) [some 0, some 2]) = none ∧
    specOf (.zip [.array [1, 2, 3], .list [10, 20]]) = none ∧ specOf (.tuple [7, 7]) = none ∧
    specFwd (.slice (.tuple [1, 2, 3, 4, 5, 6]) [some 0, some 2]) = none ∧ specFwd (.tuple [7, 7]) = none := by decide

/-- the forward half composes over one-directional results: views over a Zip of UNEQUAL inputs, and over a Slice that is
    right forwards only (`slice(x,_,_,2)` over six items) — `specOf` undefined, `specFwd` defined -/
example :
    (specFwd (.filter (.zip [.array [1, 2, 3], .array [10, 20]]) 2 1)).map (fun l => l.map Val.show) = some ["(1,10)"] ∧
    specOf (.filter (.zip [.array [1, 2, 3], .array [10, 20]]) 2 1) = none ∧
    (specFwd (.map (.zip [.array [1, 2, 3], .array [10, 20]]) 1 0)).map (fun l => l.map Val.show) = some ["11", "22"] ∧
    (specFwd (.enum (.slice (.array [1, 2, 3, 4, 5, 6]) [none, none, some 2]))).map (fun l => l.map Val.show) =
      some ["(0,1)", "(1,3)", "(2,5)"] ∧
    specOf (.slice (.array [1, 2, 3, 4, 5, 6]) [none, none, some 2]) = none ∧
    (specBwd (.slice (.array [1, 2, 3, 4, 5, 6]) [some 1, none, some 2])).map (fun l => l.map Val.show) = some ["2", "4", "6"] := by
  decide

/-- the true Slice region over Terminal-absorbing iterables: stepped slices over a Tuple / a Range of seven items, also
    under Map and Filter and a second Slice, are inside `specFwd` (the last two also inside `specOf`) -/
example :
    (specFwd (.slice (.tuple [1, 2, 3, 4, 5, 6, 7]) [none, none, some 2])).map (fun l => l.map Val.show) = some ["1", "3", "5", "7"] ∧
    (specFwd (.slice (.range [some 7]) [none, none, some 3])).map (fun l => l.map Val.show) = some ["0", "3", "6"] ∧
    (specFwd (.filter (.slice (.map (.range [some 9]) 1 0) [none, none, some 2]) 4 0)).map (fun l => l.map Val.show) = some ["0", "4", "8"] ∧
    (specOf (.slice (.slice (.tuple [1, 2, 3, 4, 5, 6, 7]) [none, none, some 2]) [none, none, some 3])).map (fun l => l.map Val.show) = some ["1", "7"] ∧
    (specOf (.slice (.range [some 7]) [none, none, some (-2)])).map (fun l => l.map Val.show) = some ["6", "4", "2", "0"] := by
  decide

/-- a Zip with an EMPTY input walks backwards correctly although the lengths differ (the hypothesis of
    `C11_zip_backward_equal` in its second form) -/
example : (zipI [arrayI [1, 2, 3], arrayI ([] : List Nat)]).backward 10 = ([], .term) ∧
    zipLists [[1, 2, 3], ([] : List Nat)] = [] ∧
    (specOf (.zip [.array [1, 2, 3], .list []])).map (fun l => l.map Val.show) = some [] ∧
    (specBwd (.zip [.array [1, 2, 3], .list [7]])).map (fun l => l.map Val.show) = none := by decide

/-- hypotheses of the `get` theorems are met: an Array under a Slice is `GetPure` and its cursor is held by the caller -/
example : Expr.getPure (.slice (.array [1, 2, 3]) [some 1]) = true ∧ (arrayI [1, 2, 3]).inObject = false ∧
    (sliceI (arrayI [1, 2, 3]) 3 1 3 1).forwardWith (fun i => if i = 0 then some 0 else none) 10 = ([2, 3], .term) ∧
    (zipSameI (arrayI [1, 2, 3]) 2).forward 10 = ([[1, 1], [2, 2], [3, 3]], .term) := by decide

/-! ## Extension round: the code INSIDE the proof — terms extracted from src/Iter.c and src/Table.c (CelloGen/Iter.lean, written by
    translate/g_iter.py on every run; interpreted by Cello/IterSrc.lean with C's conversions) agree with the hand model, so every
    theorem above is a theorem about the extracted code.  An edit of Slice_Arg, of a Filter_Iter_* function or of
    Table_Iter_Last / Table_Iter_Prev arrives here as a different term and the theorem named after it stops checking. -/

/-- **Slice_Arg as it is in src/Iter.c** (the three clamping statements run in source order; `n+a` is a `size_t` sum assigned back
    to the `int64_t`, `a > (int64_t)n` a signed comparison) computes `sliceArg`, for every length below 2^63 and every `int64_t`
    argument -/
theorem C11_slice_arg_source (n : Nat) (a : Int) (hn : (n : Int) < 9223372036854775808)
    (ha : -9223372036854775808 ≤ a ∧ a < 9223372036854775808) : sliceArgSrc n a = sliceArg n a :=
  sliceArgSrc_eq n a hn ha

/-- … hence what the users of `slice(…)` rely on holds of the extracted code: the result lies in `[0, n]`, an index in range is
    kept, a negative one counts from the end, anything beyond is clamped -/
theorem C11_slice_arg_source_clamps (n : Nat) (a : Int) (hn : (n : Int) < 9223372036854775808)
    (ha : -9223372036854775808 ≤ a ∧ a < 9223372036854775808) :
    0 ≤ sliceArgSrc n a ∧ sliceArgSrc n a ≤ n ∧
    (0 ≤ a → a ≤ n → sliceArgSrc n a = a) ∧ (a < 0 → -(n : Int) ≤ a → sliceArgSrc n a = n + a) ∧
    (a < -(n : Int) → sliceArgSrc n a = 0) ∧ (a > n → sliceArgSrc n a = n) := by
  rw [sliceArgSrc_eq n a hn ha]; exact C11_sliceArg_clamps n a

/-- **slice_stack through the extracted Slice_Arg** (`_` answers 0 / n / 1 per part, the step is not clamped) = `sliceStack`, the
    function `denote` uses, for every argument list -/
theorem C11_slice_stack_source (n : Nat) (hn : (n : Int) < 9223372036854775808) (args : List (Option Int))
    (ha : ∀ x ∈ args, ∀ a, x = some a → -9223372036854775808 ≤ a ∧ a < 9223372036854775808) :
    sliceStackSrc n args = sliceStack n args :=
  sliceStackSrc_eq n hn args ha

/-- with the unsigned comparison `a > n` of the old code (before a67379b) the same interpreter computes the OLD result: the
    translator's reading of the cast matters -/
example : ternRun 3 (-6) ⟨.a, .gt, .n, .nCast, .a⟩ = 3 ∧ ternRun 3 (-6) ⟨.a, .gt, .nCast, .nCast, .a⟩ = -6 ∧
    sliceArgSrc 3 (-9) = 0 ∧ sliceArgSrc 3 (-2) = 1 ∧ sliceArgSrc 3 7 = 3 ∧ sliceArgSrc 3 2 = 2 ∧
    sliceStackSrc 5 [some (-2), none, some (-1)] = some (3, 5, -1) := by decide

/-- **the four Filter functions as they are in src/Iter.c** (Init: iter_init then skip with iter_next; Next: iter_next / iter_next;
    Last: iter_last then skip with iter_prev; Prev: iter_prev / iter_prev; Terminal tested before the predicate is called) are
    the Filter of the model -/
theorem C11_filter_source {α : Type} (I : Iterable α) (p : α → Bool) (fuel : Nat) : filterSrcI I p fuel = filterI I p fuel :=
  filterSrcI_eq I p fuel

/-- … hence the Filter built from the extracted functions yields exactly the accepted elements, forwards and BACKWARDS -/
theorem C11_filter_source_lawful {α : Type} (I : Iterable α) (p : α → Bool) (fuel : Nat) (l : List α) (hf : l.length < fuel) :
    (LawfulAs I l → LawfulAs (filterSrcI I p fuel) (l.filter p)) ∧
    (FwdAs I l → FwdAs (filterSrcI I p fuel) (l.filter p)) ∧ (BwdAs I l → BwdAs (filterSrcI I p fuel) (l.filter p)) := by
  rw [filterSrcI_eq]
  exact ⟨fun h => filter_lawfulAs I p fuel h hf, fun h => filter_fwdAs I p fuel h hf, fun h => filter_bwdAs I p fuel h hf⟩

example : (filterSrcI (arrayI [1, 2, 3, 4, 5, 6]) (fun x => x % 2 = 0) 10).backward 10 = ([6, 4, 2], .term) ∧
    (filterSrcI (arrayI [1, 2, 3, 4, 5, 6]) (fun x => x % 2 = 0) 10).forward 10 = ([2, 4, 6], .term) ∧
    (filterSrcI (arrayI [1, 3]) (fun x => x % 2 = 0) 10).backward 10 = ([], .term) := by decide

/-- **Table_Iter_Last as it is in src/Table.c** — `size_t i = nslots-1; while (true) { if (used i) return key i; if (i == 0) break; i--; }`
    on a `size_t` that would wrap — returns what `scanDown` returns for EVERY slot array shorter than 2^64: it examines slot 0
    and never reads outside the array -/
theorem C11_table_last_source {α : Type} (slots : List (Option α)) (hl : (slots.length : Int) < 18446744073709551616) (s : Option Nat) :
    (tableSrcI slots).last s = (tableI slots).last s :=
  tableSrc_last_eq slots hl s

/-- **Table_Iter_Prev as it is in src/Table.c** — step one slot down, `while (true) { if (curr < slot 0) return Terminal; if (used)
    return curr; step down }` — from every cursor inside the array -/
theorem C11_table_prev_source {α : Type} (slots : List (Option α)) (i : Nat) (hi : i < slots.length) :
    (tableSrcI slots).prev (some i) = (tableI slots).prev (some i) :=
  tableSrc_prev_eq slots i hi

/-- **Table with the extracted Last / Prev is lawful**: foreach yields the used slots in order, the backward walk — through the
    extracted loop programs — their reverse (down to and including slot 0), `len` their number; every pattern of holes -/
theorem C11_table_source_lawful {α : Type} (slots : List (Option α)) (hl : (slots.length : Int) < 18446744073709551616) :
    LawfulAs (tableSrcI slots) (occupied slots) ∧ (tableSrcI slots).len = some (occupied slots).length :=
  ⟨tableSrc_lawfulAs slots hl, rfl⟩

example : (tableSrcI [some 7, none, some 8, none]).backward 10 = ([8, 7], .term) ∧
    (tableSrcI [some 7, none, none]).backward 10 = ([7], .term) ∧
    (tableSrcI ([none, none] : List (Option Nat))).backward 10 = ([], .term) ∧
    (tableSrcI ([] : List (Option Nat))).backward 10 = ([], .term) := by decide

/-- the tidied loop `for (size_t i = nslots-1; i > 0; i--)` (seeded three times) read by the same translator and run by the same
    interpreter loses the entry in slot 0: the agreement theorem is not true of every loop that "looks right" -/
theorem C11_table_last_tidied_refuted :
    runScan ([some 7, none] : List (Option Nat)) tableIterLastTidied 0 3 = (none, .term) ∧
      ((tableI ([some 7, none] : List (Option Nat))).last none).2 = .item 7 := by decide

end Cello.Iter
