import Cello.Fmt
import Cello.FmtSize
import Cello.Table
import Cello.Iter
import CelloGen.Fmt
import CelloGen.Table
import Driver.Common
/- driver for engine `fmt` (C14).

   op lines (tokens separated by single spaces; byte strings in hex, `-` = empty):
     P <start> <old> <fmt> <nargs> <arg>… T <n> (<frag> <val> <out>)…     print_to_with on a String sink holding <old>, from <start>
     K …same…                                                              same run; the harness additionally checks "sink unchanged on FormatError"
     M <start> <old> <fmt> <nargs> <arg>…                                  format outside the grammar: only "does it leave its buffers?"
     J …same as P…                                                         same run in a forked child of the harness; the grammar additionally admits `%lc`
                                                                           (a specification libc rejects when the "C" locale cannot encode the value)
     A …same as P…                                                         print_to_with on a plain String in a forked child of the harness; an argument `Z 0` is the
                                                                           String itself.  `O A oob=1` (undefined behaviour) or `O A oob=0 exc=<e>`
     V <start> <old> <fmt> <nargs> <arg>… T 0                             a well-formed format outside the printf grammar (`*` width): `O V exc=<e> calls=<…>` — the
                                                                           calls only; libc's text for them is not a function of the arguments (KF-C14-star-width)
     B …same as P…                                                         plain String sink, start may lie beyond the end: `O B exc=<e> pos=<p> cstr=<the C string afterwards>`
                                                                           (`cValueAfter`; KF-C14-start-beyond-end)
     Q …same as P…                                                         File sink: `O Q exc=<e> leaked=<bytes of fmt_buf still allocated>` (`Result.leaked`; KF-C14-fmtbuf-leak)
   arg ::= i <int64> | f <16 hex digits: bits of the double> | s <bytes> | A <n> <arg>… | U <n> <arg>… | L <n> <arg>…
         | H <n> (<key> <val>)*n  Table Int → scalar built by `set` in this order (iteration order = slot order, computed with the
                                  Table model of engine C02, Cello/Table.lean)   | R <n> (<key> <val>)*n  Tree (iteration order = descending key order)
         | G 3 i <start> i <stop> i <step>  Range (values from the Range model of engine C11, Cello/Iter.lean)
         | C <n> <arg>…  Slice over an Array   | X 1 <arg> | X 0  Box   | N 0  NULL   | O <name>  object of a type without Show
         | Y <name>  Type object (as %s / %p argument, and shown by %$ at any position: Type_Show, fix 0046a69)   | Z 0  the sink itself (op A only)
   table entry: what libc prints for fragment <frag> with value <val> ::= i<int64> | d<bits> | s<bytes>   (the model's `prim`);
                <out> = `!` when libc rejects the call (negative result)

   O lines (compared with harness/h_fmt.c):
     O W exc=<e> pos=<p> calls=<frag:val;…> str=<bytes>      recording sink in front of a String
     O S exc=<e> pos=<p> str=<bytes> cap=<n>                  plain String sink; cap = size of its heap block (block-level replay of the call log
                                                              through `String_Format_To` as read from the source: Cello/FmtSize.lean `replayBlock`)
     O F exc=<e> pos=<p> out=<bytes>                          File sink whose content was <old>[0..start)
   R lines (not compared): marks, agreement of the machine with the reference semantics on the parsed segments. -/
open Cello.Fmt

namespace FmtDrv

def cfg : Cfg := Cfg.ofGen CelloGen.Fmt.printConv CelloGen.Fmt.printDispatch

def scfg : ShowCfg :=
  { intFmt := CelloGen.Fmt.intShowFmt, fltFmt := CelloGen.Fmt.floatShowFmt
    strOpen := CelloGen.Fmt.strShowOpen, strClose := CelloGen.Fmt.strShowClose
    strDefault := CelloGen.Fmt.strShowDefault, strEsc := CelloGen.Fmt.strShowEsc
    arrOpen := CelloGen.Fmt.arrayShowOpen, arrSep := CelloGen.Fmt.arrayShowSep, arrClose := CelloGen.Fmt.arrayShowClose
    tupOpen := CelloGen.Fmt.tupleShowOpen, tupSep := CelloGen.Fmt.tupleShowSep, tupClose := CelloGen.Fmt.tupleShowClose
    lstOpen := CelloGen.Fmt.listShowOpen, lstSep := CelloGen.Fmt.listShowSep, lstClose := CelloGen.Fmt.listShowClose
    tblOpen := CelloGen.Fmt.tableShowOpen, tblPair := CelloGen.Fmt.tableShowPair, tblSep := CelloGen.Fmt.tableShowSep, tblClose := CelloGen.Fmt.tableShowClose
    treOpen := CelloGen.Fmt.treeShowOpen, trePair := CelloGen.Fmt.treeShowPair, treSep := CelloGen.Fmt.treeShowSep, treClose := CelloGen.Fmt.treeShowClose
    rngOpen := CelloGen.Fmt.rangeShowOpen, rngItem := CelloGen.Fmt.rangeShowItem, rngSep := CelloGen.Fmt.rangeShowSep, rngClose := CelloGen.Fmt.rangeShowClose
    slcOpen := CelloGen.Fmt.sliceShowOpen, slcSep := CelloGen.Fmt.sliceShowSep, slcClose := CelloGen.Fmt.sliceShowClose
    boxFmt := CelloGen.Fmt.boxShowFmt, nullFmt := CelloGen.Fmt.nullShowFmt, defaultFmt := CelloGen.Fmt.defaultShowFmt
    typeOff := CelloGen.Fmt.typeShowReturnsOffset }

def hexDigit (n : Nat) : Char := if n < 10 then Char.ofNat (48 + n) else Char.ofNat (87 + n)

def hexOf (s : Str) : String :=
  if s.isEmpty then "-" else String.ofList (s.flatMap fun c => [hexDigit (c.toNat / 16 % 16), hexDigit (c.toNat % 16)])

def hexVal (c : Char) : Option Nat :=
  if '0' ≤ c ∧ c ≤ '9' then some (c.toNat - 48)
  else if 'a' ≤ c ∧ c ≤ 'f' then some (c.toNat - 87)
  else if 'A' ≤ c ∧ c ≤ 'F' then some (c.toNat - 55) else none

def unhexL : List Char → Option Str
  | [] => some []
  | a :: b :: r => do
    let x ← hexVal a; let y ← hexVal b; let t ← unhexL r
    pure (Char.ofNat (x * 16 + y) :: t)
  | _ => none

def unhex (s : String) : Option Str := if s = "-" then some [] else unhexL s.toList

def hexNat (s : String) : Option Nat :=
  s.toList.foldlM (fun acc c => (hexVal c).map (acc * 16 + ·)) 0

def hex16 (n : Nat) : String :=
  String.ofList ((List.range 16).map fun k => hexDigit (n / 16 ^ (15 - k) % 16))

def tableCfg : Cello.Table.Cfg :=
  { ge := CelloGen.Table.tieGe, growEmpty := CelloGen.Table.setGrowsEmpty,
    ideal := Cello.Table.idealSize CelloGen.Table.primes CelloGen.Table.loadNum CelloGen.Table.loadDen,
    selfGuard := CelloGen.Table.assignGuardsSelf }

/-- `hash($I(k))` = `(uint64_t)k` -/
def intHash (k : Int) : Nat := (k % 18446744073709551616).toNat

/-- the pairs of `new(Table, Int, V)` after `set(t, k, v)` for each pair of the op, in slot order -/
def tableOrder (kvs : List (Int × Obj)) : Option (List (Obj × Obj)) :=
  let t0 : Except Cello.Table.Fail (Cello.Table.Tab Int Obj) := Cello.Table.fill tableCfg intHash []
  match kvs.foldl (fun t p => t.bind fun t => Cello.Table.set tableCfg intHash t p.1 p.2) t0 with
  | .ok t => some ((Cello.Table.foreach t).map fun p => (Obj.int p.1, p.2))
  | .error _ => none

/-- the pairs of a Tree after `set` for each pair of the op, in its iteration order: DESCENDING keys (Tree_Set descends by
    `cmp(node key, key) < 0 → left` and the iteration starts at the leftmost node), the last value set for a key -/
def treeOrder (kvs : List (Int × Obj)) : List (Obj × Obj) :=
  let ins (acc : List (Int × Obj)) (p : Int × Obj) : List (Int × Obj) :=
    let hi := acc.filter fun q => q.1 > p.1
    let lo := acc.filter fun q => q.1 < p.1
    hi ++ [p] ++ lo
  (kvs.foldl ins []).map fun p => (Obj.int p.1, p.2)

def rangeVals (a b c : Int) : List Int := ((Cello.Iter.rangeI a b c).forward 100000).1

/-- parse one argument; returns it with the remaining tokens -/
partial def parseArg : List String → Option (Obj × List String)
  | "i" :: v :: r => v.toInt?.map fun x => (Obj.int x, r)
  | "f" :: b :: r => (hexNat b).map fun x => (Obj.flt x, r)
  | "s" :: h :: r => (unhex h).map fun x => (Obj.str x, r)
  | "N" :: "0" :: r => some (Obj.null, r)
  | "Z" :: "0" :: r => some (Obj.sink, r)
  | "O" :: h :: r => (unhex h).map fun x => (Obj.other x, r)
  | "Y" :: h :: r => (unhex h).map fun x => (Obj.type x, r)
  | "X" :: "0" :: r => some (Obj.box .null, r)
  | "X" :: "1" :: r => do
    let (a, r) ← parseArg r
    pure (Obj.box a, r)
  | "G" :: "3" :: r => do
    let (items, r) ← parseArgs 3 r
    match items with
    | [.int a, .int b, .int c] => pure (Obj.range (rangeVals a b c), r)
    | _ => none
  | k :: n :: r =>
    if k = "A" ∨ k = "U" ∨ k = "L" ∨ k = "C" then do
      let n ← n.toNat?
      let (items, r) ← parseArgs n r
      pure ((if k = "A" then Obj.array items else if k = "U" then Obj.tuple items else if k = "L" then Obj.list items
             else Obj.slice items), r)
    else if k = "H" ∨ k = "R" then do
      let n ← n.toNat?
      let (items, r) ← parseArgs (2 * n) r
      let kvs ← pairUp items
      if k = "H" then (tableOrder kvs).map fun ps => (Obj.table ps, r) else pure (Obj.tree (treeOrder kvs), r)
    else none
  | _ => none
where
  parseArgs : Nat → List String → Option (List Obj × List String)
    | 0, r => some ([], r)
    | n+1, r => do
      let (a, r) ← parseArg r
      let (as, r) ← parseArgs n r
      pure (a :: as, r)
  pairUp : List Obj → Option (List (Int × Obj))
    | [] => some []
    | .int k :: v :: r => (pairUp r).map ((k, v) :: ·)
    | _ => none

def parseVal (s : String) : Option PVal :=
  match s.toList with
  | 'i' :: r => (String.ofList r).toInt?.map PVal.i64
  | 'd' :: r => (hexNat (String.ofList r)).map PVal.dbl
  | 's' :: r => (unhex (String.ofList r)).map PVal.cstr
  | _ => none

/-- `none` = libc rejects the call -/
def parseTable : Nat → List String → Option (List ((Str × PVal) × Option Str))
  | 0, [] => some []
  | 0, _ => none
  | n+1, f :: v :: o :: r => do
    let f ← unhex f; let v ← parseVal v
    let o ← if o = "!" then some none else (unhex o).map some
    let t ← parseTable n r
    pure (((f, v), o) :: t)
  | _, _ => none

/-- libc's text for one call, looked up in the table the op line carries -/
def textOfTab (tab : List ((Str × PVal) × Option Str)) (frag : Str) (v : PVal) : Str :=
  match v with
  | .none => if frag = ['%', '%'] then ['%'] else frag
  | .ptr => ['<', 'P', '>']
  | .i64 x =>
    if frag = ['%', 'c'] then [Char.ofNat (x % 256).toNat]
    else ((tab.lookup (frag, v)).getD none).getD ['<', '?', '>']
  | _ => ((tab.lookup (frag, v)).getD none).getD ['<', '?', '>']

/-- the model's `prim`: libc from the table (a call is rejected iff its entry says so), `String_Format_To` from the source -/
def primOf (tab : List ((Str × PVal) × Option Str)) : Prim :=
  { text := textOfTab tab
    rej := fun frag v => tab.lookup (frag, v) == some none
    strSteps := CelloGen.Fmt.stringFormatToSteps.map SStep.ofCode }

/-- `String_Format_To` with its size expressions, from the source -/
def sftProg : SftProg :=
  SftProg.ofGen CelloGen.Fmt.stringFormatToSteps CelloGen.Fmt.stringFormatToReallocSize CelloGen.Fmt.stringFormatToWriteOffset

def showVal : PVal → String
  | .none => "n"
  | .cstr s => "s" ++ hexOf s
  | .i64 v => "i" ++ toString v
  | .dbl b => "d" ++ hex16 b
  | .ptr => "p"

def showCalls (cs : List Call) : String :=
  if cs.isEmpty then "-" else ";".intercalate (cs.map fun c => hexOf c.frag ++ ":" ++ showVal c.val)

def excName : Outcome → String
  | .ok => "none"
  | .raised .FormatError => "FormatError"
  | .raised .ClassError => "ClassError"
  | .raised .OutOfMemoryError => "OutOfMemoryError"
  | .raised .ValueError => "ValueError"
  | .raised .Fuel => "model-fuel"
  | .oob => "model-oob"

def posStr (r : Result) : String := if r.oc = .ok then toString r.out.pos else "-"

def sinkBytes : Sink → Str
  | .str v => v
  | .file c => c

structure Op where
  start : Nat
  old : Str
  fmt : Str
  args : List Obj
  tab : List ((Str × PVal) × Option Str)

def parseOp (ws : List String) (withTable : Bool) : Option Op :=
  match ws with
  | st :: old :: fmt :: n :: r => do
    let st ← st.toNat?; let old ← unhex old; let fmt ← unhex fmt; let n ← n.toNat?
    let (args, r) ← parseArg.parseArgs n r
    if withTable then
      match r with
      | "T" :: m :: r => do
        let m ← m.toNat?; let tab ← parseTable m r
        pure ⟨st, old, fmt, args, tab⟩
      | _ => none
    else if r.isEmpty then pure ⟨st, old, fmt, args, []⟩ else none
  | _ => none

def depthFuel : Nat := 64

def scalarKind : Obj → Option Nat
  | .int _ => some 0
  | .flt _ => some 1
  | .str _ => some 2
  | _ => none

/-- what harness/h_fmt.c accepts: no NUL inside strings, Arrays / Lists / Slices of scalars of one type, Tables / Trees with
    values of one scalar type, at most 1000 items, known type names -/
partial def validObj : Obj → Bool
  | .str s => !s.contains NUL
  | .array items | .list items | .slice items =>
    items.length ≤ 1000 && match items with
      | [] => true
      | a :: _ => (scalarKind a).isSome && items.all fun x => scalarKind x == scalarKind a && validObj x
  | .tuple items => items.length ≤ 1000 && items.all validObj
  | .table ps | .tree ps =>
    ps.length ≤ 500 && match ps with
      | [] => true
      | (_, v) :: _ => (scalarKind v).isSome && ps.all fun p => scalarKind p.2 == scalarKind v && validObj p.2
  | .box x => validObj x
  | .other n => n ∈ ["File", "Ref", "NoShow"].map String.toList
  | .type n => n ∈ ["Int", "Float", "String", "Array", "List", "Tuple", "Table", "Tree", "File", "Range", "Slice", "Box", "Ref", "Type"].map String.toList
  | _ => true

/-- the destination itself occurs among the arguments (op A only) -/
partial def hasSink : Obj → Bool
  | .sink => true
  | .array items | .list items | .slice items | .tuple items => items.any hasSink
  | .table ps | .tree ps => ps.any fun p => hasSink p.1 || hasSink p.2
  | .box x => hasSink x
  | _ => false

def validOp (op : Op) (beyond : Bool := false) : Bool :=
  (op.start ≤ op.old.length || (beyond && op.start ≤ op.old.length + 64)) && op.start ≤ 1000000 && !op.old.contains NUL && !op.fmt.contains NUL &&
  op.args.length ≤ 1000 && op.args.all validObj

/-- the grammar of the J ops: the property's printf grammar, plus `l` in front of `c` -/
def inGrammarWide (conv : Str) (fmt : Str) : Bool :=
  match parseFmt conv fmt with
  | none => false
  | some segs => segs.all fun
    | .spec b c => specOK b c || (c == 'c' && b.getLast? == some 'l' && specOK b.dropLast c)
    | _ => true

def runP (op : Op) (wide : Bool) : IO Unit := do
  if !(if wide then inGrammarWide cfg.conv op.fmt else inGrammar cfg.conv op.fmt) then
    IO.println "O outside-grammar"
    return
  let prim := primOf op.tab
  let rS := printTo cfg prim scfg depthFuel op.fmt op.args ⟨.str op.old, op.start, []⟩
  let rF := printTo cfg prim scfg depthFuel op.fmt op.args ⟨.file (op.old.take op.start), op.start, []⟩
  IO.println s!"O W exc={excName rS.oc} pos={posStr rS} calls={showCalls rS.out.calls} str={hexOf (sinkBytes rS.out.sink)}"
  -- block level: the call log replayed through String_Format_To statement by statement
  let (blk, bpos, bok) := replayBlock sftProg prim rS.out.calls (blockOf op.old) op.start
  let blkAgree := if !bok then "UB" else if (accepted prim rS.out.calls).isEmpty then (if blk = blockOf op.old then "same" else "DIFF")
    else if blk = blockOf (sinkBytes rS.out.sink) ∧ (rS.oc ≠ .ok ∨ bpos = rS.out.pos) then "same" else "DIFF"
  IO.println s!"O S exc={excName rS.oc} pos={posStr rS} str={hexOf (sinkBytes rS.out.sink)} cap={blk.length}"
  IO.println s!"O F exc={excName rF.oc} pos={posStr rF} out={hexOf (sinkBytes rF.out.sink)}"
  -- self-check of the model against its reference semantics (not compared with the harness)
  let shw := showD cfg prim scfg depthFuel
  let ref := match parseFmt cfg.conv op.fmt with
    | some segs => some (refRun cfg prim shw op.args segs 0 ⟨.str op.old, op.start, []⟩, segs.length, nspecs segs)
    | none => none
  let agree := match ref with
    | some (p, _, _) => if p = rS.pair then "same" else "DIFF"
    | none => "unparsed"
  let (nseg, nsp) := match ref with
    | some (_, a, b) => (a, b)
    | none => (0, 0)
  let nrej := (rS.out.calls.filter fun c => prim.rej c.frag c.val).length
  IO.println s!"R len={op.fmt.length} rd={rS.marks.rdMax} wr={rS.marks.wrMax} ref={agree} segs={nseg} specs={nsp} args={op.args.length} calls={rS.out.calls.length} rejected={nrej} blk={blkAgree}"

def runA (op : Op) : IO Unit := do
  let prim := primOf op.tab
  let r := printTo cfg prim scfg depthFuel op.fmt op.args ⟨.str op.old, op.start, []⟩
  if r.oc = .oob then IO.println "O A oob=1" else IO.println s!"O A oob=0 exc={excName r.oc}"
  IO.println s!"R len={op.fmt.length} rd={r.marks.rdMax} wr={r.marks.wrMax} oc={excName r.oc} specs={(op.args.length)} plain={plainArgs depthFuel op.args}"

/-- op V: a well-formed format with a specification outside the printf grammar -/
def runV (op : Op) : IO Unit := do
  match parseFmt cfg.conv op.fmt with
  | none => IO.println "O bad-op"
  | some segs =>
    let prim := primOf []
    let r := printTo cfg prim scfg depthFuel op.fmt op.args ⟨.str op.old, op.start, []⟩
    IO.println s!"O V exc={excName r.oc} calls={showCalls r.out.calls}"
    IO.println s!"R len={op.fmt.length} rd={r.marks.rdMax} wr={r.marks.wrMax} printfOK={segs.all Seg.printfOK} inContract={r.out.calls.all Call.inContract} specs={nspecs segs}"

/-- op B: a String sink written from a start position that may lie beyond its end -/
def runB (op : Op) : IO Unit := do
  let prim := primOf op.tab
  let r := printTo cfg prim scfg depthFuel op.fmt op.args ⟨.str op.old, op.start, []⟩
  let txt := textOf prim r.out.calls
  let cval := if accepted prim r.out.calls = [] then op.old else cValueAfter op.old op.start txt
  IO.println s!"O B exc={excName r.oc} pos={posStr r} cstr={hexOf cval}"
  IO.println s!"R len={op.fmt.length} rd={r.marks.rdMax} wr={r.marks.wrMax} beyond={decide (op.start > op.old.length)} specs={(op.args.length)}"

/-- op Q: what stays allocated of `fmt_buf` -/
def runQ (op : Op) : IO Unit := do
  let prim := primOf op.tab
  let r := printTo cfg prim scfg depthFuel op.fmt op.args ⟨.file (op.old.take op.start), op.start, []⟩
  IO.println s!"O Q exc={excName r.oc} leaked={r.leaked op.fmt}"
  IO.println s!"R len={op.fmt.length} rd={r.marks.rdMax} wr={r.marks.wrMax} oc={excName r.oc} specs={(op.args.length)}"

def runM (op : Op) : IO Unit := do
  let prim := primOf []
  let r := printTo cfg prim scfg depthFuel op.fmt op.args ⟨.str op.old, op.start, []⟩
  IO.println s!"O M oob={if r.oc = .oob then 1 else 0}"
  IO.println s!"R len={op.fmt.length} rd={r.marks.rdMax} wr={r.marks.wrMax} oc={excName r.oc}"

end FmtDrv

def main (args : List String) : IO Unit := do
  let lines ← Driver.inputLines args
  for l in lines do
    if Driver.isSkippable l then continue
    match Driver.words l with
    | "P" :: ws | "K" :: ws =>
      match FmtDrv.parseOp ws true with
      | some op => if FmtDrv.validOp op && !op.args.any FmtDrv.hasSink then FmtDrv.runP op false else IO.println "O bad-op"
      | none => IO.println "O bad-op"
    | "J" :: ws =>
      match FmtDrv.parseOp ws true with
      | some op => if FmtDrv.validOp op && !op.args.any FmtDrv.hasSink then FmtDrv.runP op true else IO.println "O bad-op"
      | none => IO.println "O bad-op"
    | "A" :: ws =>
      match FmtDrv.parseOp ws true with
      | some op => if FmtDrv.validOp op then FmtDrv.runA op else IO.println "O bad-op"
      | none => IO.println "O bad-op"
    | "V" :: ws =>
      match FmtDrv.parseOp ws true with
      | some op => if FmtDrv.validOp op && !op.args.any FmtDrv.hasSink then FmtDrv.runV op else IO.println "O bad-op"
      | none => IO.println "O bad-op"
    | "B" :: ws =>
      match FmtDrv.parseOp ws true with
      | some op => if FmtDrv.validOp op true && !op.args.any FmtDrv.hasSink && inGrammar FmtDrv.cfg.conv op.fmt then FmtDrv.runB op else IO.println "O bad-op"
      | none => IO.println "O bad-op"
    | "Q" :: ws =>
      match FmtDrv.parseOp ws true with
      | some op => if FmtDrv.validOp op && !op.args.any FmtDrv.hasSink && inGrammar FmtDrv.cfg.conv op.fmt then FmtDrv.runQ op else IO.println "O bad-op"
      | none => IO.println "O bad-op"
    | "M" :: ws =>
      match FmtDrv.parseOp ws false with
      | some op => if FmtDrv.validOp op then FmtDrv.runM op else IO.println "O bad-op"
      | none => IO.println "O bad-op"
    | _ => IO.println "O bad-op"
