import Cello.Fail
import Cello.FailIdx
import Driver.Common
/- driver for engine `fail` (C12): interprets the op file on the model `Cello.Fail` and prints, for every op, the
   result (ok / raised:<exception> / ub) and the canonical dump of the object operated on — what harness/h_fail.c
   prints for the real library. -/
open Cello.Fail

namespace FailDrv

/-! #### tokens -/

def isAlnum (c : Char) : Bool := c.isAlphanum

def parseInt (s : String) : Option Int :=
  if s.startsWith "-" then (s.drop 1).toString.toNat?.map (fun n => -(n : Int)) else s.toNat?.map (fun n => (n : Int))

def inI64 (i : Int) : Bool := decide (-(2 ^ 63 : Int) ≤ i) && decide (i < (2 ^ 63 : Int))

/-- value token: i<int> | s<alnum*> | p<int> | N -/
def parseVal (t : String) : Option Val :=
  if t = "N" then some .null
  else match t.toList with
    | 'i' :: r => (parseInt (String.ofList r)).bind (fun i => if inI64 i then some (.int i) else none)
    | 'p' :: r => (parseInt (String.ofList r)).bind (fun i => if decide (-1000000 ≤ i) && decide (i ≤ 1000000) then some (.plain i) else none)
    | 's' :: r => if r.all isAlnum && r.length ≤ 16 then some (.str r) else none
    | _ => none

def parseTy (t : String) : Option Ty :=
  if t = "int" then some .int else if t = "str" then some .str else if t = "plain" then some .plain else none

def parseAlloc (t : String) : Option AllocK :=
  if t = "heap" then some .heap else if t = "stack" then some .stack else if t = "static" then some .static else none

def parseId (t : String) : Option Nat := t.toNat?.bind (fun n => if n < 64 then some n else none)

def parseVals : List String → Option (List Val)
  | [] => some []
  | t :: ts => do let v ← parseVal t; let vs ← parseVals ts; pure (v :: vs)

def parsePairs : List String → Option (List (Val × Val))
  | [] => some []
  | [_] => none
  | a :: b :: ts => do let k ← parseVal a; let v ← parseVal b; let r ← parsePairs ts; pure ((k, v) :: r)

def parseFmt : List String → Option (List FmtItem)
  | [] => some []
  | t :: ts => do
    let it ← (if t = "D" then some FmtItem.d else if t = "S" then some FmtItem.s else if t = "Q" then some FmtItem.q
              else match t.toList with
                | 'L' :: r => if r.all isAlnum && r.length ≥ 1 && r.length ≤ 16 then some (FmtItem.lit r) else none
                | _ => none)
    let r ← parseFmt ts
    pure (it :: r)

/-- container token: `c` followed by dot-separated ints (`c` alone: empty) — a container of the nest's element kind -/
def parseInts (t : String) : Option (List Int) :=
  match t.toList with
  | 'c' :: r =>
    if r.isEmpty then some []
    else
      let parts := (String.ofList r).splitOn "."
      if parts.length > 16 then none
      else parts.foldr (fun p acc => do
        let xs ← acc
        let i ← parseInt p
        if decide (-1000000 ≤ i) && decide (i ≤ 1000000) then pure (i :: xs) else none) (some [])
  | _ => none

def mkInner (ek : IK) (xs : List Int) : Inner :=
  match ek with
  | .arr => .arr { ty := .int, items := xs.map Val.int, nslots := xs.length }
  | .lst => .lst { ty := .int, items := xs.map Val.int }
  | .tab =>
    let items := xs.foldl (fun acc x => assocSet acc (.int x) (.int x)) []
    .tab { kty := .int, vty := .int, items := items, nslots := idealSize xs.length }

def parseIK (t : String) : Option IK :=
  if t = "arr" then some .arr else if t = "lst" then some .lst else if t = "tab" then some .tab else none

/-- source of `set` / `push` on a nested container: a container token, an Int, a Plain, NULL -/
def parseNSrc (ek : IK) (t : String) : Option NSrc :=
  match parseInts t with
  | some xs => some (.cont (mkInner ek xs))
  | none =>
    match parseVal t with
    | some (.int i) => some (.val (.int i))
    | some (.plain i) => some (.val (.plain i))
    | some .null => some (.val .null)
    | _ => none

/-! #### dumps -/

def showVal : Val → String
  | .int i => s!"i{i}"
  | .str s => "s" ++ String.ofList s
  | .plain n => s!"p{n}"
  | .null => "N"
  | .nullstr => "s<NULL>"

def showVals (vs : List Val) : String := ",".intercalate (vs.map showVal)

def ltChars : List Char → List Char → Bool
  | [], [] => false
  | [], _ :: _ => true
  | _ :: _, [] => false
  | a :: as, b :: bs => if a.toNat < b.toNat then true else if a.toNat > b.toNat then false else ltChars as bs

def keyLt : Val → Val → Bool
  | .int a, .int b => decide (a < b)
  | .str a, .str b => ltChars a b
  | _, _ => false

def insertSorted (p : Val × Val) : List (Val × Val) → List (Val × Val)
  | [] => [p]
  | q :: qs => if keyLt p.1 q.1 then p :: q :: qs else q :: insertSorted p qs

def sortPairs (ps : List (Val × Val)) : List (Val × Val) := ps.foldl (fun acc p => insertSorted p acc) []

def showPairs (ps : List (Val × Val)) : String :=
  ",".intercalate ((sortPairs ps).map (fun p => showVal p.1 ++ ":" ++ showVal p.2))

/-- `mv`: the op just executed replaced the slot array of the Table (`Tab.moves`; false for a dump that follows no op) -/
def dump (o : Obj) (mv : Bool := false) : String :=
  match o with
  | .arr a => s!"A {a.ty.name} n={a.items.length} cap={a.nslots} [{showVals a.items}]"
  | .lst l => s!"L {l.ty.name} n={l.items.length} [{showVals l.items}]"
  | .tup t => s!"T {t.alloc.name} n={t.items.length} [{showVals t.items}]"
  | .tab t => s!"H {t.kty.name} {t.vty.name} n={t.items.length} slots={t.nslots} mv={if mv then 1 else 0} " ++ "{" ++ showPairs t.items ++ "}"
  | .tre t => s!"R {t.kty.name} {t.vty.name} n={t.items.length} " ++ "{" ++ showPairs t.items ++ "}"
  | .str s => s!"S {s.alloc.name} len={s.s.length} \"{String.ofList s.s}\""
  | .rng r => s!"G {r.start} {r.stop} {r.step} val={r.scratch}"
  | .slc s => s!"C {s.base} {s.rng.start} {s.rng.stop} {s.rng.step} val={s.rng.scratch}"
  | .zip z => s!"Z {z.a} {z.b}"
  | .scalar a v => s!"V {a.name} {showVal v}"
  | .nest n =>
    let inner : Inner → String := fun
      | .arr a => s!"{a.ty.name}({showVals a.items})"
      | .lst l => s!"{l.ty.name}({showVals l.items})"
      | .tab t => s!"{t.kty.name}:{t.vty.name}(" ++ showPairs t.items ++ ")"
    let head := match n.outer with
      | .arr => s!"NA {n.ek.name} n={n.items.length} cap={n.nslots}"
      | .lst => s!"NL {n.ek.name} n={n.items.length}"
    head ++ " [" ++ ";".intercalate (n.items.map inner) ++ "]"
  | .junk m => match m with | .dead => "J dead" | .bad => "J bad" | .good => "J good"

def showRet : Ret → String
  | .unit => "ok"
  | .val v => "ok:" ++ showVal v
  | .bool b => if b then "ok:true" else "ok:false"
  | .nat n => s!"ok:{n}"
  | .vals vs => "ok:(" ++ showVals vs ++ ")"
  | .name s => "ok:" ++ s

/-- the message of an index / empty-pop refusal of an Array / List / Tuple: the format and arguments of the throw site of the refusing
    C function (`CelloGen.Fail.throwSites`), rendered by `Cello.Fail.SeqK.refusalMsg` — the harness prints `current(Exception)->msg` -/
def refusalMsgOf (o : Obj) (op : Op) (r : Res) : String :=
  match r with
  | .raised .IndexOutOfBoundsError =>
    let sk : Option (SeqK × Nat) := match o with
      | .arr a => some (.arr, a.items.length) | .lst l => some (.lst, l.items.length) | .tup t => some (.tup, t.items.length) | _ => none
    match sk with
    | some (k, n) => (match k.refusalMsg n op with | some m => " msg=" ++ m | none => " msg=?")
    | none => ""
  | _ => ""

def showRes : Res → String
  | .ok r => showRet r
  | .raised e => "raised:" ++ e.name
  | .ub => "ub"

/-! #### interpreter state -/

structure St where
  store : Store := []
  dead : List Nat := []          -- objects left in a state the histories do not continue from (known findings)
  nops : Nat := 0
  nraised : Nat := 0

def isSeqObj : Obj → Bool
  | .arr _ => true | .lst _ => true | .tup _ => true | _ => false

def seqItems : Obj → List Val
  | .arr a => a.items | .lst l => l.items | .tup t => t.items | _ => []

def valHasTy (ty : Ty) (v : Val) : Bool := v.ty? = some ty

/-- `new …` → the object, or none when the line is not an admissible construction -/
def mkObj (σ : Store) (kind : String) (args : List String) : Option Obj :=
  match kind, args with
  | "arr", ty :: vs => do
    let ty ← parseTy ty; let vs ← parseVals vs
    if vs.all (valHasTy ty) && vs.length ≤ 200 then some (.arr { ty := ty, items := vs, nslots := vs.length }) else none
  | "lst", ty :: vs => do
    let ty ← parseTy ty; let vs ← parseVals vs
    if vs.all (valHasTy ty) && vs.length ≤ 200 then some (.lst { ty := ty, items := vs }) else none
  | "tup", al :: vs => do
    let al ← parseAlloc al; let vs ← parseVals vs
    if vs.all (fun v => v ≠ .null) && al ≠ .static && vs.length ≤ 200 then some (.tup { alloc := al, items := vs }) else none
  | "tab", k :: v :: ps => do
    let k ← parseTy k; let v ← parseTy v; let ps ← parsePairs ps
    if k ≠ .plain && v ≠ .plain && ps.length ≤ 100 && ps.all (fun p => valHasTy k p.1 && valHasTy v p.2) then
      let items := ps.foldl (fun acc p => assocSet acc p.1 p.2) []
      some (.tab { kty := k, vty := v, items := items, nslots := idealSize ps.length })
    else none
  | "tre", k :: v :: ps => do
    let k ← parseTy k; let v ← parseTy v; let ps ← parsePairs ps
    if k ≠ .plain && v ≠ .plain && ps.length ≤ 100 && ps.all (fun p => valHasTy k p.1 && valHasTy v p.2) then
      some (.tre { kty := k, vty := v, items := ps.foldl (fun acc p => assocSet acc p.1 p.2) [] })
    else none
  | "str", [al, t] => do
    let al ← parseAlloc al
    match parseVal t with
    | some (.str s) => some (.str { alloc := al, s := s })
    | _ => none
  | "rng", [a, b, c] => do
    -- any `int64_t` start / stop / step whose `Range_Len` evaluates without signed overflow (`Rng.lenOk`)
    let a ← parseInt a; let b ← parseInt b; let c ← parseInt c
    let r : Rng := { start := a, stop := b, step := c, scratch := 0 }
    if inI64 a && inI64 b && inI64 c && r.lenOk then some (.rng r) else none
  | "slc", [base, a, b, c] => do
    let base ← parseId base; let a ← parseInt a; let b ← parseInt b; let c ← parseInt c
    let small := fun (x : Int) => decide (-1000000 ≤ x) && decide (x ≤ 1000000)
    let o ← σ.get? base
    if isSeqObj o && small a && small b && small c then some (.slc (Slc.make base (seqItems o).length a b c)) else none
  | "zip", [a, b] => do
    let a ← parseId a; let b ← parseId b
    let oa ← σ.get? a; let ob ← σ.get? b
    if isSeqObj oa && isSeqObj ob then some (.zip { a := a, b := b }) else none
  | "narr", ek :: cs => do
    let ek ← parseIK ek
    let xs ← cs.foldr (fun t acc => do let r ← acc; let x ← parseInts t; pure (x :: r)) (some [])
    if xs.length ≤ 40 then some (.nest { outer := .arr, ek := ek, items := xs.map (mkInner ek), nslots := xs.length }) else none
  | "nlst", ek :: cs => do
    let ek ← parseIK ek
    let xs ← cs.foldr (fun t acc => do let r ← acc; let x ← parseInts t; pure (x :: r)) (some [])
    if xs.length ≤ 40 then some (.nest { outer := .lst, ek := ek, items := xs.map (mkInner ek), nslots := 0 }) else none
  | "junk", [m] =>
    if m = "dead" then some (.junk .dead) else if m = "bad" then some (.junk .bad) else none
  | "val", [al, v] => do
    let al ← parseAlloc al; let v ← parseVal v
    match v with
    | .int _ => some (.scalar al v)
    | .plain _ => some (.scalar al v)
    | _ => none
  | _, _ => none

def parseOp (σ : Store) (name : String) (args : List String) : Option Op :=
  match name, args with
  | "get", [k] => (parseVal k).map .get
  | "set", [k, v] => do let k ← parseVal k; let v ← parseVal v; pure (.set k v)
  | "mem", [v] => (parseVal v).map .mem
  | "rem", [v] => (parseVal v).map .rem
  | "push", [v] => (parseVal v).map .push
  | "pushat", [v, k] => do let v ← parseVal v; let k ← parseVal k; pure (.pushAt v k)
  | "pop", [] => some .pop
  | "popat", [k] => (parseVal k).map .popAt
  | "resize", [n] => n.toNat?.bind (fun n => if n ≤ 64 then some (.resize n) else none)
  | "len", [] => some .len
  | "append", [v] => (parseVal v).map .append
  | "assign", [v] => (parseVal v).map .assign
  | "concat", [s] =>
    match parseId s with
    | some sid => (σ.get? sid).bind (fun o => if isSeqObj o then some (.concat (.seq (seqItems o))) else none)
    | none => (parseVal s).map (fun v => .concat (.scalar v))
  | "print", pos :: rest =>
    match rest.span (· ≠ "|") with
    | (fmt, "|" :: as) => do
      let pos ← pos.toNat?
      let fmt ← parseFmt fmt
      let as ← parseVals as
      if pos ≤ 64 && as.all (fun v => match v with | .plain _ => false | _ => true) then some (.print pos fmt as) else none
    | _ => none
  | _, _ => none

def smallRng (r : Rng) : Bool :=
  let small := fun (x : Int) => decide (-1000000 ≤ x) && decide (x ≤ 1000000)
  small r.start && small r.stop && small r.step

/-- operation on a nested container -/
def parseNOp (n : Nest) (name : String) (args : List String) : Option NOp :=
  match name, args with
  | "get", [k] => (parseVal k).map .get
  | "set", [k, v] => do let k ← parseVal k; let v ← parseNSrc n.ek v; pure (.set k v)
  | "push", [v] => (parseNSrc n.ek v).map .push
  | "append", [v] => (parseNSrc n.ek v).map .push
  | "pushat", [v, k] => do let v ← parseNSrc n.ek v; let k ← parseVal k; pure (.pushAt v k)
  | "pop", [] => some .pop
  | "popat", [k] => (parseVal k).map .popAt
  | "len", [] => some .len
  | "resize", [m] => m.toNat?.bind (fun m =>
      if m ≤ 64 && (n.outer = .arr || m ≤ n.items.length) then some (.resize m) else none)   -- a List is not grown (zeroed containers)
  | _, _ => none

/-- a nested container is abandoned after a `set` / Array `push` / `push_at` whose *source* was refused (territory of the assign and
    F15 findings): the index was fine and the operation still did not succeed.  (A List `push` that fails leaves the list as it was.) -/
def poisonsN (n : Nest) (op : NOp) (r : Res) : Bool :=
  match op with
  | .set k _ => !r.isOk && (resolve n.items.length k).isOk
  | .push _ => !r.isOk && n.outer = .arr
  | .pushAt _ k =>
    !r.isOk && n.outer = .arr &&
      (match cInt k with | .ok kb => inBoundsIncl n.items.length (normIdxPush n.items.length kb) | _ => false)
  | _ => false

/-- ops the histories exclude because the model does not describe what follows (the harness applies the same rules) -/
def excluded (o : Obj) (op : Op) : Bool :=
  match o, op with
  | .junk _, .print _ _ _ => true                 -- an empty format returns before `Type_Of` is reached
  | .str s, .print pos _ _ => pos > s.s.length
  | _, .print _ (.lit _ :: _) _ => false
  | _, .print _ [] _ => false
  | _, .print _ _ _ => true                       -- a directive first, into a sink that is not a String
  | .slc _, .mem _ => true
  | .zip _, .mem _ => true
  | .rng r, .mem _ => !(smallRng r)               -- `Range_Mem` is modelled without overflow: small fields only
  | .lst l, .resize n => l.ty = .str && n > l.items.length   -- would create String slots with a NULL buffer
  | o, .concat (.seq vs) => (seqItems o).length + vs.length > 200    -- the histories keep containers small
  | .tab t, .set _ _ => t.items.length ≥ 300
  | .tre t, .set _ _ => t.items.length ≥ 300
  | o, .push _ => (seqItems o).length ≥ 300
  | o, .append _ => (seqItems o).length ≥ 300
  | o, .pushAt _ _ => (seqItems o).length ≥ 300
  | _, _ => false

/-- after this op the object is not used any more -/
def poisons (o : Obj) (op : Op) (r : Res) : Bool :=
  match o, op with
  | .arr _, .assign _ => true
  | .lst _, .assign _ => true
  | .tab _, .assign _ => true
  | .tre _, .assign _ => true
  | .arr a, .push _ => a.ty = .str && !r.isOk
  | .arr a, .append _ => a.ty = .str && !r.isOk
  | .arr a, .pushAt _ k =>       -- refused at the element assignment (F15); a refused *position* has touched nothing
    a.ty = .str && !r.isOk &&
      (match cInt k with | .ok kb => inBoundsIncl a.items.length (normIdxPush a.items.length kb) | _ => false)
  | .arr _, .concat _ => !r.isOk
  | _, _ => false

def knownTypes : List String :=
  ["Int", "String", "Array", "List", "Tuple", "Table", "Tree", "Range", "Slice", "Zip", "Plain", "Float"]

/-- the objects a view is built over must still be live sequences -/
def basesOk (st : St) (o : Obj) : Bool :=
  let okId := fun (b : Nat) => !st.dead.contains b && (match st.store.get? b with | some x => isSeqObj x | none => false)
  match o with
  | .slc s => okId s.base
  | .zip z => okId z.a && okId z.b
  | _ => true

def line (st : St) (l : String) : St × String :=
  let bad := (st, "O bad-op")
  match Driver.words l with
  | "new" :: id :: kind :: args =>
    match parseId id with
    | none => bad
    | some id =>
      if (st.store.get? id).isSome then bad else      -- ids are never reused
      match mkObj st.store kind args with
      | none => bad
      | some o => if basesOk st o then ({ st with store := st.store.put id o }, "O new | " ++ dump o) else bad
  | name :: "N" :: args =>
    -- a method call on the NULL object: the arguments must be well formed, the outcome does not depend on them
    let argsOk :=
      if name = "typeof" || name = "dealloc" || name = "sort" || name = "assignself" then args.isEmpty
      else if name = "cast" then args.length = 1 && knownTypes.contains (args.headD "")
      else if name = "print" then false
      else if name = "concat" then (match args with | [s] => (parseId s).isNone && (parseVal s).isSome | _ => false)
      else (parseOp [] name args).isSome
    if argsOk then ({ st with nops := st.nops + 1, nraised := st.nraised + 1 }, "O " ++ showRes nullCall ++ " | -") else bad
  | name :: id :: args =>
    match parseId id with
    | none => bad
    | some id =>
      if st.dead.contains id then bad else
      match st.store.get? id with
      | none => bad
      | some o =>
        if !basesOk st o then bad else
        -- operations that are not class methods
        let isJunk := match o with | .junk _ => true | _ => false
        if name = "typeof" then
          if args.isEmpty then
            let r := headerCall o (.ok (.name o.typeName))
            ({ st with nops := st.nops + 1, nraised := st.nraised + (if r.isOk then 0 else 1) }, "O " ++ showRes r ++ " | " ++ dump o)
          else bad
        else if name = "cast" then
          if args.length = 1 && knownTypes.contains (args.headD "") then
            let r := headerCall o (castObj o (args.headD ""))
            ({ st with nops := st.nops + 1, nraised := st.nraised + (if r.isOk then 0 else 1) }, "O " ++ showRes r ++ " | " ++ dump o)
          else bad
        else if name = "dealloc" then
          if !args.isEmpty || (o.allocK = .heap && !isJunk) then bad
          else ({ st with nops := st.nops + 1, nraised := st.nraised + 1 }, "O " ++ showRes (headerCall o (deallocObj o.allocK)) ++ " | " ++ dump o)
        else if name = "deallocelem" then
          match args with
          | [i] =>
            (match i.toNat?, o with
             | some i, .arr a => if i < a.items.length then
                 ({ st with nops := st.nops + 1, nraised := st.nraised + 1 }, "O " ++ showRes (deallocObj .data) ++ " | " ++ dump o) else bad
             | some i, .lst l => if i < l.items.length then
                 ({ st with nops := st.nops + 1, nraised := st.nraised + 1 }, "O " ++ showRes (deallocObj .data) ++ " | " ++ dump o) else bad
             | _, _ => bad)
          | _ => bad
        else if name = "sort" || name = "assignself" then
          -- sort(x) / assign(x, x): no argument
          if !args.isEmpty then bad else
          match (if name = "sort" then o.sort else o.assignSelf) with
          | none => bad
          | some (o', r) =>
            ({ st with store := st.store.put id o', nops := st.nops + 1, nraised := st.nraised + (match r with | .raised _ => 1 | _ => 0) },
             "O " ++ showRes r ++ " | " ++ dump o')
        else if name = "getk" || name = "getv" then
          -- `get(table, p)` with `p` the key / value object inside the table's own slot array (the slot that holds key `k`)
          match o, args with
          | .tab t, [k] =>
            (match parseVal k with
             | some kv =>
               let a : SlotArg := if name = "getk" then .key kv else .val kv
               if (t.slotObj a).isNone then bad else
               let (t', r) := t.getSlot a
               ({ st with store := st.store.put id (.tab t'), nops := st.nops + 1, nraised := st.nraised + (match r with | .raised _ => 1 | _ => 0) },
                "O " ++ showRes r ++ " | " ++ dump (.tab t'))
             | none => bad)
          | _, _ => bad
        else
        match o with
        | .nest n =>
          (match parseNOp n name args with
           | none => bad
           | some nop =>
             let (σ', r) := stepN st.store id nop
             let o' := (σ'.get? id).getD o
             let dies := poisonsN n nop r
             ({ st with store := σ', nops := st.nops + 1, nraised := st.nraised + (match r with | .raised _ => 1 | _ => 0),
                        dead := if dies then id :: st.dead else st.dead },
              "O " ++ showRes r ++ " | " ++ (if dies then "dead" else dump o')))
        | _ =>
        -- concat from an object: the source must be another live sequence
        let srcOk := match name, args with
          | "concat", [s] =>
            (match parseId s with
             | some sid =>
               -- a Tuple copies the *pointers* of the source's items: only another Tuple (whose items are objects of their own)
               sid ≠ id && !st.dead.contains sid &&
                 (match o, st.store.get? sid with | .tup _, some (.tup _) => true | .tup _, _ => false | _, _ => true)
             | none => true)
          | _, _ => true
        if !srcOk then bad else
        match parseOp st.store name args with
        | none => bad
        | some op =>
          if excluded o op then bad else
          let (σ', r) := step st.store id op
          let o' := (σ'.get? id).getD o
          let mv := match o with | .tab t => t.moves op | _ => false
          let dies := poisons o op r
          ({ st with store := σ', nops := st.nops + 1, nraised := st.nraised + (match r with | .raised _ => 1 | _ => 0),
                     dead := if dies then id :: st.dead else st.dead },
           "O " ++ showRes r ++ refusalMsgOf o op r ++ " | " ++ (if dies then "dead" else dump o' mv))
  | _ => bad

end FailDrv

def main (args : List String) : IO Unit := do
  let lines ← Driver.inputLines args
  let mut st : FailDrv.St := {}
  for l in lines do
    if Driver.isSkippable l then continue
    let (st', out) := FailDrv.line st l
    st := st'
    IO.println out
  IO.println s!"S ops={st.nops} raised={st.nraised}"
