import Cello.Dispatch
import Cello.DispatchMsg
import Cello.DispatchId
import CelloGen.Disp
import Driver.Common
/- driver for engine `disp` (C08): executes the op file of harness/h_disp.c on the model `Cello.Dispatch` and prints the
   same `O` lines.  Run-time types are constructed by the word-level `Type_New` of the model on the storage they get
   (calloc'ed, junk-filled caller storage, or — `W` — the words of their own previous incarnation: warmed cache words,
   memoised class pointers, old triples); instance pointers get fresh identities at every construction and are printed as
   the index of the triple of the CURRENT record that holds them (`?` for a pointer no current triple holds).  Besides, on every lookup it checks the model against itself: the observation equals `specObs` of the
   declaration, the executable invariant `invb` holds afterwards, and the small-step machine run alone (`runSolo`) ends
   in the state and result of the sequential functions; a failure prints `O MODEL-INCONSISTENT …` (a divergence). -/
/- Type objects are kept by ADDRESS in a `Heap` (records + the `__Name` of every live run-time type object, types and `C`
   classes alike): a class token `t.<tid>` / `r.<k>` denotes the class value "address + name read NOW"; N/T/W/X run the
   heap-level `Heap.construct` / `Heap.delete` of `C08_world_history` next to the word-level `Type_New` (their records must
   agree) — a write of `__Name` is seen through every memoised pointer to that address (`Heap.retarget`), which is how the
   model reproduces KF-C08-class-memo-stale; after every such operation inside the theorem's territory (`nameWriteSafe`)
   the executable heap invariant `Heap.okb` must hold again. -/
/- Mode `heap` of `N`: the address comes from a LIFO pool (what malloc does with a just-freed block): `X` pushes the address,
   the next `N … heap` pops it — a new type object on the address of a deleted one, storage calloc'ed.  Ops `c d g f`: a
   dispatching library function / a `method` / `type_method` / `implements_method` call site used on an object of the type
   (`useW` of Cello/DispatchId.lean, the function of `C08_call_exact` / `C08_history_independent`); the (class, member index,
   hard|soft) of a function name is read from the SOURCE (CelloGen.Disp.methodSites / instanceSites). -/
open Cello.Dispatch

namespace DispDrv

def slots : List (Nat × Cls) := CelloGen.Disp.cacheSlots.map (fun p => (p.1, ⟨0, p.2⟩))
def castCls : Cls := ⟨0, "Cast"⟩
def probeNames : List String := ["ProbeS0", "ProbeS1", "ProbeS2", "ProbeS3"]
def maxT : Nat := 8192
def maxC : Nat := 4096
def maxRow : Nat := 300
def cellW : Nat := 8

/-- the part of a run-time type's storage that is not in its record: `__Name`, `__Size`, the words after the terminator -/
structure Aux where
  name : String
  size : Nat
  rest : List Word
deriving Inhabited

structure St where
  h : Heap                        -- records by ADDRESS, `__Name` of every live run-time type object (types and `C` classes)
  kinds : List (Nat × Nat)        -- tid ↦ 1 library type | 2 static probe | 3 run-time type
  rcls : List (Nat × String)
  syms : List (Nat × String)      -- tid ↦ symbol of a B/S-bound type object
  aux : List (Nat × Aux) := []    -- run-time types
  nextId : Nat := 1000            -- instance pointers of run-time types are never reused: every construction gets fresh identities
  addrs : List (Nat × Nat) := []  -- tid ↦ address of the run-time type object (B/S-bound type objects: address = tid)
  arena : List Nat := []          -- used slots of the harness arena (mode `arena`)
  nextAddr : Nat := 2000000       -- addresses of malloc'ed type objects: assumed never handed out twice while a memoised pointer to the first dangles
  bufs : List (Nat × String) := []              -- the caller's character buffers (op Z): their text now
  nameBuf : List (Nat × Nat) := []              -- provenance of `__Name` cells (XHeap)
  tripleBuf : List ((Nat × Nat) × Nat) := []    -- provenance of triple name words (XHeap)
  heapFree : List Nat := []       -- mode `heap`: released pool slots, most recently released first
  heapNext : Nat := 0             -- mode `heap`: number of pool slots handed out so far
deriving Inhabited

def St.init : St := { h := { w := { slots := slots, theType := 0, types := [] }, names := [] }, kinds := [], rcls := [], syms := [] }

/-- numbering of addresses: B/S type objects = their tid; `C` class k = 1000000 + k; arena slot s = 500000 + s; malloc'ed = fresh ≥ 2000000 -/
def clsAddr (k : Nat) : Nat := 1000000 + k
def arenaAddr (slot : Nat) : Nat := 500000 + slot
def nSlot : Nat := 8
def heapAddr (slot : Nat) : Nat := 600000 + slot
def nPool : Nat := 64
/-- the pool slot the next `N … heap` gets -/
def heapSlot (free : List Nat) (next : Nat) : Option Nat :=
  match free with
  | sl :: _ => some sl
  | [] => if next < nPool then some next else none
def addrOf (s : St) (tid : Nat) : Nat := ((s.addrs.find? (fun p => p.1 = tid)).map (·.2)).getD tid
def St.w (s : St) : World := s.h.w
def St.setW (s : St) (w : World) : St := { s with h := { s.h with w := w } }
def St.recOf (s : St) (tid : Nat) : Option TypeRec := s.h.w.get (addrOf s tid)
/-- the pointer-level view of the state (KF-C08-borrowed-name) -/
def St.x (s : St) : XHeap := { h := s.h, bufs := s.bufs, nameBuf := s.nameBuf, tripleBuf := s.tripleBuf }
def St.setX (s : St) (x : XHeap) : St := { s with h := x.h, bufs := x.bufs, nameBuf := x.nameBuf, tripleBuf := x.tripleBuf }
def nBuf : Nat := 64
/-- a name token: `@<b>` = `$S(the caller's buffer b)`, anything else = a literal -/
def nameArg (s : St) (tok : String) : Option (NameArg × String) :=
  if tok.startsWith "@" then
    let d := String.ofList (tok.toList.drop 1)
    if d.isEmpty || !d.toList.all Char.isDigit then none else
    match d.toNat? with
    | some b => if b ≥ nBuf then none else
      match s.x.bufText b with
      | some text => if text.isEmpty then none else some (.buf b, text)
      | none => none
    | none => none
  else some (.lit tok, tok)

def layout : Layout :=
  { cacheNum := CelloGen.Disp.cacheNum, nBuiltins := CelloGen.Disp.nBuiltins, maxInstances := CelloGen.Disp.maxInstances }

def auxOf (s : St) (tid : Nat) : Option Aux := (s.aux.find? (fun p => p.1 = tid)).map (·.2)
def setAux (s : St) (tid : Nat) (a : Aux) : St := { s with aux := (tid, a) :: s.aux.filter (fun p => p.1 ≠ tid) }
/-- the type object of `tid` is deleted (or abandoned): its record and name go, pointers to it dangle; an arena slot is
    released only by `X` (`release`) -/
def dropType (s : St) (tid : Nat) (release : Bool := false) : St :=
  let a := addrOf s tid
  { s with h := s.h.delete a, aux := s.aux.filter (fun p => p.1 ≠ tid), addrs := s.addrs.filter (fun p => p.1 ≠ tid),
           arena := if release then s.arena.filter (fun sl => arenaAddr sl ≠ a) else s.arena,
           heapFree := if release && a ≥ heapAddr 0 && a < heapAddr nPool then (a - heapAddr 0) :: s.heapFree else s.heapFree,
           nameBuf := (s.x.forget a).nameBuf, tripleBuf := (s.x.forget a).tripleBuf }

/-- calloc'ed storage of `Type_Alloc` -/
def zeroMem : List Word := List.replicate (3 * layout.cells) Word.null

def junkNames : List String := ["Hash", "Len", "Size", "Show", "Cmp", "New", "Iter", "Get", "Cast", "Alloc", "C_Str", "Push"]
def decoy : Inst := ⟨999999999, List.replicate 8 true⟩
/-- the junk the harness writes into caller-provided storage before `construct_with` (mode `junk`) -/
def junkMem : List Word :=
  (List.range layout.cells).flatMap (fun j =>
    if 3 * j + 2 < layout.cacheNum then [Word.inst decoy, .inst decoy, .inst decoy]
    else
      let nm := junkNames[j % 12]?.getD ""
      [if j % 2 = 1 then Word.cls ⟨0, nm⟩ else .null, .str nm, .inst decoy])

def tailCount (rest : List Word) : Nat := rest.countP (fun w => w ≠ Word.null)

def kindOf (s : St) (tid : Nat) : Nat := ((s.kinds.find? (fun p => p.1 = tid)).map (·.2)).getD 0
def setKind (s : St) (tid k : Nat) (sym : String := "") : St :=
  { s with kinds := (tid, k) :: s.kinds.filter (fun p => p.1 ≠ tid), syms := (tid, sym) :: s.syms.filter (fun p => p.1 ≠ tid) }
def symOf (s : St) (tid : Nat) : String := ((s.syms.find? (fun p => p.1 = tid)).map (·.2)).getD ""

def dropStr (s : String) (n : Nat) : String := String.ofList (s.toList.drop n)

def clsOf (s : St) (tok : String) : Option Cls :=
  if tok.startsWith "b." then
    let nm := dropStr tok 2
    if CelloGen.Disp.declared.any (fun d => d.1 = nm) || probeNames.contains nm then some ⟨0, nm⟩ else none
  else if tok.startsWith "r." then
    match (dropStr tok 2).toNat? with
    | some k => if s.rcls.any (fun p => p.1 = k) then s.h.resolve (.rt (clsAddr k)) else none
    | none => none
  else if tok.startsWith "t." then
    -- a live run-time TYPE object used as a class: its name is read now
    match (dropStr tok 2).toNat? with
    | some tid => if kindOf s tid = 3 then s.h.resolve (.rt (addrOf s tid)) else none
    | none => none
  else none

/-- a class pointer is printed as the token of the object that lives at its address NOW (`dead`: nothing does) -/
def clsTok (s : St) (c : Cls) : String :=
  if c.id = 0 then "b." ++ c.name else
  let a := c.id - 1
  if a ≥ clsAddr 0 && a < clsAddr maxC then "r." ++ toString (a - clsAddr 0) else
  match s.kinds.find? (fun p => p.2 = 3 && addrOf s p.1 = a) with
  | some p => "t." ++ toString p.1
  | none => "dead"

def excName : Exc → String
  | .TypeError => "TypeError" | .ValueError => "ValueError" | .ClassError => "ClassError" | .OutOfMemoryError => "OutOfMemoryError"
  | .FormatError => "FormatError"

/-- an instance pointer is printed as the index of the (first) triple of the record that holds it, `?` when none does -/
def idx (t : TypeRec) (i : Inst) : String :=
  match t.entries.findIdx? (fun e => e.inst = i) with
  | some k => toString k
  | none => "?"
def showOptInst (t : TypeRec) : Outcome (Option Inst) → String
  | .ok none => "NULL" | .ok (some i) => s!"#{idx t i}" | .raised e => excName e | .ub => "ub"
def showInst (t : TypeRec) : Outcome Inst → String
  | .ok i => s!"#{idx t i}" | .raised e => excName e | .ub => "ub"
def showBool : Outcome Bool → String
  | .ok b => if b then "1" else "0" | .raised e => excName e | .ub => "ub"
def excOf {α : Type} : Outcome α → String
  | .ok _ => "none" | .raised e => excName e | .ub => "ub"

def dumpRec (s : St) (t : TypeRec) (memoIds : Bool) : String :=
  let cs := (List.range t.cache.length).filterMap (fun i =>
    match t.cache[i]? with
    | some (some inst) => some s!"{i}:{idx t inst}"
    | _ => none)
  let ms := ((List.range t.entries.length).zip t.entries).filterMap (fun p =>
    match p.2.memo with
    | some c => some (if memoIds then s!"{p.1}:{clsTok s c}" else s!"{p.1}")
    | none => none)
  s!" c={",".intercalate cs} m={",".intercalate ms} h={if t.hdr then 1 else 0}"

def dump (s : St) (tid : Nat) (memoIds : Bool := true) : String :=
  if kindOf s tid < 2 then "" else
  match s.recOf tid with
  | some t => dumpRec s t memoIds
  | none => ""

/-- `Name:flags` → (Name, flags) -/
def parseItem (tok : String) : Option (String × List Bool) :=
  match tok.splitOn ":" with
  | [nm, fl] =>
    if nm.isEmpty then none else
    if fl.toList.all (fun c => c = '0' || c = '1') && fl.length ≤ cellW then some (nm, fl.toList.map (· = '1')) else none
  | _ => none

def parseRow (toks : List String) : Option (List (String × List Bool)) := toks.mapM parseItem

/-- class tokens of a row resolved to the names of the class objects -/
def namedRow (s : St) (row : List (String × List Bool)) : Option (List (String × List Bool)) :=
  row.mapM (fun p => (clsOf s p.1).map (fun c => (c.name, p.2)))

/-- class tokens of a row as references to the class OBJECTS (a triple copies the `__Name` word of the object) -/
def refRow (s : St) (row : List (String × List Bool)) : Option (List CRef) :=
  row.mapM (fun p =>
    let tok := p.1
    if tok.startsWith "b." then some (CRef.lib (dropStr tok 2))
    else if tok.startsWith "r." then (dropStr tok 2).toNat?.map (fun k => CRef.rt (clsAddr k))
    else if tok.startsWith "t." then (dropStr tok 2).toNat?.map (fun tid => CRef.rt (addrOf s tid))
    else none)

def mkEntries (row : List (String × List Bool)) (base : Nat := 0) : List (String × Inst) :=
  ((List.range row.length).zip row).map (fun p => (p.2.1, ⟨base + p.1, p.2.2⟩))

/-- model-internal consistency of one record-level lookup -/
def selfCheck (t : TypeRec) (op : Op) (t' : Option TypeRec) : Option String :=
  let r := applyOp slots t op
  let D := declared t.entries
  if r.2 ≠ specObs t.sentinel D op then some "observation differs from specObs" else
  if !invb slots r.1 then some "invariant broken" else
  if t' ≠ some r.1 then some "world-level and record-level results differ" else
  match op with
  | .lookup cls =>
    let m := runSolo slots (soloFuel t.entries.length) t (.start true cls)
    match r.2 with
    | .inst (.ok v) => if m = (r.1, PC.done cls v) then none else some "step machine differs from instanceOf"
    | _ => none
  | .implements cls =>
    let m := runSolo slots (soloFuel t.entries.length) t (.start false cls)
    let sc := scan t cls
    if m = (sc.1, PC.done cls sc.2) then none else some "step machine differs from scan"
  | _ => none

/-- the dispatching functions the harness can call (its table `WLIST`) -/
def harnessWrappers : List String :=
  ["call_with", "iter_init", "iter_next", "iter_last", "iter_prev", "iter_type", "push", "pop", "push_at", "pop_at",
   "get", "set", "mem", "rem", "key_type", "val_type", "len", "c_int", "c_str", "c_float", "ref", "deref", "resize", "append", "concat",
   "sort_by", "sopen", "sclose", "sseek", "stell", "sflush", "seof", "sread", "swrite", "look_from", "start", "stop", "join", "running",
   "lock", "unlock", "trylock", "hash", "cmp", "copy", "show_to", "swap", "assign"]

/-- (class name, member index, soft) of a dispatching library function, from the source text -/
def siteOf (fname : String) : Option (String × Nat × Bool) :=
  if !harnessWrappers.contains fname then none else
  match CelloGen.Disp.methodSites.find? (fun p => p.1 = fname) with
  | some (_, c, _, k) => some (c, k, false)
  | none =>
    match CelloGen.Disp.instanceSites.find? (fun p => p.1 = fname) with
    | some (_, c, _, k) => some (c, k, true)
    | none => none

def showCall (t : TypeRec) : AObs → String
  | .call (.ok (.invoked i _)) => s!"#{idx t i}"
  | .call (.ok .fallback) => "default"
  | .call (.raised e) => excName e
  | .call .ub => "ub"
  | .look (.bool b) => showBool b
  | _ => "?"

def lcg (x : Nat) : Nat := (x * 6364136223846793005 + 1442695040888963407) % 18446744073709551616

/-- N threads looking the classes up on a cold record, under a pseudo-random interleaving of their atomic steps -/
def simulate (t0 : TypeRec) (nth : Nat) (classes : List Cls) (seed : Nat) : TypeRec × Bool :=
  let t := reset t0
  let D := declared t.entries
  let nc := classes.length
  let todoOf (j : Nat) : List (Bool × Cls) :=
    let order := (List.range nc).map (fun i => (((if j % 2 = 1 then nc - 1 - i else i) + j / 2) % nc))
    (order.filterMap (fun c => classes[c]?)).flatMap (fun c => [(true, c), (false, c), (false, c), (true, c), (true, c)])
  let sys : Sys := { shared := t, threads := (List.range nth).map (fun j => Thread.new (todoOf j)) }
  let fuel := nth * (nc * 5 * (soloFuel t.entries.length + 4) + 4)
  let rec go (fuel : Nat) (s : Sys) (x : Nat) (ok : Bool) (cnt : Nat) : Sys × Bool :=
    match fuel with
    | 0 => (s, ok)
    | fuel + 1 =>
      let live := (List.range s.threads.length).filter (fun j => match s.threads[j]? with | some th => !th.finished | none => false)
      if live.isEmpty then (s, ok) else
      let x := lcg x
      let pick := live[(x / 8589934592) % live.length]?.getD 0
      -- bursts: run the picked thread for 1–4 steps
      let burst := 1 + (x / 17) % 4
      let s := (List.range burst).foldl (fun s _ => sysStep slots s pick) s
      let ok := ok && (if cnt % 64 = 0 then invb slots s.shared else true)
      go fuel s x ok (cnt + 1)
  let (s, ok) := go fuel sys seed true 0
  let allDone := s.threads.all (fun th => th.finished)
  let logsOK := s.threads.all (fun th => th.log.all (fun p => p.2 = D p.1.name) && th.log.length = nc * 5)
  (s.shared, ok && allDone && logsOK && invb slots s.shared)

end DispDrv

open DispDrv

def bad : IO Unit := IO.println "O bad-op"

def lookupOp (s : St) (op : String) (tid : Nat) (cls : Cls) (k : Nat) : IO St := do
  let a := addrOf s tid
  let some t := s.w.get a | do bad; return s
  let upper := op = "I" || op = "P" || op = "M" || op = "Q"
  let self : Self := if upper then .typeObj a else .obj .good a
  -- an out-of-struct member read is undefined behaviour: never executed on either side
  if (op = "M" || op = "Q" || op = "m" || op = "q") then
    match declared t.entries cls.name with
    | some inst => if k ≥ inst.members.length then do bad; return s
    | none => pure ()
  let (w', res, mop) : World × String × Op :=
    if op = "I" then let r := typeInstanceW s.w self cls; (r.1, showOptInst t r.2, Op.lookup cls)
    else if op = "i" then let r := instanceW s.w self cls; (r.1, showOptInst t r.2, Op.lookup cls)
    else if op = "P" then let r := typeScanW s.w self cls; (r.1, showBool (match r.2 with | .ok v => .ok v.isSome | .raised e => .raised e | .ub => .ub), Op.implements cls)
    else if op = "p" then let r := implementsW s.w self cls; (r.1, showBool r.2, Op.implements cls)
    else if op = "M" then let r := typeMethodAtW s.w self cls k; (r.1, showInst t r.2, Op.methodAt cls k)
    else if op = "m" then let r := methodAtW s.w self cls k; (r.1, showInst t r.2, Op.methodAt cls k)
    else if op = "Q" then let r := typeImplementsMethodAtW s.w self cls k; (r.1, showBool r.2, Op.implementsMethodAt cls k)
    else let r := implementsMethodAtW s.w self cls k; (r.1, showBool r.2, Op.implementsMethodAt cls k)
  -- the record-level checks hold whenever the record satisfies the invariant (outside KF-C08-class-memo-stale)
  if invb slots t then
    match selfCheck t mop (w'.get a) with
    | some msg => IO.println s!"O MODEL-INCONSISTENT {op} {msg}"
    | none => pure ()
  let s' := s.setW w'
  IO.println s!"O {op} {res}{dump s' tid}"
  return s'

/-- `e <tid> <cls> <k>`: type_method_at_offset(T, cls, k·sizeof(var), "member<k>") with the TEXT of the ClassError -/
def msgOp (s : St) (tid : Nat) (cls : Cls) (k : Nat) : IO St := do
  let a := addrOf s tid
  let some t := s.w.get a | do bad; return s
  match declared t.entries cls.name with
  | some inst => if k ≥ inst.members.length then do bad; return s
  | none => pure ()
  let r := typeMethodAtW s.w (.typeObj a) cls k
  let tname := (s.h.nameAt a).getD (symOf s tid)
  let txt := methodAtText CelloGen.Disp.methodAtThrows slots t tname cls k s!"member{k}"
  let msg : String := match r.2, txt.2 with
    | .raised .ClassError, .raised e m => s!"{e}: {m}"
    | .ok _, .ok _ => "-"
    | _, _ => "?"
  let s' := s.setW r.1
  IO.println s!"O e {showInst t r.2} | {msg}{dump s' tid}"
  return s'

/-- `c d g f <tid> <fn>`: a dispatching function / macro call site used on an object of the run-time type tid -/
def callOp (s : St) (op : String) (tid : Nat) (fname : String) : IO St := do
  let a := addrOf s tid
  match s.w.get a, siteOf fname with
  | some t, some (cname, k, soft) =>
    if kindOf s tid ≠ 3 then do bad; return s
    let cls : Cls := ⟨0, cname⟩
    let D := declared t.entries
    -- an out-of-struct member read is never executed; the default code of a soft function is not exercised
    let wantOk : Bool := match D cname with
      | some inst => inst.members[k]? = some true
      | none => false
    let outside : Bool := match D cname with
      | some inst => k ≥ inst.members.length
      | none => false
    if outside || (op = "c" && soft && !wantOk) then do bad; return s
    let way : Way := if op = "c" then .call soft k else if op = "d" then .call false k else if op = "g" then .typeCall k else .look (.implMeth k)
    let r := useW s.w a way cls
    if invb slots t && r.2 ≠ specUse t.sentinel D way cls then
      IO.println s!"O MODEL-INCONSISTENT {op} the use differs from specUse of the declaration"
    let s' := s.setW r.1
    IO.println s!"O {op} {showCall t r.2}{dump s' tid}"
    return s'
  | _, _ => do bad; return s

/-- after an operation that changes which type objects exist or how they are named: inside the territory of
    `C08_world_history` (the write of the name was `safe` and the heap satisfied `okb`) the heap must satisfy `okb` again -/
def heapCheck (before : St) (safe : Bool) (after : St) (op : String) : IO Unit := do
  if safe && before.h.okb CelloGen.Disp.cacheNum && !after.h.okb CelloGen.Disp.cacheNum then
    IO.println s!"O MODEL-INCONSISTENT {op} the heap invariant broke although the write of the name was safe"

/-- a construction at an address, on both levels: `st` is what the word-level `Type_New` left; the heap-level `Heap.construct`
    (the function of `C08_world_history`) must install the same record; it also re-reads every alias of the address -/
def installType (s : St) (op : String) (tid addr : Nat) (nm : NameArg) (refs : List CRef) (name : String) (es : List (String × Inst)) (st : Store) : IO St := do
  -- the pointer-level construction (`XHeap`): it must amount to the value-level one with the texts read now
  let xop := XOp.construct addr nm (refs.zip (es.map (·.2)))
  if s.x.lower xop ≠ some (HOp.construct addr name es) then
    IO.println s!"O MODEL-INCONSISTENT {op} the pointer-level and the value-level construction differ"
  let x' := (s.x.step layout xop).1
  let r := s.h.construct layout addr name es
  if (r.1.w.get addr) ≠ some st.trec || (x'.h.w.get addr) ≠ some st.trec then
    IO.println s!"O MODEL-INCONSISTENT {op} the heap-level construction and the word-level Type_New differ"
  let s0 := s.setX x'
  let s' := setAux (setKind { s0 with addrs := (tid, addr) :: s.addrs.filter (fun p => p.1 ≠ tid) } tid 3) tid ⟨st.name, st.size, st.rest⟩
  heapCheck s (s.h.nameWriteSafe addr name) s' op
  return s'

def main (args : List String) : IO Unit := do
  let lines ← Driver.inputLines args
  let mut s := St.init
  for l in lines do
    if Driver.isSkippable l then continue
    let toks := Driver.words l
    match toks with
    | [] => continue
    | "G" :: rest =>
      let items := rest.filterMap (fun t => match t.splitOn ":" with | [i, c] => i.toNat?.map (fun i => (i, c)) | _ => none)
      if items.length ≠ rest.length then bad
      else IO.println s!"O G n={items.length} {if items = CelloGen.Disp.cacheSlots then "ok" else "MISMATCH"}"
    | ["C", k, nm] =>
      match k.toNat? with
      | some k =>
        match nameArg s nm with
        | none => bad
        | some (na, text) =>
        if k ≥ maxC || s.rcls.any (fun p => p.1 = k) then bad
        else
          s := { s with rcls := (k, text) :: s.rcls, h := { s.h with names := (clsAddr k, text) :: s.h.names },
                        nameBuf := (match na with | .buf b => [(clsAddr k, b)] | .lit _ => []) ++ s.nameBuf }
          IO.println s!"O C {k}"
      | none => bad
    | op :: tidS :: sym :: rest =>
      if op = "Z" then
        -- Z <b> <text> : the caller writes into its own buffer (tidS = b, sym = text)
        match (if tidS.toList.all Char.isDigit then tidS.toNat? else none) with
        | some b =>
          if !rest.isEmpty || b ≥ nBuf || sym.utf8ByteSize ≥ 64 then bad
          else
            s := s.setX (s.x.step layout (.scribble b sym)).1
            let ks := (s.rcls.map (·.1)).mergeSort (· ≤ ·)
            let tids := ((s.kinds.filter (fun p => p.2 = 3)).map (·.1)).mergeSort (· ≤ ·)
            let tl := (ks.filter (fun k => s.x.bufOfName (clsAddr k) = some b)).map (fun k => s!"r.{k}") ++
                      (tids.filter (fun t => s.x.bufOfName (addrOf s t) = some b)).map (fun t => s!"t.{t}")
            let el := tids.flatMap (fun t =>
              let n := ((s.recOf t).map (·.entries.length)).getD 0
              ((List.range n).filter (fun i => s.tripleBuf.any (fun q => q.1 = (addrOf s t, i) && q.2 = b))).map (fun i => s!"{t}:{i}"))
            IO.println s!"O Z {b} t={",".intercalate tl} e={",".intercalate el}"
        | none => bad
      else if op = "B" || op = "S" then
        match tidS.toNat?, parseRow rest with
        | some tid, some row =>
          let known := if op = "B" then CelloGen.Disp.declared.any (fun d => d.1 = sym) else probeNames.contains sym
          if tid ≥ maxT || rest.length > maxRow || !known then bad
          else
            let t := mkType CelloGen.Disp.cacheNum false (mkEntries row) (op = "B" && sym = "Terminal")
            let ok := if op = "B" then (CelloGen.Disp.declared.find? (fun d => d.1 = sym)).map (·.2) = some row else true
            if kindOf s tid = 3 then s := dropType s tid
            s := setKind ({ s with addrs := s.addrs.filter (fun p => p.1 ≠ tid) }.setW (s.w.put tid t)) tid (if op = "B" then 1 else 2) sym
            IO.println s!"O {op} {tid} n={row.length} {if ok then "ok" else "bad"}{dump s tid}"
        | _, _ => bad
      else if op = "T" then
        match tidS.toNat?, parseRow rest with
        | some tid, some row =>
          match namedRow s row, refRow s row, nameArg s sym with
          | some named, some refs, some (na, sym) =>
            if tid ≥ maxT || rest.length > maxRow || (kindOf s tid = 3 && row.any (fun p => p.1 = s!"t.{tid}")) then bad
            else
              let es := mkEntries named s.nextId
              s := { s with nextId := s.nextId + row.length + 1 }
              if kindOf s tid = 3 then s := setKind (dropType s tid) tid 0       -- abandoned: as good as deleted
              match constructAt layout true false zeroMem sym 0 es with
              | (some st, .ok _) =>
                if typeNew CelloGen.Disp.cacheNum CelloGen.Disp.maxInstances es ≠ .ok st.trec then
                  IO.println "O MODEL-INCONSISTENT T the word-level Type_New and the record-level typeNew differ"
                let addr := s.nextAddr
                s := { s with nextAddr := s.nextAddr + 1 }
                s ← installType s "T" tid addr na refs sym es st
                IO.println s!"O T {tid} n={row.length} ok{dump s tid}"
              | (_, .raised e) =>
                s := setKind s tid 0
                IO.println s!"O T {tid} n={row.length} {excName e}"
              | _ => IO.println s!"O T {tid} n={row.length} ub"
          | _, _, _ => bad
        | _, _ => bad
      else if op = "N" then
        -- N <tid> <mode> <name> <size> row… : sym = mode
        match tidS.toNat?, rest with
        | some tid, name :: sizeS :: rowToks =>
          let memO : Option (List Word) :=
            if sym = "junk" || sym = "arena" then some junkMem else if ["raw", "root", "gc", "alloc", "heap"].contains sym then some zeroMem else none
          match sizeS.toNat?, parseRow rowToks, memO with
          | some size, some row, some mem =>
            match namedRow s row, refRow s row, nameArg s name with
            | some named, some refs, some (na, name) =>
              let slot := (List.range nSlot).find? (fun sl => !s.arena.contains sl)
              if tid ≥ maxT || rowToks.length > maxRow || size > 1000000 || (kindOf s tid = 3 && row.any (fun p => p.1 = s!"t.{tid}"))
                  || (sym = "arena" && slot.isNone) || (sym = "heap" && (heapSlot s.heapFree s.heapNext).isNone) then bad
              else
                let hslot := (heapSlot s.heapFree s.heapNext).getD 0
                let es := mkEntries named s.nextId
                s := { s with nextId := s.nextId + row.length + 1 }
                if kindOf s tid = 3 then s := setKind (dropType s tid) tid 0     -- abandoned: as good as deleted
                match constructAt layout true false mem name size es with
                | (some st, .ok _) =>
                  if st.trec ≠ mkType CelloGen.Disp.cacheNum true es || !invb slots st.trec then
                    IO.println "O MODEL-INCONSISTENT N the constructed record is not the fresh record of the instance list"
                  let addr := if sym = "arena" then arenaAddr (slot.getD 0) else if sym = "heap" then heapAddr hslot else s.nextAddr
                  s := if sym = "arena" then { s with arena := slot.getD 0 :: s.arena }
                       else if sym = "heap" then (match s.heapFree with | _ :: rest => { s with heapFree := rest } | [] => { s with heapNext := s.heapNext + 1 })
                       else { s with nextAddr := s.nextAddr + 1 }
                  s ← installType s "N" tid addr na refs name es st
                  IO.println s!"O N {tid} n={row.length} ok{dump s tid} z={tailCount st.rest}"
                | (_, .raised e) =>
                  s := setKind s tid 0
                  -- mode heap: the block `Type_Alloc` took is never released (the constructor raised): its address is gone for good
                  if sym = "heap" then
                    s := (match s.heapFree with | _ :: rest => { s with heapFree := rest } | [] => { s with heapNext := s.heapNext + 1 })
                  IO.println s!"O N {tid} n={row.length} {excName e}"
                | _ => IO.println s!"O N {tid} n={row.length} ub"
            | _, _, _ => bad
          | _, _, _ => bad
        | _, _ => bad
      else if op = "W" then
        -- W <tid> <name> <size> row… : sym = name; destruct(T); construct_with(T, …) on the words of the live incarnation
        match tidS.toNat?, rest with
        | some tid, sizeS :: rowToks =>
          match sizeS.toNat?, parseRow rowToks, s.recOf tid, auxOf s tid with
          | some size, some row, some t, some a =>
            match namedRow s row, refRow s row, nameArg s sym with
            | some named, some refs, some (na, sym) =>
              if kindOf s tid ≠ 3 || rowToks.length > maxRow || size > 1000000 || row.any (fun p => p.1 = s!"t.{tid}") then bad
              else
                let es := mkEntries named s.nextId
                s := { s with nextId := s.nextId + row.length + 1 }
                let st : Store := { trec := t, name := a.name, size := a.size, rest := a.rest }
                let r := constructIn layout st sym size es
                match r.2 with
                | .ok _ =>
                  if r.1.trec ≠ mkType CelloGen.Disp.cacheNum t.hdr es || !invb slots r.1.trec || r.1.toRaw.length ≠ st.toRaw.length then
                    IO.println "O MODEL-INCONSISTENT W the re-constructed record is not the fresh record of the new instance list"
                  s ← installType s "W" tid (addrOf s tid) na refs sym es r.1
                  IO.println s!"O W {tid} n={row.length} ok{dump s tid} z={tailCount r.1.rest}"
                | .raised e =>
                  if r.1 ≠ st then IO.println "O MODEL-INCONSISTENT W a refused re-construction changed the object"
                  if (s.h.construct layout (addrOf s tid) sym es).2 ≠ .raised e then
                    IO.println "O MODEL-INCONSISTENT W the heap-level construction and the word-level Type_New differ"
                  IO.println s!"O W {tid} n={row.length} {excName e} ok{dump s tid} z={tailCount a.rest}"
                | .ub => IO.println s!"O W {tid} n={row.length} ub"
            | _, _, _ => bad
          | _, _, _, _ => bad
        | _, _ => bad
      else if op = "Y" && rest.isEmpty then
        -- Y <tid> copy|assign : `instance(T, Copy|Assign)` is a lookup in Type's record; Type's own member refuses with ValueError
        match tidS.toNat? with
        | some tid =>
          if kindOf s tid = 0 || !(kindOf s 0 = 1 && symOf s 0 = "Type") || (sym ≠ "copy" && sym ≠ "assign") then bad
          else
            let r := instanceW s.w (.typeObj (addrOf s tid)) ⟨0, if sym = "copy" then "Copy" else "Assign"⟩
            s := s.setW r.1
            let res := match r.2 with
              | .ok (some c) => (match memberAt c 0 with | .ok true => "ValueError" | _ => "other")
              | .ok none => "other"
              | .raised e => excName e
              | .ub => "ub"
            IO.println s!"O Y {sym} {res}{dump s tid}"
        | none => bad
      else if op = "K" && rest.isEmpty then
        match tidS.toNat?, sym.toNat? with
        | some tid, some tid2 =>
          if kindOf s tid = 0 || kindOf s tid2 = 0 then bad
          else
            let r := castW castCls s.w (.obj .good (addrOf s tid)) (addrOf s tid2)
            s := s.setW r.1
            let res := match r.2 with | .ok .self => "self" | .ok .custom => "custom" | .raised e => excName e | .ub => "ub"
            IO.println s!"O K {res}{dump s tid}"
        | _, _ => bad
      else if op = "k" && rest.isEmpty then
        -- cast(<the type object tid itself>, type tid2)
        match tidS.toNat?, sym.toNat? with
        | some tid, some tid2 =>
          if kindOf s tid = 0 || kindOf s tid2 = 0 || !(kindOf s 0 = 1 && symOf s 0 = "Type") then bad
          else
            let r := castW castCls s.w (.typeObj (addrOf s tid)) (addrOf s tid2)
            s := s.setW r.1
            let res := match r.2 with | .ok .self => "self" | .ok .custom => "custom" | .raised e => excName e | .ub => "ub"
            IO.println s!"O k {res}{dump s tid}"
        | _, _ => bad
      else if op = "E" then
        -- E <kind> <tid> <cls> : here tidS = kind, sym = tid
        match sym.toNat?, rest with
        | some tid, [ctok] =>
          match clsOf s ctok with
          | some cls =>
            let a := addrOf s tid
            if kindOf s tid = 0 then bad
            else if tidS = "nontype" then
              if symOf s tid = "Type" then bad
              else
                let self : Self := .obj .good a
                let r1 := typeScanW s.w self cls
                let r2 := typeImplementsMethodAtW r1.1 self cls 0
                s := s.setW r2.1
                IO.println s!"O E nontype {excOf r1.2} {excOf r2.2} TypeError TypeError"
            else if tidS = "nullcls" then
              match s.w.get a with
              | some t =>
                let r := scanNull t
                match r.2 with
                | .ok v =>
                  s := s.setW (s.w.put a r.1)
                  IO.println s!"O E nullcls {showOptInst t (.ok v)} {if v.isSome then "1" else "0"}{dump s tid}"
                | _ => IO.println s!"O E nullcls ub ub{dump s tid}"
              | none => bad
            else
              let selfO : Option Self := if tidS = "null" then some .null else if tidS = "dead" then some (.obj .dead a)
                else if tidS = "bad" then some (.obj .bad a) else none
              match selfO with
              | some self =>
                let r1 := instanceW s.w self cls
                let r2 := implementsW r1.1 self cls
                let r3 := methodAtW r2.1 self cls 0
                let r4 := castW castCls r3.1 self a
                s := s.setW r4.1
                IO.println s!"O E {tidS} {excOf r1.2} {excOf r2.2} {excOf r3.2} {excOf r4.2}"
              | none => bad
          | none => bad
        | _, _ => bad
      else if op = "e" then
        match tidS.toNat?, clsOf s sym, rest with
        | some tid, some cls, [kS] =>
          match kS.toNat? with
          | some k => if kindOf s tid = 0 || k ≥ cellW then bad else s ← msgOp s tid cls k
          | none => bad
        | _, _, _ => bad
      else if op = "U" then
        -- U <tid> <nthreads> <rounds> <seed> <cls>… : threads on COLD COPIES of the record; the record itself is not touched
        match tidS.toNat?, sym.toNat?, rest with
        | some tid, some nth, rS :: seedS :: ctoks =>
          match rS.toNat?, seedS.toNat?, ctoks.mapM (clsOf s), s.recOf tid with
          | some rounds, some seed, some classes, some t =>
            if classes.isEmpty || nth < 2 || nth > 64 || rounds < 1 || rounds > 100000 || kindOf s tid = 0 then bad
            else
              -- the model's side of the stress: two pseudo-random interleavings of the step machine on the cold record
              let (_, ok1) := simulate t nth classes (seed * 1000003 + nth * 7919 + rounds)
              let (_, ok2) := simulate { t with hdr := false } (min nth 4) classes (seed + 17)
              if !(ok1 && ok2) then IO.println "O MODEL-INCONSISTENT U the interleaved step machine broke the invariant or returned a non-declared instance"
              IO.println s!"O U n={nth * rounds * classes.length * 3} bad=0 warm=0"
          | _, _, _, _ => bad
        | _, _, _ => bad
      else if op = "H" then
        -- H <tid> <nthreads> <rounds> <cls>… : sym = nthreads
        match tidS.toNat?, sym.toNat?, rest with
        | some tid, some nth, rS :: ctoks =>
          match rS.toNat?, ctoks.mapM (clsOf s), s.recOf tid with
          | some rounds, some classes, some t =>
            if classes.isEmpty || nth < 1 || nth > 64 || rounds < 1 || rounds > 100000 || kindOf s tid = 0 then bad
            else
              let (t', ok) := simulate t nth classes (tid * 1000003 + nth * 7919 + rounds)
              if !ok then IO.println "O MODEL-INCONSISTENT H the interleaved step machine broke the invariant or returned a non-declared instance"
              s := s.setW (s.w.put (addrOf s tid) t')
              IO.println s!"O H n={nth * rounds * classes.length} bad=0{dump s tid false}"
          | _, _, _ => bad
        | _, _, _ => bad
      else if ["c", "d", "g", "f"].contains op && rest.isEmpty then
        match tidS.toNat? with
        | some tid => s ← callOp s op tid sym
        | none => bad
      else if ["I", "P", "i", "p", "J"].contains op && rest.isEmpty then
        match tidS.toNat?, clsOf s sym with
        | some tid, some cls =>
          if kindOf s tid = 0 then bad
          else if op = "J" then
            -- the lookup happens in Type's record: type number 0 must be bound to the library's `Type`
            if !(kindOf s 0 = 1 && symOf s 0 = "Type") then bad
            else
              let r := instanceW s.w (.typeObj (addrOf s tid)) cls
              s := s.setW r.1
              IO.println s!"O J {showOptInst ((s.w.get 0).getD default) r.2}{dump s tid}"
          else s ← lookupOp s op tid cls 0
        | _, _ => bad
      else if ["M", "Q", "m", "q"].contains op then
        match tidS.toNat?, clsOf s sym, rest with
        | some tid, some cls, [kS] =>
          match kS.toNat? with
          | some k => if kindOf s tid = 0 || k ≥ cellW then bad else s ← lookupOp s op tid cls k
          | none => bad
        | _, _, _ => bad
      else bad
    | [op, tidS] =>
      if op = "X" then
        match tidS.toNat? with
        | some tid =>
          if kindOf s tid ≠ 3 then bad
          else
            let s0 := s
            s := setKind (dropType s tid true) tid 0
            heapCheck s0 true s "X"
            IO.println s!"O X {tid} none"
        | none => bad
      else if op = "R" || op = "D" then
        match tidS.toNat? with
        | some tid =>
          match s.recOf tid with
          | some t =>
            if kindOf s tid = 0 then bad
            else
              if op = "R" then s := s.setW (s.w.put (addrOf s tid) (reset t))
              IO.println s!"O {op}{dump s tid}"
          | none => bad
        | none => bad
      else bad
    | _ => bad
