import Cello.Config
import Cello.ConfigType
import Cello.ConfigThread
import CelloGen.Cfg
import Driver.Common
/- driver for engine `cfg` (C18): interprets the op files of harness/h_cfg.c on the model of Cello/Config.lean under the
   default configuration and prints the `O` lines the harness prints; it also runs the same program under the seven other
   configurations (`hexit`: the destructor ledger at process end, `Keep.kexit`, per configuration) and reports (`S` line, and an `O model-config-divergence` line that no harness prints) whether outcome
   list and observable contents agree — the executable form of theorem C18_config_independent.
   Run-time types (`ty tybig tyre tyq tyshow tydel ob oq od`): Cello/ConfigType.lean — each configuration builds the type object
   word by word with the index expressions regenerated from src/Type.c, evaluated under ITS constants, and answers through it. -/
open Cello.Config

def parseVal (t : String) : Option Val :=
  match t.toList with
  | 'i' :: rest =>
    let s := String.ofList rest
    let digits := if s.startsWith "-" then (s.drop 1).toString else s
    if digits.isEmpty || digits.length > 17 || !digits.all Char.isDigit then none else (s.toInt?).map Val.int
  | 's' :: rest =>
    if rest.length > 30 || !rest.all (fun c => c.isAlphanum || c = '_') then none else some (.str (String.ofList rest))
  | _ => none

def parseTy (t : String) : Option Ty := if t = "I" then some .I else if t = "S" then some .S else none

def parseInt (t : String) : Option Int :=
  let digits := if t.startsWith "-" then (t.drop 1).toString else t
  if digits.isEmpty || digits.length > 17 || !digits.all Char.isDigit then none else t.toInt?

def maxSlot : Nat := 48
def maxTok : Nat := 80

def parseSlot (t : String) : Option Nat :=
  match parseInt t with
  | some i => if i ≥ 0 && i < (maxSlot : Int) then some i.toNat else none
  | none => none

def maxT : Nat := 16

def probeQueries : List String :=
  ["len", "cint", "cflt", "cstr", "hash", "cmp", "asg", "get", "mem", "set", "rem", "push", "pop", "pushat",
   "popat", "cat", "app", "ref", "iter", "cur", "cast", "size", "fmt", "fmt2", "copy"]

def parseTSlot (t : String) : Option Nat :=
  match parseSlot t with
  | some i => if i < maxT then some i else none
  | none => none

def parseSlots : List String → Option (List Nat)
  | [] => some []
  | t :: ts => match parseSlot t, parseSlots ts with
    | some v, some vs => some (v :: vs)
    | _, _ => none

def maxN : Nat := 8

def parseNSlot (t : String) : Option Nat :=
  match parseSlot t with
  | some i => if i < maxN then some i else none
  | none => none

def parseInts : List String → Option (List Int)
  | [] => some []
  | t :: ts => match parseInt t, parseInts ts with
    | some v, some vs => some (v :: vs)
    | _, _ => none

def parseVals : List String → Option (List Val)
  | [] => some []
  | t :: ts => match parseVal t, parseVals ts with
    | some v, some vs => some (v :: vs)
    | _, _ => none

def parseStr (t : String) : Option String :=
  match parseVal t with
  | some (.str s) => some s
  | _ => none

def parseEdit (ws : List String) : Option Edit :=
  match ws with
  | ["cat", t] => do some (.cat (← parseStr t))
  | ["app", t] => do some (.app (← parseStr t))
  | ["res", n] => do some (.res (← parseInt n))
  | ["asg", v] => do some (.asg (← parseVal v))
  | ["fmt", p, t] => do some (.fmt (← parseInt p) (← parseStr t))
  | ["rem", t] => do some (.rem (← parseStr t))
  | ["look", t] => do some (.look (← parseStr t))
  | _ => none

def parseOp (ws : List String) : Option Op :=
  match ws with
  | ["nv", d, v] => do some (.nv (← parseSlot d) (← parseVal v))
  | ["nvr", d, v] => do some (.nvm .raw (← parseSlot d) (← parseVal v))
  | ["nvo", d, v] => do some (.nvm .root (← parseSlot d) (← parseVal v))
  | "ed" :: c :: "self" :: e => do some (.ed (← parseSlot c) .self (← parseEdit e))
  | "ed" :: c :: "at" :: i :: e => do some (.ed (← parseSlot c) (.at (← parseInt i)) (← parseEdit e))
  | "ed" :: c :: "it" :: i :: e => do some (.ed (← parseSlot c) (.it (← parseInt i)) (← parseEdit e))
  | "ed" :: c :: "val" :: k :: e => do some (.ed (← parseSlot c) (.val (← parseVal k)) (← parseEdit e))
  | "ed" :: c :: "key" :: k :: e => do some (.ed (← parseSlot c) (.key (← parseVal k)) (← parseEdit e))
  | "na" :: d :: ty :: vs => do some (.nseq .array (← parseSlot d) (← parseTy ty) (← parseVals vs))
  | "nl" :: d :: ty :: vs => do some (.nseq .list (← parseSlot d) (← parseTy ty) (← parseVals vs))
  | ["nt", d, kt, vt] => do some (.nmap .table (← parseSlot d) (← parseTy kt) (← parseTy vt))
  | ["nr", d, kt, vt] => do some (.nmap .tree (← parseSlot d) (← parseTy kt) (← parseTy vt))
  | ["del", x] => do some (.del (← parseSlot x))
  | ["drop", x] => do some (.drop (← parseSlot x))
  | ["push", c, v] => do some (.push (← parseSlot c) (← parseVal v))
  | ["pushat", c, i, v] => do some (.pushat (← parseSlot c) (← parseInt i) (← parseVal v))
  | ["pop", c] => do some (.pop (← parseSlot c))
  | ["popat", c, i] => do some (.popat (← parseSlot c) (← parseInt i))
  | ["get", c, i] => do some (.get (← parseSlot c) (← parseInt i))
  | ["set", c, i, v] => do some (.set (← parseSlot c) (← parseInt i) (← parseVal v))
  | ["rem", c, v] => do some (.rem (← parseSlot c) (← parseVal v))
  | ["mem", c, v] => do some (.mem (← parseSlot c) (← parseVal v))
  | ["len", x] => do some (.len (← parseSlot x))
  | ["mset", m, k, v] => do some (.mset (← parseSlot m) (← parseVal k) (← parseVal v))
  | ["mget", m, k] => do some (.mget (← parseSlot m) (← parseVal k))
  | ["mrem", m, k] => do some (.mrem (← parseSlot m) (← parseVal k))
  | ["mmem", m, k] => do some (.mmem (← parseSlot m) (← parseVal k))
  | ["items", c] => do some (.items (← parseSlot c))
  | ["ritems", c] => do some (.ritems (← parseSlot c))
  | ["sort", c] => do some (.sort (← parseSlot c))
  | ["copy", d, c] => do some (.copy (← parseSlot d) (← parseSlot c))
  | ["concat", c, c2] => do some (.concat (← parseSlot c) (← parseSlot c2))
  | ["resize", c, n] => do some (.resize (← parseSlot c) (← parseInt n))
  | ["eq", a, b] => do some (.eq (← parseSlot a) (← parseSlot b))
  | ["cmp", a, b] => do some (.cmp (← parseSlot a) (← parseSlot b))
  | ["vset", x, v] => do some (.vset (← parseSlot x) (← parseVal v))
  | ["exc", k] => do some (.exc (← parseInt k))
  | ["nest", a, b] => do some (.nest (← parseInt a) (← parseInt b))
  | ["hash", x] => do some (.hash (← parseSlot x))
  | ["show", x] => do some (.show (← parseSlot x))
  | ["fmt", p, x] => do some (.fmt (← parseInt p) (← parseSlot x))
  | ["flt", a, b] => do some (.flt (← parseInt a) (← parseInt b))
  | ["range", a, b, c] => do some (.range (← parseInt a) (← parseInt b) (← parseInt c))
  | ["slice", c, k] => do some (.slice (← parseSlot c) (← parseInt k))
  | ["rev", c] => do some (.rev (← parseSlot c))
  | ["enum", c] => do some (.enum (← parseSlot c))
  | ["zip", a, b] => do some (.zip (← parseSlot a) (← parseSlot b))
  | ["filter", c, k] => do some (.filter (← parseSlot c) (← parseInt k))
  | ["map", c, k] => do some (.map (← parseSlot c) (← parseInt k))
  | ["gc"] => some .gc
  -- heap-Tuple operations (transcript only): syntax check, exactly as harness/h_cfg.c does it
  | ["preset", t] => do let i ← parseSlot t; if i < 3 then some .harnessOnly else none
  | "probe" :: t :: v :: qs => do
      let i ← parseSlot t
      let v ← parseInt v
      if i < 3 && qs.all (fun q => probeQueries.contains q) then
        (if v < -1000000 || v > 1000000 then some (.flt 0 0) else some .harnessOnly)   -- out of range: refused like `flt _ 0`
      else none
  | ["ring", n, sd, m] => do
      let n ← parseInt n
      let sd ← parseInt sd
      let m ← parseInt m
      if n < 1 || n > 8 || sd < -100000 || sd > 100000 || m < 0 || m > 400 then some (.flt 0 0) else some .harnessOnly
  | ["tcmp", a, b] => do let _ ← parseTSlot a; let _ ← parseTSlot b; some .harnessOnly
  | "tnew" :: t :: ty :: xs => do let _ ← parseTSlot t; let _ ← parseTy ty; let _ ← parseSlots xs; some .harnessOnly
  | "tcat" :: t :: xs => do let _ ← parseTSlot t; let _ ← parseSlots xs; some .harnessOnly
  | ["tpush", t, x] | ["tmem", t, x] | ["trem", t, x] => do let _ ← parseTSlot t; let _ ← parseSlot x; some .harnessOnly
  | ["tpushat", t, i, x] | ["tset", t, i, x] => do let _ ← parseTSlot t; let _ ← parseInt i; let _ ← parseSlot x; some .harnessOnly
  | ["tpopat", t, i] | ["tget", t, i] | ["tresize", t, i] => do let _ ← parseTSlot t; let _ ← parseInt i; some .harnessOnly
  | ["tpop", t] | ["titems", t] | ["tritems", t] | ["tlen", t] | ["tsort", t] | ["thash", t] | ["tdrop", t] | ["tdel", t] =>
    do let _ ← parseTSlot t; some .harnessOnly
  -- nested holders (transcript only): syntax check, exactly as harness/h_cfg.c does it
  | ["xnew", n, o, i] => do let _ ← parseNSlot n; if ["a", "l", "t", "r"].contains o && ["A", "L", "U"].contains i then some .harnessOnly else none
  | ["xshow", n] | ["xdel", n] | ["xdrop", n] => do let _ ← parseNSlot n; some .harnessOnly
  | ["xadd", n, k] | ["xpop", n, k] | ["xrem", n, k] => do let _ ← parseNSlot n; let _ ← parseInt k; some .harnessOnly
  | ["xpush", n, k, v] | ["xpopat", n, k, v] | ["xres", n, k, v] | ["xget", n, k, v] =>
    do let _ ← parseNSlot n; let _ ← parseInt k; let _ ← parseInt v; some .harnessOnly
  | ["xset", n, k, j, v] => do let _ ← parseNSlot n; let _ ← parseInt k; let _ ← parseInt j; let _ ← parseInt v; some .harnessOnly
  | "xcat" :: n :: k :: vs => do let _ ← parseNSlot n; let _ ← parseInt k; let _ ← parseInts vs; some .harnessOnly
  | _ => none

open Cello.Config.Keep in
def parseKind (t : String) : Option Kind :=
  match t with
  | "a" => some .array | "l" => some .list | "t" => some .tableV | "k" => some .tableK | "r" => some .treeV
  | "q" => some .treeK | "u" => some .tuple | "c" => some .chain | "s" => some .tls | "w" => some .thread | _ => none

def keepOpNames : List String :=
  ["hnew", "hput", "hget", "hread", "hrem", "hrel", "hshrink", "hreserve", "hchurn", "hdrop", "hdel", "hrun", "hexit"]

/-- the keep operations (`h…`): syntax exactly as harness/h_cfg.c checks it -/
def parseKeep (ws : List String) : Option Keep.KOp :=
  match ws with
  | ["hchurn", m] => do some (.hchurn (← parseInt m))
  | ["hnew", h, k] => do
      -- an upper-case kind letter: the container is made with `new_root` and its variable lives outside the collector's view
      let h ← parseSlot h
      if ["A", "L", "T", "K", "R", "Q", "U", "C"].contains k then some (.hnewRoot h (← parseKind k.toLower)) else some (.hnew h (← parseKind k))
  | ["hput", h, k, id, pay] => do some (.hput (← parseSlot h) (← parseInt k) (← parseInt id) (← parseInt pay))
  | ["hget", h, k] => do some (.hget (← parseSlot h) (← parseInt k))
  | ["hrem", h, k] => do some (.hrem (← parseSlot h) (← parseInt k))
  | ["hrel", h, k] => do some (.hrel (← parseSlot h) (← parseInt k))
  | ["hshrink", h, k] => do some (.hshrink (← parseSlot h) (← parseInt k))
  | ["hreserve", h, k] => do some (.hreserve (← parseSlot h) (← parseInt k))
  | ["hread", h] => do some (.hread (← parseSlot h))
  | ["hdrop", h] => do some (.hdrop (← parseSlot h))
  | ["hdel", h] => do some (.hdel (← parseSlot h))
  | ["hrun", h] => do some (.hrun (← parseSlot h))
  | _ => none


/-! run-time types (model: Cello/ConfigType.lean) -/
open Cello.CfgType in
def rtOpNames : List String := ["ty", "tybig", "tyre", "tyq", "tyshow", "tydel", "ob", "oq", "od"]

open Cello.CfgType in
def parseInstTok (t : String) : Option Nat := (table.map (·.tok)).idxOf? t

open Cello.CfgType in
def parseInsts : List String → Option (List Nat)
  | [] => some []
  | t :: ts => match parseInstTok t, parseInsts ts with
    | some v, some vs => some (v :: vs)
    | _, _ => none

def parseTyRoute (t : String) : Option Nat := ["new", "raw", "root", "con", "conraw", "conroot"].idxOf? t
def parseObRoute (t : String) : Option Nat := ["new", "raw", "root"].idxOf? t
def natOf (i : Int) : Nat := if i < 0 then 0 else i.toNat

open Cello.CfgType in
def parseQuery (ws : List String) : Option Query :=
  match ws with
  | ["cint"] => some .cint | ["len"] => some .len | ["cstr"] => some .cstr | ["cflt"] => some .cflt | ["hash"] => some .hash
  | ["show"] => some .show | ["size"] => some .size | ["cast"] => some .cast | ["mem"] => some .mem | ["get"] => some .get
  | ["pop"] => some .pop
  | ["cmp", o] => do some (.cmp (← parseSlot o))
  | ["eq", o] => do some (.eq (← parseSlot o))
  | ["asg", o] => do some (.asg (← parseSlot o))
  | ["copy", d] => do some (.copy (← parseSlot d))
  | ["impl", c] => some (.impl c)
  | ["push", k] => do some (.push (← parseInt k))
  | ["cat", k] => do some (.cat (← parseInt k))
  | ["resize", n] => do some (.resize (← parseInt n))
  | _ => none

open Cello.CfgType in
/-- the run-time type operations: syntax exactly as harness/h_cfg.c checks it -/
def parseRT (ws : List String) : Option ROp :=
  match ws with
  | "ty" :: t :: r :: name :: size :: is => do
      some (.ty (← parseSlot t) (← parseTyRoute r) name (natOf (← parseInt size)) (← parseInsts is))
  | ["tybig", t, r, name, size, n, k] => do
      let t ← parseSlot t
      let r ← parseTyRoute r
      let size ← parseInt size
      let n ← parseInt n
      let k ← parseInt k
      -- n instances, the table entries k, k+1, … cyclically; more than CELLO_MAX_INSTANCES (or a negative number): refused
      let cnt := if n < 0 || k < 0 then 257 else min (natOf n) 257
      some (.ty t r name (natOf size) ((List.range cnt).map (fun j => (natOf k + j) % table.length)))
  | "tyre" :: t :: name :: size :: is => do some (.tyre (← parseSlot t) name (natOf (← parseInt size)) (← parseInsts is))
  | ["tyq", t, c] => do some (.tyq (← parseSlot t) c)
  | ["tyshow", t] => do some (.tyshow (← parseSlot t))
  | ["tydel", t] => do some (.tydel (← parseSlot t))
  | ["ob", o, t, r, v] => do some (.ob (← parseSlot o) (← parseSlot t) (← parseObRoute r) (← parseInt v))
  | "oq" :: o :: q => do some (.oq (← parseSlot o) (← parseQuery q))
  | ["od", o] => do some (.od (← parseSlot o))
  | _ => none

def showKOut : Keep.KOut → String
  | .unit => "ok"
  | .got i p => s!"hget {i}:{p}"
  | .churn c => s!"churn {c}"
  | .ran n sum => s!"hrun n={n} sum={sum}"
  | .read items stat =>
    let body := ",".intercalate (items.map (fun e => s!"{e.1}:{e.2.1}:{e.2.2}"))
    let tail := match stat with
      | some (n, hi) => s!" slots={n} high={hi}"
      | none => ""
    s!"hread n={items.length} [{body}]{tail}"

def showVal : Val → String
  | .int i => s!"i{i}"
  | .str s => s!"s{s}"

def showOut : Out → Option String
  | .unit => some "ok"
  | .len n => some s!"len {n}"
  | .val v => some s!"get {showVal v}"
  | .mem b => some s!"mem {if b then 1 else 0}"
  | .items xs => some ("items [" ++ ",".intercalate (xs.map showVal) ++ "]")
  | .kvs xs => some ("items [" ++ ",".intercalate (xs.map (fun p => showVal p.1 ++ "=" ++ showVal p.2)) ++ "]")
  | .eq b => some s!"eq {if b then 1 else 0}"
  | .cmp c => some s!"cmp {c}"
  | .exc n => some s!"exc {n}"
  | .nest site n => some s!"nest {site} {n}"
  | .silent => none

/-- `hexit`: process exit in a forked child (the parent's state stays as it is) — `Keep.kexit` of each configuration on ITS state.
    An `I` line says when the configurations end with different ledgers (known finding KF-C18-exit-finalisation). -/
def exitLines (cfgs : List Cfg) (ksts : List Keep.KSt) : IO Unit := do
  let ls := (cfgs.zip ksts).map (fun p => (Keep.ledger (Keep.kexit p.1 p.2)).length)
  IO.println s!"O hexit made={(ksts.head!).used.length} finalised={ls.head!}"
  if !(ls.all (fun n => n == ls.head!)) then IO.println s!"I exit-ledger-differs {ls}"

/-- `w <nvo|na|nl|nt|nr …>`: the creating operation is run by a worker thread that then ends (new_root; pointer published through a
    C global); the main thread joins and holds the object — `Thr.stepJoined` (Cello/ConfigThread.lean).  Anything else: a plain step. -/
def parseOpW (ws : List String) : Option (Bool × Op) :=
  match ws with
  | "w" :: rest =>
    match parseOp rest with
    | some op => if (Cello.Config.Thr.asJoined op).isSome then some (true, op) else none
    | none => none
  | _ => (parseOp ws).map (fun op => (false, op))

def main (args : List String) : IO Unit := do
  let lines ← Driver.inputLines args
  let cfgs := Cfg.all
  -- one state per configuration, advanced in lock step; index 0 is the default configuration
  let mut sts : List St := cfgs.map (fun _ => St.init)
  let mut nOps := 0
  let mut nOoc := 0
  let mut nBad := 0
  let mut nDiverge := 0
  let mut collections := 0
  let mut memoFills := 0
  let mut nEdits := 0          -- in-place edits executed, and how many of them on elements embedded in containers
  let mut nElemEdits := 0
  -- the keep programs (containers as the sole path to managed objects): one state per configuration as well
  let mut ksts : List Keep.KSt := cfgs.map (fun _ => Keep.KSt.init)
  let mut nKeep := 0
  let mut kHigh := 0
  -- run-time types: one state per configuration
  let mut rsts : List Cello.CfgType.RSt := cfgs.map (fun _ => {})
  let mut nRt := 0
  for l in lines do
    if Driver.isSkippable l then continue
    let ws := Driver.words l
    if ws.length > maxTok then
      IO.println "O bad-op"; nBad := nBad + 1; continue
    if rtOpNames.contains (ws.headD "") then
      match parseRT ws with
      | none => IO.println "O bad-op"; nBad := nBad + 1
      | some rop =>
        let rs := (cfgs.zip rsts).map (fun p => Cello.CfgType.step p.1 p.2 rop)
        let shown := rs.map (fun r => r.map (fun x => x.2.render))
        let agree := shown.all (fun r => r == shown.head!)
        match rs.head! with
        | some (_, out) =>
          nOps := nOps + 1; nRt := nRt + 1
          IO.println s!"O {out.render}"
          rsts := (rs.zip rsts).map (fun p => match p.1 with | some r => r.1 | none => p.2)
        | none =>
          nOoc := nOoc + 1
          IO.println "O out-of-contract"
        if !agree then
          nDiverge := nDiverge + 1
          IO.println "O model-config-divergence"
      continue
    if keepOpNames.contains (ws.headD "") then
      match parseKeep ws with
      | none =>
        -- `hexit` is not a step of the model: an observation of `Keep.kexit` on the current states
        let isExit := ws == ["hexit"]
        if isExit then exitLines cfgs ksts else IO.println "O bad-op"
        nBad := nBad + (if isExit then 0 else 1)
      | some kop =>
        let rs := (cfgs.zip ksts).map (fun p => Keep.kstep p.1 kop p.2)
        let r0 := rs.head!
        let agree := rs.all (fun r => r.2 == r0.2)
        match r0.2 with
        | .ok out =>
          nOps := nOps + 1; nKeep := nKeep + 1
          IO.println s!"O {showKOut out}"
          if !agree then
            nDiverge := nDiverge + 1
            IO.println "O model-config-divergence"
          match out with
          | .read _ (some (_, hi)) => kHigh := kHigh + hi
          | _ => pure ()
          ksts := rs.map (·.1)
        | _ =>
          nOoc := nOoc + 1
          IO.println "O out-of-contract"
          if !agree then
            nDiverge := nDiverge + 1
            IO.println "O model-config-divergence"
      continue
    match parseOpW ws with
    | none => IO.println "O bad-op"; nBad := nBad + 1
    | some (jw, op) =>
      let rs := (cfgs.zip sts).map (fun p => Cello.Config.Thr.stepW p.1 jw op p.2)
      let r0 := rs.head!
      match r0.2 with
      | .ok out =>
        nOps := nOps + 1
        -- a forced collection also collects the garbage of the keep programs
        match op with
        | .gc => ksts := (cfgs.zip ksts).map (fun p => (Keep.kstep p.1 .gc p.2).1)
        | .ed _ sel _ =>
          nEdits := nEdits + 1
          if sel != .self then nElemEdits := nElemEdits + 1
        | _ => pure ()
        match showOut out with
        | some t => IO.println s!"O {t}"
        | none => pure ()
        -- every other configuration must agree on the outcome and on the observable contents
        let agree := rs.all (fun r => r.2 == r0.2 && r.1.observe == r0.1.observe)
        if !agree then
          nDiverge := nDiverge + 1
          IO.println "O model-config-divergence"
        if r0.1.heap.length < (sts.head!).heap.length && r0.1.live.length ≥ (sts.head!).live.length then collections := collections + 1
        if r0.1.memo.length > (sts.head!).memo.length then memoFills := memoFills + 1
        sts := rs.map (·.1)
      | _ =>
        -- out of contract under the default configuration: not executed by the harness; the states stay as they are
        nOoc := nOoc + 1
        IO.println "O out-of-contract"
  IO.println s!"O end live={(sts.head!).live.length} holders={(ksts.head!).slots.length} types={(rsts.head!).types.length} objects={(rsts.head!).objs.length}"
  IO.println s!"S ops={nOps} out-of-contract={nOoc} bad={nBad} config-divergences={nDiverge} collections={collections} cache-fills={memoFills} heap-default={(sts.head!).heap.length} heap-ngc={((sts.drop 3).head!).heap.length} keep-ops={nKeep} keep-collections={(ksts.head!).collections} keep-high-slot-entries={kHigh} keep-heap-default={(ksts.head!).heap.length} keep-heap-ngc={((ksts.drop 3).head!).heap.length} edits={nEdits} elem-edits={nElemEdits} rt-ops={nRt}"
