import Cello.Heap
import Cello.HeapOps
import Driver.Common
/- driver for engine `gcmark` (C01): interprets the op file of harness/h_gcmark.c on the model
   (`Cello.Heap.MState.step`: the history ops; collections are `Cello.Heap.gcMark` + `Cello.Heap.sweep`). -/
open Cello.Heap

def main (args : List String) : IO Unit := do
  let lines ← Driver.inputLines args
  let mut st : MState := {}
  let mut nOps := 0
  for l in lines do
    if Driver.isSkippable l then continue
    if l.length ≥ 65536 then
      IO.println "O bad-op"
      continue
    let (st', out) := st.step (Driver.words l)
    st := st'
    nOps := nOps + 1
    for o in out do IO.println o
  IO.println s!"S ops={nOps} collections={st.nCollect} marked={st.nMarked} freed={st.nFreed} live-at-end={st.objs.size}"
