import Cello.Cmp
import CelloGen.Cmp
import Driver.Common
/- driver for engine `cmp` (C09).  Op file (values are prefix terms, one token each, see harness/h_cmp.c):
     cmp  <A> <B>          sign of cmp(A,B) and cmp(B,A) and the six predicates, as GENERATED from src/Cmp.c
     tri  <A> <B> <C>      the six signs among three values
     keys <v1> … <vn>      scalars of one kind set into a Tree and a Table with value = index; iteration order, lookups
     sort <v1> … <vn>      scalars of one kind pushed into an Array and sorted
   `O` lines are what the C harness must print too; `R` lines are the reference order (integers / keys / bytes), compared
   with the `O` line by vlib/props/c09.py when a proof obligation is broken. -/
open Cello.Cmp

def typeNames : List String :=
  ["Int", "Float", "String", "Array", "List", "Tuple", "Tree", "Table", "Type", "Ref", "Box", "Range", "Slice", "Zip",
   "Filter", "Map", "File", "Mutex", "Thread", "Process", "Function", "Cmp", "Hash", "Iter", "Len", "Push", "Get", "Mark",
   "New", "Copy", "Assign", "Show", "Size", "Sort", "Start", "Swap", "C_Int", "C_Str", "C_Float", "Call", "Cast",
   "Concat", "Current", "Doc", "Format", "Help", "Lock", "Pointer", "Resize", "Alloc", "TypeError",
   "ValueError", "KeyError", "IOError", "ClassError", "IndexOutOfBoundsError", "OutOfMemoryError", "FormatError",
   "BusyError", "ResourceError", "GC", "Exception"]

def hexVal (c : Char) : Option Nat :=
  if '0' ≤ c ∧ c ≤ '9' then some (c.toNat - '0'.toNat)
  else if 'a' ≤ c ∧ c ≤ 'f' then some (c.toNat - 'a'.toNat + 10)
  else none

def parseHexBytes : List Char → Option (List UInt8)
  | [] => some []
  | a :: b :: rest => do
    let x ← hexVal a; let y ← hexVal b; let tl ← parseHexBytes rest
    pure (UInt8.ofNat (16 * x + y) :: tl)
  | _ => none

def parseHex64 (cs : List Char) : Option UInt64 :=
  if cs.length ≠ 16 then none else
  cs.foldlM (fun (acc : UInt64) c => (hexVal c).map (fun d => acc * 16 + UInt64.ofNat d)) 0

def parseDec64 (s : String) : Option (BitVec 64) :=
  -- optional '-' then 1..19 digits, value within int64_t
  let body := if s.startsWith "-" then (s.drop 1).toString else s
  if body.isEmpty || body.length > 19 || !(body.toList.all Char.isDigit) then none else
  match s.toInt? with
  | some v => if -(2^63 : Int) ≤ v ∧ v < 2^63 then some (BitVec.ofInt 64 v) else none
  | none => none

def ops : CelloGen.Cmp.FloatOps UInt64 := hwFloatOps

def maxCount : Nat := 4096

mutual
partial def parseVal (toks : List String) : Option (Val × List String) :=
  match toks with
  | [] => none
  | t :: rest =>
    let cs := t.toList
    match cs with
    | 'i' :: _ => (parseDec64 (t.drop 1).toString).map (fun v => (.int v, rest))
    | 'f' :: h => (parseHex64 h).map (fun b => (.flt b, rest))
    | 's' :: h => match parseHexBytes h with
      | some bs => if bs.contains 0 then none else some (.str bs, rest)
      | none => none
    | 't' :: n => let name := String.ofList n
      if typeNames.contains name then some (.typ name.toUTF8.toList, rest) else none
    | 'p' :: d :: ':' :: h => match parseHexBytes h with
      | some bs => if '0' ≤ d ∧ d ≤ '9' then some (.plain (d.toNat - '0'.toNat) bs, rest) else none
      | none => none
    | 'A' :: n => parseSeq .array (String.ofList n) rest
    | 'L' :: n => parseSeq .list (String.ofList n) rest
    | 'T' :: n => parseSeq .tuple (String.ofList n) rest
    | 'R' :: n => match (String.ofList n).toNat? with
      | some k => if k > maxCount || n.isEmpty || !n.all Char.isDigit then none else
        match parseMany (2 * k) rest [] with
        | some (vs, rest') =>
          let rec pairUp : List Val → List (Val × Val)
            | a :: b :: tl => (a, b) :: pairUp tl
            | _ => []
          -- the validity rule is evaluated on the entries as written (the harness does the same), then the Tree is built
          if (Val.tree (pairUp vs)).valid then some (.tree (treeOf (valCmp ops) (pairUp vs)), rest') else none
        | none => none
      | none => none
    | _ => none
partial def parseSeq (k : SeqKind) (n : String) (rest : List String) : Option (Val × List String) :=
  match n.toNat? with
  | some cnt => if cnt > maxCount || n.isEmpty || !n.toList.all Char.isDigit then none else
    (parseMany cnt rest []).map (fun (vs, rest') => (.seq k vs, rest'))
  | none => none
partial def parseMany (n : Nat) (toks : List String) (acc : List Val) : Option (List Val × List String) :=
  if n = 0 then some (acc.reverse, toks) else
  match parseVal toks with
  | some (v, rest) => parseMany (n - 1) rest (v :: acc)
  | none => none
end

/-- all remaining tokens as values -/
partial def parseAll (toks : List String) (acc : List Val) : Option (List Val) :=
  match toks with
  | [] => some acc.reverse
  | _ => match parseVal toks with
    | some (v, rest) => parseAll rest (v :: acc)
    | none => none

def b2s (b : Bool) : String := if b then "1" else "0"

def hexDigit (n : Nat) : Char := if n < 10 then Char.ofNat (48 + n) else Char.ofNat (87 + n)
def hexOfBytes (bs : List UInt8) : String :=
  String.ofList (bs.flatMap fun b => [hexDigit (b.toNat / 16), hexDigit (b.toNat % 16)])

def showScalar : Val → String
  | .int v => toString v.toInt
  | .flt b => toString (fkey b)
  | .str bs => "s" ++ hexOfBytes bs
  | _ => "?"

def joinC (xs : List String) : String := ",".intercalate xs

/- the reference order the theorems tie `valCmp` to (integers, float keys, byte strings, lexicographic lift) -/
mutual
partial def refCmp : Val → Val → Int
  | .int a, .int b => if a.toInt < b.toInt then -1 else if a.toInt > b.toInt then 1 else 0
  | .flt a, .flt b => if fkey a < fkey b then -1 else if fkey a > fkey b then 1 else 0
  | .str a, .str b => if a < b then -1 else if b < a then 1 else 0
  | .typ a, .typ b => if a < b then -1 else if b < a then 1 else 0
  | .plain _ a, .plain _ b => if a < b then -1 else if b < a then 1 else 0
  | .seq _ xs, .seq _ ys => refLex xs ys
  | .tree xs, .tree ys => refLex (xs.flatMap fun kv => [kv.1, kv.2]) (ys.flatMap fun kv => [kv.1, kv.2])
  | _, _ => 0
partial def refLex : List Val → List Val → Int
  | [], [] => 0
  | [], _ => -1
  | _, [] => 1
  | x :: xs, y :: ys => let r := refCmp x y; if r ≠ 0 then r else refLex xs ys
end

def doCmp (a b : Val) : IO Unit := do
  match cmpTop ops a b, cmpTop ops b a with
  | .ok c, .ok rc =>
    -- the predicates are the generated definitions applied to the model's cmp (sign-preserving: they only test against 0)
    let cf : Val → Val → Int := fun x y => match cmpTop ops x y with | .ok c => c | .exc _ => 0
    IO.println s!"O cmp s={sgn c} rs={sgn rc} eq={b2s (CelloGen.Cmp.eq cf a b)} neq={b2s (CelloGen.Cmp.neq cf a b)} gt={b2s (CelloGen.Cmp.gt cf a b)} lt={b2s (CelloGen.Cmp.lt cf a b)} ge={b2s (CelloGen.Cmp.ge cf a b)} le={b2s (CelloGen.Cmp.le cf a b)}"
    IO.println s!"R cmp s={refCmp a b} rs={refCmp b a}"
  | r1, r2 =>
    let sh : Res → String := fun r => match r with | .ok c => toString (sgn c) | .exc n => n
    IO.println s!"O cmp exc={sh r1} rexc={sh r2}"

def sameScalarKind (vs : List Val) : Bool :=
  vs.all (fun v => v.valid && v.ctype ≤ 2) && allSame (vs.map Val.ctype)

def main (args : List String) : IO Unit := do
  let lines ← Driver.inputLines args
  for l in lines do
    if Driver.isSkippable l then continue
    match Driver.words l with
    | "cmp" :: rest =>
      match parseAll rest [] with
      | some [a, b] => if runnable a b then doCmp a b else IO.println "O bad-op"
      | _ => IO.println "O bad-op"
    | "tri" :: rest =>
      match parseAll rest [] with
      | some [a, b, c] =>
        if a.valid && b.valid && c.valid && comparable a b && comparable b c && comparable a c then
          let s := fun x y => sgn (valCmp ops x y)
          IO.println s!"O tri ab={s a b} ba={s b a} bc={s b c} cb={s c b} ac={s a c} ca={s c a}"
          IO.println s!"R tri ab={refCmp a b} ba={refCmp b a} bc={refCmp b c} cb={refCmp c b} ac={refCmp a c} ca={refCmp c a}"
        else IO.println "O bad-op"
      | _ => IO.println "O bad-op"
    | "keys" :: rest =>
      match parseAll rest [] with
      | some vs =>
        if vs.isEmpty || !sameScalarKind vs then IO.println "O bad-op" else
        let c := valCmp ops
        let t := treeOf c vs.zipIdx
        let gets := vs.map fun k => match lastEqual c vs k with | some i => toString i | none => "-"
        IO.println s!"O keys n={vs.length} tree={t.length} table={t.length} order={joinC (t.map fun kv => toString kv.2)} tget={joinC gets} hget={joinC gets}"
      | none => IO.println "O bad-op"
    | "sort" :: rest =>
      match parseAll rest [] with
      | some vs =>
        if vs.isEmpty || !sameScalarKind vs then IO.println "O bad-op" else
        IO.println s!"O sort {joinC ((sortBy (valCmp ops) vs).map showScalar)}"
      | none => IO.println "O bad-op"
    | _ => IO.println "O bad-op"
