import Cello.Cmp
import Cello.CmpSrc
import CelloGen.Cmp
import CelloGen.CmpLoops
import Driver.Common
/- driver for engine `cmp` (C09).  Op file (values are prefix terms, one token each, see harness/h_cmp.c):
     cmp  <A> <B>          sign of cmp(A,B) and cmp(B,A) and the six predicates, as GENERATED from src/Cmp.c
     (`cmp.n` / `cmp.s`, likewise `lcmp`, `tri`: allocation class of the operands in the harness; ignored here)
     lcmp <A> <B>          one direction only: sign of cmp(A,B) and the six predicates
     `&n <term>` names the object built from <term>, `*n` is that object again (one object in two Tuple slots, in both
     operands, as both operands); the loops are run on the object graph (`objCmpF`) under the traversal discipline read
     off the source (`CelloGen.CmpLoops.sourceDiscipline`); `H` = the loops do not come to an end
     tri  <A> <B> <C>      the six signs among three values
     keys <v1> … <vn>      scalars of one kind set into a Tree and a Table with value = index; iteration order, lookups
     sort <v1> … <vn>      scalars of one kind pushed into an Array and sorted
   `O` lines are what the C harness must print too; `R` lines are the reference order (integers / keys / bytes), compared
   with the `O` line by vlib/props/c09.py when a proof obligation is broken. -/
open Cello.Cmp

def typeNames : List String :=
  ["Int", "Float", "String", "Array", "List", "Tuple", "Tree", "Table", "Type", "Ref", "Box", "Range", "Slice", "Zip",
   "Filter", "Map", "File", "Mutex", "Thread", "Process", "Function", "Cmp", "Hash", "Iter", "Len", "Push", "Get", "Mark",
   "New", "Copy", "Assign", "Show", "Size", "Sort", "Start", "Swap", "C_Int", "C_Str", "C_Float", "Call", "Cast",
   "Concat", "Current", "Doc", "Format", "Help", "Lock", "Pointer", "Resize", "Alloc", "TypeError",
   "ValueError", "KeyError", "IOError", "ClassError", "IndexOutOfBoundsError", "OutOfMemoryError", "FormatError",
   "BusyError", "ResourceError", "GC", "Exception"]

def hexVal (c : Char) : Option Nat :=
  if '0' ≤ c ∧ c ≤ '9' then some (c.toNat - '0'.toNat)
  else if 'a' ≤ c ∧ c ≤ 'f' then some (c.toNat - 'a'.toNat + 10)
  else none

def parseHexBytes : List Char → Option (List UInt8)
  | [] => some []
  | a :: b :: rest => do
    let x ← hexVal a; let y ← hexVal b; let tl ← parseHexBytes rest
    pure (UInt8.ofNat (16 * x + y) :: tl)
  | _ => none

def parseHex64 (cs : List Char) : Option UInt64 :=
  if cs.length ≠ 16 then none else
  cs.foldlM (fun (acc : UInt64) c => (hexVal c).map (fun d => acc * 16 + UInt64.ofNat d)) 0

def parseDec64 (s : String) : Option (BitVec 64) :=
  -- optional '-' then 1..19 digits, value within int64_t
  let body := if s.startsWith "-" then (s.drop 1).toString else s
  if body.isEmpty || body.length > 19 || !(body.toList.all Char.isDigit) then none else
  match s.toInt? with
  | some v => if -(2^63 : Int) ≤ v ∧ v < 2^63 then some (BitVec.ofInt 64 v) else none
  | none => none

/-- IEEE-754 subtraction on the bit patterns (`Cello.Cmp.roundedOps`, exact difference of the decoded values; the theorems
    of C09 are about these operations), not the machine's `Float` -/
def ops : CelloGen.Cmp.FloatOps UInt64 := ieeeOps

/-- the traversal discipline of the comparison loops, as read off the source that is in /repo now -/
def disc : CelloGen.Cmp.Discipline := CelloGen.CmpLoops.sourceDiscipline

def maxCount : Nat := 4096
def maxName : Nat := 63

/-- parser state: the next fresh object identity, and the objects named so far on this line (`&n`) -/
structure PState where
  next : Nat := 0
  named : List (Nat × Slot) := []

def parseName (cs : List Char) : Option Nat :=
  if cs.isEmpty || cs.length > 2 || !cs.all Char.isDigit then none else
  match (String.ofList cs).toNat? with
  | some n => if n ≤ maxName then some n else none
  | none => none

def pairUp : List Val → List (Val × Val)
  | a :: b :: tl => (a, b) :: pairUp tl
  | _ => []

/-- key (a scalar: its content) and value OBJECT of each entry -/
def pairUpObj : List Slot → List (Val × Obj)
  | a :: b :: tl => (a.2.content, b.2) :: pairUpObj tl
  | _ => []

def isVal : Obj → Bool
  | .val _ => true
  | _ => false

/-- the elements of an Array / List are its own copies: fresh identities, numbered from `n`; what the copies reference
    (the slots of a copied Tuple) is shared with the source -/
def reId (n : Nat) : List Slot → List Slot
  | [] => []
  | s :: rest => (n, s.2) :: reId (n + 1) rest

/-- an Array / List built from the given element objects: a plain value when no element has parts of its own that can be
    shared (Tuples: Tuple_Assign copies the item pointers), else a container of objects -/
def mkCont (k : SeqKind) (slots : List Slot) (st : PState) : Obj × PState :=
  if slots.all (fun s => isVal s.2) then (.val (.seq k (contents slots)), st)
  else (.cont k (reId st.next slots), { st with next := st.next + slots.length })

mutual
/-- one value term -> the object (with its identity), the new state, the remaining tokens.
    `&n <term>` names the object built from <term>; `*n` is THAT object again (same identity): in two slots of a Tuple,
    in both operands, or as both operands.  A name can be used only after its term is complete (no cycles). -/
partial def parseObj (st : PState) (toks : List String) : Option (Slot × PState × List String) :=
  match toks with
  | [] => none
  | t :: rest =>
    let cs := t.toList
    let fresh (o : Obj) (st : PState) (rest : List String) : Option (Slot × PState × List String) :=
      some ((st.next, o), { st with next := st.next + 1 }, rest)
    match cs with
    | '&' :: n => match parseName n with
      | some k =>
        if st.named.any (·.1 == k) then none else
        match parseObj st rest with
        | some (slot, st', rest') =>
          if st'.named.any (·.1 == k) then none else some (slot, { st' with named := (k, slot) :: st'.named }, rest')
        | none => none
      | none => none
    | '*' :: n => match parseName n with
      | some k => match st.named.find? (·.1 == k) with
        | some (_, slot) => some (slot, st, rest)
        | none => none
      | none => none
    | 'i' :: _ => match parseDec64 (t.drop 1).toString with
      | some v => fresh (.val (.int v)) st rest
      | none => none
    | 'f' :: h => match parseHex64 h with
      | some b => fresh (.val (.flt b)) st rest
      | none => none
    | 's' :: h => match parseHexBytes h with
      | some bs => if bs.contains 0 then none else fresh (.val (.str bs)) st rest
      | none => none
    | 't' :: n => let name := String.ofList n
      -- there is ONE object per Type: its identity is fixed by the name (the same Type in two slots of a Tuple is the same object twice)
      match typeNames.findIdx? (· == name) with
      | some i => some ((1000000 + i, .val (.typ name.toUTF8.toList)), st, rest)
      | none => none
    | 'p' :: d :: ':' :: h => match parseHexBytes h with
      | some bs => if '0' ≤ d ∧ d ≤ '9' then fresh (.val (.plain (d.toNat - '0'.toNat) bs)) st rest else none
      | none => none
    | 'A' :: n => match parseCount n with
      | some cnt => match parseMany cnt st rest [] with
        | some (slots, st', rest') => let (o, st'') := mkCont .array slots st'; fresh o st'' rest'   -- an Array holds copies
        | none => none
      | none => none
    | 'L' :: n => match parseCount n with
      | some cnt => match parseMany cnt st rest [] with
        | some (slots, st', rest') => let (o, st'') := mkCont .list slots st'; fresh o st'' rest'    -- a List holds copies
        | none => none
      | none => none
    | 'T' :: n => match parseCount n with
      | some cnt => match parseMany cnt st rest [] with
        | some (slots, st', rest') => fresh (.tuple slots) st' rest'                            -- a Tuple holds the references
        | none => none
      | none => none
    | 'R' :: n => match parseCount n with
      | some cnt => match parseMany (2 * cnt) st rest [] with
        | some (slots, st', rest') =>
          -- the validity rule is evaluated on the entries as written (the harness does the same), then the Tree is built
          let kvs := pairUp (contents slots)
          if !(Val.tree kvs).valid then none
          else if slots.all (fun s => isVal s.2) then fresh (.val (.tree (treeOf (valCmp ops) kvs))) st' rest'
          else fresh (.tree (treeOf (valCmp ops) (pairUpObj slots))) st' rest'        -- values that are Tuples: copies that share their items
        | none => none
      | none => none
    | _ => none
partial def parseCount (n : List Char) : Option Nat :=
  match (String.ofList n).toNat? with
  | some cnt => if cnt > maxCount || n.isEmpty || !n.all Char.isDigit then none else some cnt
  | none => none
partial def parseMany (n : Nat) (st : PState) (toks : List String) (acc : List Slot) : Option (List Slot × PState × List String) :=
  if n = 0 then some (acc.reverse, st, toks) else
  match parseObj st toks with
  | some (slot, st', rest) => parseMany (n - 1) st' rest (slot :: acc)
  | none => none
end

/-- all remaining tokens as objects -/
partial def parseAllObj (st : PState) (toks : List String) (acc : List Slot) : Option (List Slot) :=
  match toks with
  | [] => some acc.reverse
  | _ => match parseObj st toks with
    | some (slot, st', rest) => parseAllObj st' rest (slot :: acc)
    | none => none

/-- … and their values (keys / sort work on scalars: identity plays no role, the containers take copies) -/
def parseAll (toks : List String) (_acc : List Val) : Option (List Val) :=
  (parseAllObj {} toks []).map contents

def b2s (b : Bool) : String := if b then "1" else "0"

def hexDigit (n : Nat) : Char := if n < 10 then Char.ofNat (48 + n) else Char.ofNat (87 + n)
def hexOfBytes (bs : List UInt8) : String :=
  String.ofList (bs.flatMap fun b => [hexDigit (b.toNat / 16), hexDigit (b.toNat % 16)])

def showScalar : Val → String
  | .int v => toString v.toInt
  | .flt b => toString (fkey b)
  | .str bs => "s" ++ hexOfBytes bs
  | _ => "?"

def joinC (xs : List String) : String := ",".intercalate xs

/- the reference order the theorems tie `valCmp` to (integers, float keys, byte strings, lexicographic lift) -/
mutual
partial def refCmp : Val → Val → Int
  | .int a, .int b => if a.toInt < b.toInt then -1 else if a.toInt > b.toInt then 1 else 0
  | .flt a, .flt b => if fkey a < fkey b then -1 else if fkey a > fkey b then 1 else 0
  | .str a, .str b => if a < b then -1 else if b < a then 1 else 0
  | .typ a, .typ b => if a < b then -1 else if b < a then 1 else 0
  | .plain _ a, .plain _ b => if a < b then -1 else if b < a then 1 else 0
  | .seq _ xs, .seq _ ys => refLex xs ys
  | .tree xs, .tree ys => refLex (xs.flatMap fun kv => [kv.1, kv.2]) (ys.flatMap fun kv => [kv.1, kv.2])
  | _, _ => 0
partial def refLex : List Val → List Val → Int
  | [], [] => 0
  | [], _ => -1
  | _, [] => 1
  | x :: xs, y :: ys => let r := refCmp x y; if r ≠ 0 then r else refLex xs ys
end

/-- sign of a comparison, `H` when the loops do not come to an end -/
def showSign : Option Int → String
  | some c => toString (sgn c)
  | none => "H"

/-- `cmp` as a total function for the generated predicates (they are only evaluated when the comparison has a value) -/
def cf (x y : Obj) : Int := match cmpObj disc ops x y with | some (.ok c) => c | _ => 0

def predsText (a b : Obj) (hang : Bool) : String :=
  if hang then "eq=H neq=H gt=H lt=H ge=H le=H" else
  s!"eq={b2s (CelloGen.Cmp.eq cf a b)} neq={b2s (CelloGen.Cmp.neq cf a b)} gt={b2s (CelloGen.Cmp.gt cf a b)} lt={b2s (CelloGen.Cmp.lt cf a b)} ge={b2s (CelloGen.Cmp.ge cf a b)} le={b2s (CelloGen.Cmp.le cf a b)}"

def resSign : Option Res → Option Int
  | some (.ok c) => some c
  | _ => none

def isExc : Option Res → Bool
  | some (.exc _) => true
  | _ => false

def showRes : Option Res → String
  | some (.ok c) => toString (sgn c)
  | some (.exc n) => n
  | some .outside => "?"
  | none => "H"

/-- may the pair be compared?  Position by position both must be of one kind (`comparable`); where one of two sequences is a
    Tuple that holds an object twice an identity walk can bring ANY element of the one against ANY element of the other, so
    all of those pairs must be of one kind (the same rule is implemented in harness/h_cmp.c `ok_pair`) -/
partial def okPair (a b : Obj) : Bool :=
  match a.seqView, b.seqView with
  | some (_, s0), some (_, s1) =>
    if !(idsNodup s0) || !(idsNodup s1) then s0.all fun x => s1.all fun y => okPair x.2 y.2
    else okZip s0 s1
  | none, none =>
    match a.treeView, b.treeView with
    | some e0, some e1 => okEnts e0 e1         -- two Trees: entry by entry in iteration order, key with key, value with value
    | none, none => comparable a.content b.content
    | _, _ => false
  | _, _ => false
where
  okZip : List Slot → List Slot → Bool
    | x :: xs, y :: ys => okPair x.2 y.2 && okZip xs ys
    | _, _ => true
  okEnts : List (Val × Obj) → List (Val × Obj) → Bool
    | x :: xs, y :: ys => comparable x.1 y.1 && okPair x.2 y.2 && okEnts xs ys
    | _, _ => true

def runnableObj (a b : Obj) : Bool :=
  a.content.valid && b.content.valid && (okPair a b || (a.content.ctype == 4 && b.content.ctype == 4))

/-- second opinion on top-level comparisons of two Strings, two Types, or with a plain struct as `self`: the programs
    TRANSLATED from String_Cmp / Type_Cmp / `cmp` of Cmp.c (Cello/CmpSrc.lean, over a libc that answers -1/0/1) against the
    hand model.  `S` lines are not compared with the harness; vlib/props/c09.py requires `ok=1` and counts the arms. -/
def secondOpinion (a b : Obj) (r : Option Res) : IO Unit := do
  let va := a.content; let vb := b.content
  match srcSecondOpinion va vb with
  | none => pure ()
  | some src =>
    let via := match va with
      | .str _ => "string" | .typ _ => "type"
      | _ => if dispatchArm va vb == 1 then "memcmp" else "typeerror"
    let same := match r, src with
      | some (.ok c), .ok d => sgn c == d
      | some (.exc x), .exc y => x == y
      | _, _ => false
    IO.println s!"S cmp via={via} src={showRes (some src)} ok={if same then 1 else 0}"

def doCmp (a b : Obj) : IO Unit := do
  let r1 := cmpObj disc ops a b
  let r2 := cmpObj disc ops b a
  if isExc r1 || isExc r2 then
    IO.println s!"O cmp exc={showRes r1} rexc={showRes r2}"
    secondOpinion a b r1; secondOpinion b a r2
  else
    -- the predicates are the generated definitions applied to the model's cmp (sign-preserving: they only test against 0)
    IO.println s!"O cmp s={showSign (resSign r1)} rs={showSign (resSign r2)} {predsText a b r1.isNone}"
    IO.println s!"R cmp s={refCmp a.content b.content} rs={refCmp b.content a.content}"
    secondOpinion a b r1; secondOpinion b a r2

def doLcmp (a b : Obj) : IO Unit := do
  let r1 := cmpObj disc ops a b
  if isExc r1 then
    IO.println s!"O lcmp exc={showRes r1}"
  else
    IO.println s!"O lcmp s={showSign (resSign r1)} {predsText a b r1.isNone}"
    IO.println s!"R lcmp s={refCmp a.content b.content}"

def sameScalarKind (vs : List Val) : Bool :=
  vs.all (fun v => v.valid && v.ctype ≤ 2) && allSame (vs.map Val.ctype)

/-- `cmp.n`, `lcmp.s`, `tri.n` …: the suffix selects how the HARNESS allocates the operands (`.n` = `new_root`, collector-managed;
    `.s` = stack class: scalars and Tuples carry the header of a `$(…)` object); `cmp` does not look at the allocation class,
    so the model ignores it -/
def baseOp (ws : List String) : List String :=
  match ws with
  | op :: rest =>
    match op.splitOn "." with
    | [b, sfx] => if (sfx == "n" || sfx == "s") && (b == "cmp" || b == "lcmp" || b == "tri") then b :: rest else ws
    | _ => ws
  | [] => []

def main (args : List String) : IO Unit := do
  let lines ← Driver.inputLines args
  for l in lines do
    if Driver.isSkippable l then continue
    match baseOp (Driver.words l) with
    | "cmp" :: rest =>
      match parseAllObj {} rest [] with
      | some [(_, a), (_, b)] => if runnableObj a b then doCmp a b else IO.println "O bad-op"
      | _ => IO.println "O bad-op"
    | "lcmp" :: rest =>
      match parseAllObj {} rest [] with
      | some [(_, a), (_, b)] => if runnableObj a b then doLcmp a b else IO.println "O bad-op"
      | _ => IO.println "O bad-op"
    | "tri" :: rest =>
      match parseAllObj {} rest [] with
      | some [(_, oa), (_, ob), (_, oc)] =>
        let a := oa.content; let b := ob.content; let c := oc.content
        if a.valid && b.valid && c.valid && okPair oa ob && okPair ob oc && okPair oa oc then
          let s := fun x y => showSign (objCmpF disc ops (fuelFor x y) x y)
          IO.println s!"O tri ab={s oa ob} ba={s ob oa} bc={s ob oc} cb={s oc ob} ac={s oa oc} ca={s oc oa}"
          IO.println s!"R tri ab={refCmp a b} ba={refCmp b a} bc={refCmp b c} cb={refCmp c b} ac={refCmp a c} ca={refCmp c a}"
        else IO.println "O bad-op"
      | _ => IO.println "O bad-op"
    | "keys" :: rest =>
      match parseAll rest [] with
      | some vs =>
        if vs.isEmpty || !sameScalarKind vs then IO.println "O bad-op" else
        let c := valCmp ops
        let t := treeOf c vs.zipIdx
        let gets := vs.map fun k => match lastEqual c vs k with | some i => toString i | none => "-"
        IO.println s!"O keys n={vs.length} tree={t.length} table={t.length} order={joinC (t.map fun kv => toString kv.2)} tget={joinC gets} hget={joinC gets}"
      | none => IO.println "O bad-op"
    | "sort" :: rest =>
      match parseAll rest [] with
      | some vs =>
        if vs.isEmpty || !sameScalarKind vs then IO.println "O bad-op" else
        IO.println s!"O sort {joinC ((sortBy (valCmp ops) vs).map showScalar)}"
      | none => IO.println "O bad-op"
    | _ => IO.println "O bad-op"
