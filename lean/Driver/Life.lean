import Cello.Lifecycle
import Cello.LifecycleSrc
import Cello.LifecycleMem
import Driver.Common
/- driver for engine `life` (C06): interprets the op files of harness/h_life.c on the model `Cello.Life` and prints the
   same `O` lines: per op the ledger events it caused (in order; sorted in `uno` histories), the pending order of the
   collection it performed, the registry as a set, `running`, `mitems`. -/
open Cello.Life

structure Hist where
  st : St := St.init
  ordered : Bool := true
  kinds : List (Nat × Char) := []      -- allocated ids with their kind
  held : List Nat := []
  ended : Bool := false
  /-- kind-q objects: what their destructors allocate (child id, arena slot) -/
  qs : List (Nat × List (Nat × Nat)) := []
  /-- identities reserved for those children (not yet allocated) -/
  reserved : List Nat := []
  /-- second layer: (instance, its run-time Type object) -/
  types : List (Nat × Nat) := []
  /-- objects whose destructor raises -/
  raises : List Nat := []
  /-- everything released so far -/
  freed : List Nat := []
  /-- the collector's own tables (Cello/LifecycleMem.lean), run on the statement lists read from the source -/
  mem : Mem.MSt := Mem.MSt.init

def Hist.kindOf (h : Hist) (a : Nat) : Option Char := (h.kinds.find? (·.1 == a)).map (·.2)
def Hist.allocated (h : Hist) (a : Nat) : Bool := h.kinds.any (·.1 == a)

/-- ids up to `;` (or the end); `none` if a token is not an id -/
def parseIds : List String → Option (List Nat × List String)
  | [] => some ([], [])
  | t :: ts =>
    if t = ";" then some ([], ts) else
    match t.toNat? with
    | some v => if v < 65536 then (parseIds ts).map (fun (a, r) => (v :: a, r)) else none
    | none => none

def evKey (e : Ev) : Nat × Nat := match e with | .fin a => (a, 0) | .free a => (a, 1)

def insertEv (e : Ev) : List Ev → List Ev
  | [] => [e]
  | x :: xs => if (evKey e).1 < (evKey x).1 || ((evKey e).1 == (evKey x).1 && (evKey e).2 ≤ (evKey x).2) then e :: x :: xs else x :: insertEv e xs

def showEv : Ev → String
  | .fin a => s!"f{a}"
  | .free a => s!"x{a}"

def insertNat (a : Nat × Bool) : List (Nat × Bool) → List (Nat × Bool)
  | [] => [a]
  | x :: xs => if a.1 ≤ x.1 then a :: x :: xs else x :: insertNat a xs

/-- print the observation of one op: `h` after the op whose events are `h.st.log` (the log is cleared before each op) -/
def observe (tag : String) (h : Hist) (pend : List Nat) (withReg : Bool) (setOnly : Bool := false) : String :=
  -- the library's own Box has no destructor hook in the harness: only its release is observed
  let evs := h.st.log.filter (fun e => match e with
    | .fin a => h.kindOf a != some 'B' && h.kindOf a != some 'T'
    | .free _ => true)
  let evs := if h.ordered && !setOnly then evs else evs.foldr insertEv []
  let evS := ",".intercalate (evs.map showEv)
  let pendS := if !h.ordered || setOnly || pend.isEmpty then "-" else ",".intercalate (pend.map toString)
  -- table blocks of the collector that are allocated now: entry tables, pending lists
  let tb := s!" tb={h.mem.liveEntries},{h.mem.liveFreelist}"
  let base := s!"O {tag} ev={evS} pend={pendS}"
  if !withReg then base ++ tb else
  let regs := (h.st.reg.map (fun e => (e.addr, e.root))).foldr insertNat []
  let regS := ",".intercalate (regs.map (fun (a, r) => toString a ++ (if r then "r" else "")))
  s!"{base} reg={regS} run={if h.st.running then 1 else 0} mit={h.st.mitems}{tb}"

/-- the destructors of the kind-q objects, re-declared in the state the op starts from: a collection that one of their
    registrations runs marks what the program reaches now (roots, the held objects) and the object being registered -/
def declareDtors (h : Hist) (s : St) : St :=
  let ms := markSet s h.held
  h.qs.foldl (fun st (q, cs) =>
    step sourceCfg st (Op.dtor q (cs.map (fun (c, _) => ⟨c, ms ++ [c], []⟩)))) { s with dalloc := [] }

/-- the events of the collector's own memory that an op causes, as far as the observation after the op can tell them
    apart (rehashes replace one live table by another; a sweep that an exception left keeps its pending list) -/
def memEvents (s0 : St) (mem : Mem.MSt) (op : Op) (raised : Bool) : List Mem.Ev :=
  let sweepEvs : List Mem.Ev := [.sweepBegin false] ++ (if raised then [] else [.sweepEnd])
  match op with
  | .new _ k _ _ _ | .alloc _ k _ _ =>
    if k == .raw || !s0.running then [] else
    [Mem.Ev.set (mem.entries != .live)] ++ (if s0.reg.length + 1 > s0.mitems then sweepEvs else [])
  | .del _ k => if k == .raw || !s0.running then [] else [.rem false]
  | .delNull => if !s0.running then [] else [.rem false]
  | .collect _ _ => sweepEvs
  | .teardown _ => [.delBegin false] ++ (if raised then [] else [.delEnd])
  | _ => []

def doOp (h : Hist) (tag : String) (op : Op) (withReg : Bool := true) (after : List Op := []) : Hist × String :=
  let s0 := declareDtors h { h.st with log := [] }
  let pend := stepPending sourceCfg s0 op
  -- the second layer: the core model until a raising destructor is declared
  let x0 : XSt := ⟨s0, h.types, h.raises, 0⟩
  let x1 := stepX sourceCfg x0 op
  let raised := x1.escaped > 0
  -- (the constructor that follows `alloc` does not run when the exception comes out of the registration)
  let s1 := if raised then x1.core else after.foldl (step sourceCfg) x1.core
  -- a run-time Type object released before one of its instances: undefined behaviour from here on
  if releasedFirstFrom h.freed h.types s1.log then ({ h with ended := true }, s!"O {tag} ub") else
  -- the allocating destructors that ran during the op: their children exist from now on
  let ran := h.qs.filter (fun (q, cs) => !cs.isEmpty && s1.log.contains (Ev.fin q))
  let born := ran.flatMap (fun (_, cs) => cs.map (·.1))
  let h' := { h with st := s1, kinds := born.map (fun c => (c, 'p')) ++ h.kinds,
                     mem := Mem.run Mem.Progs.source h.mem (memEvents s0 h.mem op raised),
                     reserved := h.reserved.filter (fun c => !born.contains c),
                     freed := s1.log.filterMap (fun e => match e with | .free a => some a | _ => none) ++ h.freed }
  -- a registration that runs a threshold collection: the harness compares the set of finalised objects only (the real
  -- conservative stack scan may keep some garbage, which the harness then reclaims with a second collection); the same
  -- for an op during which an allocating destructor ran
  let setOnly := (match op with
    | .new _ k _ _ _ | .alloc _ k _ _ => k != .raw && s0.running && s0.reg.length + 1 > s0.mitems
    | _ => false) || !ran.isEmpty
  (h', observe tag h' pend withReg setOnly ++ (if raised then " raised" else ""))

def kindOfChar (c : Char) : Kind := if c = 'r' then .root else if c = 'w' then .raw else .std

def pairUp : List Nat → List (Nat × Nat)
  | c :: sl :: r => (c, sl) :: pairUp r
  | _ => []

/-- the ops other than `n` / `a` -/
def opLine2 (h : Hist) (toks : List String) : Hist × String :=
  let bad := (h, "O bad-op")
  match toks with
  | ["d", idS, howS] =>
    match idS.toNat?, howS.toList with
    | some id, [hc] =>
      if !("srw".toList.contains hc) || !h.allocated id then bad else
      doOp h "d" (Op.del id (kindOfChar hc))
    | _, _ => bad
  | ["D", idS, howS] =>
    match idS.toNat?, howS.toList with
    | some id, [hc] =>
      if !("srw".toList.contains hc) || !h.allocated id || h.kindOf id == some 'B' then bad else
      doOp h "D" (Op.dealloc id (kindOfChar hc))
    | _, _ => bad
  | "q" :: idS :: rest =>
    match idS.toNat?, parseIds rest with
    | some id, some (vals, []) =>
      if h.kindOf id != some 'q' || vals.length % 2 != 0 || vals.length > 8 then bad else
      let cs := pairUp vals
      let ids := cs.map (·.1)
      if cs.any (fun (c, sl) => h.allocated c || h.reserved.contains c || sl ≥ 16384) || !ids.Nodup then bad else
      -- children reserved by an earlier `q` of the same object are released
      let old : List Nat := match h.qs.find? (fun p => p.1 == id) with | some (_, ocs) => ocs.map (fun p => p.1) | none => []
      let h' := { h with qs := (id, cs) :: h.qs.filter (fun p => p.1 != id),
                         reserved := ids ++ h.reserved.filter (fun c => !old.contains c),
                         st := { h.st with log := [] } }
      (h', observe "q" h' [] true)
    | _, _ => bad
  | ["o", idS, tgS] =>
    match idS.toNat? with
    | some id =>
      if id ≥ 65536 || !(h.kindOf id == some 'b' || h.kindOf id == some 'B') then bad else
      if tgS = "-" then doOp h "o" (Op.own id [])
      else match tgS.toNat? with
        | some tg => if tg < 65536 && h.allocated tg then doOp h "o" (Op.own id [tg]) else bad
        | none => bad
    | none => bad
  | "c" :: rest =>
    match parseIds rest with
    | some (marks, r) => match parseIds r with
      -- (the harness sets *exactly* these mark bits before GC_Sweep: bits an abandoned mark phase left are overwritten)
      | some (order, _) => doOp { h with st := { h.st with marked := [] } } "c" (Op.collect marks order)
      | none => bad
    | none => bad
  | "g" :: rest =>
    match parseIds rest with
    | some ([], r) => match parseIds r with
      | some (order, _) => doOp h "g" (Op.collect (markSet h.st h.held) order)
      | none => bad
    | _ => bad
  | "k" :: rest =>
    match parseIds rest with
    | some (ids, _) =>
      if ids.all h.allocated then
        let h' := { h with held := ids, st := { h.st with log := [] } }
        (h', observe "k" h' [] true)
      else bad
    | none => bad
  | "m" :: rest =>
    -- a mark phase left by an exception: the anchor's Mark instance reports `ids`, then throws.  The bits that stay set
    -- (what was reported and what it owns, the roots met so far) are read by nothing in the code that exists
    match parseIds rest with
    | some (ids, []) =>
      if !ids.all h.allocated || !h.kinds.any (fun p => p.2 == 'a' && h.st.isReg p.1) then bad else
      doOp h "m" (Op.markAbort (markSet h.st ids))
    | _ => bad
  | ["z", idS] =>
    match idS.toNat? with
    | some id =>
      if !(h.kindOf id == some 'p' || h.kindOf id == some 'q' || h.kindOf id == some 'b') then bad else
      doOp h "z" (Op.nulldel id)
    | none => bad
  | ["r", idS] =>
    -- from now on the destructor of the object raises (at the end of its body)
    match idS.toNat? with
    | some id =>
      if !(h.kindOf id == some 'p' || h.kindOf id == some 'q' || h.kindOf id == some 'b' || h.kindOf id == some 'i') then bad else
      let h' := { h with raises := id :: h.raises, st := { h.st with log := [] } }
      (h', observe "r" h' [] true)
    | none => bad
  | ["N"] => doOp h "N" Op.delNull
  | ["s"] => doOp h "s" Op.stop
  | ["t"] => doOp h "t" Op.start
  | "e" :: rest =>
    match parseIds rest with
    | some ([], r) => match parseIds r with
      | some (order, _) =>
        let (h', line) := doOp h "e" (Op.teardown order) false
        ({ h' with ended := true }, line)
      | none => bad
    | _ => bad
  | _ => bad

/-- one op line inside a history; returns the new history state and the line to print -/
def opLine (h : Hist) (toks : List String) : Hist × String :=
  let bad := (h, "O bad-op")
  match toks with
  | opS :: idS :: kindS :: howS :: slotS :: ownedS :: rest =>
    if opS != "n" && opS != "a" then opLine2 h toks else
    match idS.toNat?, slotS.toNat?, kindS.toList, howS.toList with
    | some id, some slot, [kc], [hc] =>
      if id ≥ 65536 || !("pqbBaTi".toList.contains kc) || !("srw".toList.contains hc) then bad else
      let owned? : Option (Option Nat) := if ownedS = "-" then some none else (ownedS.toNat?).map some
      match owned? with
      | none => bad
      | some owned =>
        if (match owned with | some o => decide (o ≥ 65536) | none => false) then bad else
        let orderOk : Option (List Nat) := match rest with
          | [] => some []
          | t :: r => if t = ";" then (parseIds r).map (·.1) else none
        match orderOk with
        | none => bad
        | some order =>
          if h.allocated id || h.reserved.contains id then bad else
          if kc != 'B' && slot ≥ 16384 then bad else
          -- T = a run-time Type object (`new(Type, …)`, slot = index of its block in the type region);
          -- i = an instance of the run-time Type object named in the `owned` column (which must not have been released)
          if kc = 'T' && (slot ≥ 16 || owned.isSome) then bad else
          if kc = 'i' && (match owned with | some t => h.kindOf t != some 'T' || h.freed.contains t | none => true) then bad else
          if kc != 'i' && (match owned with | some o => !h.allocated o || kc = 'p' || kc = 'q' || kc = 'a' | none => false) then bad else
          let marks := markSet h.st h.held ++ [id]
          let ownedL := if kc = 'i' then [] else match owned with | some o => [o] | none => []
          let h := if kc = 'i' then (match owned with | some t => { h with types := (id, t) :: h.types } | none => h) else h
          -- `a`: alloc / alloc_root / alloc_raw, then the constructor (its ownership link)
          let (h', line) :=
            if opS = "n" then doOp h "n" (Op.new id (kindOfChar hc) ownedL marks order)
            else doOp h "a" (Op.alloc id (kindOfChar hc) marks order) true [Op.own id ownedL]
          ({ h' with kinds := (id, kc) :: h'.kinds }, line)
    | _, _, _, _ => bad
  | _ => opLine2 h toks

def main (args : List String) : IO Unit := do
  let lines ← Driver.inputLines args
  let mut cur : Option Hist := none
  let mut nOps := 0
  let mut nFin := 0
  for l in lines do
    if Driver.isSkippable l then continue
    let toks := Driver.words l
    if l.startsWith "H " then
      -- a history that ends without `e`
      if let some h := cur then
        if !h.ended then IO.println "O e missing"
      match toks with
      | "H" :: mode :: ord :: _ =>
        if (mode = "main" || mode = "thread") && (ord = "ord" || ord = "uno") then
          IO.println s!"O H {mode} {ord}"
          cur := some { ordered := ord = "ord" }
        else
          IO.println "O bad-op"; cur := none
      | _ => IO.println "O bad-op"; cur := none
    else
      match cur with
      | none => IO.println "O bad-op"
      | some h =>
        if h.ended then continue
        let (h', line) := opLine h toks
        nOps := nOps + 1
        nFin := nFin + (h'.st.log.filter (fun e => match e with | .fin _ => true | _ => false)).length
        IO.println line
        cur := some h'
  if let some h := cur then
    if !h.ended then IO.println "O e missing"
  IO.println s!"S ops={nOps} finalised={nFin}"
