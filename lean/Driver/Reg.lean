import Cello.Registry
import Cello.RegistryApi
import CelloGen.Reg
import Driver.Common
import Std.Data.HashMap
/- driver for engine `reg` (C17): interprets the op files of harness/h_reg.c on the registry model and prints the same
   `O` lines (result, addresses deallocated, counters, bounds and the whole slot array after every op).
   `R bad …` lines report that the model disagrees with its own ledger or that the executable invariant fails. -/
open Cello.Registry

def cfg : Cfg := gcCfg

def arenaBase : Nat := 0x200000000000
def addr0 : Nat := arenaBase + 32
def addrOfU (u : Nat) : Nat := addr0 + 8 * u

def fnv (s : String) : UInt64 :=
  s.toUTF8.foldl (fun h b => (h ^^^ b.toUInt64) * 1099511628211) 14695981039346656037

def joinOrDigest (xs : List String) : String :=
  let s := ",".intercalate xs
  if xs.length > 40 then s!"#{xs.length}:{(fnv s).toNat}" else s

def addrStr (p : Nat) : String :=
  if p == uintptrMax then "max" else if p == 0 then "0"
  else if p ≥ addr0 && (p - addr0) % 8 == 0 then s!"u{(p - addr0) / 8}" else s!"?{p}"

/-- the routing tables of src/Alloc.c (regenerated on every run): the registry model is entered only through them -/
def routes : Routes := gcRoutes

/-- op-file name of an allocation -> (entry point of src/Alloc.c, the type has its own Alloc instance) -/
def allocEntryOf (op : String) : Option (String × Bool) :=
  if op == "new" || op == "tnew" || op == "tnewx" then some ("alloc", true)
  else if op == "newroot" then some ("alloc_root", true)
  else if op == "newraw" then some ("alloc_raw", true)
  else if op == "pnew" then some ("new_with", false)
  else if op == "pnewroot" then some ("new_root_with", false)
  else if op == "pnewraw" then some ("new_raw_with", false)
  else none

structure St where
  reg : Reg := (regInitFrom CelloGen.Reg.gcNewInit).getD Reg.init     -- GC_New, from the statements of the source
  plain : Array Bool := #[]                -- id -> last allocated as a Plain (type without an Alloc instance)
  idU : Array (Option Nat) := #[]          -- id -> u
  uId : Std.HashMap Nat Nat := {}          -- u -> id
  bucket : Std.HashMap Nat Nat := {}       -- u / 4 -> u (an object takes 4 address units: one object per bucket)
  st : Array Nat := #[]                    -- 0 never, 1 managed, 2 unmanaged (raw / allocated while stopped), 3 dead
  rootOf : Array Bool := #[]
  kills : Array (List Nat) := #[]
  killNull : Array Bool := #[]             -- the destructor of the id also calls del(NULL), after its kills
  raises : Array Bool := #[]               -- the destructor of the id leaves by an exception, after its kills (`killraise`)
  strict : Bool := false                   -- ledger of the property text in the stopped window (witness files only)
  tainted : Bool := false                  -- a witness of a known finding ran: the model departs from the ledger on purpose
  stale : Bool := false                    -- `stalemark` left mark bits behind (until the next collection / sweep)
  every : Nat := 1
  since : Nat := 0
  nDump : Nat := 0
  maxN : Nat := 0
  nShift : Nat := 0

def St.idOfAddr (s : St) (p : Nat) : String :=
  if p ≥ addr0 && (p - addr0) % 8 == 0 then
    match s.uId[(p - addr0) / 8]? with
    | some id => toString id
    | none => s!"?{p}"
  else s!"?{p}"

def St.K (s : St) (p : Nat) : List Nat :=
  if p ≥ addr0 then
    match s.uId[(p - addr0) / 8]? with
    | some id => (s.kills.getD id []).filterMap (fun k => (s.idU.getD k none).map addrOfU) ++
                 (if s.killNull.getD id false then [0] else [])
    | none => []
  else []

def St.R (s : St) (p : Nat) : Bool :=
  if p ≥ addr0 then
    match s.uId[(p - addr0) / 8]? with
    | some id => s.raises.getD id false
    | none => false
  else false

def St.addrOfId (s : St) (id : Nat) : Option Nat := (s.idU.getD id none).map addrOfU

def entriesStr (s : St) : String :=
  let r := s.reg
  let es := (List.range r.n).filterMap (fun i =>
    if hi : i < r.n then
      match r.slots[i] with
      | none => none
      | some e => some s!"{i}:{e.home}:{s.idOfAddr e.key}:{if e.val.root then 1 else 0}:{if e.val.marked then 1 else 0}"
    else none)
  joinOrDigest es

def stateStr (s : St) (dump : Bool) : String :=
  let r := s.reg
  let pend := if r.pending.isEmpty then "" else
    " pend=" ++ joinOrDigest (r.pending.toList.map (fun o => match o with | none => "-" | some p => s.idOfAddr p))
  s!"n={r.n} ni={r.nitems} mi={r.mitems} lo={addrStr r.minptr} hi={addrStr r.maxptr} run={if r.running then 1 else 0} e={if dump then entriesStr s else "-"}{pend}"

def finStr (s : St) (t : List Nat) : String := joinOrDigest (t.map s.idOfAddr)

/-- the model against its own ledger: mem for every id ever seen, root flags, count, executable invariant -/
def selfCheck (s : St) : List String := Id.run do
  let mut bad : List String := []
  let r := s.reg
  if !invB cfg r then bad := "invB" :: bad
  let mut managed := 0
  for id in [0:s.st.size] do
    let stt := s.st.getD id 0
    if stt == 0 then continue
    if stt == 1 then managed := managed + 1
    match s.addrOfId id with
    | none => bad := s!"no-addr {id}" :: bad
    | some p =>
      match memPtr cfg r p with
      | none => bad := s!"mem-ub {id}" :: bad
      | some b => if b != (stt == 1) then bad := s!"mem {id} model={b} ledger={stt}" :: bad
  if managed != r.nitems then bad := s!"nitems {r.nitems} ledger {managed}" :: bad
  for i in [0:r.n] do
    if hi : i < r.n then
      match r.slots[i] with
      | none => pure ()
      | some e =>
        if e.val.marked && !s.stale then bad := s!"mark left at {i}" :: bad
        match s.uId[(e.key - addr0) / 8]? with
        | some id => if s.rootOf.getD id false != e.val.root then bad := s!"root flag of {id}" :: bad
        | none => bad := s!"unknown entry at {i}" :: bad
  return bad

def growTo {α : Type} (a : Array α) (n : Nat) (d : α) : Array α :=
  if a.size ≥ n then a else a ++ Array.replicate (n - a.size) d

/-- after an op: apply the deallocation trace to the ledger, print the line -/
def finish (s : St) (name res : String) (t : List Nat) (ex : Bool := false) : IO St := do
  let mut s := s
  let res := if ex then "raised" else res
  if ex then
    -- an exception unwound through the collector: objects were unregistered without being deallocated (the trace does not
    -- list them); the driver's ledger follows the registry there.  Inside a release loop this is KF-C17-dtor-raise.
    if !s.reg.pending.isEmpty then s := { s with tainted := true }
    for id in [0:s.st.size] do
      if s.st.getD id 0 == 1 then
        match (s.idU.getD id none).map addrOfU with
        | some p => if memPtr cfg s.reg p == some false then s := { s with st := s.st.setIfInBounds id 3 }
        | none => pure ()
  for p in t do
    match s.uId[(p - addr0) / 8]? with
    | some id => s := { s with st := s.st.setIfInBounds id 3 }
    | none => pure ()
  let due := s.since + 1 ≥ s.every
  s := { s with since := if due then 0 else s.since + 1, nDump := s.nDump + (if due then 1 else 0),
                maxN := max s.maxN s.reg.n }
  IO.println s!"O {name} {res} fin={finStr s t} | {stateStr s due}"
  if due && !s.tainted then
    for b in selfCheck s do IO.println s!"R bad {name}: {b}"
  return s

/-- the model does not answer (`none`): the C code does not continue normally (the case known before fix d3e4e44:
    `dealloc(destruct(NULL))` from GC_Rem_Ptr during a sweep; the model follows the source through `gcCfg.remNullGuard`);
    the harness prints the same line and both stop -/
def abortLine (name : String) : IO Unit := IO.println s!"O {name} abort"

def idealLine (lo hi : Nat) : String := Id.run do
  let mut out : List String := []
  let mut last : Option (Option Nat) := none
  for n in [lo:hi] do
    let v := idealSize cfg n
    if last != some v then
      out := s!"{n}:{match v with | some v => toString v | none => "ub"}" :: out
      last := some v
  return ",".intercalate out.reverse

def registerId (s : St) (id u : Nat) : Option St :=
  if id ≥ 200000 || u > 2^43 then none else
  match s.idU.getD id none with
  | some u' => if u' == u then some s else none
  | none =>
    -- the 32 bytes of an object must not overlap another object's
    if [u / 4 - 1, u / 4, u / 4 + 1].any (fun b => match s.bucket[b]? with
        | some u' => (if u' ≥ u then u' - u else u - u') < 4 | none => false) then none
    else
      let k := id + 1
      some { s with idU := (growTo s.idU k none).setIfInBounds id (some u), uId := s.uId.insert u id, bucket := s.bucket.insert (u / 4) u,
                    st := growTo s.st k 0, rootOf := growTo s.rootOf k false, kills := growTo s.kills k [],
                    killNull := growTo s.killNull k false, raises := growTo s.raises k false, plain := growTo s.plain k false }

def main (args : List String) : IO Unit := do
  let lines ← Driver.inputLines args
  let mut s : St := {}
  if (regInitFrom CelloGen.Reg.gcNewInit).isNone then IO.println "R bad init: GC_New sets a field to a value the model cannot read"
  let mut nops := 0
  let mut halted := false
  for l in lines do
    if halted then break
    if Driver.isSkippable l then continue
    nops := nops + 1
    let ws := Driver.words l
    let nums := (ws.drop 1).map String.toNat?
    if nums.any Option.isNone then IO.println "O bad-op"; continue
    let a := (nums.filterMap id).toArray
    match ws.head?, a.size with
    | some "dumpevery", 1 =>
      if a[0]! == 0 then IO.println "O bad-op" else
      s := { s with every := a[0]!, since := 0 }
      IO.println s!"O dumpevery {a[0]!}"
    | some "ideal", 2 => IO.println s!"O ideal {idealLine a[0]! a[1]!}"
    | some op, _ =>
      if (op == "new" || op == "newroot" || op == "newraw" || op == "tnew" || op == "pnew" || op == "pnewroot" || op == "pnewraw") && a.size == 2 then
        let id := a[0]!; let u := a[1]!
        match registerId s id u with
        | none => IO.println "O bad-op"
        | some s1 =>
          let stt := s1.st.getD id 0
          if stt == 1 || stt == 2 then IO.println "O bad-op" else    -- still allocated
          s := { s1 with plain := s1.plain.setIfInBounds id (op.startsWith "p") }
          let p := addrOfU u
          -- what this entry point tells the collector, by the tables read from alloc_by and its wrappers
          match (allocEntryOf op).bind (fun e => allocTells routes e.1 e.2) with
          | none => IO.println s!"O {op} unmodelled"; halted := true
          | some none =>
            s := { s with st := s.st.setIfInBounds id 2, rootOf := s.rootOf.setIfInBounds id false }
            s ← finish s op "ok" []
          | some (some root) =>
            -- the harness keeps the threshold out of reach for exact ops (white-box: mitems >= nitems + 1)
            let r0 := if s.reg.running && s.reg.mitems < s.reg.nitems + 1 then { s.reg with mitems := s.reg.nitems + 1 } else s.reg
            match gcSetR cfg s.K s.R r0 p root [] with
            | none => abortLine op; halted := true
            | some (r1, t, _) =>
              if !r0.running && s.strict then
                s := { s with reg := r1, st := s.st.setIfInBounds id 1, rootOf := s.rootOf.setIfInBounds id root, tainted := true }
              else
                s := { s with reg := r1, st := s.st.setIfInBounds id (if r0.running then 1 else 2),
                              rootOf := s.rootOf.setIfInBounds id (r0.running && root) }
              s ← finish s op "ok" t
      else if op == "tnewx" && a.size ≥ 2 then
        let id := a[0]!; let u := a[1]!
        let keep := (a.toList.drop 2)
        let ps := keep.filterMap s.addrOfId
        if ps.length != keep.length || keep.length > 200 then IO.println "O bad-op" else
        match registerId s id u with
        | none => IO.println "O bad-op"
        | some s1 =>
          let stt := s1.st.getD id 0
          if stt == 1 || stt == 2 then IO.println "O bad-op" else
          if allocTells routes "alloc" true != some (some false) then IO.println s!"O {op} unmodelled"; halted := true else
          s := { s1 with plain := s1.plain.setIfInBounds id false }
          let p := addrOfU u
          -- the harness puts the threshold within reach: mitems = nitems, so nitems + 1 > mitems
          let r0 := if s.reg.running then { s.reg with mitems := s.reg.nitems } else s.reg
          match gcSetR cfg s.K s.R r0 p false (ps ++ [p]) with
          | none => abortLine op; halted := true
          | some (r1, t, ex) =>
            if !r0.running && s.strict then
              s := { s with reg := r1, st := s.st.setIfInBounds id 1, rootOf := s.rootOf.setIfInBounds id false, tainted := true }
            else
              s := { s with reg := r1, st := s.st.setIfInBounds id (if r0.running then 1 else 2),
                            rootOf := s.rootOf.setIfInBounds id false, stale := s.stale && !r0.running }
            s ← finish s op "ok" t ex
      else if (op == "del" || op == "delroot") && a.size == 1 then
        match s.addrOfId a[0]! with
        | none => IO.println "O bad-op"
        | some p =>
          -- del / del_root: `rem(current(GC), self)` and nothing else, by the tables read from del_by
          if delTells routes (if op == "del" then "del" else "del_root") != some true then IO.println s!"O {op} unmodelled"; halted := true else
          match gcRemR cfg s.K s.R s.reg p with
          | none => abortLine op; halted := true
          | some (r1, t, ex) =>
            if !s.reg.running && s.strict && s.st.getD a[0]! 0 == 1 then
              s := { s with st := s.st.setIfInBounds a[0]! 3, tainted := true }     -- deleted, says the property text
            s := { s with reg := r1 }; s ← finish s op "ok" t ex
      else if op == "delnull" && a.size == 0 then
        if delTells routes "del" != some true then IO.println s!"O {op} unmodelled"; halted := true else
        match gcRemR cfg s.K s.R s.reg 0 with
        | none => abortLine op; halted := true
        | some (r1, t, ex) => s := { s with reg := r1 }; s ← finish s op "ok" t ex
      else if op == "dealloc" && a.size == 1 then
        let id := a[0]!
        let stt := s.st.getD id 0
        if stt != 1 && stt != 2 then IO.println "O bad-op" else
        -- dealloc / dealloc_root: the block is released, the collector is not told
        match s.addrOfId id with
        | none => IO.println "O bad-op"
        | some p =>
          if stt == 1 then s := { s with tainted := true }
          s ← finish s op "ok" [p]
      else if (op == "delraw" || op == "delrawm") && a.size == 1 then
        let id := a[0]!
        let stt := s.st.getD id 0
        if stt != (if op == "delrawm" then 1 else 2) then IO.println "O bad-op" else
        if delTells routes "del_raw" != some false then IO.println s!"O {op} unmodelled"; halted := true else
        -- del_raw: destruct + dealloc without the collector; the destructor's deletions go through GC_Rem.  For a registered
        -- object (witness files only) the entry stays: KF-C17-dealloc-stale
        if stt == 1 then s := { s with tainted := true, st := s.st.setIfInBounds id 3 }
        match execR cfg s.K s.R (nestFuel s.reg + 1) s.reg (.fin (addrOfU ((s.idU.getD id none).getD 0))) with
        | none => abortLine op; halted := true
        | some (r1, t, ex) =>
          if ex && stt == 2 then s := { s with st := s.st.setIfInBounds id 3 }     -- destructed, never deallocated
          s := { s with reg := r1 }; s ← finish s op "ok" t ex
      else if op == "mem" && a.size == 1 then
        match s.addrOfId a[0]! with
        | none => IO.println "O bad-op"
        | some p =>
          match memPtr cfg s.reg p with
          | none => abortLine op; halted := true
          | some b => s ← finish s op (if b then "1" else "0") []
      else if op == "sweep" || op == "collect" then
        let ps := a.toList.filterMap s.addrOfId
        if ps.length != a.size || (op == "collect" && a.size > 40) then IO.println "O bad-op" else
        -- `collect` is the real GC_Mark (nothing when nitems is 0; GC_Unmark, the roots, the listed objects); `sweep` is
        -- GC_Mark_Item on each listed object from the mark bits as they are
        match (if op == "collect" then gcMark cfg s.reg ps else markAll cfg s.reg ps) with
        | none => abortLine op; halted := true
        | some r1 =>
          match gcSweepR cfg s.K s.R r1 with
          | none => abortLine op; halted := true
          | some (r2, t, ex) => s := { s with reg := r2, stale := false }; s ← finish s op "ok" t ex
      else if op == "stalemark" then
        -- a mark phase left by an exception: GC_Mark_Item on each listed object, no sweep
        let ps := a.toList.filterMap s.addrOfId
        if ps.length != a.size || a.size > 40 then IO.println "O bad-op" else
        match markAll cfg s.reg ps with
        | none => abortLine op; halted := true
        | some r1 => s := { s with reg := r1, stale := true }; s ← finish s op "ok" []
      else if op == "sweepmod" && a.size == 2 && a[0]! > 0 then
        -- mark every managed id with id % m != r
        let ps := (List.range s.st.size).filterMap (fun id =>
          if s.st.getD id 0 == 1 && id % a[0]! != a[1]! then s.addrOfId id else none)
        match markAll cfg s.reg ps with
        | none => abortLine op; halted := true
        | some r1 =>
          match gcSweepR cfg s.K s.R r1 with
          | none => abortLine op; halted := true
          | some (r2, t, ex) => s := { s with reg := r2, stale := false }; s ← finish s op "ok" t ex
      else if op == "show" && a.size == 0 then
        -- GC_Show: one row per slot and the closing line
        let tyName := fun (p : Nat) => match s.uId[(p - addr0) / 8]? with
          | some id => if s.plain.getD id false then "Plain" else "Probe"
          | none => "?"
        let ls := showLines tyName addrStr s.reg
        IO.println s!"O show ok rows={ls.length} {joinOrDigest ls}"
      else if op == "teardown" && a.size == 0 then
        -- GC_Del observed right after its GC_Sweep (a forked child in the harness: the state itself is not changed)
        match gcSweepR cfg s.K s.R (if cfg.delUnmarks then unmark s.reg else s.reg) with
        | none => abortLine op; halted := true
        | some (r2, t, ex) =>
          if ex then IO.println "O teardown raised" else
          let _ ← finish { s with reg := r2, stale := false } op "ok" t
      else if op == "stop" && a.size == 0 then
        s := { s with reg := gcStop s.reg }; s ← finish s op "ok" []
      else if op == "start" && a.size == 0 then
        s := { s with reg := gcStart s.reg }; s ← finish s op "ok" []
      else if op == "kill" && a.size == 2 then
        if (s.idU.getD a[0]! none).isNone || (s.idU.getD a[1]! none).isNone then IO.println "O bad-op" else
        s := { s with kills := s.kills.setIfInBounds a[0]! (s.kills.getD a[0]! [] ++ [a[1]!]) }
        IO.println s!"O kill {a[0]!} {a[1]!}"
      else if op == "unkill" && a.size == 1 then
        if (s.idU.getD a[0]! none).isNone then IO.println "O bad-op" else
        s := { s with kills := s.kills.setIfInBounds a[0]! [], killNull := s.killNull.setIfInBounds a[0]! false,
                      raises := s.raises.setIfInBounds a[0]! false }
        IO.println s!"O unkill {a[0]!}"
      else if op == "killnull" && a.size == 1 then
        if (s.idU.getD a[0]! none).isNone then IO.println "O bad-op" else
        s := { s with killNull := s.killNull.setIfInBounds a[0]! true }
        IO.println s!"O killnull {a[0]!}"
      else if op == "killraise" && a.size == 1 then
        if (s.idU.getD a[0]! none).isNone then IO.println "O bad-op" else
        s := { s with raises := s.raises.setIfInBounds a[0]! true }
        IO.println s!"O killraise {a[0]!}"
      else if op == "strict" && a.size == 0 then
        s := { s with strict := true }
        IO.println "O strict"
      else IO.println "O bad-op"
    | none, _ => IO.println "O bad-op"
  IO.println s!"S ops={nops} dumps={s.nDump} maxslots={s.maxN}"
