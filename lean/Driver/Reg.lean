import Driver.Common
/- driver for engine `reg` — stub, replaced when the engine is built -/
def main (_args : List String) : IO Unit := IO.println "O not-implemented"
