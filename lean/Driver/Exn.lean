import Cello.Exn
import Cello.ExnSignal
import CelloGen.Exn
import Driver.Common
/- driver for engine `exn` (C07): one program per line `P <sexp>`; prints the machine's observation (`O`) — what
   the C harness must print too — and the reference semantics' outcome (`R`). -/
open Cello.Exn

def endOf (g : Sig) : String := g.show

/-- the program tree equivalent to `run_lexical(a,b,c,f1,f2,f3)` of harness/h_exn.c (-1 encoded as 99 = no throw) -/
def lexical (a b c : Option Nat) (f1 f2 f3 : Nat) : Prog :=
  let opt (k : Option Nat) (tag : Nat) : Prog := match k with
    | some k => .seq (.throw (kindObj k)) (.stmt tag)
    | none => .stmt tag
  .seq (.tryCatch (.seq (.stmt 1) (.seq (.tryCatch (.seq (.stmt 2) (.seq
      (.tryCatch (.seq (.stmt 3) (opt a 4)) [kindObj f3] (opt b 5)) (.stmt 6))) [kindObj f2] (opt c 7)) (.stmt 8))) [kindObj f1] (.stmt 9)) (.stmt 10)

def parseOptKind (s : String) : Option (Option Nat) :=
  if s = "-1" then some none else (s.toNat?).map some

/-- the variable bound at top level (harness: `run(prog, TypeError)`) -/
def topBound : Nat := kindObj 0

/-- the machine the translator's flags select: filter walk by index (the code now) or with foreach (the code before
    fix a0ef2da, model `runOld`), consuming or not, the source's EXCEPTION_MAX_DEPTH -/
def machine : Prog → Nat → St → St × List Ev × Sig :=
  runCfgW harnessWorld CelloGen.Exn.catchWalksFilterWithForeachEq CelloGen.Exn.catchConsumes CelloGen.Exn.maxDepth


/-! extension round: signals (`(k N)` leaves, op `S`), the uncaught-exception report (op `E`) -/

/-- the signal numbers of the `(k N)` leaves of a program text -/
def sigLeaves : List Tok → List Nat
  | .lp :: .sym 'k' :: .num n :: rest => n :: sigLeaves rest
  | _ :: rest => sigLeaves rest
  | [] => []

/-- how `%$` shows the harness's objects (address ↦ text) and their C strings -/
def typeNames : List String := ["TypeError", "ValueError", "KeyError", "IOError", "FormatError", "BusyError", "ClassError"]
def objStr (a : Nat) : String :=
  if 1 ≤ a ∧ a ≤ 7 then typeNames.getD (a - 1) "?"
  else if a = 8 ∨ a = 10 then "A" else if a = 9 then "B" else if a = 11 then "TypeError"
  else if a = 12 ∨ a = 14 then "5" else if a = 13 then "7"
  else if 15 ≤ a ∧ a ≤ 20 then (CelloGen.Exn.signalTable.getD (a - 15) ("", "?", "")).2.1 else "?"
def objShown (a : Nat) : String :=
  if 8 ≤ a ∧ a ≤ 11 then "\"" ++ objStr a ++ "\"" else objStr a

def fillText (n : Nat) : String := String.ofList ((List.range n).map (fun i => Char.ofNat ('a'.toNat + i % 26)))

/-- the message of harness op `E k shape len` -/
def diagMsg (k shape len : Nat) : String :=
  if k ≥ 200 then (CelloGen.Exn.signalTable.getD ((k - 200) % 6) ("", "", "?")).2.2
  else match shape % 3 with
    | 0 => s!"kind {k}"
    | 1 => s!"\"obj\" is kind {k} (100%)"
    | _ => s!"kind {k} {fillText len} end"

def escapeText (s : String) : String :=
  String.join (s.toList.map (fun c => if c = '\n' then "\\n" else if c = '\t' then "\\t" else c.toString))

def reportDiag (k shape len : Nat) : IO Unit := do
  let a := if k ≥ 200 then sigObj (k - 200) else kindObj k
  let text := reportText (objShown a) (objStr a) (diagMsg k shape len) CelloGen.Exn.errorStmts
  let st := reportStatus CelloGen.Exn.errorStmts
  let e := if st = some 1 then "fatal" else "other"
  IO.println s!"O diag end={e} status={match st with | some n => toString n | none => "-"} len={text.length} text={escapeText (String.ofList (text.toList.take 400))}"

/-- op `S mode n1 n2 …`: a history of `try { raise(sig ni); s1 } catch (e in F) { s2 }` in one thread, then `s9`;
    mode 0: catch-all, 1: the signal's own exception object, 2: a filter that does not list it (TypeError) -/
def reportSigHist (mode : Nat) (sigs : List Nat) : IO Unit := do
  let ops : List SOp := sigs.map (fun n => ⟨n, if mode = 0 then [] else if mode = 1 then [sigObj n] else [kindObj 0], .stmt 2⟩)
  let M := machine
  let (s, t, g) := runS CelloGen.Exn.signalHandlerUnblocks M ops topBound ⟨St.init, []⟩
  let t' := if g = .normal then t ++ [.stmt 9] else t
  IO.println s!"O trace={showTrace t'} end={endOf g} depth={if g = .normal then toString s.st.depth else "-"}"
  let (rt, re) := evalS ops topBound
  let rt' := if re = none then rt ++ [.stmt 9] else rt
  let once := sigsOnce sigs
  IO.println s!"R trace={showTrace rt'} exc={match re with | none => "none" | some e => toString (e - 1)} nest=1 bound={nestBound} sigs_once={once} unblocks={CelloGen.Exn.signalHandlerUnblocks} hyp={once || CelloGen.Exn.signalHandlerUnblocks}"

def report (p : Prog) : IO (Nat × Bool) := do
  let (s, t, g) := machine p topBound St.init
  let (rt, re) := evalW harnessWorld p topBound
  IO.println s!"O trace={showTrace t} end={endOf g} depth={if g = .normal then toString s.depth else "-"}"
  -- reference outcome + whether the program meets the hypotheses of C07_within_nesting_bound_any_objects (then O and R
  -- must agree): inDomain, nesting within the property's FIXED bound `nestBound` = 2048 — not the source's
  -- EXCEPTION_MAX_DEPTH, which only the machine above follows: on a tree whose jump-buffer stack was shrunk the machine
  -- aborts where the reference goes on, and the comparison of the two lines shows it —, no filter walk of the reference
  -- run meets a clash
  let hyp := inDomain p && decide (nest p ≤ nestBound) && noClash harnessWorld p topBound
  IO.println s!"R trace={showTrace rt} exc={match re with | none => "none" | some e => if e = 0 then "NULL" else toString (e - 1)} nest={nest p} bound={nestBound} cap={CelloGen.Exn.maxDepth} dom={inDomain p} nodup={nodupFilters p} noclash={noClash harnessWorld p topBound} types={allTypes harnessWorld p} hyp={hyp}"
  return ((t.filter (fun e => match e with | .handler _ => true | _ => false)).length, g = .fatal)

def main (args : List String) : IO Unit := do
  let lines ← Driver.inputLines args
  let mut nHandlers := 0
  let mut nFatal := 0
  let mut nProg := 0
  for l in lines do
    if Driver.isSkippable l then continue
    if l.startsWith "P " then
      match parse (l.drop 2).toString with
      | none => IO.println "O bad-op"
      | some p =>
        -- one signal twice in a program is outside the `(k N)` leaf's meaning (a blocked signal is not a throw: op `S`)
        if !sigsOnce (sigLeaves (tokenize (l.drop 2).toString)) then
          IO.println "O bad-op"
          continue
        nProg := nProg + 1
        let (h, f) ← report p
        nHandlers := nHandlers + h
        if f then nFatal := nFatal + 1
    else if l.startsWith "L " then
      match Driver.words (l.drop 2).toString with
      | [a, b, c, f1, f2, f3] =>
        match parseOptKind a, parseOptKind b, parseOptKind c, f1.toNat?, f2.toNat?, f3.toNat? with
        | some a, some b, some c, some f1, some f2, some f3 =>
          nProg := nProg + 1
          let (h, f) ← report (lexical a b c f1 f2 f3)
          nHandlers := nHandlers + h
          if f then nFatal := nFatal + 1
        | _, _, _, _, _, _ => IO.println "O bad-op"
      | _ => IO.println "O bad-op"
    else if l.startsWith "S " then
      match (Driver.words (l.drop 2).toString).map String.toNat? with
      | some mode :: rest =>
        if rest.all Option.isSome && !rest.isEmpty && rest.length ≤ 12 && mode ≤ 2 then
          nProg := nProg + 1
          reportSigHist mode (rest.filterMap id)
        else IO.println "O bad-op"
      | _ => IO.println "O bad-op"
    else if l.startsWith "E " then
      match (Driver.words (l.drop 2).toString).map String.toNat? with
      | [some k, some shape, some len] =>
        if len ≤ 60000 && shape ≤ 2 then reportDiag k shape len else IO.println "O bad-op"
      | _ => IO.println "O bad-op"
    else if l.trimAscii.toString = "A" then
      -- the documented accessors exception_object() / exception_message(): defined in the source or not
      let d (b : Bool) : String := if b then "defined" else "undefined"
      IO.println s!"O accessors object={d CelloGen.Exn.exceptionObjectDefined} message={d CelloGen.Exn.exceptionMessageDefined}"
    else IO.println "O bad-op"
  IO.println s!"S programs={nProg} handlers={nHandlers} fatal={nFatal}"
