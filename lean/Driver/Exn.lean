import Cello.Exn
import CelloGen.Exn
import Driver.Common
/- driver for engine `exn` (C07): one program per line `P <sexp>`; prints the machine's observation (`O`) — what
   the C harness must print too — and the reference semantics' outcome (`R`). -/
open Cello.Exn

def endOf (g : Sig) : String := g.show

/-- the program tree equivalent to `run_lexical(a,b,c,f1,f2,f3)` of harness/h_exn.c (-1 encoded as 99 = no throw) -/
def lexical (a b c : Option Nat) (f1 f2 f3 : Nat) : Prog :=
  let opt (k : Option Nat) (tag : Nat) : Prog := match k with
    | some k => .seq (.throw (kindObj k)) (.stmt tag)
    | none => .stmt tag
  .seq (.tryCatch (.seq (.stmt 1) (.seq (.tryCatch (.seq (.stmt 2) (.seq
      (.tryCatch (.seq (.stmt 3) (opt a 4)) [kindObj f3] (opt b 5)) (.stmt 6))) [kindObj f2] (opt c 7)) (.stmt 8))) [kindObj f1] (.stmt 9)) (.stmt 10)

def parseOptKind (s : String) : Option (Option Nat) :=
  if s = "-1" then some none else (s.toNat?).map some

/-- the variable bound at top level (harness: `run(prog, TypeError)`) -/
def topBound : Nat := kindObj 0

/-- the machine the translator's flags select: filter walk by index (the code now) or with foreach (the code before
    fix a0ef2da, model `runOld`), consuming or not, the source's EXCEPTION_MAX_DEPTH -/
def machine : Prog → Nat → St → St × List Ev × Sig :=
  runCfgW harnessWorld CelloGen.Exn.catchWalksFilterWithForeachEq CelloGen.Exn.catchConsumes CelloGen.Exn.maxDepth

def report (p : Prog) : IO (Nat × Bool) := do
  let (s, t, g) := machine p topBound St.init
  let (rt, re) := evalW harnessWorld p topBound
  IO.println s!"O trace={showTrace t} end={endOf g} depth={if g = .normal then toString s.depth else "-"}"
  -- reference outcome + whether the program meets the hypotheses of C07_within_nesting_bound_any_objects (then O and R
  -- must agree): inDomain, nesting within the property's FIXED bound `nestBound` = 2048 — not the source's
  -- EXCEPTION_MAX_DEPTH, which only the machine above follows: on a tree whose jump-buffer stack was shrunk the machine
  -- aborts where the reference goes on, and the comparison of the two lines shows it —, no filter walk of the reference
  -- run meets a clash
  let hyp := inDomain p && decide (nest p ≤ nestBound) && noClash harnessWorld p topBound
  IO.println s!"R trace={showTrace rt} exc={match re with | none => "none" | some e => if e = 0 then "NULL" else toString (e - 1)} nest={nest p} bound={nestBound} cap={CelloGen.Exn.maxDepth} dom={inDomain p} nodup={nodupFilters p} noclash={noClash harnessWorld p topBound} types={allTypes harnessWorld p} hyp={hyp}"
  return ((t.filter (fun e => match e with | .handler _ => true | _ => false)).length, g = .fatal)

def main (args : List String) : IO Unit := do
  let lines ← Driver.inputLines args
  let mut nHandlers := 0
  let mut nFatal := 0
  let mut nProg := 0
  for l in lines do
    if Driver.isSkippable l then continue
    if l.startsWith "P " then
      match parse (l.drop 2).toString with
      | none => IO.println "O bad-op"
      | some p =>
        nProg := nProg + 1
        let (h, f) ← report p
        nHandlers := nHandlers + h
        if f then nFatal := nFatal + 1
    else if l.startsWith "L " then
      match Driver.words (l.drop 2).toString with
      | [a, b, c, f1, f2, f3] =>
        match parseOptKind a, parseOptKind b, parseOptKind c, f1.toNat?, f2.toNat?, f3.toNat? with
        | some a, some b, some c, some f1, some f2, some f3 =>
          nProg := nProg + 1
          let (h, f) ← report (lexical a b c f1 f2 f3)
          nHandlers := nHandlers + h
          if f then nFatal := nFatal + 1
        | _, _, _, _, _, _ => IO.println "O bad-op"
      | _ => IO.println "O bad-op"
    else if l.trimAscii.toString = "A" then
      -- the documented accessors exception_object() / exception_message(): defined in the source or not
      let d (b : Bool) : String := if b then "defined" else "undefined"
      IO.println s!"O accessors object={d CelloGen.Exn.exceptionObjectDefined} message={d CelloGen.Exn.exceptionMessageDefined}"
    else IO.println "O bad-op"
  IO.println s!"S programs={nProg} handlers={nHandlers} fatal={nFatal}"
