/- shared helpers for the line-protocol drivers -/
namespace Driver

def rstrip (s : String) : String :=
  String.ofList (s.toList.reverse.dropWhile (fun c => c = '\n' || c = '\r')).reverse

/-- read all lines of the file given as first argument (or stdin when absent) -/
partial def readLinesFrom (h : IO.FS.Stream) (acc : Array String) : IO (Array String) := do
  let line ← h.getLine
  if line.isEmpty then return acc
  readLinesFrom h (acc.push (rstrip line))

def inputLines (args : List String) : IO (Array String) := do
  match args with
  | path :: _ => do
    let txt ← IO.FS.readFile path
    return (txt.splitOn "\n").toArray.map rstrip
  | [] => do
    let stdin ← IO.getStdin
    readLinesFrom stdin #[]

def words (l : String) : List String := (l.splitOn " ").filter (· ≠ "")

def isSkippable (l : String) : Bool := l.trimAscii.isEmpty || l.startsWith "#"

end Driver
