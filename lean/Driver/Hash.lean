import Cello.Hash
import CelloGen.Hash
import Driver.Common
/- driver for engine `hash` (C10): interprets the op files of harness/h_hash.c on the model `Cello.Hash` and prints the same
   `O` lines (canonical dump of the value — for a Table the slot array — and the hash). -/
open Cello.Hash

namespace HashDrv

def hexDigit (c : Char) : Option Nat :=
  if '0' ≤ c ∧ c ≤ '9' then some (c.toNat - '0'.toNat)
  else if 'a' ≤ c ∧ c ≤ 'f' then some (c.toNat - 'a'.toNat + 10)
  else if 'A' ≤ c ∧ c ≤ 'F' then some (c.toNat - 'A'.toNat + 10)
  else none

def parseHexList : List Char → Option Bytes
  | [] => some []
  | [_] => none
  | a :: b :: rest => do
    let x ← hexDigit a
    let y ← hexDigit b
    let r ← parseHexList rest
    pure (UInt8.ofNat (x * 16 + y) :: r)

def parseHex (s : String) : Option Bytes := parseHexList s.toList

def hexChar (n : Nat) : Char := if n < 10 then Char.ofNat ('0'.toNat + n) else Char.ofNat ('a'.toNat + n - 10)
def hexByte (b : UInt8) : String := String.ofList [hexChar (b.toNat / 16), hexChar (b.toNat % 16)]
def hexBytes (bs : Bytes) : String := String.join (bs.map hexByte)
def hex16 (v : UInt64) : String :=
  String.ofList ((List.range 16).map fun i => hexChar ((v.toNat / 16 ^ (15 - i)) % 16))

def parseId (s : String) : Option Nat :=
  if s.isEmpty || s.length > 5 || !s.all Char.isDigit then none
  else match s.toNat? with
    | some n => if n < 4096 then some n else none
    | none => none

def parseI64 (s : String) : Option Int64 :=
  match s.toInt? with
  | some v => if -(2 : Int) ^ 63 ≤ v ∧ v < (2 : Int) ^ 63 then some (Int64.ofInt v) else none
  | none => none

def builtinNames : List String :=
  ["Int", "Float", "String", "Array", "List", "Table", "Tree", "Tuple", "Ref", "Box", "Type", "Range", "Slice", "File"]

def isLive (st : Store) (id : Nat) : Bool := (st.get id).isSome

def nameOk (s : String) : Bool :=
  !s.isEmpty && s.length ≤ 40 && s.all fun c => c.isAlphanum || c = '_'

def afterColon (s : String) (n : Nat) : String := (s.drop n).toString

/-- the size token of a plain-struct probe type: 1 … 41, no leading zero -/
def parseProbe (s : String) : Option Nat :=
  if s.isEmpty || s.length > 2 || !s.all Char.isDigit || s.startsWith "0" then none
  else match s.toNat? with
    | some n => if 1 ≤ n ∧ n ≤ maxProbe then some n else none
    | none => none

def parseSpec (st : Store) (s : String) : Option Scalar :=
  if s.startsWith "i:" then (parseI64 (afterColon s 2)).map .int
  else if s.startsWith "f:" then
    let h := afterColon s 2
    if h.length ≠ 16 then none else
    (parseHex h).map fun bs => .float (bs.foldl (fun acc b => (acc <<< 8) ||| b.toUInt64) 0)
  else if s.startsWith "s:" then
    match parseHex (afterColon s 2) with
    | some bs => if bs.any (· == 0) then none else some (.str bs)
    | none => none
  else if s.startsWith "t:" then
    let n := afterColon s 2
    if nameOk n && builtinNames.contains n then some (.typ n.toUTF8.toList) else none
  else if s.startsWith "u:" then
    let n := afterColon s 2
    if nameOk n then some (.typ n.toUTF8.toList) else none
  else if s.startsWith "p" then
    -- p<n>:<hex>: the plain struct of n bytes, n = 1 … 41
    match (s.drop 1).toString.splitOn ":" with
    | [ns, hex] =>
      match parseProbe ns, parseHex hex with
      | some k, some bs => if bs.length = rawSize k then some (.raw k bs) else none
      | _, _ => none
    | _ => none
  else if s.startsWith "r:" || s.startsWith "b:" then
    match parseId (afterColon s 2) with
    | some t => if isLive st t then some (.ptr (s.startsWith "b:") t) else none
    | none => none
  else none

def tyCode : Ty → String
  | .int => "I" | .float => "F" | .str => "S" | .typ => "T" | .ref => "r" | .box => "b" | .raw k => toString k

/-- element / key / value type codes: Int, String, Float, and the plain-struct probe types by their size -/
def parseTy (s : String) (allowFloat : Bool) : Option Ty :=
  if s = "I" then some .int else if s = "S" then some .str else if s = "F" && allowFloat then some .float
  else (parseProbe s).map .raw

/-- Tree key / value types are kept to sizes that are multiples of 8 (known finding KF-C19-tree-misaligned-header) -/
def treeTyOk : Ty → Bool
  | .raw k => rawSize k % 8 == 0
  | _ => true

/-- the layout of a sequence of `ety` elements (only the element width matters) -/
def seqLayout (ety : Ty) : Layout := layoutOf .int ety

def dumpScalar : Scalar → String
  | .int v => s!"i:{v.toInt}"
  | .float b => s!"f:{hex16 b}"
  | .str b => s!"s:{hexBytes b}"
  | .typ n => s!"t:{String.ofList (n.map fun b => Char.ofNat b.toNat)}"
  | .ptr false t => s!"r:{t}"
  | .ptr true t => s!"b:{t}"
  | .raw k b => s!"p{k}:{hexBytes b}"

def dumpSlots (t : Table) : String :=
  let es := (List.range t.slots.size).filterMap fun i =>
    match t.slots.getD i none with
    | some s => some s!"{i}:{s.stored}:{dumpScalar s.k}={dumpScalar s.v}"
    | none => none
  ",".intercalate es

def dumpVal (st : Store) : Val → String
  | .sc s => dumpScalar s
  | .seq .array ety items => s!"A:{tyCode ety}[{",".intercalate (items.map dumpScalar)}]"
  | .seq .list ety items => s!"L:{tyCode ety}[{",".intercalate (items.map dumpScalar)}]"
  | .tuple ids => s!"U[{",".intercalate (ids.map fun i => match st.scalar i with | some s => dumpScalar s | none => "?")}]"
  | .table kt vt t => s!"T:{tyCode kt},{tyCode vt}\{{t.nslots}|{dumpSlots t}}"
  | .tree kt vt t => s!"R:{tyCode kt},{tyCode vt}\{{",".intercalate (t.toList.map fun e => s!"{dumpScalar e.1}={dumpScalar e.2}")}}"

/-- model addresses: injective in the object id -/
def addr (t : Nat) : Bytes :=
  (List.range 8).map fun i => UInt8.ofNat (((t + 1) * 48 / 256 ^ i) % 256)

def isPtr : Scalar → Bool
  | .ptr _ _ => true
  | _ => false

def hasPtr (st : Store) : Val → Bool
  | .sc s => isPtr s
  | .seq _ _ items => items.any isPtr
  | .tuple ids => ids.any fun i => match st.scalar i with | some s => isPtr s | none => false
  | .table _ _ t => t.entries.any fun e => isPtr e.1
  | .tree _ _ t => t.toList.any fun e => isPtr e.1

def hashStr (st : Store) (v : Val) : String :=
  if hasPtr st v then "@" else hex16 (valHashSrc addr st v)      -- container hashes through the programs extracted from X_Hash

def excName : Option Exc → String
  | none => "ok"
  | some e => e.name

def observe (st : Store) (op : String) (id : Nat) (e : Option Exc) : IO Unit :=
  match st.get id with
  | some o => IO.println s!"O {op} {id} {excName e} v={dumpVal st o.val} h={hashStr st o.val}"
  | none => IO.println "O bad-op"

def parseCls (s : String) (allowE : Bool) : Option Cls :=
  if s = "S" then some .stack else if s = "H" then some .heap else if s = "E" && allowE then some .embedded else none

def bind (st : Store) (id : Nat) (o : Obj) : Store :=
  let st := if st.size ≤ id then st ++ Array.replicate (id + 1 - st.size) none else st
  st.setIfInBounds id (some o)

def setVal (st : Store) (id : Nat) (v : Val) : Store :=
  match st.get id with
  | some o => st.setIfInBounds id (some { o with val := v })
  | none => st

def isSeqVal : Val → Bool
  | .seq _ _ _ => true | .tuple _ => true | _ => false
def isMapVal : Val → Bool
  | .table _ _ _ => true | .tree _ _ _ => true | _ => false
def isScVal : Val → Bool
  | .sc _ => true | _ => false

/-- the rule of h_hash.c `cmp_allowed` -/
def cmpAllowed (st : Store) (a b : Val) : Bool :=
  match a, b with
  | .sc x, .sc y => x.ty = y.ty
  | _, _ =>
    match seqItems st a, seqItems st b with
    | some xs, some ys => (xs.zip ys).all fun p => p.1.ty = p.2.ty
    | some xs, none =>
      -- a sequence against a Table / Tree: its elements meet the keys (KF-C10-seq-map-eq)
      match mapEntries b with
      | some es => (xs.zip es).all fun p => p.1.ty = p.2.1.ty
      | none => false
    | _, _ =>
      match a, b with
      | .table ka va _, .table kb vb _ => ka = kb && va = vb
      | .table ka va _, .tree kb vb _ => ka = kb && va = vb
      | .tree ka va _, .table kb vb _ => ka = kb && va = vb
      | .tree ka va _, .tree kb vb _ => ka = kb && va = vb
      | _, _ => false

/-- the rule of h_hash.c `assign_allowed` -/
def assignAllowed (y x : Val) : Bool :=
  match y, x with
  | .sc a, .sc b => a.ty = b.ty
  | .seq _ _ _, .seq _ _ _ => true
  | .seq _ _ _, .tuple _ => true      -- Array / List from a Tuple: KF-C10-assign-from-tuple
  | .tuple _, .tuple _ => true
  | _, _ => isMapVal y && isMapVal x

def sign (c : Int) : Int := if c < 0 then -1 else if c > 0 then 1 else 0

/-- normalise an index the way the C code does; `extra` = 1 for Array_Push_At -/
def normIdx (n : Nat) (i : Int) (extra : Nat) : Int := if i < 0 then (n : Int) + extra + i else i

def insertAt (xs : List α) (i : Nat) (x : α) : List α := xs.take i ++ x :: xs.drop i
def removeAt (xs : List α) (i : Nat) : List α := xs.take i ++ xs.drop (i + 1)

/-- element of a tuple-typed rule: items that are scalar objects other than Ref/Box/Type -/
def tupleItemOk (st : Store) (id : Nat) : Bool :=
  match st.scalar id with
  | some (.ptr _ _) => false
  | some (.typ _) => false
  | some _ => true
  | none => false

def remFirst (p : α → Bool) : List α → Option (List α)
  | [] => none
  | x :: xs => if p x then some xs else (remFirst p xs).map (x :: ·)

/-- the machine's doubles, through Lean's `Float` (opaque to the kernel) -/
def hwOps : FOps where
  sub a b := (Float.ofBits a - Float.ofBits b).toBits
  add a b := (Float.ofBits a + Float.ofBits b).toBits
  mul a b := (Float.ofBits a * Float.ofBits b).toBits
  neg a := (-(Float.ofBits a)).toBits
  fabs a := (Float.ofBits a).abs.toBits
  fmax a b := if (Float.ofBits a).isNaN then b else if (Float.ofBits b).isNaN then a else if Float.ofBits a < Float.ofBits b then b else a
  fmin a b := if (Float.ofBits a).isNaN then b else if (Float.ofBits b).isNaN then a else if Float.ofBits b < Float.ofBits a then b else a
  lt a b := decide (Float.ofBits a < Float.ofBits b)
  le a b := decide (Float.ofBits a ≤ Float.ofBits b)
  eq a b := Float.ofBits a == Float.ofBits b

def sameDouble (x y : UInt64) : Bool := x == y || (floatIsNaN x && floatIsNaN y)

/-- for a pair of doubles the op file compares: (does `Float_Cmp` as extracted, run on the machine's doubles, differ from the
    bit-level decision of the model?, does the exact arithmetic `sfOps` differ from the machine — on the extracted program, on
    `a - b`, `b - a`, `a * b` and on ε·max(|a|,|b|)?) -/
def floatPairCheck (a b : UInt64) : Bool × Bool :=
  let hw := floatCmpSrc hwOps a b
  let sf := floatCmpSrc sfOps a b
  let eps : UInt64 := 0x3cb0000000000000
  let opsOk := sameDouble (sfOps.sub a b) (hwOps.sub a b) && sameDouble (sfOps.sub b a) (hwOps.sub b a) &&
    sameDouble (sfOps.mul a b) (hwOps.mul a b) &&
    sameDouble (sfOps.mul eps (sfOps.fmax (sfOps.fabs a) (sfOps.fabs b))) (hwOps.mul eps (hwOps.fmax (hwOps.fabs a) (hwOps.fabs b))) &&
    sfOps.lt a b == hwOps.lt a b && sfOps.le a b == hwOps.le a b && sfOps.eq a b == hwOps.eq a b
  (hw != floatCmp a b, sf != hw || !opsOk)

def floatPairs (st : Store) (a b : Val) : List (UInt64 × UInt64) :=
  match a, b with
  | .sc (.float x), .sc (.float y) => [(x, y)]
  | _, _ =>
    match seqItems st a, seqItems st b with
    | some xs, some ys => (xs.zip ys).filterMap fun p => match p.1, p.2 with | .float x, .float y => some (x, y) | _, _ => none
    | _, _ =>
      match mapEntries a, mapEntries b with
      | some xs, some ys => (xs.zip ys).filterMap fun p => match p.1.1, p.2.1 with | .float x, .float y => some (x, y) | _, _ => none
      | _, _ => []

/-- the frame / the fold programs the theorems of Props/C10.lean are proved for (C10_hash_data_source_frame, C10_container_hash_source) -/
def murmurFrameD : HdFrame := ⟨false, 7, 8, 8, 7⟩
def containerProgsAreFolds : Bool :=
  let sq : CelloGen.Hash.FoldProg := ⟨0, 0, .xor (.t .acc) (.t .elem)⟩
  let mp : CelloGen.Hash.FoldProg := ⟨0, 0, .xor (.xor (.t .acc) (.t .key)) (.t .val)⟩
  CelloGen.Hash.arrayHashProg = sq && CelloGen.Hash.listHashProg = sq && CelloGen.Hash.tupleHashProg = sq &&
    CelloGen.Hash.tableHashProg = mp && CelloGen.Hash.treeHashProg = mp

/-- `hash_data` as the extracted program (cursor, `end`, loads, signedness of the bytes) on a memory that holds the bytes at an odd
    address among 0xAA bytes; `nonterminating` = the cursor of the block loop stepped over `end` -/
def hashDataAt (bs : Bytes) : String :=
  let p := 3 + bs.length % 5
  match hashDataMem (memOf 0xAA p bs) p bs.length with
  | some h => hex16 h
  | none => "nonterminating"

structure Stats where
  hashData : Nat := 0         -- D lines: `hash_data` run as the extracted program on a memory
  hashDataMemNe : Nat := 0    -- … on which the program at a second address and `hashData` of the byte string disagree
  hashTail : Array Nat := Array.replicate 8 0   -- D lines per entered case of the tail switch (size & 7)
  hashBlocks : Nat := 0       -- rounds of the block loop over all D lines
  floatPairs : Nat := 0       -- pairs of doubles on which the extracted `Float_Cmp` was run with the machine's arithmetic
  floatSrcNeModel : Nat := 0  -- … and gave another result than the bit-level `floatCmp` of the model
  floatSfNeHw : Nat := 0      -- … or the exact arithmetic `sfOps` disagreed with the machine
  floatNear : Nat := 0        -- pairs of distinct non-NaN doubles at most 4 ulp apart (or the two zeros)
  selfAssigns : Nat := 0
  lookups : Nat := 0
  eqPairs : Nat := 0
  eqZero : Nat := 0
  copies : Nat := 0
  swaps : Nat := 0
  swapMixed : Nat := 0        -- swaps / sorts in which `memswap` as extracted did not exchange the two structs
  sorts : Nat := 0
  displaced : Nat := 0
  treeStates : Nat := 0
  treeBad : Nat := 0
  tableStates : Nat := 0
  tableBad : Nat := 0
  unsized : Nat := 0          -- container states holding an element that does not fill the words of its type
  treeReloc : Nat := 0        -- Tree removals of a node with two children (in the model's shape): the neighbour is relocated
  wideMoves : Nat := 0        -- Table removals / Array shifts on elements of more than one word

/-- does the node holding a key eq to `k` have two children? -/
def twoChildren (addr : Nat → Bytes) : Sh → Scalar → Bool
  | .nil, _ => false
  | .node l e r, k =>
    match scalarCmp addr e.1 k with
    | some c => if c = 0 then (match l, r with | .node .., .node .. => true | _, _ => false)
                else if c < 0 then twoChildren addr l k else twoChildren addr r k
    | none => false

def tableDisplaced (t : Table) : Bool :=
  (List.range t.slots.size).any fun i => match t.slots.getD i none with
    | some s => probe t.nslots i s.stored != 0
    | none => false

def step (st : Store) (stats : Stats) (toks : List String) : IO (Store × Stats) := do
  let bad : IO (Store × Stats) := do IO.println "O bad-op"; return (st, stats)
  match toks with
  | ["D"] =>
    IO.println s!"O D len=0 h={hashDataAt []}"; return (st, {stats with hashData := stats.hashData + 1})
  | ["D", h] =>
    match parseHex h with
    | some bs =>
      IO.println s!"O D len={bs.length} h={hashDataAt bs}"
      -- the program on memory against the interpreter on the byte string (equal by C10_hash_data_program_is_hash_data for the frame of the unchanged source)
      let ne := if hashDataMem (memOf 0x55 (16 + bs.length % 8) bs) (16 + bs.length % 8) bs.length = some (hashData bs) then 0 else 1
      return (st, {stats with hashData := stats.hashData + 1, hashDataMemNe := stats.hashDataMemNe + ne, hashBlocks := stats.hashBlocks + bs.length / 8,
                              hashTail := stats.hashTail.modify (bs.length % 8) (· + 1)})
    | none => bad
  | ["new", ids, cls, spec] =>
    match parseId ids, parseCls cls true, parseSpec st spec with
    | some id, some c, some s =>
      if isLive st id then bad
      else if c = .embedded && (isPtr s || s.ty = .typ) then bad
      else
        -- a String on the stack is `$S("…")`: its characters are not the allocator's
        let st := bind st id ⟨c, .sc s, if c = .stack then .stack else .heap⟩
        observe st "new" id none; return (st, stats)
    | _, _, _ => bad
  | op :: ids :: cls :: ety :: specs =>
    if op = "arr" || op = "lst" then
      match parseId ids, parseCls cls false, parseTy ety true with
      | some id, some c, some ty =>
        if isLive st id then bad else
        match specs.mapM (parseSpec st) with
        | some items =>
          if items.all (·.ty = ty) then
            let st := bind st id ⟨c, .seq (if op = "arr" then .array else .list) ty items, .heap⟩
            observe st op id none; return (st, stats)
          else bad
        | none => bad
      | _, _, _ => bad
    else if op = "tab" || op = "tre" then
      match specs with
      | [] => bad
      | vtyS :: pairs =>
        match parseId ids, parseCls cls false, parseTy ety true, parseTy vtyS true with
        | some id, some c, some kt, some vt =>
          if isLive st id || pairs.length % 2 ≠ 0 then bad else
          match pairs.mapM (parseSpec st) with
          | some ss =>
            let rec mk : List Scalar → List (Scalar × Scalar)
              | k :: v :: rest => (k, v) :: mk rest
              | _ => []
            let es := mk ss
            if op = "tre" && !(treeTyOk kt && treeTyOk vt) then bad else
            if es.all (fun e => e.1.ty = kt && e.2.ty = vt) then
              let v := if op = "tab" then Val.table kt vt (tableOfEntriesW addr (layoutOf kt vt) es) else Val.tree kt vt (shOfEntries addr es)
              let st := bind st id ⟨c, v, .heap⟩
              observe st op id none; return (st, stats)
            else bad
          | none => bad
        | _, _, _, _ => bad
    else if op = "tup" then
      match parseId ids, parseCls cls false, (ety :: specs).mapM parseId with
      | some id, some c, some items =>
        if isLive st id || !items.all (tupleItemOk st) || !items.Nodup then bad
        else
          -- a Tuple on the stack is `tuple(…)`: its pointer array lies in the frame
          let st := bind st id ⟨c, .tuple items, if c = .stack then .stack else .heap⟩
          observe st op id none; return (st, stats)
      | _, _, _ => bad
    else bad
  | [op, a, b] =>
    if op = "tup" then
      match parseId a, parseCls b false with
      | some id, some c => if isLive st id then bad else
        let st := bind st id ⟨c, .tuple [], if c = .stack then .stack else .heap⟩
        observe st op id none; return (st, stats)
      | _, _ => bad
    else if op = "put" then
      match parseId a with
      | some id =>
        match st.get id, parseSpec st b with
        | some ⟨c, .sc cur, bf⟩, some s =>
          if cur.ty ≠ s.ty then bad else
          match assignObj addr st ⟨c, .sc cur, bf⟩ (.sc s) with
          | .ok o => let st := st.setIfInBounds id (some o); observe st op id none; return (st, stats)
          | .error .undefined => IO.println s!"O {op} {id} undefined"; return (st, stats)
          | .error e => observe st op id (some e); return (st, stats)
        | _, _ => bad
      | none => bad
    else if op = "push" then stepSeq st stats op a none b
    else if op = "popat" then stepPop st stats op a (some b)
    else if op = "rem" then stepRem st stats a b
    else if op = "resize" then stepResize st stats op a (some b)
    else if op = "concat" then
      match parseId a, parseId b with
      | some c, some d =>
        if c = d then bad else
        match st.get c, st.get d with
        | some ⟨_, .seq k ety xs, _⟩, some ⟨_, .seq _ ety' ys, _⟩ =>
          if ety ≠ ety' then bad else
          let st := setVal st c (.seq k ety (xs ++ ys)); observe st op c none; return (st, stats)
        | _, _ => bad
      | _, _ => bad
    else if op = "eq" then
      match parseId a, parseId b with
      | some x, some y =>
        match st.get x, st.get y with
        | some ox, some oy =>
          if !cmpAllowed st ox.val oy.val then bad else
          let c := valCmp addr st ox.val oy.val
          let ha := hashStr st ox.val; let hb := hashStr st oy.val
          let ptr := hasPtr st ox.val || hasPtr st oy.val
          let fps := (floatPairs st ox.val oy.val).take 8
          let chk := fps.map fun p => floatPairCheck p.1 p.2
          let near := fps.filter fun p => p.1 != p.2 && !floatIsNaN p.1 && !floatIsNaN p.2 &&
            (floatKey p.1 - floatKey p.2).natAbs ≤ 4
          let stats := { stats with eqPairs := stats.eqPairs + 1, eqZero := stats.eqZero + (if c = some 0 then 1 else 0),
                                    floatPairs := stats.floatPairs + fps.length,
                                    floatSrcNeModel := stats.floatSrcNeModel + (chk.filter (·.1)).length,
                                    floatSfNeHw := stats.floatSfNeHw + (chk.filter (·.2)).length,
                                    floatNear := stats.floatNear + near.length }
          match c with
          | none => IO.println s!"O eq {x} {y} c=TypeError ha={ha} hb={hb}"; return (st, stats)
          | some c =>
            if ptr then
              let same := valHashSrc addr st ox.val = valHashSrc addr st oy.val
              IO.println s!"O eq {x} {y} c={if c = 0 then "0" else "ne"} ha={ha} hb={hb} hsame={if same then 1 else 0}"
            else IO.println s!"O eq {x} {y} c={sign c} ha={ha} hb={hb}"
            return (st, stats)
        | _, _ => bad
      | _, _ => bad
    else if op = "has" then
      match parseId a, parseSpec st b with
      | some cid, some s =>
        match st.get cid with
        | some ⟨_, .table kt _ t, _⟩ =>
          if s.ty ≠ kt then bad else
          match tableGet addr t s with
          | some v => IO.println s!"O has {cid} m=1 g={dumpScalar v}"; return (st, { stats with lookups := stats.lookups + 1 })
          | none => IO.println s!"O has {cid} m=0 g=KeyError"; return (st, { stats with lookups := stats.lookups + 1 })
        | some ⟨_, .tree kt _ t, _⟩ =>
          if s.ty ≠ kt then bad else
          match shGet addr t s with
          | some v => IO.println s!"O has {cid} m=1 g={dumpScalar v}"; return (st, { stats with lookups := stats.lookups + 1 })
          | none => IO.println s!"O has {cid} m=0 g=KeyError"; return (st, { stats with lookups := stats.lookups + 1 })
        | some ⟨_, v, _⟩ =>
          match seqItems st v with
          | some items =>
            if !items.all (·.ty = s.ty) then bad else
            -- X_Mem: eq(item, obj) for each item in turn
            IO.println s!"O has {cid} m={if items.any (fun e => keyEq addr e s) then 1 else 0} g=-"
            return (st, { stats with lookups := stats.lookups + 1 })
          | none => bad
        | none => bad
      | _, _ => bad
    else if op = "heq" then
      match parseId a, parseId b with
      | some x, some y =>
        match st.get x, st.get y with
        | some ox, some oy =>
          let same := valHashSrc addr st ox.val = valHashSrc addr st oy.val
          IO.println s!"O heq {x} {y} ha={hashStr st ox.val} hb={hashStr st oy.val} same={if same then 1 else 0}"
          return (st, { stats with eqPairs := stats.eqPairs + 1 })
        | _, _ => bad
      | _, _ => bad
    else if op = "copy" || op = "assign" || op = "hcopy" || op = "hassign" then
      let nocmp := op.startsWith "h"
      let iscopy := op = "copy" || op = "hcopy"
      match parseId a, parseId b with
      | some y, some x =>
        if x = y && iscopy then bad else
        if x = y then
          -- assign(x, x): every kind (a String returns at once: fix 744a45f). A Tuple reallocates its pointer array first.
          match st.get x with
          | none => bad
          | some ox =>
            if (match ox.val with | .tuple _ => !ox.ownsBuffer | _ => false) then do
              IO.println s!"O {op} {x} undefined"; return (st, stats)
            else
            let r := assignSelfVal addr st ox.cls ox.val
            let (st, e) := match r with
              | .ok v => (setVal st x v, none)
              | .error e => (st, some e)
            match st.get x with
            | none => bad
            | some nx =>
              let cs :=
                if nocmp then "-" else
                match valCmp addr st nx.val nx.val with
                | none => "TypeError"
                | some c => if hasPtr st nx.val then (if c = 0 then "0" else "ne") else toString (sign c)
              IO.println s!"O {op} {x} {x} {excName e} v={dumpVal st nx.val} h={hashStr st nx.val} hx={hashStr st nx.val} c={cs}"
              return (st, { stats with copies := stats.copies + 1, selfAssigns := stats.selfAssigns + 1 })
        else
        match st.get x with
        | none => bad
        | some ox =>
          let target : Option (Cls × Val) :=
            if iscopy then (if isLive st y then none else some (.heap, blankOf ox.val))
            else match st.get y with
              | some oy => if assignAllowed oy.val ox.val then some (oy.cls, oy.val) else none
              | none => none
          match target with
          | none => bad
          | some (cls, self) =>
            let foreign := !iscopy && (match st.get y with | some oy => !oy.ownsBuffer | none => false)
            let fromTuple := (match self, ox.val with | .seq _ _ _, .tuple _ => true | _, _ => false)
            let r := if iscopy then copyVal addr st ox.val else if foreign then .error .undefined else assignVal addr st cls self ox.val
            match r, iscopy with
            | .error e, true => IO.println s!"O {op} {y} {x} {e.name}"; return (st, stats)
            | .error .undefined, false => IO.println s!"O {op} {y} undefined"; return (st, stats)
            | _, _ =>
              let (st, e) := match r with
                | .ok v => (if iscopy then bind st y ⟨.heap, v, .heap⟩
                            else match st.get y with
                              | some oy => st.setIfInBounds y (some { oy with val := v, buf := if oy.val.hasBuffer then .heap else oy.buf })
                              | none => st, none)
                | .error e => (st, some e)
              match st.get y with
              | none => bad
              | some oy =>
                let cs :=
                  if nocmp || !(cmpAllowed st oy.val ox.val || fromTuple) then "-" else
                  match valCmp addr st oy.val ox.val with
                  | none => "TypeError"
                  | some c => if hasPtr st ox.val then (if c = 0 then "0" else "ne") else toString (sign c)
                IO.println s!"O {op} {y} {x} {excName e} v={dumpVal st oy.val} h={hashStr st oy.val} hx={hashStr st ox.val} c={cs}"
                let disp := match oy.val with | .table _ _ t => tableDisplaced t | _ => false
                return (st, { stats with copies := stats.copies + 1, displaced := stats.displaced + (if disp then 1 else 0) })
      | _, _ => bad
    else if op = "swap" then
      match parseId a, parseId b with
      | some x, some y =>
        match st.get x, st.get y with
        | some ox, some oy =>
          -- any two objects other than Type objects: `swap` tests the two types, then `memswap` as extracted from the source runs
          -- on the two structs
          let isTyp := fun (v : Val) => match v with | .sc (.typ _) => true | _ => false
          if isTyp ox.val || isTyp oy.val then bad else
          match swapObjs st x y with
          | .error .undefined =>
            IO.println s!"O swap {x} {y} the-structs-hold-a-mixture"
            return (st, { stats with swaps := stats.swaps + 1, swapMixed := stats.swapMixed + 1 })
          | .error e =>
            IO.println s!"O swap {x} {y} {e.name} va={dumpVal st ox.val} ha={hashStr st ox.val} vb={dumpVal st oy.val} hb={hashStr st oy.val}"
            return (st, { stats with swaps := stats.swaps + 1 })
          | .ok st =>
          match st.get x, st.get y with
          | some nx, some ny =>
            IO.println s!"O swap {x} {y} ok va={dumpVal st nx.val} ha={hashStr st nx.val} vb={dumpVal st ny.val} hb={hashStr st ny.val}"
            return (st, { stats with swaps := stats.swaps + 1 })
          | _, _ => bad
        | _, _ => bad
      | _, _ => bad
    else bad
  | [op, a] =>
    if op = "H" then
      match parseId a with
      | some id => if isLive st id then do observe st op id none; return (st, stats) else bad
      | none => bad
    else if op = "sort" then
      match parseId a with
      | some id =>
        match st.get id with
        | some ⟨_, .seq .array ety items, _⟩ =>
          if items.any (fun s => match s with | .float b => floatIsNaN b | _ => false) then bad else
          -- the quicksort of src/Array.c; every element move is `swap` = `memswap` as extracted, on the element structs
          match arraySort addr items with
          | some items' =>
            let st := setVal st id (.seq .array ety items'); observe st op id none
            return (st, { stats with sorts := stats.sorts + 1 })
          | none =>
            IO.println s!"O sort {id} the-structs-hold-a-mixture"
            return (st, { stats with sorts := stats.sorts + 1, swapMixed := stats.swapMixed + 1 })
        | _ => bad
      | none => bad
    else if op = "pop" then stepPop st stats op a none
    else if op = "clear" then stepResize st stats op a none
    else bad
  | _ => bad
where
  stepSeq (st : Store) (stats : Stats) (op c : String) (idx : Option String) (x : String) : IO (Store × Stats) := do
    let bad : IO (Store × Stats) := do IO.println "O bad-op"; return (st, stats)
    match parseId c with
    | none => bad
    | some cid =>
      let idxv : Option (Option Int) := match idx with
        | none => some none
        | some s => (parseI64 s).map fun v => some v.toInt
      match st.get cid, idxv with
      | some ⟨cls, .seq kind ety items, _⟩, some iv =>
        match parseSpec st x with
        | some s =>
          if s.ty ≠ ety then bad else
          let n := items.length
          match iv with
          | none => let st := setVal st cid (.seq kind ety (items ++ [s])); observe st op cid none; return (st, stats)
          | some i =>
            if kind = .array then
              let j := normIdx n i 1
              if j < 0 || j > n then do observe st op cid (some .indexError); return (st, stats)
              else
                let st := setVal st cid (.seq kind ety (arrayPushAt (seqLayout ety) items j.toNat s)); observe st op cid none
                return (st, { stats with wideMoves := stats.wideMoves + (if tyWords ety > 1 then 1 else 0) })
            else
              if i = 0 then let st := setVal st cid (.seq kind ety (s :: items)); observe st op cid none; return (st, stats)
              else
                let j := normIdx n i 0
                if j < 0 || j ≥ n then do observe st op cid (some .indexError); return (st, stats)
                else let st := setVal st cid (.seq kind ety (insertAt items j.toNat s)); observe st op cid none; return (st, stats)
        | none => let _ := cls; bad
      | some ⟨cls, .tuple ids, bf⟩, some iv =>
        match parseId x with
        | some e =>
          if !tupleItemOk st e || ids.contains e then bad else
          let n := ids.length
          let und : IO (Store × Stats) := do IO.println s!"O {op} {cid} undefined"; return (st, stats)
          match iv with
          | none =>
            if cls = .stack then do observe st op cid (some .valueError); return (st, stats)
            else if bf = .stack then und
            else let st := setVal st cid (.tuple (ids ++ [e])); observe st op cid none; return (st, stats)
          | some i =>
            let j := normIdx n i 0
            if j < 0 || j ≥ n then do observe st op cid (some .indexError); return (st, stats)
            else if cls = .stack then do observe st op cid (some .valueError); return (st, stats)
            else if bf = .stack then und
            else let st := setVal st cid (.tuple (insertAt ids j.toNat e)); observe st op cid none; return (st, stats)
        | none => bad
      | _, _ => bad
  stepPop (st : Store) (stats : Stats) (op c : String) (idx : Option String) : IO (Store × Stats) := do
    let bad : IO (Store × Stats) := do IO.println "O bad-op"; return (st, stats)
    match parseId c with
    | none => bad
    | some cid =>
      let idxv : Option (Option Int) := match idx with
        | none => some none
        | some s => (parseI64 s).map fun v => some v.toInt
      match st.get cid, idxv with
      | some ⟨cls, v, bf⟩, some iv =>
        let n := match v with | .seq _ _ items => items.length | .tuple ids => ids.length | _ => 0
        if !isSeqVal v then bad else
        let pos : Option Nat := match iv with
          | none => if n = 0 then none else some (n - 1)
          | some i => let j := normIdx n i 0; if j < 0 || j ≥ n then none else some j.toNat
        match pos with
        | none => observe st op cid (some .indexError); return (st, stats)
        | some p =>
          match v with
          | .seq .array ety items =>
            let st := setVal st cid (.seq .array ety (arrayPopAt (seqLayout ety) items p)); observe st op cid none
            return (st, { stats with wideMoves := stats.wideMoves + (if tyWords ety > 1 then 1 else 0) })
          | .seq .list ety items => let st := setVal st cid (.seq .list ety (removeAt items p)); observe st op cid none; return (st, stats)
          | .tuple ids =>
            if cls = .stack then do observe st op cid (some .valueError); return (st, stats)
            else if bf = .stack then do IO.println s!"O {op} {cid} undefined"; return (st, stats)
            else let st := setVal st cid (.tuple (removeAt ids p)); observe st op cid none; return (st, stats)
          | _ => bad
      | _, _ => bad
  stepRem (st : Store) (stats : Stats) (c x : String) : IO (Store × Stats) := do
    let bad : IO (Store × Stats) := do IO.println "O bad-op"; return (st, stats)
    match parseId c, parseSpec st x with
    | some cid, some s =>
      match st.get cid with
      | some ⟨cls, v, bf⟩ =>
        match v with
        | .sc _ => bad
        | .seq kind ety items =>
          if s.ty ≠ ety then bad else
          -- Array_Rem / List_Rem: the first element eq to the argument is popped (Array: `Array_Pop_At` with its memmove)
          match items.findIdx? (fun e => keyEq addr e s) with
          | some i =>
            let items' := if kind = .array then arrayPopAt (seqLayout ety) items i else removeAt items i
            let st := setVal st cid (.seq kind ety items'); observe st "rem" cid none; return (st, stats)
          | none => observe st "rem" cid (some .valueError); return (st, stats)
        | .tuple ids =>
          match ids.mapM st.scalar with
          | none => bad
          | some ss =>
            if !ss.all (·.ty = s.ty) then bad else
            -- Tuple_Rem: eq(item, t->items[i]) with the argument on the left
            let found := (List.range ids.length).find? fun i => match ss[i]? with | some e => keyEq addr s e | none => false
            match found with
            | some i =>
              if cls = .stack then do observe st "rem" cid (some .valueError); return (st, stats)
              else if bf = .stack then do IO.println s!"O rem {cid} undefined"; return (st, stats)
              else let st := setVal st cid (.tuple (removeAt ids i)); observe st "rem" cid none; return (st, stats)
            | none => observe st "rem" cid (some .valueError); return (st, stats)
        | .table kt vt t =>
          if s.ty ≠ kt then bad else
          match tableRemW addr (layoutOf kt vt) t s with
          | some t' =>
            let st := setVal st cid (.table kt vt t'); observe st "rem" cid none
            return (st, { stats with wideMoves := stats.wideMoves + (if tyWords kt + tyWords vt > 2 then 1 else 0) })
          | none => observe st "rem" cid (some .keyError); return (st, stats)
        | .tree kt vt t =>
          if s.ty ≠ kt then bad else
          match shRem addr (layoutOf kt vt) t s with
          | some t' =>
            let st := setVal st cid (.tree kt vt t'); observe st "rem" cid none
            -- a node was unlinked other than the one found: the removed key's node had two children
            let reloc := twoChildren addr t s
            return (st, { stats with treeReloc := stats.treeReloc + (if reloc then 1 else 0) })
          | none => observe st "rem" cid (some .keyError); return (st, stats)
      | none => bad
    | _, _ => bad
  stepResize (st : Store) (stats : Stats) (op c : String) (ns : Option String) : IO (Store × Stats) := do
    let bad : IO (Store × Stats) := do IO.println "O bad-op"; return (st, stats)
    let nv : Option Nat := match ns with
      | none => some 0
      | some s => match parseI64 s with
        | some v => if 0 ≤ v.toInt ∧ v.toInt ≤ 100000 then some v.toInt.toNat else none
        | none => none
    match parseId c, nv with
    | some cid, some n =>
      match st.get cid with
      | some ⟨cls, v, bf⟩ =>
        match v with
        | .sc _ => bad
        | .seq .array ety items =>
          let st := setVal st cid (.seq .array ety (if n = 0 then [] else items.take n)); observe st op cid none; return (st, stats)
        | .seq .list ety items =>
          if ns.isSome && n > items.length then bad else
          let st := setVal st cid (.seq .list ety (if n = 0 then [] else items.take n)); observe st op cid none; return (st, stats)
        | .tuple ids =>
          if cls = .stack then do observe st op cid (some .valueError); return (st, stats)
          else if n < ids.length then
            if bf = .stack then do IO.println s!"O {op} {cid} undefined"; return (st, stats)
            else let st := setVal st cid (.tuple (ids.take n)); observe st op cid none; return (st, stats)
          else observe st op cid (some .formatError); return (st, stats)
        | .table kt vt t =>
          if n = 0 then let st := setVal st cid (.table kt vt Table.empty); observe st op cid none; return (st, stats)
          else if n < t.nitems then do observe st op cid (some .formatError); return (st, stats)
          else let st := setVal st cid (.table kt vt (rehashW addr (layoutOf kt vt) t (idealSize n))); observe st op cid none; return (st, stats)
        | .tree kt vt _ =>
          if n = 0 then let st := setVal st cid (.tree kt vt .nil); observe st op cid none; return (st, stats)
          else observe st op cid (some .formatError); return (st, stats)
      | none => bad
    | _, _ => bad

end HashDrv

/-- `set <c> <idx|key> <val>` -/
def stepSet (st : Store) (c k v : String) : IO Store := do
  let bad : IO Store := do IO.println "O bad-op"; return st
  match HashDrv.parseId c with
  | none => bad
  | some cid =>
    match st.get cid with
    | some ⟨_, .seq kind ety items, _⟩ =>
      match HashDrv.parseI64 k, HashDrv.parseSpec st v with
      | some i, some s =>
        if s.ty ≠ ety then bad else
        let j := HashDrv.normIdx items.length i.toInt 0
        if j < 0 || j ≥ items.length then do HashDrv.observe st "set" cid (some .indexError); return st
        else
          let st := HashDrv.setVal st cid (.seq kind ety (items.set j.toNat s)); HashDrv.observe st "set" cid none; return st
      | _, _ => bad
    | some ⟨_, .table kt vt t, _⟩ =>
      match HashDrv.parseSpec st k, HashDrv.parseSpec st v with
      | some ks, some vs =>
        if ks.ty ≠ kt || vs.ty ≠ vt then bad else
        let st := HashDrv.setVal st cid (.table kt vt (tableSetW HashDrv.addr (layoutOf kt vt) t ks vs)); HashDrv.observe st "set" cid none; return st
      | _, _ => bad
    | some ⟨_, .tree kt vt es, _⟩ =>
      match HashDrv.parseSpec st k, HashDrv.parseSpec st v with
      | some ks, some vs =>
        if ks.ty ≠ kt || vs.ty ≠ vt then bad else
        let st := HashDrv.setVal st cid (.tree kt vt (shSet HashDrv.addr es ks vs)); HashDrv.observe st "set" cid none; return st
      | _, _ => bad
    | _ => bad

def main (args : List String) : IO Unit := do
  let lines ← Driver.inputLines args
  let mut st : Store := #[]
  let mut stats : HashDrv.Stats := {}
  let mut nops := 0
  for l in lines do
    if Driver.isSkippable l then continue
    let toks := Driver.words l
    match toks with
    | ["set", c, k, v] => st ← stepSet st c k v
    | ["pushat", c, i, x] =>
      let (s, t) ← HashDrv.step.stepSeq st stats "pushat" c (some i) x
      st := s; stats := t
    | _ =>
      let (s, t) ← HashDrv.step st stats toks
      st := s; stats := t
    -- the containers this op names satisfy the invariants the copy/assign/history/move theorems assume of them: a Tree iterates in
    -- strictly descending key order, a Table holds no two eq keys, every element fills the words of its type
    -- (sampled: every 4th op, every 16th for containers of more than 32 elements)
    nops := nops + 1
    if nops % 4 != 0 then continue
    for id in ((toks.drop 1).take 2).filterMap HashDrv.parseId do
      match st.get id with
      | some ⟨_, .tree kt vt t, _⟩ =>
        let es := t.toList
        if es.length > 32 && nops % 16 != 0 then continue
        stats := { stats with treeStates := stats.treeStates + 1, treeBad := stats.treeBad + (if treeSeqAdjB HashDrv.addr es then 0 else 1),
                              unsized := stats.unsized + (if es.all (entrySizedB (layoutOf kt vt)) then 0 else 1) }
      | some ⟨_, .table kt vt t, _⟩ =>
        if t.nitems > 32 && nops % 16 != 0 then continue
        stats := { stats with tableStates := stats.tableStates + 1,
                              tableBad := stats.tableBad + (if entryKeysDistinctB HashDrv.addr t.entries && t.slots.size == t.nslots then 0 else 1),
                              unsized := stats.unsized + (if t.entriesInSlotOrder.all (slotSizedB (layoutOf kt vt)) then 0 else 1) }
      | some ⟨_, .seq _ ety items, _⟩ =>
        stats := { stats with unsized := stats.unsized + (if items.all (sizedB (tyWords ety)) then 0 else 1) }
      | _ => pure ()
  IO.println s!"S hash_data_programs={stats.hashData} hash_data_mem_ne_bytes={stats.hashDataMemNe} hash_data_frame_is_murmur={if srcFrame = HashDrv.murmurFrameD then 1 else 0} container_hash_programs_are_folds={if HashDrv.containerProgsAreFolds then 1 else 0} hash_data_blocks={stats.hashBlocks}{String.join ((List.range 8).map fun k => s!" hash_data_tail{k}={stats.hashTail.getD k 0}")}"
  IO.println s!"S float_pairs={stats.floatPairs} float_src_ne_model={stats.floatSrcNeModel} float_sf_ne_hw={stats.floatSfNeHw} float_near_pairs={stats.floatNear} self_assigns={stats.selfAssigns} lookups={stats.lookups}"
  IO.println s!"S eq_pairs={stats.eqPairs} eq_zero={stats.eqZero} copies={stats.copies} swaps={stats.swaps} sorts={stats.sorts} swap_not_exchanging={stats.swapMixed} memswap_shape_ok={if swapOk CelloGen.Hash.memswapProg then 1 else 0} displaced_tables={stats.displaced} tree_states={stats.treeStates} tree_not_descending={stats.treeBad} table_states={stats.tableStates} table_keys_not_distinct={stats.tableBad} unsized_states={stats.unsized} tree_relocations={stats.treeReloc} wide_moves={stats.wideMoves}"
