import Cello.Own
import Cello.OwnConc
import Cello.OwnAlias
import CelloGen.Table
import Driver.Common
/- driver for engine `own` (C05): interprets the op file of harness/h_own.c on the ownership model and prints the
   same `O` lines (see the header of harness/h_own.c for the format). -/
open Cello.Own

namespace OwnDrv

/-- decimal number, optional leading `-`, at most 9 digits (same rule as `parse_int` in the harness) -/
def parseIntL (cs : List Char) (allowNeg : Bool) : Option Int :=
  let (neg, ds) := match cs with
    | '-' :: r => (true, r)
    | _ => (false, cs)
  if neg && !allowNeg then none
  else if ds.isEmpty || ds.length > 9 || !ds.all Char.isDigit then none
  else
    let v : Nat := ds.foldl (fun a c => a * 10 + (c.toNat - '0'.toNat)) 0
    some (if neg then -(v : Int) else v)

def parseInt (s : String) (allowNeg : Bool) : Option Int := parseIntL s.toList allowNeg

def parseNat (s : String) : Option Nat := (parseInt s false).map Int.toNat

def parseNats (ss : List String) : Option (List Nat) := ss.mapM parseNat

def pairs : List Nat → List (Nat × Nat)
  | a :: b :: r => (a, b) :: pairs r
  | _ => []

/-- kind token of the op files: `A L T R B`, optionally followed by element-type letters (`p` small probe, `g` large
    probe): one for A/L, two for T/R.  The ownership model does not depend on the element type (both probe types
    construct / assign / destruct alike and are convertible), so the letters are only validated. -/
def parseKind (s : String) (allowed : String) : Option Char :=
  match s.toList with
  | [] => none
  | k :: rest =>
    if !allowed.toList.contains k then none
    else if !rest.all (fun c => c == 'p' || c == 'g') then none
    else if rest.isEmpty then some k
    else if (k == 'A' || k == 'L') && rest.length == 1 then some k
    else if (k == 'T' || k == 'R') && rest.length == 2 then some k
    else none

/-- argument token: a payload or a wrong-typed object (`!I !S !F !T !N`, same rule as `parse_arg` in the harness) -/
def parseArg (s : String) : Option Arg :=
  match s.toList with
  | ['!', 'I'] => some (.wrong .int)
  | ['!', 'S'] => some (.wrong .str)
  | ['!', 'F'] => some (.wrong .float)
  | ['!', 'T'] => some (.wrong .type)
  | ['!', 'N'] => some (.wrong .null)
  | '!' :: _ => none
  | _ => (parseNat s).map .pay

/-- reference token (same rule as `parse_ref` in the harness): `@d[i]`, `@d.kK`, `@d.vK`, d of at most two digits -/
def parseRef (s : String) : Option Ref :=
  match s.toList with
  | '@' :: rest =>
    let ds := rest.takeWhile Char.isDigit
    let tl := rest.dropWhile Char.isDigit
    if ds.isEmpty || ds.length > 2 then none
    else
      let c : Nat := ds.foldl (fun a ch => a * 10 + (ch.toNat - '0'.toNat)) 0
      match tl with
      | '[' :: r =>
        match r.reverse with
        | ']' :: ir => (parseIntL ir.reverse true).map (fun i => ⟨c, .elem i⟩)
        | _ => none
      | '.' :: 'k' :: r => (parseIntL r false).map (fun k => ⟨c, .key k.toNat⟩)
      | '.' :: 'v' :: r => (parseIntL r false).map (fun k => ⟨c, .val k.toNat⟩)
      | _ => none
  | _ => none

def isRefTok (s : String) : Bool := s.toList.head? == some '@'

/-- key / value argument of an aliased map call: a payload or a reference (wrong-typed objects do not mix with references) -/
def parseRArg (s : String) : Option RArg :=
  if isRefTok s then (parseRef s).map .ref else (parseNat s).map .pay

def rargPairs : List RArg → List (RArg × RArg)
  | a :: b :: r => (a, b) :: rargPairs r
  | _ => []

/-- an op line with at least one reference token -/
def parseAliased (ws : List String) : Option AOp :=
  match ws with
  | ["push", c, a] => do pure (.aliased (← parseNat c) (.push (← parseRef a)))
  | ["append", c, a] => do pure (.aliased (← parseNat c) (.push (← parseRef a)))
  | ["pushat", c, i, a] => do pure (.aliased (← parseNat c) (.pushAt (← parseInt i true) (← parseRef a)))
  | ["set", c, i, a] => do pure (.aliased (← parseNat c) (.set (← parseInt i true) (← parseRef a)))
  | ["rem", c, a] => do pure (.aliased (← parseNat c) (.rem (← parseRef a)))
  | ["mset", c, k, v] => do pure (.aliased (← parseNat c) (.mset (← parseRArg k) (← parseRArg v)))
  | ["mrem", c, k] => do pure (.aliased (← parseNat c) (.mrem (← parseRef k)))
  | "concatv" :: c :: items => do pure (.aliased (← parseNat c) (.concat (← items.mapM parseRArg)))
  | "newv" :: c :: k :: items => do
    let c ← parseNat c
    let k ← match parseKind k "AL" with | some 'A' => some SeqKind.array | some 'L' => some .list | _ => none
    pure (.aliased c (.newSeq k (← items.mapM parseRArg)))
  | "newm" :: c :: k :: items => do
    let c ← parseNat c
    let k ← match parseKind k "TR" with | some 'T' => some MapKind.table | some 'R' => some .tree | _ => none
    let items ← items.mapM parseRArg
    if items.length % 2 != 0 then none else pure (.aliased c (.newMap k (rargPairs items)))
  | _ => none

def argPairs : List Arg → List (Arg × Arg)
  | a :: b :: r => (a, b) :: argPairs r
  | _ => []

/-- one-argument calls: the plain operation for a payload, the typed call for a wrong-typed object -/
def argOp (a : Arg) (plain : Nat → Op) (typed : Wrong → Op) : Op :=
  match a with
  | .pay p => plain p
  | .wrong w => typed w

def parseOp (ws : List String) : Option Op :=
  match ws with
  | ["new", c, k] => do
    let c ← parseNat c
    let k ← match parseKind k "ALTRBC" with
      | some 'A' => some CKind.arr | some 'L' => some .lst | some 'T' => some .tbl | some 'R' => some .tre
      | some 'B' => some .boxArr | some 'C' => some .boxLst
      | _ => none
    pure (.new c k)
  | "newv" :: c :: k :: ps => do
    let c ← parseNat c
    let k ← match parseKind k "AL" with | some 'A' => some SeqKind.array | some 'L' => some .list | _ => none
    let args ← ps.mapM parseArg
    pure (if allGood args then .newSeq c k (goodPrefix args).1 else .typed c (.newSeq k args))
  | "newm" :: c :: k :: ps => do
    let c ← parseNat c
    let k ← match parseKind k "TR" with | some 'T' => some MapKind.table | some 'R' => some .tree | _ => none
    let args ← ps.mapM parseArg
    if args.length % 2 != 0 then none
    else pure (if allGood args then .newMap c k (pairs (goodPrefix args).1) else .typed c (.newMap k (argPairs args)))
  | ["box", c, p] => do pure (.box (← parseNat c) (← parseNat p))
  | ["push", c, p] => do let c ← parseNat c; pure (argOp (← parseArg p) (.push c) (fun w => .typed c (.push w)))
  | ["append", c, p] => do let c ← parseNat c; pure (argOp (← parseArg p) (.push c) (fun w => .typed c (.push w)))
  | ["pushat", c, i, p] => do
    let c ← parseNat c; let i ← parseInt i true
    pure (argOp (← parseArg p) (.pushAt c i) (fun w => .typed c (.pushAt i w)))
  | "concatv" :: c :: args => do pure (.typed (← parseNat c) (.concat (← args.mapM parseArg)))
  | ["pop", c] => do pure (.pop (← parseNat c))
  | ["popat", c, i] => do pure (.popAt (← parseNat c) (← parseInt i true))
  | ["set", c, i, p] => do
    let c ← parseNat c; let i ← parseInt i true
    pure (argOp (← parseArg p) (.set c i) (fun w => .typed c (.set i w)))
  | ["rem", c, p] => do let c ← parseNat c; pure (argOp (← parseArg p) (.rem c) (fun w => .typed c (.rem w)))
  | ["resize", c, n] => do pure (.resize (← parseNat c) (← parseNat n))
  | ["sort", c] => do pure (.sort (← parseNat c))
  | ["concat", c, d] => do pure (.concat (← parseNat c) (← parseNat d))
  | ["assign", c, d] => do pure (.assign (← parseNat c) (← parseNat d))
  | ["copy", c, d] => do pure (.copy (← parseNat c) (← parseNat d))
  | ["mset", c, k, v] => do
    let c ← parseNat c
    match (← parseArg k), (← parseArg v) with
    | .pay k, .pay v => pure (.mset c k v)
    | k, v => pure (.typed c (.mset k v))
  | ["mrem", c, k] => do let c ← parseNat c; pure (argOp (← parseArg k) (.mrem c) (fun w => .typed c (.mrem w)))
  | ["del", c] => do pure (.del (← parseNat c))
  | ["bassign", c, d] => do pure (.bassign (← parseNat c) (← parseNat d))
  | ["bref", c, p] => do pure (.bref (← parseNat c) (← parseNat p))
  | ["read", c] => do pure (.read (← parseNat c))
  | _ => none

/-- element code of the dumps: 0 = zero-filled, 1 = Box pointing to a finalised object, pay+2 otherwise -/
def code (w : World) (box : Bool) (t : Tok) : Nat :=
  if t.id = 0 then 0 else if box && w.retiredLog.contains t.id then 1 else t.pay + 2

def showCode (c : Nat) : String := if c = 0 then "_" else if c = 1 then "!" else toString (c - 2)

def kindChar : Cont → Char
  | .seq .array .probe _ => 'A'
  | .seq .list .probe _ => 'L'
  | .seq .array .box _ => 'B'
  | .seq .list .box _ => 'C'
  | .map .table _ => 'T'
  | .map .tree _ => 'R'
  | .cell _ => 'X'

def mix (h x : UInt64) : UInt64 := (h ^^^ x) * 1099511628211

def pairHash (k v : Nat) : UInt64 := mix (mix 0x9E3779B97F4A7C15 (UInt64.ofNat k)) (UInt64.ofNat v)

/-- contents digest of one container: a chain over the elements of a sequence; for maps the (wrapping) sum of the
    pair hashes — the storage order of a map is not part of its contents -/
def contDigest (w : World) (x : Cont) : UInt64 :=
  match x with
  | .map _ kvs => kvs.foldl (fun a kv => a + pairHash (code w false kv.1) (code w false kv.2)) 0
  | _ => x.toks.foldl (fun h t => mix h (UInt64.ofNat (code w x.isBox t))) 1469598103934665603

def digest (w : World) : UInt64 :=
  w.objs.foldl (fun h cx =>
    let (c, x) := cx
    let h := mix h (UInt64.ofNat (c + 1))
    let h := mix h (UInt64.ofNat (kindChar x).toNat)
    let h := mix h (UInt64.ofNat x.len)
    mix h (contDigest w x)) 1469598103934665603

def longList : Nat := 48

def showCont (w : World) (c : Nat) : String :=
  match lookup w.objs c with
  | none => s!" {c}:-"
  | some x =>
    let k := kindChar x
    if x.toks.length > longList then
      s!" {c}:{k}#{x.len}:{(contDigest w x).toNat}"
    else
    match x with
    | .map _ kvs =>
      let body := ",".intercalate (kvs.map (fun kv => showCode (code w false kv.1) ++ ":" ++ showCode (code w false kv.2)))
      s!" {c}:{k}" ++ "{" ++ body ++ "}"
    | _ =>
      -- payload@rank: rank of the identity among the (live, constructed) identities of this container
      let liveIds := (x.toks.filter (fun t => code w x.isBox t ≥ 2)).map (·.id)
      let body := ",".intercalate (x.toks.map (fun t =>
        let cd := code w x.isBox t
        if cd ≥ 2 then showCode cd ++ "@" ++ toString (liveIds.filter (· < t.id)).length else showCode cd))
      s!" {c}:{k}[" ++ body ++ "]"

def sortNat (xs : List Nat) : List Nat := (xs.toArray.qsort (· < ·)).toList

/-! ### the structural shadow of the map containers

Next to the world of Cello/Own.lean (association lists) the driver runs every Table / Tree operation on the slot-array
model of Cello/Table.lean resp. the red-black model of Cello/RBTree.lean with token-valued records (Cello/OwnConc.lean —
the functions CelloProofs/Lemmas/OwnCompose.lean proves equal to the association-list steps) and prints the concrete
layout with the identities in it; harness/h_own.c prints the same from the C memory. -/

open Cello.Own.Conc in
inductive Sh where
  | tab (t : CTab)
  | tree (m : CTree)

/-- the parameters of src/Table.c as the translator reads them (same as `tableCfgNow` of Props/C05.lean) -/
def tcfg : Cello.Table.Cfg :=
  { ge := CelloGen.Table.tieGe, growEmpty := CelloGen.Table.setGrowsEmpty,
    ideal := Cello.Table.idealSize CelloGen.Table.primes CelloGen.Table.loadNum CelloGen.Table.loadDen,
    selfGuard := CelloGen.Table.assignGuardsSelf, getChecksKey := CelloGen.Table.getShortcutChecksKey }

abbrev Shadow := List (Nat × Sh)

def shLookup : Shadow → Nat → Option Sh
  | [], _ => none
  | (c, x) :: rest, d => if c = d then some x else shLookup rest d

def shErase : Shadow → Nat → Shadow
  | [], _ => []
  | (c, x) :: rest, d => if c = d then rest else (c, x) :: shErase rest d

def shStore (sh : Shadow) (c : Nat) (x : Sh) : Shadow := (c, x) :: shErase sh c

open Cello.Own.Conc in
/-- the pairs a map yields to `foreach` + `get`: slot order / in-order -/
def shPays : Sh → List (Nat × Nat)
  | .tab t => pays (slotKVs t)
  | .tree m => pays (treeKVs m)

def ofTab (r : Except Cello.Table.Fail (Res Cello.Own.Conc.CTab)) : Option Sh :=
  match r with
  | .ok r => some (.tab r.val)
  | .error _ => none

def ofTree (r : Option (Res Cello.Own.Conc.CTree)) : Option Sh := r.map (fun r => .tree r.val)

open Cello.Own.Conc in
def shNewMap (next : Nat) (sh : Shadow) (c : Nat) (k : MapKind) (kvs : List (Nat × Nat)) : Option Shadow :=
  match k with
  | .table => (ofTab (tableNewC tcfg probeHash next kvs)).map (shStore sh c)
  | .tree => (ofTree (treeFillC next treeEmpty kvs)).map (shStore sh c)

open Cello.Own.Conc in
def shMset (next : Nat) (sh : Shadow) (c k v : Nat) : Option Shadow :=
  match shLookup sh c with
  | some (.tab t) => (ofTab (tableSetC tcfg probeHash next t k v)).map (shStore sh c)
  | some (.tree m) => (ofTree (treeSetC next m k v)).map (shStore sh c)
  | none => some sh

open Cello.Own.Conc in
/-- one executed (not `bad`) operation on the shadow; `none` = the structural model failed (ub / diverge / NULL) -/
def shStep (next : Nat) (sh : Shadow) : Op → Option Shadow
  | .new c .tbl => some (shStore sh c (.tab (Cello.Table.new tcfg)))
  | .new c .tre => some (shStore sh c (.tree treeEmpty))
  | .newMap c k kvs => shNewMap next sh c k kvs
  | .mset c k v => shMset next sh c k v
  | .mrem c k =>
    match shLookup sh c with
    | some (.tab t) => (ofTab (tableRemC tcfg probeHash t k)).map (shStore sh c)
    | some (.tree m) => (ofTree (treeRemC m k)).map (shStore sh c)
    | none => some sh
  | .resize c n =>
    match shLookup sh c with
    | some (.tab t) => (ofTab (tableResizeC tcfg probeHash t n)).map (shStore sh c)
    | some (.tree m) => some (shStore sh c (.tree (treeResizeC m n).val))
    | none => some sh
  | .assign c d =>
    if c = d then some sh else
    match shLookup sh c, shLookup sh d with
    | some (.tab t), some src => (ofTab (tableAssignC tcfg probeHash next t (shPays src))).map (shStore sh c)
    | some (.tree m), some src => (ofTree (treeAssignC next m (shPays src))).map (shStore sh c)
    | _, _ => some sh
  | .copy c d =>
    match shLookup sh d with
    | some (.tab t) => (ofTab (tableNewC tcfg probeHash next (shPays (.tab t)))).map (shStore sh c)
    | some (.tree m) => (ofTree (treeFillC next treeEmpty (shPays (.tree m)))).map (shStore sh c)
    | none => some sh
  | .del c => some (shErase sh c)
  | .typed c (.mset (.pay k) (.pay v)) => shMset next sh c k v
  | .typed c (.mset _ _) =>
    -- refused by the `cast` at the top of Table_Set_Move / Tree_Set; Table_Set has grown a table without slots before
    match shLookup sh c with
    | some (.tab t) => (ofTab (tableSetRefusedC tcfg probeHash t)).map (shStore sh c)
    | _ => some sh
  | .typed c (.newMap k args) =>
    if (goodPairs args).2 then shNewMap next sh c k (goodPairs args).1 else some sh
  | _ => some sh

/-- first index of the sorted array holding a value ≥ x -/
partial def lowerBound (a : Array Nat) (x : Nat) (lo hi : Nat) : Nat :=
  if lo < hi then
    let mid := (lo + hi) / 2
    if a[mid]! < x then lowerBound a x (mid + 1) hi else lowerBound a x lo mid
  else lo

def inorder : Cello.RB.T Tok Tok → Nat → List (Nat × KV)
  | .nil, _ => []
  | .node c l k v r, d => inorder l (d + 1) ++ (2 * d + (if c = .R then 1 else 0), (k, v)) :: inorder r (d + 1)

open Cello.Own.Conc in
def showLayout (c : Nat) (s : Sh) : String :=
  let entries : List (Nat × KV) := match s with
    | .tab t => (t.slots.toList.zipIdx.filterMap (fun p => p.1.map (fun e => (p.2, e.val))))
    | .tree m => inorder m.root 0
  let sorted := (entries.foldl (fun a e => (a.push e.2.1.id).push e.2.2.id) (#[] : Array Nat)).qsort (· < ·)
  let rk (i : Nat) : Nat := lowerBound sorted i 0 sorted.size
  if 2 * entries.length > longList then
    let h0 : UInt64 := match s with
      | .tab t => mix 1469598103934665603 (UInt64.ofNat t.n)
      | .tree _ => 1469598103934665603
    let h := entries.foldl (fun h e =>
      mix (mix (mix (mix (mix h (UInt64.ofNat e.1)) (UInt64.ofNat (e.2.1.pay + 2))) (UInt64.ofNat (rk e.2.1.id)))
        (UInt64.ofNat (e.2.2.pay + 2))) (UInt64.ofNat (rk e.2.2.id))) h0
    s!" {c}~#{h.toNat}"
  else
    let head := match s with
      | .tab t => s!" {c}~{t.n}<"
      | .tree _ => s!" {c}~<"
    let item (e : Nat × KV) : String :=
      let pos := match s with
        | .tab _ => s!"{e.1}:"
        | .tree _ => s!"{e.1 / 2}{if e.1 % 2 = 1 then "R" else "B"}:"
      s!"{pos}{e.2.1.pay}@{rk e.2.1.id}/{e.2.2.pay}@{rk e.2.2.id}"
    head ++ ",".intercalate (entries.map item) ++ ">"

def showPays (ts : List Tok) : String :=
  let ps := sortNat (ts.map (·.pay))
  if ps.length > longList then
    let h := ps.foldl (fun h p => mix h (UInt64.ofNat p)) 1469598103934665603
    s!"#{ps.length}:{h.toNat}"
  else "[" ++ ",".intercalate (ps.map toString) ++ "]"

def liveDelta (live : Nat) (o : Obs) : Nat :=
  live + o.issued.length - (o.retired.filter (fun t => t.id != 0)).length

def showContL (w : World) (sh : Shadow) (c : Nat) : String :=
  (match shLookup sh c with
   | some s => showLayout c s
   | none => "") ++ showCont w c

def showObs (w : World) (sh : Shadow) (live : Nat) (o : Obs) : String :=
  if o.bad then "O bad-op" else
  let ret := o.retired.filter (fun t => t.id != 0)
  let rawd := (o.retired.filter (fun t => t.id == 0)).length
  let touched := match o.touched with
    | [a, b] => if a = b then [a] else [a, b]
    | l => l
  s!"O r={o.out.name} iss={showPays o.issued} ret={showPays ret} upd={showPays o.updated} rawd={rawd} live={live} dig={(digest w).toNat} |"
    ++ String.join (touched.map (showContL w sh))

end OwnDrv

open OwnDrv in
def main (args : List String) : IO Unit := do
  let lines ← Driver.inputLines args
  let mut w : World := {}
  let mut sh : Shadow := []
  let mut nOps := 0
  let mut nOut := 0
  let mut live := 0
  for l in lines do
    if Driver.isSkippable l then continue
    nOps := nOps + 1
    let ws := Driver.words l
    let parsed : Option AOp := if ws.any isRefTok then parseAliased ws else (parseOp ws).map .base
    match parsed with
    | none => IO.println "O bad-op"
    | some aop =>
      if !inContractA w aop then nOut := nOut + 1
      let (w', o) := stepA w aop
      live := liveDelta live o
      if !o.bad then
        -- the structural shadow runs the plain operation the call amounts to (an aliased call: with the payloads its
        -- references resolve to before the call — `C05_aliased_as_resolved`)
        match (aop.lower w).bind (shStep w.next sh) with
        | some sh' => sh := sh'
        | none => IO.println "O model-structural-failure (ub / diverge / NULL dereference in the slot-array or red-black model)"
      IO.println (showObs w' sh live o)
      w := w'
  for op in delAllOps w do
    let (w', o) := step w op
    live := liveDelta live o
    sh := (shStep w.next sh op).getD sh
    IO.println (showObs w' sh live o)
    w := w'
  IO.println s!"O end live={liveCount w}"
  if live != liveCount w then IO.println s!"O model-inconsistent live counter {live} vs logs {liveCount w}"
  IO.println s!"S ops={nOps} out-of-contract={nOut} tokens={w.next - 1}"
