import Cello.Own
import Driver.Common
/- driver for engine `own` (C05): interprets the op file of harness/h_own.c on the ownership model and prints the
   same `O` lines (see the header of harness/h_own.c for the format). -/
open Cello.Own

namespace OwnDrv

/-- decimal number, optional leading `-`, at most 9 digits (same rule as `parse_int` in the harness) -/
def parseInt (s : String) (allowNeg : Bool) : Option Int :=
  let cs := s.toList
  let (neg, ds) := match cs with
    | '-' :: r => (true, r)
    | _ => (false, cs)
  if neg && !allowNeg then none
  else if ds.isEmpty || ds.length > 9 || !ds.all Char.isDigit then none
  else
    let v : Nat := ds.foldl (fun a c => a * 10 + (c.toNat - '0'.toNat)) 0
    some (if neg then -(v : Int) else v)

def parseNat (s : String) : Option Nat := (parseInt s false).map Int.toNat

def parseNats (ss : List String) : Option (List Nat) := ss.mapM parseNat

def pairs : List Nat → List (Nat × Nat)
  | a :: b :: r => (a, b) :: pairs r
  | _ => []

/-- kind token of the op files: `A L T R B`, optionally followed by element-type letters (`p` small probe, `g` large
    probe): one for A/L, two for T/R.  The ownership model does not depend on the element type (both probe types
    construct / assign / destruct alike and are convertible), so the letters are only validated. -/
def parseKind (s : String) (allowed : String) : Option Char :=
  match s.toList with
  | [] => none
  | k :: rest =>
    if !allowed.toList.contains k then none
    else if !rest.all (fun c => c == 'p' || c == 'g') then none
    else if rest.isEmpty then some k
    else if (k == 'A' || k == 'L') && rest.length == 1 then some k
    else if (k == 'T' || k == 'R') && rest.length == 2 then some k
    else none

def parseOp (ws : List String) : Option Op :=
  match ws with
  | ["new", c, k] => do
    let c ← parseNat c
    let k ← match parseKind k "ALTRB" with
      | some 'A' => some CKind.arr | some 'L' => some .lst | some 'T' => some .tbl | some 'R' => some .tre
      | some 'B' => some .boxArr
      | _ => none
    pure (.new c k)
  | "newv" :: c :: k :: ps => do
    let c ← parseNat c
    let k ← match parseKind k "AL" with | some 'A' => some SeqKind.array | some 'L' => some .list | _ => none
    let ps ← parseNats ps
    pure (.newSeq c k ps)
  | "newm" :: c :: k :: ps => do
    let c ← parseNat c
    let k ← match parseKind k "TR" with | some 'T' => some MapKind.table | some 'R' => some .tree | _ => none
    let ps ← parseNats ps
    if ps.length % 2 != 0 then none else pure (.newMap c k (pairs ps))
  | ["box", c, p] => do pure (.box (← parseNat c) (← parseNat p))
  | ["push", c, p] => do pure (.push (← parseNat c) (← parseNat p))
  | ["append", c, p] => do pure (.push (← parseNat c) (← parseNat p))
  | ["pushat", c, i, p] => do pure (.pushAt (← parseNat c) (← parseInt i true) (← parseNat p))
  | ["pop", c] => do pure (.pop (← parseNat c))
  | ["popat", c, i] => do pure (.popAt (← parseNat c) (← parseInt i true))
  | ["set", c, i, p] => do pure (.set (← parseNat c) (← parseInt i true) (← parseNat p))
  | ["rem", c, p] => do pure (.rem (← parseNat c) (← parseNat p))
  | ["resize", c, n] => do pure (.resize (← parseNat c) (← parseNat n))
  | ["sort", c] => do pure (.sort (← parseNat c))
  | ["concat", c, d] => do pure (.concat (← parseNat c) (← parseNat d))
  | ["assign", c, d] => do pure (.assign (← parseNat c) (← parseNat d))
  | ["copy", c, d] => do pure (.copy (← parseNat c) (← parseNat d))
  | ["mset", c, k, v] => do pure (.mset (← parseNat c) (← parseNat k) (← parseNat v))
  | ["mrem", c, k] => do pure (.mrem (← parseNat c) (← parseNat k))
  | ["del", c] => do pure (.del (← parseNat c))
  | ["bassign", c, d] => do pure (.bassign (← parseNat c) (← parseNat d))
  | ["read", c] => do pure (.read (← parseNat c))
  | _ => none

/-- element code of the dumps: 0 = zero-filled, 1 = Box pointing to a finalised object, pay+2 otherwise -/
def code (w : World) (box : Bool) (t : Tok) : Nat :=
  if t.id = 0 then 0 else if box && w.retiredLog.contains t.id then 1 else t.pay + 2

def showCode (c : Nat) : String := if c = 0 then "_" else if c = 1 then "!" else toString (c - 2)

def kindChar : Cont → Char
  | .seq .array .probe _ => 'A'
  | .seq .list _ _ => 'L'
  | .seq .array .box _ => 'B'
  | .map .table _ => 'T'
  | .map .tree _ => 'R'
  | .cell _ => 'X'

def mix (h x : UInt64) : UInt64 := (h ^^^ x) * 1099511628211

def pairHash (k v : Nat) : UInt64 := mix (mix 0x9E3779B97F4A7C15 (UInt64.ofNat k)) (UInt64.ofNat v)

/-- contents digest of one container: a chain over the elements of a sequence; for maps the (wrapping) sum of the
    pair hashes — the storage order of a map is not part of its contents -/
def contDigest (w : World) (x : Cont) : UInt64 :=
  match x with
  | .map _ kvs => kvs.foldl (fun a kv => a + pairHash (code w false kv.1) (code w false kv.2)) 0
  | _ => x.toks.foldl (fun h t => mix h (UInt64.ofNat (code w x.isBox t))) 1469598103934665603

def digest (w : World) : UInt64 :=
  w.objs.foldl (fun h cx =>
    let (c, x) := cx
    let h := mix h (UInt64.ofNat (c + 1))
    let h := mix h (UInt64.ofNat (kindChar x).toNat)
    let h := mix h (UInt64.ofNat x.len)
    mix h (contDigest w x)) 1469598103934665603

def longList : Nat := 48

def showCont (w : World) (c : Nat) : String :=
  match lookup w.objs c with
  | none => s!" {c}:-"
  | some x =>
    let k := kindChar x
    if x.toks.length > longList then
      s!" {c}:{k}#{x.len}:{(contDigest w x).toNat}"
    else
    match x with
    | .map _ kvs =>
      let body := ",".intercalate (kvs.map (fun kv => showCode (code w false kv.1) ++ ":" ++ showCode (code w false kv.2)))
      s!" {c}:{k}" ++ "{" ++ body ++ "}"
    | _ =>
      -- payload@rank: rank of the identity among the (live, constructed) identities of this container
      let liveIds := (x.toks.filter (fun t => code w x.isBox t ≥ 2)).map (·.id)
      let body := ",".intercalate (x.toks.map (fun t =>
        let cd := code w x.isBox t
        if cd ≥ 2 then showCode cd ++ "@" ++ toString (liveIds.filter (· < t.id)).length else showCode cd))
      s!" {c}:{k}[" ++ body ++ "]"

def sortNat (xs : List Nat) : List Nat := (xs.toArray.qsort (· < ·)).toList

def showPays (ts : List Tok) : String :=
  let ps := sortNat (ts.map (·.pay))
  if ps.length > longList then
    let h := ps.foldl (fun h p => mix h (UInt64.ofNat p)) 1469598103934665603
    s!"#{ps.length}:{h.toNat}"
  else "[" ++ ",".intercalate (ps.map toString) ++ "]"

def liveDelta (live : Nat) (o : Obs) : Nat :=
  live + o.issued.length - (o.retired.filter (fun t => t.id != 0)).length

def showObs (w : World) (live : Nat) (o : Obs) : String :=
  if o.bad then "O bad-op" else
  let ret := o.retired.filter (fun t => t.id != 0)
  let rawd := (o.retired.filter (fun t => t.id == 0)).length
  let touched := match o.touched with
    | [a, b] => if a = b then [a] else [a, b]
    | l => l
  s!"O r={o.out.name} iss={showPays o.issued} ret={showPays ret} upd={showPays o.updated} rawd={rawd} live={live} dig={(digest w).toNat} |"
    ++ String.join (touched.map (showCont w))

end OwnDrv

open OwnDrv in
def main (args : List String) : IO Unit := do
  let lines ← Driver.inputLines args
  let mut w : World := {}
  let mut nOps := 0
  let mut nOut := 0
  let mut live := 0
  for l in lines do
    if Driver.isSkippable l then continue
    nOps := nOps + 1
    match parseOp (Driver.words l) with
    | none => IO.println "O bad-op"
    | some op =>
      if !inContract w op then nOut := nOut + 1
      let (w', o) := step w op
      live := liveDelta live o
      IO.println (showObs w' live o)
      w := w'
  for op in delAllOps w do
    let (w', o) := step w op
    live := liveDelta live o
    IO.println (showObs w' live o)
    w := w'
  IO.println s!"O end live={liveCount w}"
  if live != liveCount w then IO.println s!"O model-inconsistent live counter {live} vs logs {liveCount w}"
  IO.println s!"S ops={nOps} out-of-contract={nOut} tokens={w.next - 1}"
