import Cello.Threads
import Cello.ThreadsSync
import CelloGen.Exn
import CelloGen.Thr
import Driver.Common
/- driver for engine `thr` (C13).  Op file (shared with harness/h_thr.c):

     M sched|free          mode: `sched` = the harness replays exactly this interleaving (baton); `free` = real concurrency
     N <workers>           worker threads 1..N (tid 0 = main)
     <tid> <op> <args…>    one event of the schedule, executed by thread <tid>

   The model executes the events in file order (one particular schedule).  In `free` mode the outcomes of the
   synchronisation events depend on the real schedule and are masked (`sync`) on both sides; the outcomes of local
   operations do not (theorem C13_noninterference), so they are compared in every mode. -/
open Cello.Thr Cello

/-- declared classes of the harness's probe types (h_thr.c `ProbeA`, `ProbeB`, `ProbeC`): ty × cls ↦ implemented?
    classes: 0 New, 1 Cmp, 2 Hash, 3 Len, 4 Mark, 5 Assign, 6 Size, 7 Alloc (all cached slots of Type_Instance) -/
def declared (k : Nat × Nat) : Bool :=
  match k with
  | (0, 0) => true                                   -- ProbeA: New
  | (1, 0) | (1, 1) | (1, 2) => true                 -- ProbeB: New Cmp Hash
  | (2, 1) | (2, 3) | (2, 5) => true                 -- ProbeC: Cmp Len Assign
  | _ => false

def cfg : Cfg := { gcFirst := CelloGen.Thr.teardownGcFirst, consume := CelloGen.Exn.catchConsumes, maxDepth := CelloGen.Exn.maxDepth, scan := declared,
                   foreignMark := CelloGen.Thr.threadMarkUnguarded,
                   joinIgnoresDeadlk := joinIgnoresDeadlkOf CelloGen.Thr.joinErr }

/-- the translation tables of the synchronisation wrappers as extracted from the source (extension round): every `lock`,
    `trylock`, `unlock`, `join` event is also executed as flag test + primitive + table (`syncStep`) and compared with `step` -/
def tabs : SyncTabs :=
  { lock := CelloGen.Thr.lockErr, trylock := CelloGen.Thr.trylockErr, tryDefault := CelloGen.Thr.trylockDefault,
    unlock := CelloGen.Thr.unlockErr, join := CelloGen.Thr.joinErr }

def bump (l : List (String × Nat)) (k : String) : List (String × Nat) :=
  if k.isEmpty then l else if l.any (·.1 == k) then l.map (fun e => if e.1 == k then (k, e.2 + 1) else e) else l ++ [(k, 1)]

def parseErrno : String → Option Errno
  | "0" => some .zero | "EINVAL" => some .einval | "EDEADLK" => some .edeadlk | "EBUSY" => some .ebusy
  | "EPERM" => some .eperm | "ESRCH" => some .esrch | "EAGAIN" => some .eagain | _ => none

def parsePFn : String → Option PFn
  | "lock" => some .lock | "trylock" => some .trylock | "unlock" => some .unlock | "join" => some .join
  | "create" => some .create | "stop" => some .stop | _ => none

def nats (ws : List String) : Option (List Nat) := ws.mapM (·.toNat?)

/-- `gc` arguments: own serials, and `T<u>` for the stack variable that holds the Thread object `new(Thread, f)` of thread u -/
def parseKeep (w : String) : Option Nat :=
  if w.startsWith "T" then
    let r := (w.drop 1).toString
    if r.length ≥ 1 && r.length ≤ 2 then r.toNat?.bind (fun u => if u ≥ 1 && u < 65 then some (thrBase + u) else none) else none
  else if w.length < 8 then w.toNat?.bind (fun n => if n < 512 then some n else none) else none

/-- the exception programs of this engine: statements, throws of the six kinds, sequences, try/catch, calls (h_thr.c) -/
def progText (s : String) : Bool := s.toList.all (fun c => c.isDigit || c = '(' || c = ')' || c = ' ' || c = 's' || c = 't' || c = 'q' || c = 'c' || c = 'f')

/-- (events of the line, executed in order while each ends `ok`; op name; is-sync) -/
def parseEv (l : String) : Option (List Ev × String × Bool) :=
  match Driver.words l with
  | ts :: op :: args =>
    match ts.toNat? with
    | none => none
    | some t =>
      let loc (o : LOp) : Option (List Ev × String × Bool) := some ([.loc t o], op, false)
      let syn (e : Ev) : Option (List Ev × String × Bool) := some ([e], op, true)
      let lt (s : String) (lim : Nat) : Option Nat := if s.length < 8 then s.toNat?.bind (fun n => if n < lim then some n else none) else none
      let okKey (k : String) : Bool := k.length < 60
      if t ≥ 65 then none else
      match op, args with
      | "begin", [] => if t = 0 then none else loc .begin_
      | "end", [] => if t = 0 then none else loc .end_
      | "new", [k] => (lt k 512).bind fun k => loc (.new k false false)
      | "newroot", [k] => (lt k 512).bind fun k => loc (.new k true false)
      | "newx", [k] => (lt k 512).bind fun k => loc (.new k false true)
      | "del", [u, k] => match lt u 65, lt k 512 with
        | some u, some k => loc (.del ⟨u, k⟩) | _, _ => none
      | "gc", ks => (ks.mapM parseKeep).bind fun ks => loc (.collect ks)
      | "newthr", [u] => (lt u 65).bind fun u => if u = 0 then none else
          some ([.loc t (.new (thrBase + u) false false), .bind t u], op, false)
      | "pubo", [k] => (lt k 512).bind fun k => loc (.pubo ⟨t, k⟩)
      | "rdo", [u] => (lt u 65).bind fun u => syn (.rdo t u)
      | "kf", [name] => if name.length < 60 then some ([], op, false) else none
      | "churn", [n] => (lt n 5001).bind fun n => loc (.churn n)
      | "tset", [key, u, k] => match okKey key, lt u 65, lt k 512 with
        | true, some u, some k => loc (.tset key ⟨u, k⟩) | _, _, _ => none
      | "tget", [key] => if okKey key then loc (.tget key) else none
      | "tmem", [key] => if okKey key then loc (.tmem key) else none
      | "trem", [key] => if okKey key then loc (.trem key) else none
      | "x", _ :: _ =>
        -- the program text is everything after "<tid> x "
        let rest := ((l.splitOn " x ").drop 1)
        let txt := " x ".intercalate rest
        if !progText txt then none else
        match Exn.parse txt with
        | some p => loc (.exn (.tryCatch p [] (.stmt 999)))
        | none => none
      | "lookup", [a, b] => match lt a 3, lt b 8 with
        | some a, some b => loc (.lookup a b) | _, _ => none
      | "pub", [v] => (lt v 1000000).bind fun v => loc (.pub v)
      | "perr", [f, e] => match parsePFn f, parseErrno e with
        | some f, some e => loc (.perr f e) | _, _ => none
      | "work", [a, b, c] => match lt a 4, lt b 1000000, lt c 1000000 with
        | some a, some b, some c => loc (.work a b c) | _, _, _ => none
      | "spawn", [u] => (lt u 65).bind fun u => if u = 0 then none else syn (.spawn t u)
      | "call", u :: ks => match lt u 65, ks.mapM (fun k => lt k 512) with
        | some u, some ks => if u = 0 || ks.length = 0 || ks.length > 2 then none else
            some ([.spawn t u, .arg t u (ks.map (fun k => (⟨t, k⟩ : Obj)))], op, true)
        | _, _ => none
      | "rdarg", [i] => (lt i 8).bind fun i => syn (.rdarg t i)
      | "wthrow", [m] => (lt m 16).bind fun m =>
          some ([.lock t m, .loc t (.exn (.tryCatch (.throw 1) [] (.stmt 999)))], op, true)
      | "join", [u] => (lt u 65).bind fun u => if u = 0 then none else syn (.join t u)
      | "lock", [m] => (lt m 16).bind fun m => syn (.lock t m)
      | "enter", [m] => (lt m 16).bind fun m => syn (.lock t m)
      | "trylock", [m] => (lt m 16).bind fun m => syn (.trylock t m)
      | "unlock", [m] => (lt m 16).bind fun m => syn (.unlock t m)
      | "leave", [m] => (lt m 16).bind fun m => syn (.unlock t m)
      | "winc", [m, c] => match lt m 16, lt c 16 with
        | some m, some c => syn (.winc t m c) | _, _ => none
      | "ld", [c] => (lt c 16).bind fun c => syn (.ld t c)
      | "st", [c] => (lt c 16).bind fun c => syn (.st t c)
      | "rd", [u] => (lt u 65).bind fun u => syn (.rd t u)
      | _, _ => none
  | _ => none

def maxTid : Nat := 64
def maxMutex : Nat := 16

def main (args : List String) : IO Unit := do
  let lines ← Driver.inputLines args
  let mut free := false
  let mut g := G.init
  let mut idx := 0
  let mut tr : Array (Ev × Out) := #[]
  let mut nLocal := 0
  let mut nSync := 0
  let mut nBlocked := 0
  let mut nRace := 0
  let mut nNotIso := 0
  let mut nNotIsoN := 0
  let mut nArgUnsafe := 0
  let mut nLayerDiff := 0
  let mut branches : List (String × Nat) := []
  for l in lines do
    if Driver.isSkippable l then continue
    if l.startsWith "M " then
      free := (l.drop 2).toString.trimAscii.toString = "free"
      continue
    if l.startsWith "N " || l.startsWith "S " then continue
    match parseEv l with
    | none => IO.println "O bad-op"
    | some (es, name, sync) =>
      -- the events of the line in order, while each ends `ok` (`newthr` = allocate, then bind); the last outcome is shown
      -- (`call` = spawn, then the argument tuple; `wthrow` = lock, then the exception: the first outcome is shown)
      let mut o : Out := .ok
      let mut first : Option Out := none
      let shownDone := es.isEmpty
      -- `call` names own objects of the caller that exist
      let argsOk := match es with
        | [.spawn _ _, .arg t' _ os] => os.all (fun ob => (g.thr t').used.contains ob.k)
        | _ => true
      if !argsOk then
        o := .bad
        first := some .bad
      for e in es do
        if (o matches .ok) || (o matches .spawned) || (o matches .acquired) then
          if raceEv cfg g e then nRace := nRace + 1
          if !isolatedEv cfg g e then nNotIso := nNotIso + 1
          if !isolatedEvN cfg g e then nNotIsoN := nNotIsoN + 1
          if !argSafeEv g e then nArgUnsafe := nArgUnsafe + 1
          let (g', o') := step cfg g e
          match syncStep tabs g e with
          | some r =>
            branches := bump branches (syncBranch g e)
            if r.2 != o' then nLayerDiff := nLayerDiff + 1
          | none => pure ()
          g := g'
          o := o'
          if first.isNone then first := some o'
          tr := tr.push (e, o')
      if name == "call" || name == "wthrow" then o := first.getD o
      if sync then nSync := nSync + 1 else nLocal := nLocal + 1
      if notExecuted o then nBlocked := nBlocked + 1
      let shown := if shownDone then "done" else if free && sync then "sync" else o.show
      let tid := ((Driver.words l).headD "0").toNat!
      IO.println s!"O {idx} {tid} {name} {shown}"
      idx := idx + 1
  -- the trace predicates of the theorems, evaluated on this schedule
  let trl := tr.toList
  let mut exclOK := true
  for m in List.range maxMutex do
    let holders := (List.range (maxTid + 1)).filter (fun t => inside t m trl > 0)
    if holders.length > 1 then exclOK := false
    for t in List.range (maxTid + 1) do
      if inside t m trl > 1 || inside t m trl < 0 then exclOK := false
  -- races: steps at which a collection walks the thread-local table of a live thread (a data race in C);
  -- not-isolated: steps outside the hypothesis `Isolated` of C13_noninterference
  IO.println s!"S events={idx} local={nLocal} sync={nSync} not-executed={nBlocked} noUB={noUB trl} exclusion={exclOK} races={nRace} not-isolated={nNotIso} walk-decides={nNotIsoN} arg-unsafe={nArgUnsafe} managed={g.wraps.length} sync-layer-diff={nLayerDiff}"
  IO.println s!"I sync-branches {" ".intercalate (branches.map (fun e => s!"{e.1}={e.2}"))}"
