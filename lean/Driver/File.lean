import Cello.File
import Cello.FileText
import Cello.FileProg
import CelloGen.File
import Driver.Common
/- driver for engine `file` (C20): interprets the same op files as harness/h_file.c on the model
   (`Cello.File.step` over the reference stdio `refIO`, with the File_Close facts read from the source by the
   translator) and prints the same `O` lines.  Process objects (ops `p…`): the same `step` over the reference pipe
   library `pipeIO`, with the Process_Close facts read from the source (`pcfg`); `drop` (the collector closes) = `MOp.del`.
   Typed text (ops `tp` / `ts`): `Cello.FileText` — the texts print_to hands to vfprintf per specification, and scan_from_with's
   branches evaluated from what the translator read from src/Show.c (CelloGen.FileScan), over the same reference stdio. -/
open Cello.File

namespace Driver.FileDrv

def nObj : Nat := 8
def nStack : Nat := 4
def nFile : Nat := 6
def maxIO : Nat := 262144
def fullLimit : Nat := 1024
def posLimit : Nat := 1048576

def cfg : Cfg := ⟨CelloGen.File.closeGuarded, CelloGen.File.closeDropsAlways⟩

/-- the two facts about Process_Close (fix 51c301c), read from the source by the translator -/
def pcfg : Cfg := ⟨CelloGen.File.procCloseGuarded, CelloGen.File.procCloseDropsAlways⟩

def nProc : Nat := 4
def nPStack : Nat := 2
def pCap : Nat := 65536

/-- the `with_in` macro as the translator read it from include/Cello.h: which expression the step clause stops -/
def cfgW : WithCfg := ⟨if CelloGen.File.withStopsBound then .bound else .source⟩

structure Sys where
  m : Multi Ref                          -- the model state: library, File objects, log of every stdio call
  inWith : List Nat := []                -- subjects of the with-blocks being executed
  depth : Nat := 0
  nontrivial : Nat := 0
  ev : List WEv := []                    -- what the with loops did (the model's own protocol check runs over this)
  openSrcBad : Nat := 0                  -- sopen calls on which File_Open AS EXTRACTED (CelloGen.File.openProg) differs from `fileOpen`
  openBr : List (String × Nat) := []     -- branch counters of File_Open (held / free × fclose × fopen outcome)
  pm : Multi PRef := ⟨PRef.init, [(0, none), (1, none)], []⟩   -- the Process objects over the reference pipe library
  pInWith : List Nat := []

def Sys.init : Sys := { m := ⟨Ref.init, [(0, none), (1, none), (2, none), (3, none)], []⟩ }

def Sys.lib (s : Sys) : Ref := s.m.lib
def Sys.objs (s : Sys) : List (Nat × Option Handle) := s.m.objs
def Sys.obj (s : Sys) (o : Nat) : Option (Option Handle) := lookup o s.m.objs

def Sys.stream (s : Sys) (o : Nat) : Option Stream :=
  match s.obj o with
  | some (some h) => lookup h s.lib.streams
  | _ => none

def stText (s : Sys) (o : Nat) : String :=
  match s.obj o with
  | none => "none"
  | some none => "closed"
  | some (some h) =>
    match lookup h s.lib.streams with
    | none => "STALE"
    | some st => s!"h{h}:{st.pos}:{if st.eof then 1 else 0}"

def excText {α : Type} : Out α → String
  | .ok _ => "none"
  | .raised e => e.name
  | .ub => "ub"

/-- run one operation of the multi-object model; `none` = not applicable -/
def Sys.exec (s : Sys) (o : Nat) (mop : MOp) : Option (Sys × R Ref Val) :=
  match s.m.stepR refIO cfg o mop with
  | none => none
  | some (r, keep) => some ({ s with m := s.m.apply o r keep }, r)

def emit (s : Sys) (o : Nat) (op : String) (exc : String) (extra : String) (calls : List Call) : IO Unit :=
  IO.println s!"O {op} exc={exc}{if extra.isEmpty then "" else " " ++ extra} st={stText s o} calls={showCalls calls} live={s.lib.streams.length}"

def busy (s : Sys) (k : Nat) (except : Option Nat) : Bool :=
  k < nFile && s.objs.any (fun (o, f) => some o ≠ except && match f with
    | some h => (match lookup h s.lib.streams with | some st => st.file = k | none => false)
    | none => false)

def fileOk (k : Nat) : Bool := k < nFile || k = fileNoDir || k = fileFull

def hexVal (c : Char) : Option Nat :=
  if c.isDigit then some (c.toNat - '0'.toNat)
  else if 'a' ≤ c && c ≤ 'f' then some (c.toNat - 'a'.toNat + 10)
  else if 'A' ≤ c && c ≤ 'F' then some (c.toNat - 'A'.toNat + 10)
  else none

def parseHex (t : String) : Option (List Byte) :=
  if t = "-" then some [] else
  let rec go : List Char → List Byte → Option (List Byte)
    | [], acc => some acc.reverse
    | [_], _ => none
    | a :: b :: rest, acc =>
      match hexVal a, hexVal b with
      | some x, some y => go rest (UInt8.ofNat (x * 16 + y) :: acc)
      | _, _ => none
  go t.toList []

def parseLeave (t : String) : Option Leave :=
  if t = "fall" then some .fall else if t = "cont" then some .cont else if t = "brk" then some .brk
  else if t = "throw" then some .throw else if t = "ret" then some .ret else none

/-- 0: the object is closed or the only holder of an open handle; 1: it shares an open handle with another object;
    2: it holds a handle that is not open any more (the region of KF-C20-copy-aliases-handle: only close / stop / del /
    tell / eof — and on a dead handle flush / seek / read / write — are executed, by both sides) -/
def sharedState (s : Sys) (o : Nat) : Nat :=
  match s.obj o with
  | some (some h) =>
    if (lookup h s.lib.streams).isNone then 2
    else if (s.objs.filter (fun p => p.2 == some h)).length > 1 then 1 else 0
  | _ => 0

def sharedAllowed (sh : Nat) (op : String) : Bool :=
  op = "close" || op = "stop" || op = "del" || op = "tell" || op = "eof" ||
  (sh = 2 && (op = "flush" || op = "seek" || op = "read" || op = "write" || op = "writehex"))

def isOpen (s : Sys) (o : Nat) : Bool := match s.obj o with | some (some _) => true | _ => false

/-- a write-type transfer straight after a read that did not hit the end of the file, or a read-type one straight after
    a write, is undefined in C: neither side executes it -/
def writeAfterRead (s : Sys) (o : Nat) : Bool :=
  match s.stream o with | some st => st.last = .rd && !st.eof | none => false
def readAfterWrite (s : Sys) (o : Nat) : Bool :=
  match s.stream o with | some st => st.last = .wr | none => false
def tooFar (s : Sys) (o : Nat) : Bool :=
  match s.stream o with | some st => st.pos > posLimit | none => false
def onFull (s : Sys) (o : Nat) : Bool :=
  match s.stream o with | some st => st.file = fileFull | none => false

def doWrite (s : Sys) (o : Nat) (op : String) (data : List Byte) : IO Sys := do
  if writeAfterRead s o then IO.println s!"O {op} unsup"; return s
  match s.stream o with
  | some st => if st.file = fileFull && st.pos + data.length > fullLimit then IO.println s!"O {op} unsup"; return s
  | none => pure ()
  if tooFar s o then IO.println s!"O {op} unsup"; return s
  match s.exec o (.op (.write data)) with
  | none => IO.println "O bad-op"; return s
  | some (s', r) =>
    let ret := match r.out with | .ok (.nat n) => toString n | _ => "-1"
    emit s' o op (excText r.out) s!"ret={ret}" r.calls
    return s'

def simple (s : Sys) (o : Nat) (name : String) (op : MOp) (showRet : Option (Val → String)) : IO Sys := do
  match s.exec o op with
  | none => IO.println "O bad-op"; return s
  | some (s', r) =>
    let extra := match showRet with
      | none => ""
      | some g => "ret=" ++ (match r.out with | .ok v => g v | _ => "-1")
    emit s' o name (excText r.out) extra r.calls
    return s'

/-! Process objects -/

def Sys.pobj (s : Sys) (o : Nat) : Option (Option Handle) := lookup o s.pm.objs

def Sys.pstream (s : Sys) (o : Nat) : Option PStream :=
  match s.pobj o with
  | some (some h) => lookup h s.pm.lib.streams
  | _ => none

def pstText (s : Sys) (o : Nat) : String :=
  match s.pobj o with
  | none => "none"
  | some none => "closed"
  | some (some h) =>
    match lookup h s.pm.lib.streams with
    | none => "STALE"
    | some st => s!"p{h}:{if st.eof then 1 else 0}"

def pemit (s : Sys) (o : Nat) (op : String) (exc : String) (extra : String) (calls : List Call) : IO Unit :=
  IO.println s!"O {op} exc={exc}{if extra.isEmpty then "" else " " ++ extra} st={pstText s o} calls={showCallsP calls} plive={s.pm.lib.streams.length}"

def Sys.pexec (s : Sys) (o : Nat) (mop : MOp) : Option (Sys × R PRef Val) :=
  match s.pm.stepR pipeIO pcfg o mop with
  | none => none
  | some (r, keep) => some ({ s with pm := s.pm.apply o r keep }, r)

def pbusy (s : Sys) (c : Nat) (except : Option Nat) : Bool :=
  c ≥ cmdCat && s.pm.objs.any (fun (o, f) => some o ≠ except && match f with
    | some h => (match lookup h s.pm.lib.streams with | some st => st.cmd = c | none => false)
    | none => false)

def psimple (s : Sys) (o : Nat) (name : String) (op : MOp) (extra : R PRef Val → String) : IO Sys := do
  match s.pexec o op with
  | none => IO.println "O bad-op"; return s
  | some (s', r) =>
    pemit s' o name (excText r.out) (extra r) r.calls
    return s'

def retOf (g : Val → String) (r : R PRef Val) : String := "ret=" ++ (match r.out with | .ok v => g v | _ => "-1")
def noExtra (_ : R PRef Val) : String := ""

def parsePMode (t : String) : Option Mode :=
  if t = "r" then some .r else if t = "w" then some .w else if t = "r+" then some .rp else if t = "x" then some .bad else none

/-! typed text: `tp <o> <spec> <value> <sep>` = print_to(f, 0, "%<spec><sep>", x), `ts <o> <spec> <sep>` = scan_from(f, 0, "%<spec><sep>", x) -/

def maxStrVal : Nat := 64

def parseSep (t : String) : Option (List Nat) :=
  match parseHex t with
  | some bs =>
    let ns := Cello.FileText.toNats bs
    if ns.length > 8 || ns.any (fun b => b = 37 || b = 0) then none else some ns
  | none => none

def parseHex64 (t : String) : Option Nat :=
  match t.toList with
  | 'x' :: r =>
    if r.length ≠ 16 then none
    else r.foldl (fun acc c => match acc, hexVal c with | some a, some d => some (a * 16 + d) | _, _ => none) (some 0)
  | _ => none

def parseTVal (sp : Cello.FileText.Spec) (t : String) : Option Cello.FileText.TVal :=
  match Cello.FileText.dfltOf sp with
  | .int _ =>
    (match t.toInt? with
     | some n => if -(2 ^ 63 : Int) ≤ n && n < (2 ^ 63 : Int) then some (.int n) else none
     | none => none)
  | .flt _ =>
    (match parseHex64 t with
     | some b => if Cello.Text.fFinite b then some (.flt b) else none
     | none => none)
  | .str _ =>
    (match parseHex t with
     | some bs =>
       let ns := Cello.FileText.toNats bs
       if ns.length > maxStrVal || ns.any (· = 0) then none else some (.str ns)
     | none => none)

def summarize (cs : List Call) : String :=
  match cs with
  | [] => "-"
  | c :: _ => s!"{c.show}*{cs.length}"

def emitT (s : Sys) (o : Nat) (op : String) (exc : String) (extra : String) (calls : List Call) : IO Unit :=
  IO.println s!"O {op} exc={exc} {extra} st={stText s o} calls={summarize calls} live={s.lib.streams.length}"

def doTp (s : Sys) (o : Nat) (rest : List String) : IO Sys := do
  match rest with
  | [sps, vs, seps] =>
    match Cello.FileText.parseSpec sps, parseSep seps with
    | some sp, some sep =>
      match parseTVal sp vs with
      | none => IO.println "O bad-op"; return s
      | some v =>
        if writeAfterRead s o || onFull s o || tooFar s o then IO.println "O tp unsup"; return s
        match Cello.FileText.printFrags sp v sep with
        | none => IO.println "O bad-op"; return s
        | some frags =>
          match s.exec o (.op (.print (frags.map Cello.FileText.toBytes))) with
          | none => IO.println "O bad-op"; return s
          | some (s', r) =>
            let ret := match r.out with | .ok (.int n) => toString n | _ => "-1"
            emitT s' o "tp" (excText r.out) s!"ret={ret}" r.calls
            return s'
    | _, _ => IO.println "O bad-op"; return s
  | _ => IO.println "O bad-op"; return s

def doTs (s : Sys) (o : Nat) (rest : List String) : IO Sys := do
  match rest with
  | [sps, seps] =>
    match Cello.FileText.parseSpec sps, parseSep seps with
    | some sp, some sep =>
      let unsup : Bool := match s.stream o with
        | some st => st.last = .wr || st.file = fileFull
        | none => false
      if unsup then IO.println "O ts unsup"; return s
      let f : Option Handle := match s.obj o with | some f => f | none => none
      match Cello.FileText.fileScanText Cello.FileText.src s.lib f sp sep with
      | none => IO.println "O ts unsup"; return s
      | some r =>
        let val := match r.out with
          | .ok (v, _) => v
          | _ => Cello.FileText.valueAfter Cello.FileText.src s.lib f sp sep
        let ret := match r.out with | .ok (_, n) => toString n | _ => "-1"
        let r' : R Ref Val := ⟨r.lib, r.f, r.out.map (fun _ => Val.unit), r.calls⟩
        let s' := { s with m := s.m.apply o r' true }
        emitT s' o "ts" (excText r.out) s!"val={val.render} ret={ret}" r.calls
        return { s' with nontrivial := s'.nontrivial + (match r.out with | .ok _ => 1 | _ => 0) }
    | _, _ => IO.println "O bad-op"; return s
  | _ => IO.println "O bad-op"; return s

partial def runRange (lines : Array String) (lo hi : Nat) (s : Sys) : IO Sys := do
  let mut i := lo
  let mut s := s
  while i < hi do
    let (s', next) ← execOp lines i hi s
    s := s'; i := next
  return s
where
  execOp (lines : Array String) (i hi : Nat) (s : Sys) : IO (Sys × Nat) := do
    let bad : IO (Sys × Nat) := do IO.println "O bad-op"; return (s, i + 1)
    let line := lines[i]!
    if line.length ≥ 2048 then return ← bad
    let toks := Driver.words line
    match toks with
    | [] => bad
    | op :: args =>
    if isProcOp op then return ← execProc lines i hi s op args
    if op = "dump" || op = "rm" then
      match args with
      | [ks] =>
        match ks.toNat? with
        | some k =>
          if k ≥ nFile then return ← bad
          if busy s k none then IO.println s!"O {op} {k} busy"; return (s, i + 1)
          if op = "rm" then
            let ex := (lookup k s.lib.files).isSome
            IO.println s!"O rm {k} ok={if ex then 1 else 0}"
            return ({ s with m := { s.m with lib := { s.lib with files := erase k s.lib.files } } }, i + 1)
          else
            match lookup k s.lib.files with
            | none => IO.println s!"O dump {k} absent"
            | some c => IO.println s!"O dump {k} len={c.length} h={(fnv c).toNat}"
            return (s, i + 1)
        | none => bad
      | _ => bad
    else
    match args with
    | [] => bad
    | os :: rest =>
    match os.toNat? with
    | none => bad
    | some o =>
    if o ≥ nObj then return ← bad
    if op = "new" then
      if o < nStack || (s.obj o).isSome then return ← bad
      match rest with
      | [] => return (← simple s o "new" (.new none) none, i + 1)
      | [ks, ms] =>
        match ks.toNat?, parseMode ms with
        | some k, some m =>
          if !fileOk k then return ← bad
          if busy s k (some o) then IO.println "O new busy"; return (s, i + 1)
          if k = fileFull && !(m = .w || m = .a) then IO.println "O new unsup"; return (s, i + 1)
          return (← simple s o "new" (.new (some (k, m))) none, i + 1)
        | _, _ => bad
      | _ => bad
    else
    if op = "new1" then
      -- new(File, $S(path)): exactly one constructor argument
      if o < nStack || (s.obj o).isSome then return ← bad
      match rest with
      | [ks] =>
        match ks.toNat? with
        | some k =>
          if !fileOk k then return ← bad
          return (← simple s o "new1" (.new1 k) none, i + 1)
        | none => bad
      | _ => bad
    else
    if op = "withnew" || op = "withnew0" || op = "withcall" then
      if o < nStack || (s.obj o).isSome then return ← bad
      match rest with
      | [lvs, ns] =>
        if op ≠ "withnew0" then return ← bad
        match parseLeave lvs, ns.toNat? with
        | some leave, some n => runWith lines i hi s o (.newFile o none) leave n
        | _, _ => bad
      | [ks, ms, lvs, ns] =>
        if op = "withnew0" then return ← bad
        match ks.toNat?, parseMode ms, parseLeave lvs, ns.toNat? with
        | some k, some m, some leave, some n =>
          if !fileOk k then return ← bad
          if s.depth > 16 then return ← bad
          if busy s k (some o) then IO.println s!"O {op} busy"; return (s, i + 1)
          if k = fileFull && !(m = .w || m = .a) then IO.println s!"O {op} unsup"; return (s, i + 1)
          runWith lines i hi s o (.newFile o (some (k, m))) leave n
        | _, _, _, _ => bad
      | _ => bad
    else
    if (s.obj o).isNone then return ← bad
    let nargs := rest.length
    if op = "copy" then
      -- copy <src> <dst>: File has no Copy instance, copy = assign(alloc(File), src) = memcpy
      match rest with
      | [ds] =>
        match ds.toNat? with
        | some dst =>
          if dst < nStack || dst ≥ nObj || (s.obj dst).isSome then return ← bad
          match s.exec dst (.copy o) with
          | none => bad
          | some (s', r) => emit s' dst "copy" (excText r.out) "" r.calls; return (s', i + 1)
        | none => bad
      | _ => bad
    else if op = "assign" then
      -- assign <dst> <src>: File has no Assign instance, assign = memcpy(dst, src, size)
      match rest with
      | [ss] =>
        match ss.toNat? with
        | some src =>
          if src ≥ nObj || (s.obj src).isNone || src = o then return ← bad
          match s.exec o (.assign src) with
          | none => bad
          | some (s', r) => emit s' o "assign" (excText r.out) "" r.calls; return (s', i + 1)
        | none => bad
      | _ => bad
    else
    let sh := sharedState s o
    if sh ≠ 0 && !sharedAllowed sh op then IO.println s!"O {op} unsup"; return (s, i + 1)
    if op = "del" then
      if o < nStack || nargs ≠ 0 || s.inWith.contains o then return ← bad
      return (← simple s o "del" .del none, i + 1)
    else if op = "drop" then
      -- the collector as the closer: GC_Sweep → File_Del, then the object is gone — the model's `del`
      if o < nStack || nargs ≠ 0 || s.inWith.contains o then return ← bad
      if onFull s o then IO.println "O drop unsup"; return (s, i + 1)
      return (← simple s o "drop" .del none, i + 1)
    else if op = "open" then
      match rest with
      | [ks, ms] =>
        match ks.toNat?, parseMode ms with
        | some k, some m =>
          if !fileOk k then return ← bad
          if busy s k (some o) then IO.println "O open busy"; return (s, i + 1)
          if k = fileFull && !(m = .w || m = .a) then IO.println "O open unsup"; return (s, i + 1)
          -- extension round: the statements of File_Open as the translator extracted them, executed on this very state
          let f0 := s.m.held o
          let a := fileOpenSrc refIO cfg s.m.lib f0 k m
          let b := fileOpen refIO cfg s.m.lib f0 k m
          let same := a.f == b.f && a.calls == b.calls && excText a.out == excText b.out && a.lib.streams == b.lib.streams
          let br := openBranch b f0.isSome
          let cnt := match s.openBr.find? (fun p => p.1 == br) with | some p => p.2 | none => 0
          let s := { s with openSrcBad := s.openSrcBad + (if same then 0 else 1),
                            openBr := (br, cnt + 1) :: s.openBr.filter (fun p => p.1 != br) }
          let s' ← simple s o "open" (.op (.open k m)) none
          return (s', i + 1)
        | _, _ => bad
      | _ => bad
    else if op = "close" then
      if nargs ≠ 0 then return ← bad
      return (← simple s o "close" (.op .close) none, i + 1)
    else if op = "stop" then
      if nargs ≠ 0 then return ← bad
      return (← simple s o "stop" (.op .stop) none, i + 1)
    else if op = "with" || op = "withx" || op = "withv" then
      match (if op = "withv" then rest else [if op = "with" then "fall" else "throw"] ++ rest) with
      | [lvs, ns] =>
        match parseLeave lvs, ns.toNat? with
        | some leave, some n => runWith lines i hi s o (.var o) leave n
        | _, _ => bad
      | _ => bad
    else if op = "seek" then
      match rest with
      | [offs, whs] =>
        match offs.toInt?, parseWhence whs with
        | some off, some wh =>
          if onFull s o then IO.println "O seek unsup"; return (s, i + 1)
          return (← simple s o "seek" (.op (.seek off wh)) none, i + 1)
        | _, _ => bad
      | _ => bad
    else if op = "tell" then
      if nargs ≠ 0 then return ← bad
      return (← simple s o "tell" (.op .tell) (some (fun v => match v with | .nat n => toString n | _ => "?")), i + 1)
    else if op = "flush" then
      if nargs ≠ 0 then return ← bad
      return (← simple s o "flush" (.op .flush) none, i + 1)
    else if op = "eof" then
      if nargs ≠ 0 then return ← bad
      return (← simple s o "eof" (.op .eof) (some (fun v => match v with | .bool b => (if b then "1" else "0") | _ => "?")), i + 1)
    else if op = "read" then
      match rest with
      | [ns] =>
        match ns.toNat? with
        | none => bad
        | some n =>
          if n > maxIO then return ← bad
          if readAfterWrite s o || onFull s o then IO.println "O read unsup"; return (s, i + 1)
          match s.exec o (.op (.read n)) with
          | none => bad
          | some (s', r) =>
            let (ret, data) := match r.out with | .ok (.data num d) => (toString num, d) | _ => ("-1", [])
            emit s' o "read" (excText r.out) s!"ret={ret} got={data.length} h={(fnv data).toNat}" r.calls
            return ({ s' with nontrivial := s'.nontrivial + (if data.length > 0 then 1 else 0) }, i + 1)
      | _ => bad
    else if op = "write" then
      match rest with
      | [ls, ss] =>
        match ls.toNat?, ss.toNat? with
        | some len, some seed =>
          if len > maxIO then return ← bad
          return (← doWrite s o "write" (genBytes len (UInt64.ofNat seed)), i + 1)
        | _, _ => bad
      | _ => bad
    else if op = "writehex" then
      match rest with
      | [hs] =>
        match parseHex hs with
        | some d => return (← doWrite s o "writehex" d, i + 1)
        | none => bad
      | _ => bad
    else if op = "print" then
      match rest with
      | [vs] =>
        match vs.toInt? with
        | none => bad
        | some v =>
          if writeAfterRead s o || onFull s o || tooFar s o then IO.println "O print unsup"; return (s, i + 1)
          return (← simple s o "print" (.op (.print (printIntFrags v))) (some (fun x => match x with | .int n => toString n | _ => "?")), i + 1)
      | _ => bad
    else if op = "tp" then return (← doTp s o rest, i + 1)
    else if op = "ts" then return (← doTs s o rest, i + 1)
    else if op = "scan" then
      if nargs ≠ 0 then return ← bad
      let unsup : Bool := match s.stream o with
        | some st => st.last = .wr || st.file = fileFull ||
            (st.mode.canRead && !scanSupported ((s.lib.content st.file).drop st.pos))
        | none => false
      if unsup then IO.println "O scan unsup"; return (s, i + 1)
      match s.exec o (.op .scanInt) with
      | none => bad
      | some (s', r) =>
        let v := match r.out with | .ok (.int n) => toString n | _ => "-777"
        emit s' o "scan" (excText r.out) s!"val={v}" r.calls
        return (s', i + 1)
    else bad

  isProcOp (op : String) : Bool :=
    ["pgen", "pnew", "pnew0", "pnew1", "popen", "pclose", "pstop", "pdel", "pwith", "pread", "pwrite", "peof", "ptell", "pseek",
     "pflush", "pprint", "pscan"].contains op

  /-- the ops on Process objects: the same wrappers (`Cello.File.step`) over the reference pipe library, with the facts
      about Process_Close read from the source -/
  execProc (lines : Array String) (i hi : Nat) (s : Sys) (op : String) (args : List String) : IO (Sys × Nat) := do
    let bad : IO (Sys × Nat) := do IO.println "O bad-op"; return (s, i + 1)
    match args with
    | [] => bad
    | os :: rest =>
    if op = "pgen" then
      match os.toNat?, rest with
      | some k, [ls, ss] =>
        match ls.toNat?, ss.toNat? with
        | some len, some seed =>
          if k ≥ nPipeIn || len > pCap then return ← bad
          if pbusy s (cmdCat + k) none then IO.println "O pgen busy"; return (s, i + 1)
          let d := genBytes len (UInt64.ofNat seed)
          IO.println s!"O pgen {k} len={len} h={(fnv d).toNat}"
          return ({ s with pm := { s.pm with lib := { s.pm.lib with inputs := insert k d s.pm.lib.inputs } } }, i + 1)
        | _, _ => bad
      | _, _ => bad
    else
    match os.toNat? with
    | none => bad
    | some o =>
    if o ≥ nProc then return ← bad
    if op = "pnew" || op = "pnew0" || op = "pnew1" then
      if o < nPStack || (s.pobj o).isSome then return ← bad
      if op = "pnew0" then
        if rest.length ≠ 0 then return ← bad
        return (← psimple s o op (.pnew none) noExtra, i + 1)
      if op = "pnew1" then
        match rest with
        | [cs] =>
          match cs.toNat? with
          | some c => if !cmdKnown c then return ← bad
                      return (← psimple s o op (.pnew none) noExtra, i + 1)
          | none => bad
        | _ => bad
      else
      match rest with
      | [cs, ms] =>
        match cs.toNat?, parsePMode ms with
        | some c, some m =>
          if !cmdKnown c then return ← bad
          if pbusy s c (some o) then IO.println "O pnew busy"; return (s, i + 1)
          return (← psimple s o "pnew" (.pnew (some (c, m))) noExtra, i + 1)
        | _, _ => bad
      | _ => bad
    else
    if (s.pobj o).isNone then return ← bad
    let st := s.pstream o
    let wr := match st with | some x => x.mode = .w | none => false
    let rd := match st with | some x => x.mode = .r | none => false
    let sink := match st with | some x => x.cmd ≥ cmdCat | none => false
    let wlen := match st with | some x => x.data.length | none => 0
    let nargs := rest.length
    if op = "pdel" then
      if o < nPStack || nargs ≠ 0 || s.pInWith.contains o then return ← bad
      return (← psimple s o "pdel" .del noExtra, i + 1)
    else if op = "popen" then
      match rest with
      | [cs, ms] =>
        match cs.toNat?, parsePMode ms with
        | some c, some m =>
          if !cmdKnown c then return ← bad
          if pbusy s c (some o) then IO.println "O popen busy"; return (s, i + 1)
          return (← psimple s o "popen" (.op (.open c m)) noExtra, i + 1)
        | _, _ => bad
      | _ => bad
    else if op = "pclose" then
      if nargs ≠ 0 then return ← bad
      return (← psimple s o "pclose" (.op .close) noExtra, i + 1)
    else if op = "pstop" then
      if nargs ≠ 0 then return ← bad
      return (← psimple s o "pstop" (.op .stop) noExtra, i + 1)
    else if op = "pwith" then
      match rest with
      | [lvs, ns] =>
        match parseLeave lvs, ns.toNat? with
        | some leave, some n =>
          if s.depth > 16 then return ← bad
          let stop := min (i + 1 + n) hi
          let ic := initClause pipeIO pcfg s.pm (.var o)
          let s0 := { s with pm := ic.m, ev := s.ev ++ ic.evs }
          pemit s0 o "pwith-enter" "none" "" ic.calls
          let s1 ← runRange lines (i + 1) stop { s0 with pInWith := o :: s0.pInWith, depth := s0.depth + 1 }
          let s1 := { s1 with pInWith := s1.pInWith.drop 1, depth := s1.depth - 1 }
          match leave with
          | .throw => pemit s1 o "pwith-abort" "ValueError" "" []; return ({ s1 with ev := s1.ev ++ [.left leave] }, stop)
          | .brk => pemit s1 o "pwith-break" "none" "" []; return ({ s1 with ev := s1.ev ++ [.left leave] }, stop)
          | .ret => pemit s1 o "pwith-return" "none" "" []; return ({ s1 with ev := s1.ev ++ [.left leave] }, stop)
          | _ =>
            let c := stepClause pipeIO pcfg cfgW s1.pm (.var o) o
            let s2 := { s1 with pm := c.m, ev := s1.ev ++ c.evs }
            pemit s2 o "pwith-exit" (excText c.out) "" c.calls
            return (s2, stop)
        | _, _ => bad
      | _ => bad
    else if op = "pseek" then
      match rest with
      | [offs, whs] =>
        match offs.toInt?, parseWhence whs with
        | some off, some wh => return (← psimple s o "pseek" (.op (.seek off wh)) noExtra, i + 1)
        | _, _ => bad
      | _ => bad
    else if op = "ptell" then
      if nargs ≠ 0 then return ← bad
      return (← psimple s o "ptell" (.op .tell) (retOf (fun v => match v with | .nat n => toString n | _ => "?")), i + 1)
    else if op = "pflush" then
      if nargs ≠ 0 then return ← bad
      if rd then IO.println "O pflush unsup"; return (s, i + 1)
      return (← psimple s o "pflush" (.op .flush) noExtra, i + 1)
    else if op = "peof" then
      if nargs ≠ 0 then return ← bad
      return (← psimple s o "peof" (.op .eof) (retOf (fun v => match v with | .bool b => (if b then "1" else "0") | _ => "?")), i + 1)
    else if op = "pread" then
      match rest with
      | [ns] =>
        match ns.toNat? with
        | none => bad
        | some n =>
          if n > maxIO then return ← bad
          return (← psimple s o "pread" (.op (.read n)) (fun r =>
            let (ret, data) := match r.out with | .ok (.data num d) => (toString num, d) | _ => ("-1", [])
            s!"ret={ret} got={data.length} h={(fnv data).toNat}"), i + 1)
      | _ => bad
    else if op = "pwrite" then
      match rest with
      | [ls, ss] =>
        match ls.toNat?, ss.toNat? with
        | some len, some seed =>
          if len > pCap then return ← bad
          if wr && (!sink || wlen + len > pCap) then IO.println "O pwrite unsup"; return (s, i + 1)
          return (← psimple s o "pwrite" (.op (.write (genBytes len (UInt64.ofNat seed))))
            (retOf (fun v => match v with | .nat n => toString n | _ => "?")), i + 1)
        | _, _ => bad
      | _ => bad
    else if op = "pprint" then
      match rest with
      | [vs] =>
        match vs.toInt? with
        | none => bad
        | some v =>
          if rd || (wr && (!sink || wlen + 32 > pCap)) then IO.println "O pprint unsup"; return (s, i + 1)
          return (← psimple s o "pprint" (.op (.print (printIntFrags v))) (retOf (fun x => match x with | .int n => toString n | _ => "?")), i + 1)
      | _ => bad
    else if op = "pscan" then
      if nargs ≠ 0 then return ← bad
      if st.isSome || (s.pobj o) ≠ some none then IO.println "O pscan unsup"; return (s, i + 1)
      return (← psimple s o "pscan" (.op .scanInt) (fun _ => "val=-777"), i + 1)
    else bad

  /-- `with (f in <src>) { the next n ops }`: the model's init clause, the body, then — unless the body was left by break or
      an exception — the model's step clause (`Cello.File.initClause` / `stepClause`, the same functions `execStmt` is made of) -/
  runWith (lines : Array String) (i hi : Nat) (s : Sys) (o : Nat) (src : Src) (leave : Leave) (n : Nat) : IO (Sys × Nat) := do
    if s.depth > 16 then IO.println "O bad-op"; return (s, i + 1)
    let stop := min (i + 1 + n) hi
    let ic := initClause refIO cfg s.m src
    let s0 := { s with m := ic.m, ev := s.ev ++ ic.evs }
    match ic.x with
    | none =>
      emit s0 o "with-enter" (excText ic.out) "" ic.calls
      return (s0, stop)
    | some x =>
      emit s0 o "with-enter" "none" "" ic.calls
      let s1 ← runRange lines (i + 1) stop { s0 with inWith := o :: s0.inWith, depth := s0.depth + 1 }
      let s1 := { s1 with inWith := s1.inWith.drop 1, depth := s1.depth - 1 }
      match leave with
      | .throw =>
        emit s1 o "with-abort" "ValueError" "" []
        return ({ s1 with ev := s1.ev ++ [.left leave] }, stop)
      | .brk =>
        emit s1 o "with-break" "none" "" []
        return ({ s1 with ev := s1.ev ++ [.left leave] }, stop)
      | .ret =>
        emit s1 o "with-return" "none" "" []
        return ({ s1 with ev := s1.ev ++ [.left leave] }, stop)
      | _ =>
        let c := stepClause refIO cfg cfgW s1.m src x
        let s2 := { s1 with m := c.m, ev := s1.ev ++ c.evs }
        emit s2 o "with-exit" (excText c.out) "" c.calls
        return (s2, stop)

/-- end of the op file: delete the heap objects, close the stack objects -/
def finish (s : Sys) : Sys := Id.run do
  let mut s := s
  for k in [0:nObj] do
    let o := nObj - 1 - k
    match s.obj o with
    | none => pure ()
    | some f =>
      let mop : Option MOp := if o ≥ nStack then some .del else if f.isSome then some (.op .close) else none
      match mop with
      | none => pure ()
      | some mop => match s.exec o mop with
        | some (s', _) => s := s'
        | none => pure ()
  return s

/-- … and the Process objects, before the Files (the harness does the same) -/
def finishP (s : Sys) : Sys := Id.run do
  let mut s := s
  for k in [0:nProc] do
    let o := nProc - 1 - k
    match s.pobj o with
    | none => pure ()
    | some f =>
      let mop : Option MOp := if o ≥ nPStack then some .del else if f.isSome then some (.op .close) else none
      match mop with
      | none => pure ()
      | some mop => match s.pexec o mop with
        | some (s', _) => s := s'
        | none => pure ()
  return s

end Driver.FileDrv

open Driver.FileDrv in
def main (args : List String) : IO Unit := do
  let raw ← Driver.inputLines args
  let lines := raw.filter (fun l => !Driver.isSkippable l)
  let s ← runRange lines 0 lines.size Sys.init
  let s := finish (finishP s)
  let calls := s.m.log.map (fun p => p.2)
  let nOpen := (calls.filter isOpenOk).length
  let nFail := (calls.filter (fun c => match c with | .fopen _ _ none => true | _ => false)).length
  let nClose := (calls.filter isClose).length
  IO.println s!"O end fopen={nOpen} fail={nFail} fclose={nClose} live={s.lib.streams.length}"
  let pcalls := s.pm.log.map (fun p => p.2)
  let npFail := (pcalls.filter (fun c => match c with | .fopen _ _ none => true | _ => false)).length
  IO.println s!"O pend popen={(pcalls.filter isOpenOk).length} fail={npFail} pclose={(pcalls.filter isClose).length} plive={s.pm.lib.streams.length}"
  -- the model's own verdict on its log (used when a proof no longer checks): every object's calls well bracketed
  let okTrack := (List.range nObj).all (fun o => (track none (proj o s.m.log)).isSome) &&
    (List.range nProc).all (fun o => (track none (proj o s.pm.log)).isSome) && (gtrack [] (untag s.pm.log)).isSome
  IO.println s!"R bracketed={okTrack}"
  -- … and over handles, for the log of the whole process (rejects a handle used by two objects)
  IO.println s!"R gbracketed={(gtrack [] (untag s.m.log)).isSome} fresh={freshCalls [] (untag s.m.log)}"
  -- … and on the events of its with loops: every source expression evaluated once, every stop_in on the loop variable
  IO.println s!"R withproto={(wtrack ([], none) s.ev) == some ([], none)}"
  -- … and on File_Open / with_in as PROGRAMS extracted from the source: the program agreed with the model on every sopen of this history
  IO.println s!"R opensrc={s.openSrcBad == 0} withsrc={withCfgOf CelloGen.File.withProg == some cfgW}"
  IO.println s!"I open-branches {" ".intercalate (s.openBr.map (fun p => s!"{p.1}={p.2}"))}"
  IO.println s!"S reads={s.nontrivial}"
