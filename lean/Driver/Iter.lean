import Cello.IterExpr
import Cello.IterExprSrc
import Driver.Common
/- driver for engine `iter` (C11).

   op file:  `V <expr>`   as `W` (the harness builds the top-level view with the stack macros of Cello.h; same model)
             `W <expr>`   build the iterable, walk it forwards (iter_init / iter_next) and backwards (iter_last / iter_prev),
                           ask len and get(0 … len-1);   prints
                 O f=[items] fe=<term|ub|hang|fuel> b=[items] be=<…> len=<n|-> get=[values|!] gx=[get(-1) get(-len) get(-len-1) get(len)]
                 or   O construct=<Exception>
             `S <n> <a> <b> <c>`  Slice_Arg / slice_stack only: prints  O range=<start>,<stop>,<step> len=<Range_Len>
             (W / V / S: followed by `O extracted-code-differs …` when the model built from the terms extracted from the
              sources — CelloGen/Iter.lean, `denoteSrc` — observes something else than the hand model; never on the unchanged tree)
             `G <i> <k> <expr>`   foreach whose body calls get(obj, k) right after item number i (from 0):  O g=[items] ge=<end>
             `Z <k> <expr>`       zip(x, …, x) with the ONE object x = <expr> k times (k ≥ 1): as W, without get
             `M <k> <expr>`       mem(obj, $I(k)) for a Range, a Slice, a Filter or a Map whose elements are Ints:  O mem=<1|0|ub|hang|fuel>
             `R <a> <b> <c>`      the Range (a, b, c) on int64_t (`rangeI64`: a signed overflow is `ub`), walked as W without get:
                                  O f=[…] fe=… b=[…] be=… len=<n|ub> get=- gx=-
   expr ::= (array v*) | (list v*) | (tuple id*) | (table s*) with s = `.` | key | (tree S) with S = `.` | (S k S) | (rtree k*)
          | (range a*) | (slice E a*) | (reverse E) | (zip E*) | (enum E) | (filter E m r) | (map E a b)       a = int | `_`
          | (mut list (v*) sop*) | (mut array (v*) sop*) | (mut table (k*) kop*) | (mut tree (k*) kop*)
            sop ::= (push v) | (pop) | (push_at v i) | (pop_at i) | (rem v) | (put i v) | (concat v*) | (resize n)
            kop ::= (set k) | (rem k) | (resize n)
             `L <mut expr>`  white-box layout after the history, with the outcome of every mutation (`.` ok, I V K F the exception):
                 O links out=:… nitems= head= tail= vals=[…] prev=[…]   (List: the chain from head along next, by position)
                 O store out=:… nitems= nslots= vals=[…]                (Array)
                 O slots out=:… nitems= nslots= [i:key …]               (Table)
                 O tree out=:… nitems= keys=[…]                         (Tree: in-order over the child pointers) -/
open Cello.Iter

namespace IterDrv

def walkCap : Nat := 1000

def tokenize (s : String) : List String :=
  let s := s.replace "(" " ( " |>.replace ")" " ) "
  Driver.words s

def parseInt? (s : String) : Option Int := s.toInt?

def parseArg? (s : String) : Option (Option Int) :=
  if s = "_" then some none else (s.toInt?).map some

/-- all tokens up to the matching `)` must satisfy `f` -/
def takeAtoms {β : Type} (f : String → Option β) : List String → Option (List β × List String)
  | [] => none
  | ")" :: rest => some ([], rest)
  | t :: rest => match f t, takeAtoms f rest with
    | some v, some (vs, rest') => some (v :: vs, rest')
    | _, _ => none


def parseNat? (s : String) : Option Nat := s.toNat?

/-- one mutation of a sequence container: tokens after `(` up to and including `)` -/
def parseSOp : List String → Option (SOp Int × List String)
  | "push" :: v :: ")" :: r => (v.toInt?).map fun v => (.push v, r)
  | "pop" :: ")" :: r => some (.pop, r)
  | "push_at" :: v :: i :: ")" :: r => match v.toInt?, i.toInt? with
    | some v, some i => some (.pushAt v i, r)
    | _, _ => none
  | "pop_at" :: i :: ")" :: r => (i.toInt?).map fun i => (.popAt i, r)
  | "rem" :: v :: ")" :: r => (v.toInt?).map fun v => (.rem v, r)
  | "put" :: i :: v :: ")" :: r => match i.toInt?, v.toInt? with
    | some i, some v => some (.put i v, r)
    | _, _ => none
  | "concat" :: rest => (takeAtoms parseInt? rest).map fun (vs, r) => (.concat vs, r)
  | "resize" :: n :: ")" :: r => (n.toNat?).map fun n => (.resize n, r)
  | _ => none

def parseKOp : List String → Option (KOp × List String)
  | "set" :: k :: ")" :: r => (k.toInt?).map fun k => (.set k, r)
  | "rem" :: k :: ")" :: r => (k.toInt?).map fun k => (.rem k, r)
  | "resize" :: n :: ")" :: r => (n.toNat?).map fun n => (.resize n, r)
  | _ => none

/-- `(op …)*` up to the closing `)` of the `mut` form -/
partial def parseOps {β : Type} (f : List String → Option (β × List String)) : List String → Option (List β × List String)
  | ")" :: rest => some ([], rest)
  | "(" :: rest => match f rest with
    | some (op, r) => (parseOps f r).map fun (ops, r') => (op :: ops, r')
    | none => none
  | _ => none

def parseMut : List String → Option (Expr × List String)
  | kind :: "(" :: rest =>
    match takeAtoms parseInt? rest with
    | some (init, r) =>
      if kind = "list" then (parseOps parseSOp r).map fun (ops, r') => (.mlist init ops, r')
      else if kind = "array" then (parseOps parseSOp r).map fun (ops, r') => (.marray init ops, r')
      else if kind = "table" then (parseOps parseKOp r).map fun (ops, r') => (.mtable init ops, r')
      else if kind = "tree" then (parseOps parseKOp r).map fun (ops, r') => (.mtree init ops, r')
      else none
    | none => none
  | _ => none

partial def parseTree : List String → Option (T Int × List String)
  | "." :: rest => some (.nil, rest)
  | "(" :: rest =>
    match parseTree rest with
    | some (l, k :: rest1) =>
      match k.toInt?, parseTree rest1 with
      | some k, some (r, ")" :: rest2) => some (.node l k r, rest2)
      | _, _ => none
    | _ => none
  | _ => none

mutual
partial def parseExpr : List String → Option (Expr × List String)
  | "(" :: "array" :: rest => (takeAtoms parseInt? rest).map fun (vs, r) => (.array vs, r)
  | "(" :: "list" :: rest => (takeAtoms parseInt? rest).map fun (vs, r) => (.list vs, r)
  | "(" :: "tuple" :: rest => (takeAtoms String.toNat? rest).map fun (vs, r) => (.tuple vs, r)
  | "(" :: "table" :: rest =>
    (takeAtoms (fun t => if t = "." then some none else (t.toInt?).map some) rest).map fun (vs, r) => (.table vs, r)
  | "(" :: "rtree" :: rest => (takeAtoms parseInt? rest).map fun (vs, r) => (.rtree vs, r)
  | "(" :: "range" :: rest => (takeAtoms parseArg? rest).map fun (vs, r) => (.range vs, r)
  | "(" :: "tree" :: rest =>
    match parseTree rest with
    | some (t, ")" :: r) => some (.tree t, r)
    | _ => none
  | "(" :: "slice" :: rest =>
    match parseExpr rest with
    | some (e, r) => (takeAtoms parseArg? r).map fun (vs, r') => (.slice e vs, r')
    | none => none
  | "(" :: "reverse" :: rest =>
    match parseExpr rest with
    | some (e, ")" :: r) => some (.slice e [none, none, some (-1)], r)
    | _ => none
  | "(" :: "enum" :: rest =>
    match parseExpr rest with
    | some (e, ")" :: r) => some (.enum e, r)
    | _ => none
  | "(" :: "filter" :: rest =>
    match parseExpr rest with
    | some (e, m :: q :: ")" :: r) =>
      match m.toInt?, q.toInt? with
      | some m, some q => some (.filter e m q, r)
      | _, _ => none
    | _ => none
  | "(" :: "map" :: rest =>
    match parseExpr rest with
    | some (e, a :: b :: ")" :: r) =>
      match a.toInt?, b.toInt? with
      | some a, some b => some (.map e a b, r)
      | _, _ => none
    | _ => none
  | "(" :: "zip" :: rest => (parseExprs rest).map fun (es, r) => (.zip es, r)
  | "(" :: "mut" :: rest => parseMut rest
  | _ => none
partial def parseExprs : List String → Option (List Expr × List String)
  | ")" :: rest => some ([], rest)
  | toks => match parseExpr toks with
    | some (e, r) => (parseExprs r).map fun (es, r') => (e :: es, r')
    | none => none
end

/-- a walk cut by the cap is printed by its first 16 items only (same rule in the harness) -/
def showItems (l : List Val) (e : End := .term) : String :=
  let l := if e = .fuel then l.take 16 else l
  "[" ++ " ".intercalate (l.map Val.show) ++ "]"

def excOf : String → String
  | "no-len" => "ClassError"
  | "mut-undef" => "Undefined"
  | _ => "FormatError"

def reportI (r : Except String (Iterable Val)) (withGet : Bool := true) : String :=
  match r with
  | .error m => s!"O construct={excOf m}"
  | .ok I =>
    let (f, fe) := I.forward walkCap
    let (b, be) := I.backward walkCap
    let lenS := match I.len with | some n => toString n | none => "-"
    let getS := match I.len, (if withGet then I.get else none) with
      | some n, some g => "[" ++ " ".intercalate ((List.range n).map fun (i : Nat) => match g (Int.ofNat i) with
          | some v => v.show | none => "!") ++ "]"
      | _, _ => "-"
    -- get at and beyond the ends: -1, -len, -len-1, len
    let gxS := match I.len, (if withGet then I.get else none) with
      | some n, some g => "[" ++ " ".intercalate ([(-1 : Int), -(n : Int), -(n : Int) - 1, (n : Int)].map fun k => match g k with
          | some v => v.show | none => "!") ++ "]"
      | _, _ => "-"
    s!"O f={showItems f fe} fe={fe.show} b={showItems b be} be={be.show} len={lenS} get={getS} gx={gxS}"

def report (e : Expr) : String := reportI (denote e)

/-- the same observation through the terms EXTRACTED from the sources (CelloGen/Iter.lean: Slice_Arg, Filter_Iter_*,
    Table_Iter_Last / _Prev); printed as an extra line only when it differs from the hand model's -/
def reportSrc (e : Expr) : Option String :=
  if !e.usesExtracted then none else
  let a := reportI (denote e)
  let b := reportI (denoteSrc e)
  if a = b then none else some ("O extracted-code-differs " ++ (b.drop 2).toString)

/-- `G i k e`: foreach over `e` whose body calls `get(obj, k)` right after item number `i` -/
def reportG (i : Nat) (k : Int) (e : Expr) : String :=
  match denote e with
  | .error m => s!"O construct={excOf m}"
  | .ok I =>
    let (g, ge) := I.forwardWith (fun j => if j = i then some k else none) walkCap
    s!"O g={showItems g ge} ge={ge.show}"

/-- `Z k e`: the one object `e`, `k` times in a Zip -/
def reportZ (k : Nat) (e : Expr) : String :=
  match denote e with
  | .error m => s!"O construct={excOf m}"
  | .ok I => reportI (.ok (embI (zipSameI I k) Val.tup)) false


/-- `M k e` -/
def reportM (k : Int) (e : Expr) : String :=
  match memOf e k walkCap with
  | none => "O bad-op"
  | some (.error m) => s!"O construct={excOf m}"
  | some (.ok r) => s!"O mem={r.show}"

/-- `R a b c`: the Range on int64_t -/
def reportR (a b c : Int) : String :=
  if !(isI64 a && isI64 b && isI64 c) then "O bad-op" else
  let I := embI (rangeI64 a b c) Val.int
  let (f, fe) := I.forward walkCap
  let (b', be) := I.backward walkCap
  let lenS := if rangeLenOk a b c then toString (rangeLen a b c) else "ub"
  s!"O f={showItems f fe} fe={fe.show} b={showItems b' be} be={be.show} len={lenS} get=- gx=-"

def outStr (os : List MOut) : String := ":" ++ String.join (os.map MOut.char)
def ints (l : List Int) : String := "[" ++ " ".intercalate (l.map toString) ++ "]"

def posOf (addrs : List Nat) : Option Nat → String
  | none => "-"
  | some a => match addrs.findIdx? (· == a) with
    | some i => toString i
    | none => "?"

/-- the white-box layout line of a mutated container (`L` op) -/
def layout : Expr → String
  | .mlist init ops =>
    match LL.new init with
    | (l0, .ok) =>
      let (l, os) := LL.run 0 l0 ops
      if os.contains .undef then "O mut-undef" else
      let ch := l.chain (l.nitems + 2) l.head
      let addrs := ch.map (·.1)
      let prevs := ch.map (fun c => posOf addrs c.2.2)
      s!"O links out={outStr os} nitems={l.nitems} head={posOf addrs l.head} tail={posOf addrs l.tail} vals={ints (ch.map (·.2.1))} prev=[{" ".intercalate prevs}]"
    | _ => "O mut-undef"
  | .marray init ops =>
    match AR.new init with
    | (a0, .ok) =>
      let (a, os) := AR.run a0 ops
      if os.contains .undef then "O mut-undef" else
      let vals := (a.store.take a.nitems).map (fun c => match c with | some v => toString v | none => "?")
      s!"O store out={outStr os} nitems={a.nitems} nslots={a.store.length} vals=[{" ".intercalate vals}]"
    | _ => "O mut-undef"
  | .mtable init ops =>
    let (t, os) := tabRun (Cello.Table.new tabCfg) (init.map KOp.set ++ ops)
    if os.contains .undef then "O mut-undef" else
    let cells := ((tabSlots t).zipIdx.filterMap (fun (c : Option Int × Nat) => c.1.map (fun k => s!"{c.2}:{k}")))
    s!"O slots out={outStr (os.drop init.length)} nitems={t.nitems} nslots={t.n} [{" ".intercalate cells}]"
  | .mtree init ops =>
    let (m, os) := treeRun ⟨.nil, 0⟩ (init.map KOp.set ++ ops)
    s!"O tree out={outStr (os.drop init.length)} nitems={m.nitems} keys={ints m.root.inorder}"
  | _ => "O bad-op"

end IterDrv

def main (args : List String) : IO Unit := do
  let lines ← Driver.inputLines args
  for l in lines do
    if Driver.isSkippable l then continue
    if l.startsWith "W " || l.startsWith "V " then
      match IterDrv.parseExpr (IterDrv.tokenize (l.drop 2).toString) with
      | some (e, []) =>
        IO.println (IterDrv.report e)
        match IterDrv.reportSrc e with
        | some x => IO.println x
        | none => pure ()
      | _ => IO.println "O bad-op"
    else if l.startsWith "G " then
      match IterDrv.tokenize (l.drop 2).toString with
      | i :: k :: rest =>
        match i.toNat?, k.toInt?, IterDrv.parseExpr rest with
        | some i, some k, some (e, []) => IO.println (IterDrv.reportG i k e)
        | _, _, _ => IO.println "O bad-op"
      | _ => IO.println "O bad-op"
    else if l.startsWith "Z " then
      match IterDrv.tokenize (l.drop 2).toString with
      | k :: rest =>
        match k.toNat?, IterDrv.parseExpr rest with
        | some k, some (e, []) => if k = 0 ∨ k > 6 then IO.println "O bad-op" else IO.println (IterDrv.reportZ k e)
        | _, _ => IO.println "O bad-op"
      | _ => IO.println "O bad-op"
    else if l.startsWith "M " then
      match IterDrv.tokenize (l.drop 2).toString with
      | k :: rest =>
        match k.toInt?, IterDrv.parseExpr rest with
        | some k, some (e, []) => IO.println (IterDrv.reportM k e)
        | _, _ => IO.println "O bad-op"
      | _ => IO.println "O bad-op"
    else if l.startsWith "R " then
      match (Driver.words (l.drop 2).toString).mapM String.toInt? with
      | some [a, b, c] => IO.println (IterDrv.reportR a b c)
      | _ => IO.println "O bad-op"
    else if l.startsWith "L " then
      match IterDrv.parseExpr (IterDrv.tokenize (l.drop 2).toString) with
      | some (e, []) => IO.println (IterDrv.layout e)
      | _ => IO.println "O bad-op"
    else if l.startsWith "S " then
      match (Driver.words (l.drop 2).toString) with
      | n :: rest =>
        match n.toNat?, rest.mapM IterDrv.parseArg? with
        | some n, some as =>
          match sliceStack n as with
          | some (a, b, c) => IO.println s!"O range={a},{b},{c} len={rangeLen a b c}"
          | none => IO.println "O construct=FormatError"
          -- Slice_Arg as EXTRACTED from src/Iter.c on the same arguments
          if sliceStackSrc n as != sliceStack n as then
            match sliceStackSrc n as with
            | some (a, b, c) => IO.println s!"O extracted-code-differs range={a},{b},{c}"
            | none => IO.println "O extracted-code-differs construct=FormatError"
        | _, _ => IO.println "O bad-op"
      | _ => IO.println "O bad-op"
    else IO.println "O bad-op"
