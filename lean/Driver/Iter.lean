import Cello.Iter
import Driver.Common
/- driver for engine `iter` (C11).

   op file:  `V <expr>`   as `W` (the harness builds the top-level view with the stack macros of Cello.h; same model)
             `W <expr>`   build the iterable, walk it forwards (iter_init / iter_next) and backwards (iter_last / iter_prev),
                           ask len and get(0 … len-1);   prints
                 O f=[items] fe=<term|ub|hang|fuel> b=[items] be=<…> len=<n|-> get=[values|!]     or   O construct=<Exception>
             `S <n> <a> <b> <c>`  Slice_Arg / slice_stack only: prints  O range=<start>,<stop>,<step> len=<Range_Len>
   expr ::= (array v*) | (list v*) | (tuple id*) | (table s*) with s = `.` | key | (tree S) with S = `.` | (S k S) | (rtree k*)
          | (range a*) | (slice E a*) | (reverse E) | (zip E*) | (enum E) | (filter E m r) | (map E a b)       a = int | `_` -/
open Cello.Iter

namespace IterDrv

def walkCap : Nat := 1000

def tokenize (s : String) : List String :=
  let s := s.replace "(" " ( " |>.replace ")" " ) "
  Driver.words s

def parseInt? (s : String) : Option Int := s.toInt?

def parseArg? (s : String) : Option (Option Int) :=
  if s = "_" then some none else (s.toInt?).map some

/-- all tokens up to the matching `)` must satisfy `f` -/
def takeAtoms {β : Type} (f : String → Option β) : List String → Option (List β × List String)
  | [] => none
  | ")" :: rest => some ([], rest)
  | t :: rest => match f t, takeAtoms f rest with
    | some v, some (vs, rest') => some (v :: vs, rest')
    | _, _ => none

partial def parseTree : List String → Option (T Int × List String)
  | "." :: rest => some (.nil, rest)
  | "(" :: rest =>
    match parseTree rest with
    | some (l, k :: rest1) =>
      match k.toInt?, parseTree rest1 with
      | some k, some (r, ")" :: rest2) => some (.node l k r, rest2)
      | _, _ => none
    | _ => none
  | _ => none

mutual
partial def parseExpr : List String → Option (Expr × List String)
  | "(" :: "array" :: rest => (takeAtoms parseInt? rest).map fun (vs, r) => (.array vs, r)
  | "(" :: "list" :: rest => (takeAtoms parseInt? rest).map fun (vs, r) => (.list vs, r)
  | "(" :: "tuple" :: rest => (takeAtoms String.toNat? rest).map fun (vs, r) => (.tuple vs, r)
  | "(" :: "table" :: rest =>
    (takeAtoms (fun t => if t = "." then some none else (t.toInt?).map some) rest).map fun (vs, r) => (.table vs, r)
  | "(" :: "rtree" :: rest => (takeAtoms parseInt? rest).map fun (vs, r) => (.rtree vs, r)
  | "(" :: "range" :: rest => (takeAtoms parseArg? rest).map fun (vs, r) => (.range vs, r)
  | "(" :: "tree" :: rest =>
    match parseTree rest with
    | some (t, ")" :: r) => some (.tree t, r)
    | _ => none
  | "(" :: "slice" :: rest =>
    match parseExpr rest with
    | some (e, r) => (takeAtoms parseArg? r).map fun (vs, r') => (.slice e vs, r')
    | none => none
  | "(" :: "reverse" :: rest =>
    match parseExpr rest with
    | some (e, ")" :: r) => some (.slice e [none, none, some (-1)], r)
    | _ => none
  | "(" :: "enum" :: rest =>
    match parseExpr rest with
    | some (e, ")" :: r) => some (.enum e, r)
    | _ => none
  | "(" :: "filter" :: rest =>
    match parseExpr rest with
    | some (e, m :: q :: ")" :: r) =>
      match m.toInt?, q.toInt? with
      | some m, some q => some (.filter e m q, r)
      | _, _ => none
    | _ => none
  | "(" :: "map" :: rest =>
    match parseExpr rest with
    | some (e, a :: b :: ")" :: r) =>
      match a.toInt?, b.toInt? with
      | some a, some b => some (.map e a b, r)
      | _, _ => none
    | _ => none
  | "(" :: "zip" :: rest => (parseExprs rest).map fun (es, r) => (.zip es, r)
  | _ => none
partial def parseExprs : List String → Option (List Expr × List String)
  | ")" :: rest => some ([], rest)
  | toks => match parseExpr toks with
    | some (e, r) => (parseExprs r).map fun (es, r') => (e :: es, r')
    | none => none
end

/-- a walk cut by the cap is printed by its first 16 items only (same rule in the harness) -/
def showItems (l : List Val) (e : End := .term) : String :=
  let l := if e = .fuel then l.take 16 else l
  "[" ++ " ".intercalate (l.map Val.show) ++ "]"

def excOf : String → String
  | "no-len" => "ClassError"
  | _ => "FormatError"

def report (e : Expr) : String :=
  match denote e with
  | .error m => s!"O construct={excOf m}"
  | .ok I =>
    let (f, fe) := I.forward walkCap
    let (b, be) := I.backward walkCap
    let lenS := match I.len with | some n => toString n | none => "-"
    let getS := match I.len, I.get with
      | some n, some g => "[" ++ " ".intercalate ((List.range n).map fun (i : Nat) => match g (Int.ofNat i) with
          | some v => v.show | none => "!") ++ "]"
      | _, _ => "-"
    s!"O f={showItems f fe} fe={fe.show} b={showItems b be} be={be.show} len={lenS} get={getS}"

end IterDrv

def main (args : List String) : IO Unit := do
  let lines ← Driver.inputLines args
  for l in lines do
    if Driver.isSkippable l then continue
    if l.startsWith "W " || l.startsWith "V " then
      match IterDrv.parseExpr (IterDrv.tokenize (l.drop 2).toString) with
      | some (e, []) => IO.println (IterDrv.report e)
      | _ => IO.println "O bad-op"
    else if l.startsWith "S " then
      match (Driver.words (l.drop 2).toString) with
      | n :: rest =>
        match n.toNat?, rest.mapM IterDrv.parseArg? with
        | some n, some as =>
          match sliceStack n as with
          | some (a, b, c) => IO.println s!"O range={a},{b},{c} len={rangeLen a b c}"
          | none => IO.println "O construct=FormatError"
        | _, _ => IO.println "O bad-op"
      | _ => IO.println "O bad-op"
    else IO.println "O bad-op"
