import Cello.Str
import Cello.StrLook
import Cello.StrRecv
import Cello.Hash
import CelloGen.Str
import Driver.Common
/- driver for engine `str` (C16): interprets the op files of harness/h_str.c on the model `Cello.Str` with the
   parameters regenerated from src/String.c (`CelloGen.Str.params`) and the junk byte 0xA5 the harness's `v_realloc`
   uses; prints the same `O` lines (dump of the whole allocation after every op), and after every mutation an `R`
   line: does the model's text equal the specification's (`Spec.step` on the abstract string kept beside it), is the
   state well-formed, were all accesses in bounds.  Formatted writes through `print_to_with` / `show_to` (`pf`, `show`) run
   `Cello.Str.emit` with the position arithmetic regenerated from src/Show.c (`CelloGen.Str.posParams`); their R line also
   says whether the returned position is where the written text ends.
   `alias …` ops (operands that point into the target's own allocation) run `stepA` with `mv = true`: the harness is built with
   AddressSanitizer, whose `realloc` always moves the block; an undefined outcome is printed as `ub`.
   `hash` prints the value of `Cello.Hash.hashData` (engine `hash`'s model of `hash_data`) over the bytes `String_Hash` hands over. -/
open Cello.Str

def P : Params := CelloGen.Str.params
/-- the position arithmetic of `print_to_with` as the translator read it from src/Show.c on this run -/
def Q : PosParams := CelloGen.Str.posParams
/-- String_Look's quote / escape characters, escape table and the place of its String_Clear, as read from src/String.c on this run -/
def LK : LookParams := CelloGen.Str.lookParams
/-- where the alloc checks of src/String.c stand, as read from the source on this run -/
def G : GuardParams := CelloGen.Str.guardParams
def J : Nat → Byte := fun _ => 0xA5

def maxT : Nat := 16384

def hexVal (c : Char) : Option Nat :=
  if '0' ≤ c && c ≤ '9' then some (c.toNat - 48) else if 'a' ≤ c && c ≤ 'f' then some (c.toNat - 87) else none

def dehexList : List Char → Option (List Byte)
  | [] => some []
  | a :: b :: t => do
    let x ← hexVal a; let y ← hexVal b
    let v := x * 16 + y
    if v = 0 then none
    let r ← dehexList t
    pure (UInt8.ofNat v :: r)
  | _ => none

/-- a text token: `-` = empty, otherwise lowercase hex without 00 bytes -/
def dehex (t : String) : Option (List Byte) :=
  if t = "-" then some []
  else if t.length = 0 || t.length % 2 = 1 || t.length / 2 ≥ maxT then none
  else dehexList t.toList

def num (t : String) : Option Nat :=
  if t.isEmpty || !(t.all Char.isDigit) then none else t.toNat?

def objIx (t : String) : Option Nat := do
  let v ← num t
  if v < 64 then some v else none

def preview (l : List Byte) : String :=
  if l.isEmpty then "-" else hexOf (l.take 16) ++ (if l.length > 16 then ".." else "")

structure World where
  objs : Array (Option Str) := Array.replicate 64 none
  spec : Array (Option (List Byte)) := Array.replicate 64 none
  nMut : Nat := 0
  nRaised : Nat := 0
  nRemFound : Nat := 0
  nGrow : Nat := 0
  nShrink : Nat := 0
  nFmtIn : Nat := 0
  nFmtOut : Nat := 0
  nPct : Nat := 0        -- formatted writes whose format has a `%%`
  nShow : Nat := 0       -- formatted writes that went through `show_to`
  nCalls : Nat := 0      -- `format_to` calls made by `print_to_with` / `show_to`
  nStale : Nat := 0      -- states whose allocation is larger than the text + terminator
  nDisagree : Nat := 0
  nStkRefused : Nat := 0 -- calls on a non-heap String that the alloc check refused
  nStkRan : Nat := 0     -- calls on a non-heap String whose body ran (rem, assign(s, s))
  nLookOk : Nat := 0     -- `look` that returned
  nLookPlain : Nat := 0  -- characters appended as themselves
  nLookEsc : Nat := 0    -- escapes undone
  nLookNoQuote : Nat := 0
  nLookEof : Nat := 0    -- the input ran out (unterminated, or a backslash at the end)
  nLookBadEsc : Nat := 0

def World.get (w : World) (k : Nat) : Option Str := (w.objs[k]?).join
def World.getSpec (w : World) (k : Nat) : List Byte := ((w.spec[k]?).join).getD []

def dumpLine (name : String) (k : Nat) (outcome : String) (s : Str) : String :=
  let t := s.abs
  s!"O {name} {k} {outcome} len={t.length} cap={s.cap} s={preview t} fnv={hex64 (fnv64 s.buf)}"

/-- record the result of a mutation: O line, R line, statistics -/
def World.commit (w : World) (name : String) (k : Nat) (st : Str) (outcome : String) (safe : Bool)
    (specText : List Byte) (retOk : Bool := true) : IO World := do
  let outcome := if safe then outcome else "UB(out-of-bounds access)"
  IO.println (dumpLine name k outcome st)
  let agree := st.abs == specText && st.wfb && safe && retOk
  IO.println (if agree then s!"R {name} {k} agree" else
    s!"R {name} {k} DISAGREE model={hexOf st.abs} spec={hexOf specText} wf={st.wfb} safe={safe} position-is-end-of-text={retOk}")
  return { w with objs := w.objs.set! k (some st), spec := w.spec.set! k (some specText), nMut := w.nMut + 1,
                  nStale := w.nStale + (if st.cap > st.abs.length + 1 then 1 else 0),
                  nDisagree := w.nDisagree + (if agree then 0 else 1) }

def outcomeStr : Outcome → String
  | .ok _ => "ok"
  | .raised .ValueError => "ValueError"
  | .raised .ClassError => "ClassError"
  | .raised .FormatError => "FormatError"
  | .raised .OutOfMemoryError => "OutOfMemoryError"
  | .rejected => "rejected"
  | .ub _ => "ub"

inductive Frag where
  | lit (t : List Byte) | str (t : List Byte) | shown (t : List Byte)

/-- parse the fragments of a `print` op exactly as the harness validates them -/
def parseFrags (toks : List String) : Option (List Frag) :=
  let rec go (toks : List String) (prevLit : Bool) (nargs : Nat) (fl : Nat) (acc : List Frag) : Option (List Frag) :=
    match toks with
    | [] => some acc.reverse
    | t :: rest =>
      match t.toList with
      | kind :: body =>
        match dehex (String.ofList body) with
        | none => none
        | some x =>
          if kind = 'L' then
            if x.contains 0x25 || x.isEmpty || prevLit || fl + x.length ≥ maxT then none
            else go rest true nargs (fl + x.length) (.lit x :: acc)
          else if kind = 'S' || kind = 'Q' then
            if nargs = 4 || fl + 2 ≥ maxT then none
            else go rest false (nargs + 1) (fl + 2) ((if kind = 'S' then Frag.str x else Frag.shown x) :: acc)
          else none
      | [] => none
  go toks false 0 0 []

/-- the `format_to` calls `print_to_with` makes for these fragments -/
def fragCalls (fs : List Frag) : List (List Byte) :=
  fs.flatMap fun
    | .lit t => [t]
    | .str t => [t]
    | .shown t => showFrags t

/-- the Int argument `i<dec>` of a `pf`/`show` op: `-?[0-9]{1,19}` within int64 (what the harness accepts via strtoll) -/
def parseInt64 (t : String) : Option Int :=
  let neg := t.startsWith "-"
  let d : String := if neg then String.ofList (t.toList.drop 1) else t
  if d.length < 1 || d.length > 19 || !(d.all Char.isDigit) then none
  else
    let n : Int := d.toNat!
    let v := if neg then -n else n
    if v < -(2 ^ 63) || v ≥ 2 ^ 63 then none else some v

/-- one argument: `i<int64>` | `s<hex>` | `t<n> A1 … An` (n ≤ 6, a Tuple below depth 3 only); returns the unread tokens -/
def parseArg : Nat → Nat → List String → Option (Val × List String)
  | 0, _, _ => none
  | _, _, [] => none
  | fuel + 1, depth, t :: rest =>
    match t.toList with
    | 'i' :: body => (parseInt64 (String.ofList body)).map fun v => (Val.int v, rest)
    | 's' :: body => (dehex (String.ofList body)).map fun x => (Val.str x, rest)
    | ['t', c] =>
      if depth ≥ 3 || c < '0' || c > '6' then none
      else
        let rec items (fuel : Nat) : Nat → List String → List Val → Option (List Val × List String)
          | 0, rest, acc => some (acc.reverse, rest)
          | n + 1, rest, acc =>
            match parseArg fuel (depth + 1) rest with
            | some (v, rest') => items fuel n rest' (v :: acc)
            | none => none
        (items fuel (c.toNat - 48) rest []).map fun (vs, rest') => (Val.tup vs, rest')
    | _ => none

/-- all arguments of an op (at most 8; every token consumed) -/
def parseArgs : Nat → List String → List Val → Option (List Val)
  | _, [], acc => some acc.reverse
  | 0, _, _ => none
  | fuel + 1, toks, acc =>
    if acc.length = 8 then none
    else match parseArg 64 1 toks with
      | some (v, rest) => parseArgs fuel rest (v :: acc)
      | none => none

mutual
def valBytes : Val → Nat
  | .int _ => 0
  | .str t => t.length
  | .tup vs => valsBytes vs
def valsBytes : List Val → Nat
  | [] => 0
  | v :: r => valBytes v + valsBytes r
end

def hasCall (items : List Item) : Bool := !(callTexts items).isEmpty

def bad : IO Unit := IO.println "O bad-op"

def ubStr : UB → String
  | .useAfterFree => "use-after-free"
  | .overlap => "overlap"
  | .outOfBounds => "out-of-bounds"
  | .nullDeref => "null-deref"

/-- `self` | `v<off>` with `off ≤ len` -/
def parseSrc (t : String) (n : Nat) : Option Src :=
  if t = "self" then some .self
  else match t.toList with
    | 'v' :: d => match num (String.ofList d) with
      | some off => if off ≤ n && d.length ≤ 7 then some (.view off) else none
      | none => none
    | _ => none

/-- `alias <what> <self|v<off>> <T> [pos]`: the call `what(s, obj)` on a fresh `s = new(String, $S(T))` where `obj` is `s` itself or
    `$S(c_str(s) + off)`; `print` is `print_to(s, pos, "%s", obj)`, `show` is `show_to(s, s, pos)`.  The allocator of the harness (AddressSanitizer) always moves. -/
def aliasOp (w : World) (rest : List String) : IO World := do
  match rest with
  | what :: st :: t :: more =>
    let some x := dehex t | do bad; return w
    if x.length > 512 then bad; return w
    let some src := parseSrc st x.length | do bad; return w
    let s := (new P J (some x)).st
    let mutating := what = "assign" || what = "concat" || what = "append" || what = "print" || what = "show"
    if what = "show" && st != "self" then bad; return w
    -- the aliased mutators on an empty text copy one NUL onto itself: undefined only on paper, not run
    -- (not `assign` with the target or a view at offset 0: `val is s->val`, the call returns at once — 744a45f)
    if mutating && x.isEmpty && !(what = "assign" && src.off = 0) then bad; return w
    let posOk : Option Nat := match what, more with
      | "print", [pt] | "show", [pt] => (num pt).bind fun p => if p ≤ x.length && pt.length ≤ 8 then some p else none
      | "print", _ | "show", _ => none
      | _, [] => some 0
      | _, _ => none
    let some pos := posOk | do bad; return w
    let res : Option Res := match what with
      | "assign" => some (stepA P J true s (.assign src))
      | "concat" => some (stepA P J true s (.concat src))
      | "append" => some (stepA P J true s (.append src))
      | "print" => some (stepA P J true s (.formatS pos src))
      | "rem" => some (stepA P J true s (.rem src))
      | "show" => showSelf P J (fun _ => true) (2 * x.length + 8) s pos      -- `none` (still walking) cannot happen with a moving allocator
      | _ => none
    match what, res with
    | _, some r =>
      match r.out with
      | .ub why =>
        IO.println s!"O alias {what} {st} ub"
        IO.println s!"R alias {what} {st} model=ub:{ubStr why}"
      | o =>
        let oc := match o with | .ok n => if what = "print" || what = "show" then s!"ret={n}" else "ok" | o => outcomeStr o
        IO.println s!"O alias {what} {st} {oc} len={r.st.abs.length} cap={r.st.cap} s={preview r.st.abs} fnv={hex64 (fnv64 r.st.buf)}"
      return { w with nMut := w.nMut + 1 }
    | "mem", none => IO.println s!"O alias mem {st} {if mem s (src.read s) then 1 else 0}"; return w
    | "cmp", none => IO.println s!"O alias cmp {st} {cmp s (src.read s)}"; return w
    | _, none => bad; return w
  | _ => bad; return w

/-- `oom resize <T> <n>`: `resize(s, n)` on a fresh `s = new(String, $S(T))` whose `realloc` returns NULL (`resizeR … true`): the
    outcome, and whether `s->val` is NULL afterwards -/
def oomOp (w : World) (rest : List String) : IO World := do
  match rest with
  | ["resize", t, nt] =>
    let some x := dehex t | do bad; return w
    if x.length > 512 then bad; return w
    let some n := num nt | do bad; return w
    if nt.length > 7 then bad; return w
    let s := (new P J (some x)).st
    let r := resizeR P J s n true
    match r.out with
    | .ub why =>
      IO.println "O oom resize ub"
      IO.println s!"R oom resize model=ub:{ubStr why}"
    | o => IO.println s!"O oom resize {outcomeStr o} val={if r.st.buf.isEmpty then "NULL" else if r.st == s then "kept" else "other"}"
    return { w with nMut := w.nMut + 1 }
  | _ => bad; return w

/-- `stk <stack|static> <what> <T> [args]`: one call on a String of class AllocStack / AllocStatic holding T (`recvStep` with the guard
    positions read from the source) -/
def stkOp (w : World) (rest : List String) : IO World := do
  match rest with
  | clsT :: what :: t :: args =>
    let some c := (if clsT = "stack" then some Cls.stack else if clsT = "static" then some Cls.static else none) | do bad; return w
    let some x := dehex t | do bad; return w
    if x.length > 512 then bad; return w
    let s : Str := ⟨x ++ [0]⟩
    let small (a : String) : Option (List Byte) := (dehex a).bind fun y => if y.length > 512 then none else some y
    let numS (a : String) : Option Nat := if a.length > 6 then none else num a
    let call : Option (Option Op) := match what, args with
      | "assign", [a] => (small a).map fun y => some (Op.assign y)
      | "concat", [a] => (small a).map fun y => some (Op.concat y)
      | "append", [a] => (small a).map fun y => some (Op.append y)
      | "rem", [a] => (small a).map fun y => some (Op.rem y)
      | "resize", [n] => (numS n).map fun n => some (Op.resize n)
      | "clear", [] => some (some Op.clear)
      | "fmt", [p, a] => (numS p).bind fun p => (small a).bind fun y => if p > x.length then none else some (some (Op.format p y))
      | "assignself", [] => some none
      | _, _ => none
    let some call := call | do bad; return w
    let out := match call with
      | some op => recvStep G P J c s op
      | none => recvAssignSelf G c s
    match out with
    | .refused =>
      IO.println s!"O stk {clsT} {what} ValueError len={x.length} s={preview x}"
      return { w with nMut := w.nMut + 1, nStkRefused := w.nStkRefused + 1 }
    | .badRealloc =>
      IO.println s!"O stk {clsT} {what} ub"
      IO.println s!"R stk {clsT} {what} model=ub:realloc-of-a-pointer-not-from-malloc"
      return { w with nMut := w.nMut + 1 }
    | .ran r =>
      let oc := match what, r.out with | "fmt", .ok n => s!"ret={n}" | _, o => outcomeStr o
      IO.println s!"O stk {clsT} {what} {oc} len={r.st.abs.length} s={preview r.st.abs}"
      let agree := r.safe && r.st.wfb && (match call with | some op => r.st.abs == Spec.step x op | none => r.st.abs == x)
      IO.println (if agree then s!"R stk {clsT} {what} agree" else s!"R stk {clsT} {what} DISAGREE model={hexOf r.st.abs}")
      return { w with nMut := w.nMut + 1, nStkRan := w.nStkRan + 1, nDisagree := w.nDisagree + (if agree then 0 else 1) }
  | _ => bad; return w

def stepOp (w : World) (toks : List String) : IO World := do
  match toks with
  | "alias" :: rest => aliasOp w rest
  | "oom" :: rest => oomOp w rest
  | "stk" :: rest => stkOp w rest
  | op :: kt :: rest =>
    let some k := objIx kt | do bad; return w
    let live := w.get k
    match op, rest, live with
    | "new", [t], none =>
      let some x := dehex t | do bad; return w
      let r := new P J (some x)
      w.commit "new" k r.st "ok" r.safe x
    | "newin", [t], none =>
      -- a String inside an Array: `Array_Push` zeroes the slot and calls `assign(slot, obj)` — the same `String_Assign` on `val == NULL`
      let some x := dehex t | do bad; return w
      let r := new P J (some x)
      w.commit "newin" k r.st "ok" r.safe x
    | "new0", [], none =>
      let r := new P J none
      w.commit "new0" k r.st "ok" r.safe []
    | "copy", [jt], none =>
      let some j := objIx jt | do bad; return w
      let some sj := w.get j | do bad; return w
      if j = k then bad; return w
      let r := assign P J ⟨[]⟩ sj.abs          -- assign(alloc_raw(String), src): `val` is NULL in the fresh object
      w.commit "copy" k r.st "ok" r.safe (w.getSpec j)
    | "del", [], some _ =>
      IO.println s!"O del {k} ok"
      return { w with objs := w.objs.set! k none, spec := w.spec.set! k none }
    | "assign", [t], some s =>
      let some x := dehex t | do bad; return w
      let r := assign P J s x
      w.commit op k r.st (outcomeStr r.out) r.safe (Spec.step (w.getSpec k) (.assign x))
    | "concat", [t], some s | "append", [t], some s =>
      let some x := dehex t | do bad; return w
      let r := concat P J s x
      w.commit op k r.st (outcomeStr r.out) r.safe (Spec.step (w.getSpec k) (.concat x))
    | "assigns", [jt], some s =>
      let some j := objIx jt | do bad; return w
      let some sj := w.get j | do bad; return w
      if j = k then bad; return w
      let r := assign P J s sj.abs
      w.commit op k r.st (outcomeStr r.out) r.safe (Spec.step (w.getSpec k) (.assign (w.getSpec j)))
    | "concats", [jt], some s =>
      let some j := objIx jt | do bad; return w
      let some sj := w.get j | do bad; return w
      if j = k then bad; return w
      let r := concat P J s sj.abs
      w.commit op k r.st (outcomeStr r.out) r.safe (Spec.step (w.getSpec k) (.concat (w.getSpec j)))
    | "assignself", [], some s =>
      -- `assign(s, s)`: the model follows the source (`P.assignSelfReturns`); the harness is built with AddressSanitizer, whose realloc moves
      let r := stepA P J true s (.assign .self)
      match r.out with
      | .ub why =>
        IO.println s!"O assignself {k} ub"
        IO.println s!"R assignself {k} model=ub:{ubStr why}"
        return { w with nMut := w.nMut + 1 }
      | o => w.commit op k r.st (outcomeStr o) r.safe (Spec.step (w.getSpec k) ((AOp.assign .self).absOp (w.getSpec k)))
    | "resize", [nt], some s =>
      let some n := num nt | do bad; return w
      if n > 1000000 then bad; return w
      let r := resize P J s n
      let w := if n > s.abs.length then { w with nGrow := w.nGrow + 1 } else { w with nShrink := w.nShrink + 1 }
      w.commit op k r.st (outcomeStr r.out) r.safe (Spec.step (w.getSpec k) (.resize n))
    | "clear", [], some s =>
      let r := clear P J s
      w.commit op k r.st (outcomeStr r.out) r.safe (Spec.step (w.getSpec k) .clear)
    | "rem", [t], some s =>
      let some x := dehex t | do bad; return w
      let r := rem P s x
      let w := if r.out = .ok 0 then { w with nRemFound := w.nRemFound + 1 } else { w with nRaised := w.nRaised + 1 }
      w.commit op k r.st (outcomeStr r.out) r.safe (Spec.step (w.getSpec k) (.rem x))
    | "rems", [jt], some s =>
      let some j := objIx jt | do bad; return w
      let some sj := w.get j | do bad; return w
      if j = k then bad; return w
      let r := rem P s sj.abs
      let w := if r.out = .ok 0 then { w with nRemFound := w.nRemFound + 1 } else { w with nRaised := w.nRaised + 1 }
      w.commit op k r.st (outcomeStr r.out) r.safe (Spec.step (w.getSpec k) (.rem (w.getSpec j)))
    | "fmt", [pt, t], some s | "fmtl", [pt, t], some s =>
      let some pos := num pt | do bad; return w
      if pos > 1000000 then bad; return w
      let some x := dehex t | do bad; return w
      if op = "fmtl" && x.contains 0x25 then bad; return w
      let r := formatTo P J s pos x
      let w := if pos ≤ s.abs.length then { w with nFmtIn := w.nFmtIn + 1 } else { w with nFmtOut := w.nFmtOut + 1 }
      let oc := match r.out with | .ok n => s!"ret={n}" | o => outcomeStr o
      w.commit op k r.st oc r.safe (Spec.step (w.getSpec k) (.format pos x))
    | "print", pt :: f1 :: fr, some s =>
      let some pos := num pt | do bad; return w
      if pos > 1000000 then bad; return w
      let some fs := parseFrags (f1 :: fr) | do bad; return w
      let calls := fragCalls fs
      let (st, ret, lg) := printTo P J s pos calls
      let a := w.getSpec k
      let specText := if pos ≤ a.length then a.take pos ++ calls.flatten else a
      let w := if pos ≤ s.abs.length then { w with nFmtIn := w.nFmtIn + 1 } else { w with nFmtOut := w.nFmtOut + 1 }
      w.commit op k st s!"ret={ret}" (lg.all Acc.inBounds) specText
    | "pf", pt :: ft :: ats, some s =>
      let some pos := num pt | do bad; return w
      if pos > 1000000 then bad; return w
      let some fmt := dehex ft | do bad; return w
      let some args := parseArgs 64 ats [] | do bad; return w
      if valsBytes args > 4096 then bad; return w
      let some segs := parseFmt fmt | do bad; return w
      -- `%$` takes no flags / width in this op
      if segs.any (fun | .spec b c => c == 36 && !b.isEmpty | _ => false) then bad; return w
      let some items := plan renderSpec showVal segs args | do bad; return w
      let (st, ret, lg) := emit P Q J s pos [] items
      let a := w.getSpec k
      let specText := if pos ≤ a.length && hasCall items then a.take pos ++ textOf items else a
      let w := if pos ≤ s.abs.length then { w with nFmtIn := w.nFmtIn + 1 } else { w with nFmtOut := w.nFmtOut + 1 }
      let w := { w with nPct := w.nPct + (if segs.contains .pct then 1 else 0), nShow := w.nShow + (if items.contains .enter then 1 else 0),
                        nCalls := w.nCalls + (callTexts items).length }
      -- the returned position must be where the written text ends (pos > len: outside the property, only the buffer is compared)
      let retOk := ret == pos + (textOf items).length
      w.commit op k st s!"ret={ret}" (lg.all Acc.inBounds && items.all Item.okb) specText retOk
    | "show", pt :: ats, some s =>
      let some pos := num pt | do bad; return w
      if pos > 1000000 then bad; return w
      let some args := parseArgs 64 ats [] | do bad; return w
      if valsBytes args > 4096 then bad; return w
      let [arg] := args | do bad; return w
      let items := showVal arg
      let (st, ret, lg) := emit P Q J s pos [] items
      let a := w.getSpec k
      let specText := if pos ≤ a.length then a.take pos ++ textOf items else a
      let w := if pos ≤ s.abs.length then { w with nFmtIn := w.nFmtIn + 1 } else { w with nFmtOut := w.nFmtOut + 1 }
      let w := { w with nShow := w.nShow + 1, nCalls := w.nCalls + (callTexts items).length }
      let retOk := ret == pos + (textOf items).length
      w.commit op k st s!"ret={ret}" (lg.all Acc.inBounds && items.all Item.okb) specText retOk
    | "remi", [nt], some s =>
      let some _ := parseInt64 nt | do bad; return w
      if nt.length ≥ 30 then bad; return w
      let r := remArg P s none                 -- an Int has no C string
      let w := { w with nRaised := w.nRaised + 1 }
      w.commit op k r.st (outcomeStr r.out) r.safe (w.getSpec k)
    | "fmtrej", [pt], some s =>
      let some pos := num pt | do bad; return w
      if pos > 1000000 then bad; return w
      let r := formatToR P J s pos none        -- libc rejects `%lc` of U+10FFFF in the C locale
      w.commit op k r.st (outcomeStr r.out) r.safe (w.getSpec k)
    | "pfrej", [pt, t], some s =>
      let some pos := num pt | do bad; return w
      if pos > 1000000 then bad; return w
      let some x := dehex t | do bad; return w
      if x.contains 0x25 then bad; return w
      let items : List Item := (if x.isEmpty then [] else [.call .lit x.length x]) ++ [.rejected .chr, .call .lit 1 [90]]
      let (st, _, lg) := emit P Q J s pos [] items
      let a := w.getSpec k
      let specText := if pos ≤ a.length && !x.isEmpty then a.take pos ++ x else a
      w.commit op k st (if raisesFormat items then "FormatError" else "ok") (lg.all Acc.inBounds) specText
    | "look", [jt, pt], some s | "looks", [jt, pt], some s =>
      -- look_from(s_k, s_j, pos) / scan_from(s_j, pos, "%$", s_k): `String_Look` = String_Clear + one String_Concat per character read
      let some j := objIx jt | do bad; return w
      let some sj := w.get j | do bad; return w
      if j = k then bad; return w
      let some pos := num pt | do bad; return w
      if pos > 1000000 || pos > len sj then bad; return w
      let r := look P LK J s sj.abs pos
      -- the specification side: the same call as a history of clear / concat on the abstract strings kept beside the objects
      let (ops, o) := lookOps LK (w.getSpec j) pos
      let specText := Spec.run (w.getSpec k) ops
      let (np, ne, how) := lookStats LK sj.abs pos
      let w := { w with nLookPlain := w.nLookPlain + np, nLookEsc := w.nLookEsc + ne,
                        nLookOk := w.nLookOk + (if how = 0 then 1 else 0), nLookNoQuote := w.nLookNoQuote + (if how = 1 then 1 else 0),
                        nLookEof := w.nLookEof + (if how = 2 then 1 else 0), nLookBadEsc := w.nLookBadEsc + (if how = 3 then 1 else 0),
                        nRaised := w.nRaised + (if how = 0 then 0 else 1) }
      let oc := match r.out with | .ok n => s!"ret={n}" | x => outcomeStr x
      w.commit op k r.st oc r.safe specText (r.out == o && ((how == 0) == (match r.out with | .ok _ => true | _ => false)))
    | "scanw", [pt], some s =>
      let some pos := num pt | do bad; return w
      if pos > 1000000 || pos > len s then bad; return w
      match scanWord s pos with
      | none => IO.println s!"O scanw {k} exc=FormatError ret=-1 n=0 w=-"; return w
      | some (wd, ret) =>
        -- the reader sees exactly the abstract string from `pos` on
        let ref := ((w.getSpec k).drop pos).dropWhile isSpace |>.takeWhile (fun b => !isSpace b)
        IO.println s!"O scanw {k} exc=none ret={ret} n={wd.length} w={preview wd}"
        return { w with nDisagree := w.nDisagree + (if ref == wd then 0 else 1) }
    | "len", [], some s => IO.println s!"O len {k} {len s}"; return w
    | "cstr", [], some s =>
      IO.println s!"O cstr {k} n={(cstr s).length} fnv={hex64 (fnv64 (cstr s))}"; return w
    | "cmp", [t], some s =>
      let some x := dehex t | do bad; return w
      IO.println s!"O cmp {k} {cmp s x}"; return w
    | "eq", [t], some s =>
      let some x := dehex t | do bad; return w
      IO.println s!"O eq {k} {if eq s x then 1 else 0}"; return w
    | "mem", [t], some s =>
      let some x := dehex t | do bad; return w
      IO.println s!"O mem {k} {if mem s x then 1 else 0}"; return w
    | "cmps", [jt], some s =>
      let some j := objIx jt | do bad; return w
      let some sj := w.get j | do bad; return w
      if j = k then bad; return w
      IO.println s!"O cmps {k} {cmp s sj.abs}"; return w
    | "hash", [], some s =>
      -- value-only dependence: the bytes hashed are exactly the abstract string; the value is `hash_data` (C10's model) of them
      let same := hash id s == w.getSpec k
      IO.println s!"O hash {k} {hex64 (hash Cello.Hash.hashData s)} {if same then "same" else "diff"}"; return w
    | _, _, _ => bad; return w
  | _ => bad; return w

def main (args : List String) : IO Unit := do
  let lines ← Driver.inputLines args
  let mut w : World := {}
  let mut nOps := 0
  for l in lines do
    if Driver.isSkippable l then continue
    let toks := Driver.words l
    if toks.isEmpty then continue
    nOps := nOps + 1
    w ← stepOp w toks
  IO.println s!"S ops={nOps} mutations={w.nMut} raised={w.nRaised} remFound={w.nRemFound} grow={w.nGrow} shrink={w.nShrink} fmtIn={w.nFmtIn} fmtOut={w.nFmtOut} pct={w.nPct} show={w.nShow} calls={w.nCalls} slack={w.nStale} disagree={w.nDisagree} lookOk={w.nLookOk} lookPlain={w.nLookPlain} lookEsc={w.nLookEsc} lookNoQuote={w.nLookNoQuote} lookEof={w.nLookEof} lookBadEsc={w.nLookBadEsc} stkRefused={w.nStkRefused} stkRan={w.nStkRan}"
