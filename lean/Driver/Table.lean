import Cello.Table
import Cello.TableMark
import CelloGen.Table
import Driver.Common
import Std.Data.HashMap
/- driver for engine `table` (C02).  Interprets the op file of harness/h_table.c on the model `Cello.Table.step`
   (with the source-derived parameters of CelloGen/Table.lean) and prints the same `O` lines.
   Besides: `M` lines whenever the model's own observation departs from the association-list specification or the
   executable invariant fails on a model state (used when a proof obligation broke), `S` statistics. -/
open Cello.Table RH

structure K where
  name : String
  h : Nat
deriving DecidableEq, Repr

abbrev T := Tab K Int
instance : Inhabited T := ⟨Tab.empty 0⟩

def cfg : Cfg :=
  { ge := CelloGen.Table.tieGe, growEmpty := CelloGen.Table.setGrowsEmpty,
    ideal := idealSize CelloGen.Table.primes CelloGen.Table.loadNum CelloGen.Table.loadDen,
    selfGuard := CelloGen.Table.assignGuardsSelf, getChecksKey := CelloGen.Table.getShortcutChecksKey }

def NT : Nat := 8
def FULL : Nat := 200      -- tables up to this many slots are dumped whole after every op
def WIN : Nat := 32
def ITERMAX : Nat := 100

def u64 (x : Int) : Nat := (x % 18446744073709551616).toNat

def fnvP : UInt64 := 1099511628211
def fnv0 : UInt64 := 1469598103934665603
@[inline] def mix (c : UInt64) (x : Nat) : UInt64 := (c ^^^ UInt64.ofNat x) * fnvP

def entryStr (i : Nat) (e : Entry K Int) : String := s!" {i}:{e.home + 1}:{e.key.name}:{e.val}"

def checksum (t : T) : UInt64 := Id.run do
  let mut c := fnv0
  for h : i in [0:t.n] do
    match t.slots[i]'(Membership.get_elem_helper h rfl) with
    | none => pure ()
    | some e => c := mix (mix (mix (mix c (i+1)) (e.home+1)) e.key.h) (u64 e.val)
  return c

/-- canonical dump: `nslots nitems |` then all slots (small table) or a window around `home` -/
def dump (t : T) (key : Option K) (withCs : Bool) : String := Id.run do
  let mut s := s!"{t.n} {t.nitems} |"
  if t.n ≤ FULL then
    for h : i in [0:t.n] do
      match t.slots[i]'(Membership.get_elem_helper h rfl) with
      | none => pure ()
      | some e => s := s ++ entryStr i e
  else
    match key with
    | none => pure ()
    | some k =>
      let start := (k.h % t.n + t.n - 4) % t.n
      s := s ++ s!" w{start}"
      for d in [0:WIN] do
        let i := (start + d) % t.n
        if h : i < t.n then
          match t.slots[i] with
          | none => pure ()
          | some e => s := s ++ entryStr i e
    if withCs then s := s ++ s!" | cs={checksum t}"
  return s

def itemsStr (l : List (K × Int)) : String := Id.run do
  let mut c := fnv0
  let mut s := ""
  let mut cnt := 0
  for (k, v) in l do
    c := mix (mix c k.h) (u64 v)
    if cnt < ITERMAX then s := s ++ s!" {k.name}:{v}"
    cnt := cnt + 1
  return s!"n={cnt} cs={c}{s}"

/-- the `O mark` text: number of callback calls, checksum over all of them, the first `ITERMAX` spelled out -/
def markStr (l : List (Reported K Int)) : String := Id.run do
  let mut c := fnv0
  let mut s := ""
  let mut cnt := 0
  for x in l do
    match x with
    | .key i k =>
      c := mix (mix (mix c (i+1)) 1) k.h
      if cnt < ITERMAX then s := s ++ s!" {i}.k:{k.name}"
    | .val i v =>
      c := mix (mix (mix c (i+1)) 2) (u64 v)
      if cnt < ITERMAX then s := s ++ s!" {i}.v:{v}"
    cnt := cnt + 1
  return s!"n={cnt} cs={c}{s}"

/-- executable form of the invariant (`RH.Inv` + count) on a model state -/
def invOk (t : T) : Bool := Id.run do
  if t.n = 0 then return t.nitems = 0
  let mut cnt := 0
  let mut ok := true
  for h : i in [0:t.n] do
    have hi : i < t.n := Membership.get_elem_helper h rfl
    match t.slots[i] with
    | none => pure ()
    | some e =>
      cnt := cnt + 1
      if e.home ≠ e.key.h % t.n then ok := false
      let d := dist t.n i e.home
      if d > 0 then
        match t.slots[prev t.n i]'(prev_lt hi) with
        | none => ok := false
        | some e' => if d > dist t.n (prev t.n i) e'.home + 1 then ok := false
  if cnt ≠ t.nitems ∨ cnt ≥ t.n then ok := false
  if t.n ≤ FULL then
    let keys := (t.slots.toList.filterMap (·.map (·.key.name)))
    if keys.eraseDups.length ≠ keys.length then ok := false
  return ok

def insertSorted (p : String × Int) : List (String × Int) → List (String × Int)
  | [] => [p]
  | q :: r => if p.1 < q.1 || (p.1 == q.1 && p.2 ≤ q.2) then p :: q :: r else q :: insertSorted p r
def sortItems (l : List (K × Int)) : List (String × Int) := (l.map (fun p => (p.1.name, p.2))).foldr insertSorted []

def obsEq : Obs K Int → Obs K Int → Bool
  | .done, .done => true
  | .raised a, .raised b => a = b
  | .val a, .val b => a = b
  | .bool a, .bool b => a = b
  | .nat a, .nat b => a = b
  | .items a, .items b => a.length = b.length && (a.length > 400 || sortItems a == sortItems b)
  | .badOp, .badOp => true
  | .zeroed, .zeroed => true
  | _, _ => false

def obsStr : Obs K Int → String
  | .done => "ok"
  | .raised e => e.name
  | .val v => toString v
  | .bool b => if b then "1" else "0"
  | .nat n => toString n
  | .items l => itemsStr l
  | .badOp => "bad-op"
  | .zeroed => "zeroed"

/-- table kinds of the harness: I Int→Int, S String→Int, P PKey→PVal, V Int→String, W String→String, J Int→PVal, Q QKey→Int -/
inductive Kind where | I | S | P | V | W | J | Q deriving DecidableEq, Repr, Inhabited

def parseKind : String → Option Kind
  | "I" => some .I | "S" => some .S | "P" => some .P | "V" => some .V | "W" => some .W | "J" => some .J | "Q" => some .Q | _ => none

/-- the key class decides the key token syntax and the name space of "one hash per key" -/
def Kind.keyTag : Kind → String
  | .I | .V | .J => "I" | .S | .W => "S" | .P => "P" | .Q => "Q"

def inInt64 (v : Int) : Bool := -9223372036854775808 ≤ v && v ≤ 9223372036854775807
def inU64 (h : Nat) : Bool := h < 18446744073709551616

def plainChar (c : Char) : Bool := c.isAlphanum || c = '_'
def lowerHexVal (c : Char) : Option Nat :=
  if '0' ≤ c ∧ c ≤ '9' then some (c.toNat - '0'.toNat) else if 'a' ≤ c ∧ c ≤ 'f' then some (c.toNat - 'a'.toNat + 10) else none

/-- String key text: letters, digits, `_`, and `~hh` (two lower-case hex digits) for any other non-zero byte — the escape is
    required for exactly those bytes, so a byte string has one spelling and equality of names is equality of the bytes -/
def validNameChars : List Char → Bool
  | [] => true
  | '~' :: a :: b :: rest =>
    match lowerHexVal a, lowerHexVal b with
    | some x, some y => let v := x * 16 + y; v ≠ 0 && !(plainChar (Char.ofNat v)) && validNameChars rest
    | _, _ => false
  | c :: rest => plainChar c && validNameChars rest

def validName (s : String) : Bool := !s.isEmpty && validNameChars s.toList

/-- key token: kind I `<int>`; kinds S and P `<text>:<hash>` (P: text is the decimal id) -/
def parseKey (kind : Kind) (tok : String) : Option K :=
  match kind with
  | .I | .V | .J => (tok.toInt?).bind (fun i => if tok.contains ':' || !inInt64 i then none else some ⟨toString i, u64 i⟩)
  | .S | .W =>
    match tok.splitOn ":" with
    | [a, b] => if validName a && a.length < 32 then (b.toNat?).bind (fun h => if inU64 h then some ⟨a, h⟩ else none) else none
    | _ => none
  | .P =>
    match tok.splitOn ":" with
    | [a, b] => match a.toInt?, b.toNat? with
      | some i, some h => if inInt64 i && inU64 h then some ⟨toString i, h⟩ else none
      | _, _ => none
    | _ => none
  | .Q =>      -- 12-byte key type: int32 id, uint32 hash
    match tok.splitOn ":" with
    | [a, b] => match a.toInt?, b.toNat? with
      | some i, some h => if -2147483648 ≤ i && i ≤ 2147483647 && h < 4294967296 then some ⟨toString i, h⟩ else none
      | _, _ => none
    | _ => none

/-- the pairs of `newp` / `assignm`: `k1 v1 … kn vn` and possibly one trailing key token -/
def parsePairs (kind : Kind) : List String → Option (List (K × Int) × Option K)
  | [] => some ([], none)
  | [k] => (parseKey kind k).map (fun k => ([], some k))
  | k :: v :: rest =>
    match parseKey kind k, v.toInt?, parsePairs kind rest with
    | some k, some v, some (ps, d) => if inInt64 v then some ((k, v) :: ps, d) else none
    | _, _, _ => none

def MAXPAIRS : Nat := 30
def MAXW : Nat := 72

/-- a value object read as a key (`cast(v, t->ktype)`): Int → Int tables only (String → String: not expressible in op files, refused as bad-op) -/
def asKey (kind : Kind) (v : Int) : Option K :=
  match kind with
  | .I => some ⟨toString v, u64 v⟩
  | _ => none

/-- a key object read as a value (`cast(k, t->vtype)`): Int → Int tables only -/
def asVal (kind : Kind) (k : K) : Option Int :=
  match kind with
  | .I => k.name.toInt?
  | _ => none

def dropS (s : String) (n : Nat) : String := String.ofList (s.toList.drop n)
def takeS (s : String) (n : Nat) : String := String.ofList (s.toList.take n)

/-- `o=<tok>` / `k=<key>` / `v=<key>`: an argument object of seta / rema / mema / geta (`valPos`: `o=` carries an integer) -/
def parseRefKey (kind : Kind) (tok : String) : Option (Ref K K) :=
  if tok.length < 3 then none else
  match (takeS tok 2), parseKey kind (dropS tok 2) with
  | "o=", some k => some (.obj k)
  | "k=", some k => some (.keyOf k)
  | "v=", some k => some (.valOf k)
  | _, _ => none

def parseRefVal (kind : Kind) (tok : String) : Option (Ref K Int) :=
  if tok.length < 3 then none else
  match takeS tok 2 with
  | "o=" => ((dropS tok 2).toInt?).bind (fun v => if inInt64 v && (dropS tok 2).toList.all (fun c => c.isDigit || c = '-') then some (.obj v) else none)
  | "k=" => (parseKey kind (dropS tok 2)).map .keyOf
  | "v=" => (parseKey kind (dropS tok 2)).map .valOf
  | _ => none

def refKeyOf {α : Type} : Ref K α → Option K
  | .obj _ => none
  | .keyOf k => some k
  | .valOf k => some k

structure St where
  ts : List T
  kinds : Array Kind
  spec : List (Spec K Int)
  shadow : Bool
  seen : Std.HashMap String Nat      -- probe/string key name (prefixed by kind) -> hash: one hash per key
  halted : Bool := false
  nOps : Nat := 0
  nMism : Nat := 0
  maxSlots : Nat := 0
  nRehash : Nat := 0
  nKeyErr : Nat := 0
  nReplace : Nat := 0
  nDisplace : Nat := 0
  nOwn : Nat := 0          -- operations given an argument object of the table's own
  nMark : Nat := 0
  nHash : Nat := 0


def main (args : List String) : IO Unit := do
  let lines ← Driver.inputLines args
  let mut st : St := { ts := List.replicate NT (new cfg), kinds := Array.replicate NT .I,
                       spec := List.replicate NT [], shadow := true, seen := {} }
  let mut lineNo := 0
  for l in lines do
    lineNo := lineNo + 1
    if Driver.isSkippable l then continue
    if st.halted then continue
    let w := Driver.words l
    -- `ideal a b`: Table_Ideal_Size on a range
    if let ["ideal", a, b] := w then
      match a.toNat?, b.toNat? with
      | some a, some b =>
        if a ≤ b ∧ b - a ≤ 2000000 then
          let mut c := fnv0
          for n in [a:b] do c := mix c (cfg.ideal n)
          IO.println s!"O ideal {a} {b} first={cfg.ideal a} cs={c}"
        else IO.println "O bad-op"
      | _, _ => IO.println "O bad-op"
      continue
    if w.head? == some "gc" then
      if w.length == 1 then
        st := { st with nOps := st.nOps + 1 }
        IO.println "O gc ok"      -- a collection between two operations changes no table
      else IO.println "O bad-op"
      continue
    -- parse into an Op + the key (for the dump window) + op name
    let tIdx? : Option Nat := match w with
      | _ :: t :: _ => t.toNat?
      | _ => none
    let some t := tIdx? | IO.println "O bad-op"; continue
    if t ≥ NT then IO.println "O bad-op"; continue
    let kind := st.kinds[t]!
    if w.length > MAXW then IO.println "O bad-op"; continue
    -- `mark` / `hash`: `Table_Mark` with a recording callback, `Table_Hash` (`Cello.Table.stepX`; no state change)
    if let [nm, _] := w then
      if nm == "mark" || nm == "hash" then
        st := { st with nOps := st.nOps + 1 }
        let vInt := kind == .I || kind == .S || kind == .Q
        if nm == "hash" && !vInt then
          st := { st with nHash := st.nHash + 1 }
          IO.println "O hash n/a"      -- values that are not Int: the driver has no hash of the value object
          continue
        let xop : XOp K Int := if nm == "mark" then .mark t else .hash t
        match stepX cfg K.h (asKey kind) (asVal kind) K.h u64 st.ts xop with
        | .error f =>
          IO.println s!"O {nm} {f.name}"
          st := { st with halted := true }
        | .ok (_, o) =>
          match o with
          | .marked l =>
            IO.println s!"O mark {markStr l}"
            st := { st with nMark := st.nMark + 1 }
            if st.shadow then
              let m := st.spec[t]!
              let ok := match pairsOf l with
                | some ps => l.length == 2 * m.length && (ps.length > 400 || sortItems ps == sortItems m)
                | none => false
              if !ok then
                IO.println s!"M line={lineNo} op=mark model-reports={l.length} spec-len={m.length}"
                st := { st with nMism := st.nMism + 1 }
          | .hashed h =>
            IO.println s!"O hash {h}"
            st := { st with nHash := st.nHash + 1 }
            if st.shadow then
              let sh := Spec.hash K.h u64 (st.spec[t]!)
              if sh ≠ h then
                IO.println s!"M line={lineNo} op=hash model={h} spec={sh}"
                st := { st with nMism := st.nMism + 1 }
          | .base o => IO.println s!"O {nm} {obsStr o}"
        continue
    -- `getk` / `getv`: `Table_Get` with a key argument that lives in the table's own slot array (no state change)
    if let [nm, _, ktok] := w then
      if nm == "getk" || nm == "getv" then
        let some k := parseKey kind ktok | IO.println "O bad-op"; continue
        let tag := kind.keyTag ++ k.name
        match st.seen[tag]? with
        | some h => if h ≠ k.h then IO.println "O bad-op"; continue
        | none => st := { st with seen := st.seen.insert tag k.h }
        if nm == "getv" && kind == .W then IO.println "O bad-op"; continue
        st := { st with nOps := st.nOps + 1 }
        let tb := st.ts[t]!
        match (if nm == "getk" then getViaKey cfg K.h (asKey kind) tb k else getViaVal cfg K.h (asKey kind) tb k) with
        | .error f =>
          IO.println s!"O {nm} {f.name}"
          st := { st with halted := true }
        | .ok o =>
          IO.println s!"O {nm} {obsStr o}"
          if st.shadow then
            let m := st.spec[t]!
            let so : Obs K Int := if nm == "getk" then (match Spec.get m k with | none => .raised .KeyError | some v => .val v)
                                  else Spec.getOfVal (asKey kind) m k
            if !(obsEq o so) then
              IO.println s!"M line={lineNo} op={nm} model={obsStr o} spec={obsStr so}"
              st := { st with nMism := st.nMism + 1 }
        continue
    -- `seta` / `rema` / `mema` / `geta`: argument objects that may live in the table's own slot array (`Cello.Table.stepA`)
    if let nm :: _ :: rest := w then
      if (nm == "seta" && rest.length == 2) || ((nm == "rema" || nm == "mema" || nm == "geta") && rest.length == 1) then
        let some kr := parseRefKey kind (rest[0]!) | IO.println "O bad-op"; continue
        let vr? : Option (Ref K Int) := if nm == "seta" then parseRefVal kind (rest[1]!) else some (.obj 0)
        let some vr := vr? | IO.println "O bad-op"; continue
        -- one hash per key name; all tokens are checked before any is recorded
        let toks : List K := (match kr with | .obj k | .keyOf k | .valOf k => [k]) ++ (match refKeyOf vr with | some k => [k] | none => [])
        let mut bad := false
        let mut seen' := st.seen
        for k in toks do
          let tag := kind.keyTag ++ k.name
          match seen'[tag]? with
          | some h => if h ≠ k.h then bad := true
          | none => seen' := seen'.insert tag k.h
        -- the harness records the first token before it looks at the second
        if bad then
          match toks with
          | k :: _ =>
            let tag := kind.keyTag ++ k.name
            if (st.seen[tag]?).isNone then st := { st with seen := st.seen.insert tag k.h }
          | [] => pure ()
          IO.println "O bad-op"; continue
        st := { st with seen := seen' }
        let crossK := match kr with | .valOf _ => true | _ => false
        let crossV := nm == "seta" && (match vr with | .keyOf _ => true | _ => false)
        if kind == .W && (crossK || crossV) then IO.println "O bad-op"; continue
        st := { st with nOps := st.nOps + 1 }
        let tb := st.ts[t]!
        let beforeN := tb.n
        -- the key value the key argument holds (for the dump window)
        let key : Option K := match kr.readKey K.h (asKey kind) tb with
          | .ok (some (.ok k)) => (if nm == "seta" then (match vr.readVal K.h (asVal kind) tb with | .ok (some (.ok _)) => some k | _ => none) else some k)
          | _ => none
        let aop : AOp K Int := match nm with
          | "seta" => .setA t kr vr | "rema" => .remA t kr | "mema" => .memA t kr | _ => .getA t kr
        let ts := st.ts
        st := { st with ts := [] }
        match stepA cfg K.h (asKey kind) (asVal kind) ts aop with
        | .error f =>
          IO.println s!"O {nm} {f.name}"
          st := { st with halted := true }
        | .ok (ts', o) =>
          let after := ts'[t]!
          let isBad := match o with | .badOp => true | _ => false
          let withCs := !isBad && after.n ≠ beforeN
          if nm == "seta" || nm == "rema" then IO.println s!"O {nm} {obsStr o} | {dump after (if isBad then none else key) withCs}"
          else IO.println s!"O {nm} {obsStr o}"
          st := { st with ts := ts', maxSlots := max st.maxSlots after.n, nRehash := st.nRehash + (if after.n ≠ beforeN then 1 else 0),
                          nOwn := st.nOwn + (match kr, vr with | .obj _, .obj _ => 0 | _, _ => 1) }
          if st.shadow then
            if after.nitems > 1500 then st := { st with shadow := false }
            else
              let (spec', so) := specStepA (asKey kind) (asVal kind) st.spec aop
              st := { st with spec := spec' }
              let specLen := (spec'[t]!).length
              if !(obsEq o so) || after.nitems ≠ specLen then
                IO.println s!"M line={lineNo} op={nm} model={obsStr o} len={after.nitems} spec={obsStr so} len={specLen}"
                st := { st with nMism := st.nMism + 1 }
              if !(invOk after) then
                IO.println s!"M line={lineNo} op={nm} invariant-broken {dump after key false}"
                st := { st with nMism := st.nMism + 1 }
        continue
    let parsed : Option (Op K Int × Option K × String × Bool) := match w with
      | ["new", _, k] => (parseKind k).map (fun _ => (.new t, none, "new", true))
      | ["newm", _, k] => (parseKind k).map (fun _ => (.new t, none, "newm", true))
      | ["set", _, k, v] => match parseKey kind k, v.toInt? with
        | some k, some v => if inInt64 v then some (.set t k v, some k, "set", false) else none
        | _, _ => none
      | ["rem", _, k] => (parseKey kind k).map (fun k => (.rem t k, some k, "rem", false))
      | ["get", _, k] => (parseKey kind k).map (fun k => (.get t k, some k, "get", false))
      | ["mem", _, k] => (parseKey kind k).map (fun k => (.mem t k, some k, "mem", false))
      | ["len", _] => some (.len t, none, "len", false)
      | ["iter", _] => some (.iter t, none, "iter", false)
      | ["riter", _] => some (.riter t, none, "riter", false)
      | ["check", _] => some (.len t, none, "check", true)
      | ["resize", _, m] => (m.toNat?).bind (fun m => if m ≤ 4000000 then some (.resize t m, none, "resize", true) else none)
      | ["assign", _, s] => (s.toNat?).bind (fun s => if s < NT then some (.assign t s, none, "assign", true) else none)
      | ["copy", _, s] => (s.toNat?).bind (fun s => if s < NT then some (.copy t s, none, "copy", true) else none)
      | "newp" :: _ :: kd :: rest =>
        match parseKind kd with
        | none => none
        | some nk => match parsePairs nk rest with
          | some (ps, d) => if ps.length ≤ MAXPAIRS then some (.newWith t ps d.isSome, none, "newp", true) else none
          | none => none
      | "assignm" :: _ :: kd :: rest =>
        match parseKind kd with
        | none => none
        | some nk => match parsePairs nk rest with
          | some (ps, none) => if ps.length ≤ MAXPAIRS then some (.assignMap t ps, none, "assignm", true) else none
          | _ => none
      | _ => none
    let some (op, key, name, forceCs) := parsed | IO.println "O bad-op"; continue
    -- one hash per key name (what a hash *function* is)
    if let some k := key then
      let tag := kind.keyTag ++ k.name
      match st.seen[tag]? with
      | some h => if h ≠ k.h then IO.println "O bad-op"; continue
      | none => st := { st with seen := st.seen.insert tag k.h }
    -- the keys of a pair list: same rule (kind = the kind named in the op)
    let pairKeys : List K × Option Kind := match w, op with
      | _ :: _ :: kd :: rest, .newWith _ ps _ => (ps.map (·.1) ++ (match parsePairs ((parseKind kd).getD .I) rest with | some (_, some d) => [d] | _ => []), parseKind kd)
      | _ :: _ :: kd :: _, .assignMap _ ps => (ps.map (·.1), parseKind kd)
      | _, _ => ([], none)
    let mut badHash := false
    if let some nk := pairKeys.2 then
      -- all keys parse before any is recorded (the harness does the same)
      for k in pairKeys.1 do
        let tag := nk.keyTag ++ k.name
        match st.seen[tag]? with
        | some h => if h ≠ k.h then badHash := true; break
        | none => st := { st with seen := st.seen.insert tag k.h }
    if badHash then IO.println "O bad-op"; continue
    st := { st with nOps := st.nOps + 1 }
    let (beforeN, beforeItems) := match st.ts[t]? with | some b => (b.n, b.nitems) | none => (0, 0)
    -- hand the tables over to `step` as their only owner (in-place slot updates in compiled code)
    let ts := st.ts
    st := { st with ts := [] }
    match step cfg K.h ts op with
    | .error f =>
      IO.println s!"O {name} {f.name}"
      st := { st with halted := true }
    | .ok (ts', o) =>
      let after := ts'[t]!
      let withCs := forceCs || after.n ≠ beforeN
      let line := match name with
        | "new" | "newm" | "set" | "assign" | "copy" => s!"O {name} | {dump after key withCs}"
        | "rem" | "resize" | "newp" | "assignm" => s!"O {name} {obsStr o} | {dump after key withCs}"
        | "check" => s!"O check {after.n} {after.nitems} cs={checksum after}"
        | _ => s!"O {name} {obsStr o}"
      IO.println line
      -- kinds follow the source on assign/copy; `new` sets the kind
      let kinds' := match w with
        | ["new", _, k] | ["newm", _, k] => st.kinds.set! t ((parseKind k).getD .I)
        | ["assign", _, s] | ["copy", _, s] => st.kinds.set! t (st.kinds[s.toNat!]!)
        | "newp" :: _ :: k :: _ => (match o with | .done => st.kinds.set! t ((parseKind k).getD .I) | _ => st.kinds)
        | "assignm" :: _ :: k :: _ => st.kinds.set! t ((parseKind k).getD .I)
        | _ => st.kinds
      -- statistics
      let rehashed := after.n ≠ beforeN
      let keyErr := match o with | .raised .KeyError => true | _ => false
      let replaced := name == "set" && after.nitems == beforeItems && !rehashed
      st := { st with ts := ts', kinds := kinds', maxSlots := max st.maxSlots after.n,
                      nRehash := st.nRehash + (if rehashed then 1 else 0),
                      nKeyErr := st.nKeyErr + (if keyErr then 1 else 0),
                      nReplace := st.nReplace + (if replaced then 1 else 0) }
      -- shadow specification + executable invariant (model self-check)
      if st.shadow then
        if after.nitems > 1500 then st := { st with shadow := false }
        else
          let (spec', so) := specStep st.spec op
          st := { st with spec := spec' }
          let specLen := (spec'[t]!).length
          if !(obsEq o so) || after.nitems ≠ specLen then
            IO.println s!"M line={lineNo} op={name} model={obsStr o} len={after.nitems} spec={obsStr so} len={specLen}"
            st := { st with nMism := st.nMism + 1 }
          if !(invOk after) then
            IO.println s!"M line={lineNo} op={name} invariant-broken {dump after key false}"
            st := { st with nMism := st.nMism + 1 }
  IO.println s!"S ops={st.nOps} maxslots={st.maxSlots} rehashes={st.nRehash} keyerrors={st.nKeyErr} replaces={st.nReplace} own-object-ops={st.nOwn} marks={st.nMark} hashes={st.nHash} model-mismatches={st.nMism} shadow={st.shadow}"
