import Cello.RBTreeCmp
import Cello.RBTreeWord
import Cello.Hash
import Driver.Common
/- driver for engine `tree` (C03): interprets the op files of harness/h_tree.c on the model `Cello.RB.step`
   (the very function the theorems of CelloProofs/Props/C03.lean are about) and prints the same `O` lines:

     auto 0|1                 dump the whole tree after every mutating op (default 1) or only `n=`
     new T <kind> [k v]…      kind = key kind i (Int) | s (String) | w (24-byte struct `a,b,c`), then value kind
                              (none) Int | s (String) | 3 (24-byte struct `x,y,z`) | 5 (40-byte struct)
     set T k v      rem T k      get T k      mem T k      len T      resize T n
     assign T S               copy T S       iter T       riter T      del T        check T
     remroot T  /  rem2 T     rem of the root's key / of the key of the first node (preorder) with two children
     setk T k v               set(t, K, v), K = the tree's own key object for k        (second layer: `AOp`, `stepA`)
     setv T k k2              set(t, k, get(t, k2))            setkv T k k2    set(t, K, get(t, k2))
     getk T k / memk T k / remk T k      get / mem / rem given the tree's own key object
     walk T v                 foreach (K in t) set(t, K, v)    walkself T      foreach (K in t) set(t, K, get(t, K))
                              (run as one `setA` step per key of the forward iteration; one O line)
     assignmap T <kind> [k v]…   assign(t, obj), obj a map that is not a Tree, iterating the pairs in this order
     newodd T <kind> …        new(Tree, K, V, …) with an odd number of arguments: FormatError
     cmp T S                  cmp(t, s), two Trees of one kind     hash T      hash(t)        (third layer: `BOp`, `stepB`)
     links T                  per node in preorder `key<parentkey:colour`, read back from the parent-and-colour words that the
                              accessors of the source (CelloGen.Tree PW terms, Cello/RBTreeWord.lean) build

   dump = `n=<nitems> ok=<invariants hold> h=<height> sz=<ksize>/<vsize> t=<preorder (colour key:value left right) | #hash when n>40>` -/
open Cello.RB

abbrev KT := T Key Val
abbrev KTree := Tree Key Val

def mixstep (h x : UInt64) : UInt64 := (h ^^^ x) * 0x100000001b3
def fnvInit : UInt64 := 0xcbf29ce484222325

/-- one word: the word itself; more: FNV over the words -/
def wordsHash : List Int → UInt64
  | [x] => UInt64.ofInt x
  | l => l.foldl (fun h x => mixstep h (UInt64.ofInt x)) fnvInit

def keyHash : Key → UInt64
  | .i n => UInt64.ofInt n
  | .s x => x.toUTF8.foldl (fun h b => mixstep h b.toUInt64) fnvInit
  | .w a b r => wordsHash (a :: b :: r)

def treeHash : KT → UInt64
  | .nil => 0x9E3779B97F4A7C15
  | .node c l k v r =>
    [if c = .R then 1 else 0, keyHash k, keyHash v, treeHash l, treeHash r].foldl mixstep fnvInit

def hex16 (x : UInt64) : String :=
  let d := Nat.toDigits 16 x.toNat
  String.ofList (List.replicate (16 - d.length) '0' ++ d)

def showWords (l : List Int) : String := ",".intercalate (l.map toString)

def showKey : Key → String
  | .i n => toString n
  | .s x => x
  | .w a b r => showWords (a :: b :: r)

def preorder : KT → String
  | .nil => "."
  | .node c l k v r =>
    "(" ++ (if c = .R then "R" else "B") ++ showKey k ++ ":" ++ showKey v ++ " " ++ preorder l ++ " " ++ preorder r ++ ")"

def rootKey : KT → Option Key
  | .nil => none
  | .node _ _ k _ _ => some k

def firstTwoChildren : KT → Option Key
  | .nil => none
  | .node _ l k _ r =>
    match l, r with
    | .node .., .node .. => some k
    | _, _ => (firstTwoChildren l).orElse (fun _ => firstTwoChildren r)

/-! statistics only: which branches of `setFix` / `remFix` an operation takes (mirrors their tests; not part of the model) -/

def setFixTags : KT → Path Key Val → List String
  | _, [] => ["set:root"]
  | _, [f] => if f.c = .B then ["set:black-parent"] else ["set:ub"]
  | t, f :: g :: up =>
    if f.c = .B then ["set:black-parent"]
    else if color g.sib = .R then
      "set:red-uncle" :: setFixTags (mk { g with c := .R, sib := setColor .B g.sib } (mk { f with c := .B } t)) up
    else if g.dir = f.dir then ["set:outer-rotation"] else ["set:inner-rotation"]

def insTags : KT → Path Key Val → Key → List String
  | .nil, p, k => setFixTags (.node .R .nil k (.i 0) .nil) p
  | .node c l nk nv r, p, k =>
    match orient CelloGen.Tree.setDescent Key.cmp nk k with
    | .eq => ["set:update"]
    | .lt => insTags l ({ dir := .L, c := c, k := nk, v := nv, sib := r } :: p) k
    | .gt => insTags r ({ dir := .Rt, c := c, k := nk, v := nv, sib := l } :: p) k

def remBodyTags (f : Frame Key Val) : List String × Bool :=   -- tags, and whether the loop continues at the parent
  match f.sib with
  | .nil => (["rem:ub"], false)
  | .node sc sl _ _ sr =>
    if f.c = .B ∧ sc = .B ∧ color sl = .B ∧ color sr = .B then (["rem:all-black"], true)
    else if f.c = .R ∧ sc = .B ∧ color sl = .B ∧ color sr = .B then (["rem:red-parent"], false)
    else
      let near := if f.dir = .L then color sl = .R ∧ color sr = .B else color sr = .R ∧ color sl = .B
      ((if sc = .B ∧ near then ["rem:near-nephew-rotation"] else []) ++ ["rem:far-nephew-rotation"], false)

def remFixTags : Path Key Val → List String
  | [] => ["rem:fix-reached-root"]
  | f :: rest =>
    if color f.sib = .R then
      "rem:red-sibling" :: (remBodyTags (remCase2 f rest).1).1
    else
      let r := remBodyTags f
      if r.2 then r.1 ++ remFixTags rest else r.1

def spliceTags (x : Loc Key Val) : List String :=
  (if x.path.isEmpty then ["rem:root-node"] else []) ++
  (if x.c = .B then
     (if color x.child = .R then ["rem:black-with-red-child"] else ["rem:black-leaf"]) ++ remFixTags x.path
   else ["rem:red-leaf"])

def remTags : KT → Path Key Val → Key → List String
  | .nil, _, _ => ["rem:absent"]
  | .node c l nk nv r, p, k =>
    match orient CelloGen.Tree.remDescent Key.cmp nk k with
    | .eq =>
      match l, r with
      | .node .., .node .. =>
        match maxLoc l [] with
        | none => ["rem:ub"]
        | some pr => "rem:two-children" ::
            spliceTags { pr with path := pr.path ++ { dir := .L, c := c, k := pr.k, v := pr.v, sib := r } :: p }
      | _, _ => spliceTags ⟨c, l, nk, nv, r, p⟩
    | .lt => remTags l ({ dir := .L, c := c, k := nk, v := nv, sib := r } :: p) k
    | .gt => remTags r ({ dir := .Rt, c := c, k := nk, v := nv, sib := l } :: p) k

def opTags (st : Store KTree) : Op Key Val → List String
  | .set t k _ => match Store.get? st t with | some m => insTags m.root [] k | none => []
  | .rem t k =>
    match Store.get? st t with
    | some m =>
      let tags := remTags m.root [] k
      if tags.contains "rem:two-children" && m.ksize != m.vsize then "rem:relocation-ksize-ne-vsize" :: tags else tags
    | none => []
  | _ => []

def opTagsA (st : Store KTree) : AOp Key Val → List String
  | .base op => opTags st op
  | .setA t ka va =>
    (match ka with | .own _ => ["set:own-key-object"] | .val _ => []) ++
    (match va with | .own _ => ["set:own-value-object"] | .val _ => []) ++
    (match Store.get? st t with
     | some m =>
       (match m.keyArg Key.cmp ka, m.valArg Key.cmp va with
        | some (k, kh), some (_, vh) =>
          let tags := insTags m.root [] k
          tags ++ (if tags.contains "set:update" && kh.isSome then ["set:key-assigned-from-itself"] else []) ++
            (if tags.contains "set:update" && vh == some k then ["set:value-assigned-from-itself"] else []) ++
            (if vh.isSome && vh != some k then ["set:value-of-another-node"] else [])
        | _, _ => [])
     | none => [])
  | .getK .. => ["get:own-key-object"]
  | .memK .. => ["mem:own-key-object"]
  | .remK t k =>
    "rem:own-key-object" :: (match Store.get? st t with | some m => remTags m.root [] k | none => [])
  | .assignMap .. => ["assign:from-foreign-map"]
  | .newOdd _ => ["new:odd-argument-count"]

def bumpAll (tags : List String) (acc : List (String × Nat)) : List (String × Nat) :=
  tags.foldl (fun acc tag =>
    if acc.any (·.1 = tag) then acc.map (fun e => if e.1 = tag then (e.1, e.2 + 1) else e) else acc ++ [(tag, 1)]) acc

def bigLimit : Nat := 40

def dumpTree (m : KTree) : String :=
  let ok := if m.validB Key.cmp then "1" else "0"
  s!"n={m.nitems} ok={ok} h={height m.root} sz={m.ksize}/{m.vsize} t=" ++
    (if m.nitems > bigLimit then "#" ++ hex16 (treeHash m.root) else preorder m.root)

def showItems (l : List (Key × Val)) (term : Bool) : String :=
  let body :=
    if l.length > bigLimit then
      s!"#{l.length}:" ++ hex16 (l.foldl (fun h kv => mixstep (mixstep h (keyHash kv.1)) (keyHash kv.2)) fnvInit)
    else " ".intercalate (l.map (fun kv => showKey kv.1 ++ ":" ++ showKey kv.2))
  (if term then "" else "NOT-TERMINATED ") ++ body

/-- key kind of a tree: 0 Int, 1 String, 2 the 24-byte struct; and the number of words in a value (0 = a String value) -/
abbrev Kind := Nat × Nat

structure DState where
  st : Store KTree := []
  kinds : Store Kind := []
  auto : Bool := true
  -- statistics (S line)
  nops : Nat := 0
  nub : Nat := 0
  tags : List (String × Nat) := []

/-- exactly `n` comma-separated integers -/
def parseWords (n : Nat) (s : String) : Option (List Int) :=
  let parts := s.splitOn ","
  if parts.length != n then none else parts.mapM (·.toInt?)

def parseKey (kk : Nat) (s : String) : Option Key :=
  if kk = 1 then (if s.isEmpty then none else some (.s s))
  else if kk = 2 then
    match parseWords 3 s with
    | some (a :: b :: r) => some (.w a b r)
    | _ => none
  else s.toInt?.map .i

def parseVal (vw : Nat) (s : String) : Option Val :=
  if vw = 0 then (if s.isEmpty then none else some (.s s))
  else if vw = 1 then s.toInt?.map .i
  else match parseWords vw s with
    | some (a :: b :: r) => some (.w a b r)
    | _ => none

def parseKind (s : String) : Option Kind :=
  match s.toList with
  | [c] => (if c = 'i' then some 0 else if c = 's' then some 1 else if c = 'w' then some 2 else none).map (·, 1)
  | [c, d] =>
    (if c = 'i' then some 0 else if c = 's' then some 1 else if c = 'w' then some 2 else none).bind fun kk =>
      if d = '3' then some (kk, 3) else if d = '5' then some (kk, 5) else if d = 's' then some (kk, 0) else none
  | _ => none

/-- `size(K)`, `size(V)` in bytes -/
def kindSizes (kd : Kind) : Nat × Nat := ((if kd.1 = 2 then 24 else 8), if kd.2 = 0 then 8 else 8 * kd.2)

def parsePairs (kd : Kind) : List String → Option (List (Key × Val))
  | [] => some []
  | [_] => none
  | k :: v :: rest => do
    let k ← parseKey kd.1 k
    let v ← parseVal kd.2 v
    let r ← parsePairs kd rest
    pure ((k, v) :: r)

def showObs : Obs Key Val → String
  | .done => "ok"
  | .val v => showKey v
  | .bool b => if b then "1" else "0"
  | .nat n => toString n
  | .items l t => showItems l t
  | .err .KeyError => "KeyError"
  | .err .FormatError => "FormatError"
  | .noobj => "noobj"

/-- run one parsed op through `step`; `dumpOf` = the tree whose dump follows the observation (mutating ops) -/
def execA (d0 : DState) (name : String) (op : AOp Key Val) (dumpOf : Option Nat) : IO DState := do
  let d := { d0 with tags := bumpAll (opTagsA d0.st op) d0.tags }
  match stepA CelloGen.Tree.stringAssignGuardsSelf Key.cmp d.st op with
  | none =>
    IO.println s!"O {name} ub"
    return { d with nops := d.nops + 1, nub := d.nub + 1 }
  | some (st', .noobj) =>
    IO.println "O bad-op"
    return { d with st := st' }
  | some (st', o) =>
    let tail := match dumpOf.bind (fun t => Store.get? st' t) with
      | some m => " " ++ (if d.auto then dumpTree m else s!"n={m.nitems}")
      | none => ""
    IO.println s!"O {name} {showObs o}{tail}"
    return { d with st := st', nops := d.nops + 1 }

def exec (d0 : DState) (name : String) (op : Op Key Val) (dumpOf : Option Nat) : IO DState :=
  execA d0 name (.base op) dumpOf

/-- `foreach (K in t) set(t, K, …)`: one `setA` step per key of the forward iteration; `none` = undefined in the model -/
def walkSteps (st : Store KTree) (t : Nat) (keys : List Key) (v : Option Val) : Option (Store KTree) :=
  keys.foldlM (fun st k =>
    (stepA CelloGen.Tree.stringAssignGuardsSelf Key.cmp st
      (.setA t (.own k) (match v with | some v => .val v | none => .own k))).map (·.1)) st

/-- the element comparisons / hashes of the op files: `hash_data` is the model of the current source (Cello/Hash.lean) -/
def elemE : Elem Key Val := ⟨Val.cmpC, Key.hashC Cello.Hash.hashData, Key.hashC Cello.Hash.hashData⟩

/-- statistics only: where the comparison of two maps is decided -/
def cmpTag : List (Key × Val) → List (Key × Val) → String
  | [], [] => "cmp:both-terminal"
  | [], _ :: _ => "cmp:self-is-prefix"
  | _ :: _, [] => "cmp:obj-is-prefix"
  | a :: l, b :: l' =>
    match Key.cmp a.1 b.1 with
    | .lt => "cmp:key-less"
    | .gt => "cmp:key-greater"
    | .eq =>
      match Val.cmpC a.2 b.2 with
      | .lt => "cmp:value-less"
      | .gt => "cmp:value-greater"
      | .eq => cmpTag l l'

def opTagsB (st : Store KTree) : BOp Key Val → List String
  | .cmp t s =>
    match Store.get? st t, Store.get? st s with
    | some m, some m2 => [cmpTag (toList m.root) (toList m2.root)] ++ (if t = s then ["cmp:with-itself"] else [])
    | _, _ => []
  | .hash t => match Store.get? st t with | some m => [if m.nitems = 0 then "hash:empty" else "hash:walk"] | none => []
  | .a _ => []

/-- the link table as text: parent addresses turned back into keys -/
def showLinks (t : KT) : String :=
  let tab := linkTable t
  let keyAt (a : Nat) : String :=
    if a = 0 then "-" else match tab.find? (fun e => e.2.1 = a) with | some e => showKey e.1 | none => s!"?{a}"
  s!"n={tab.length} " ++ " ".intercalate ((tab.take bigLimit).map (fun e =>
    showKey e.1 ++ "<" ++ keyAt e.2.2.1 ++ (if e.2.2.2 = .R then ":R" else ":B")))

/-- `cmp` / `hash` through `stepB` -/
def execB (d0 : DState) (name : String) (op : BOp Key Val) : IO DState := do
  let d := { d0 with tags := bumpAll (opTagsB d0.st op) d0.tags }
  match stepB CelloGen.Tree.stringAssignGuardsSelf Key.cmp elemE d.st op with
  | none =>
    IO.println s!"O {name} ub"
    return { d with nops := d.nops + 1, nub := d.nub + 1 }
  | some (_, .ord o) =>
    IO.println s!"O {name} {match o with | .lt => "-1" | .eq => "0" | .gt => "1"}"
    return { d with nops := d.nops + 1 }
  | some (_, .word h) =>
    IO.println s!"O {name} {hex16 h}"
    return { d with nops := d.nops + 1 }
  | some (_, .err .KeyError) =>
    IO.println s!"O {name} KeyError"
    return { d with nops := d.nops + 1 }
  | some (_, _) =>
    IO.println "O bad-op"
    return d

def main (args : List String) : IO Unit := do
  let lines ← Driver.inputLines args
  let mut d : DState := {}
  for l in lines do
    if Driver.isSkippable l then continue
    let ws := Driver.words l
    let typeOf (t : Nat) : Option Kind := Store.get? d.kinds t
    match ws with
    | ["auto", x] =>
      match x.toNat? with
      | some n => d := { d with auto := n != 0 }
      | none => IO.println "O bad-op"
    | "new" :: t :: ty :: rest =>
      match t.toNat?, parseKind ty with
      | some t, some kd =>
        match parsePairs kd rest with
        | some init =>
          d ← exec d "new" (.new t (kindSizes kd).1 (kindSizes kd).2 init) (some t)
          d := { d with kinds := Store.put d.kinds t kd }
        | none => IO.println "O bad-op"
      | _, _ => IO.println "O bad-op"
    | "assignmap" :: t :: ty :: rest =>
      match t.toNat?, parseKind ty with
      | some t, some kd =>
        match parsePairs kd rest, typeOf t with
        | some kvs, some _ =>
          d ← execA d "assignmap" (.assignMap t (kindSizes kd).1 (kindSizes kd).2 kvs) (some t)
          d := { d with kinds := Store.put d.kinds t kd }
        | _, _ => IO.println "O bad-op"
      | _, _ => IO.println "O bad-op"
    | "newodd" :: t :: ty :: rest =>
      match t.toNat?, parseKind ty with
      | some t, some _ => if rest.length % 2 = 1 then d ← execA d "newodd" (.newOdd t) none else IO.println "O bad-op"
      | _, _ => IO.println "O bad-op"
    | [opn, t, k, v] =>
      match t.toNat?.bind (fun t => (typeOf t).map (t, ·)) with
      | some (t, kd) =>
        if opn = "set" then
          match parseKey kd.1 k, parseVal kd.2 v with
          | some k, some v => d ← exec d "set" (.set t k v) (some t)
          | _, _ => IO.println "O bad-op"
        else if opn = "setk" then
          match parseKey kd.1 k, parseVal kd.2 v with
          | some k, some v => d ← execA d "setk" (.setA t (.own k) (.val v)) (some t)
          | _, _ => IO.println "O bad-op"
        else if opn = "setv" || opn = "setkv" then
          match parseKey kd.1 k, parseKey kd.1 v with
          | some k, some k2 => d ← execA d opn (.setA t (if opn = "setv" then .val k else .own k) (.own k2)) (some t)
          | _, _ => IO.println "O bad-op"
        else IO.println "O bad-op"
      | none => IO.println "O bad-op"
    | [opn, t, k] =>
      match t.toNat? with
      | none => IO.println "O bad-op"
      | some t =>
        if opn = "getk" || opn = "memk" || opn = "remk" then
          match (typeOf t).bind (fun kd => parseKey kd.1 k) with
          | some k =>
            if opn = "remk" then d ← execA d "remk" (.remK t k) (some t)
            else if opn = "getk" then d ← execA d "getk" (.getK t k) none
            else d ← execA d "memk" (.memK t k) none
          | none => IO.println "O bad-op"
        else if opn = "walk" then
          match (typeOf t).bind (fun kd => parseVal kd.2 k), Store.get? d.st t with
          | some v, some m =>
            match m.iterFwd with
            | some (kvs, true) =>
              match walkSteps d.st t (kvs.map (·.1)) (some v) with
              | some st' =>
                d := { d with st := st', nops := d.nops + 1,
                              tags := bumpAll (["walk:set-own-keys"] ++ kvs.map (fun _ => "set:key-assigned-from-itself")) d.tags }
                match Store.get? st' t with
                | some m' => IO.println ("O walk ok " ++ (if d.auto then dumpTree m' else s!"n={m'.nitems}"))
                | none => IO.println "O walk ub"
              | none => IO.println "O walk ub"; d := { d with nub := d.nub + 1 }
            | _ => IO.println "O walk ub"; d := { d with nub := d.nub + 1 }
          | _, _ => IO.println "O bad-op"
        else if opn = "rem" || opn = "get" || opn = "mem" then
          match (typeOf t).bind (fun kd => parseKey kd.1 k) with
          | some k =>
            if opn = "rem" then d ← exec d "rem" (.rem t k) (some t)
            else if opn = "get" then d ← exec d "get" (.get t k) none
            else d ← exec d "mem" (.mem t k) none
          | none => IO.println "O bad-op"
        else if opn = "resize" then
          match k.toNat? with
          | some n => d ← exec d "resize" (.resize t n) (some t)
          | none => IO.println "O bad-op"
        else if opn = "cmp" then
          match k.toNat? with
          | some s =>
            match typeOf t, typeOf s with
            | some kd, some kd2 => if kd = kd2 then d ← execB d "cmp" (.cmp t s) else IO.println "O bad-op"
            | _, _ => IO.println "O bad-op"
          | none => IO.println "O bad-op"
        else if opn = "assign" || opn = "copy" then
          match k.toNat? with
          | some s =>
            match typeOf s with
            | some kd =>
              if opn = "assign" then
                if (typeOf t).isSome then
                  d ← exec d "assign" (.assign t s) (some t)
                  d := { d with kinds := Store.put d.kinds t kd }
                else IO.println "O bad-op"
              else
                d ← exec d "copy" (.copy t s) (some t)
                d := { d with kinds := Store.put d.kinds t kd }
            | none => IO.println "O bad-op"
          | none => IO.println "O bad-op"
        else IO.println "O bad-op"
    | [opn, t] =>
      match t.toNat? with
      | none => IO.println "O bad-op"
      | some t =>
        if opn = "walkself" then
          match Store.get? d.st t with
          | some m =>
            match m.iterFwd with
            | some (kvs, true) =>
              match walkSteps d.st t (kvs.map (·.1)) none with
              | some st' =>
                d := { d with st := st', nops := d.nops + 1,
                              tags := bumpAll (["walk:set-own-keys-own-values"] ++ kvs.map (fun _ => "set:value-assigned-from-itself")) d.tags }
                match Store.get? st' t with
                | some m' => IO.println ("O walkself ok " ++ (if d.auto then dumpTree m' else s!"n={m'.nitems}"))
                | none => IO.println "O walkself ub"
              | none => IO.println "O walkself ub"; d := { d with nub := d.nub + 1 }
            | _ => IO.println "O walkself ub"; d := { d with nub := d.nub + 1 }
          | none => IO.println "O bad-op"
        else if opn = "links" then
          match Store.get? d.st t with
          | some m => IO.println s!"O links {showLinks m.root}"
          | none => IO.println "O bad-op"
        else if opn = "hash" then
          if (typeOf t).isSome then d ← execB d "hash" (.hash t) else IO.println "O bad-op"
        else if opn = "len" then d ← exec d "len" (.len t) none
        else if opn = "iter" then d ← exec d "iter" (.iter t) none
        else if opn = "riter" then d ← exec d "riter" (.riter t) none
        else if opn = "del" then
          d ← exec d "del" (.del t) none
          d := { d with kinds := Store.erase d.kinds t }
        else if opn = "remroot" || opn = "rem2" then
          -- the key is chosen by looking at the tree: the root's, or the first node in preorder with two children
          match Store.get? d.st t with
          | none => IO.println "O bad-op"
          | some m =>
            match (if opn = "remroot" then rootKey m.root else firstTwoChildren m.root) with
            | none => IO.println s!"O {opn} none"
            | some k => d ← exec d "rem" (.rem t k) (some t)
        else if opn = "check" then
          match Store.get? d.st t with
          | some m => IO.println s!"O check {dumpTree m}"
          | none => IO.println "O bad-op"
        else IO.println "O bad-op"
    | _ => IO.println "O bad-op"
  IO.println s!"S ops={d.nops} ub={d.nub} trees={d.st.length}"
  IO.println ("S branches " ++ " ".intercalate (d.tags.map (fun e => s!"{e.1}={e.2}")))
