import Cello.RBTree
import Driver.Common
/- driver for engine `tree` (C03): interprets the op files of harness/h_tree.c on the model `Cello.RB.step`
   (the very function the theorems of CelloProofs/Props/C03.lean are about) and prints the same `O` lines:

     auto 0|1                 dump the whole tree after every mutating op (default 1) or only `n=`
     new T i|s [k v]…         set T k v      rem T k      get T k      mem T k      len T      resize T n
     assign T S               copy T S       iter T       riter T      del T        check T
     remroot T  /  rem2 T     rem of the root's key / of the key of the first node (preorder) with two children

   dump = `n=<nitems> ok=<invariants hold> h=<height> t=<preorder (colour key:value left right) | #hash when n>40>` -/
open Cello.RB

abbrev KT := T Key Int
abbrev KTree := Tree Key Int

def mixstep (h x : UInt64) : UInt64 := (h ^^^ x) * 0x100000001b3
def fnvInit : UInt64 := 0xcbf29ce484222325

def keyHash : Key → UInt64
  | .i n => UInt64.ofInt n
  | .s x => x.toUTF8.foldl (fun h b => mixstep h b.toUInt64) fnvInit

def treeHash : KT → UInt64
  | .nil => 0x9E3779B97F4A7C15
  | .node c l k v r =>
    [if c = .R then 1 else 0, keyHash k, UInt64.ofInt v, treeHash l, treeHash r].foldl mixstep fnvInit

def hex16 (x : UInt64) : String :=
  let d := Nat.toDigits 16 x.toNat
  String.ofList (List.replicate (16 - d.length) '0' ++ d)

def showKey : Key → String
  | .i n => toString n
  | .s x => x

def preorder : KT → String
  | .nil => "."
  | .node c l k v r =>
    "(" ++ (if c = .R then "R" else "B") ++ showKey k ++ ":" ++ toString v ++ " " ++ preorder l ++ " " ++ preorder r ++ ")"

def rootKey : KT → Option Key
  | .nil => none
  | .node _ _ k _ _ => some k

def firstTwoChildren : KT → Option Key
  | .nil => none
  | .node _ l k _ r =>
    match l, r with
    | .node .., .node .. => some k
    | _, _ => (firstTwoChildren l).orElse (fun _ => firstTwoChildren r)

/-! statistics only: which branches of `setFix` / `remFix` an operation takes (mirrors their tests; not part of the model) -/

def setFixTags : KT → Path Key Int → List String
  | _, [] => ["set:root"]
  | _, [f] => if f.c = .B then ["set:black-parent"] else ["set:ub"]
  | t, f :: g :: up =>
    if f.c = .B then ["set:black-parent"]
    else if color g.sib = .R then
      "set:red-uncle" :: setFixTags (mk { g with c := .R, sib := setColor .B g.sib } (mk { f with c := .B } t)) up
    else if g.dir = f.dir then ["set:outer-rotation"] else ["set:inner-rotation"]

def insTags : KT → Path Key Int → Key → List String
  | .nil, p, k => setFixTags (.node .R .nil k 0 .nil) p
  | .node c l nk nv r, p, k =>
    match Key.cmp nk k with
    | .eq => ["set:update"]
    | .lt => insTags l ({ dir := .L, c := c, k := nk, v := nv, sib := r } :: p) k
    | .gt => insTags r ({ dir := .Rt, c := c, k := nk, v := nv, sib := l } :: p) k

def remBodyTags (f : Frame Key Int) : List String × Bool :=   -- tags, and whether the loop continues at the parent
  match f.sib with
  | .nil => (["rem:ub"], false)
  | .node sc sl _ _ sr =>
    if f.c = .B ∧ sc = .B ∧ color sl = .B ∧ color sr = .B then (["rem:all-black"], true)
    else if f.c = .R ∧ sc = .B ∧ color sl = .B ∧ color sr = .B then (["rem:red-parent"], false)
    else
      let near := if f.dir = .L then color sl = .R ∧ color sr = .B else color sr = .R ∧ color sl = .B
      ((if sc = .B ∧ near then ["rem:near-nephew-rotation"] else []) ++ ["rem:far-nephew-rotation"], false)

def remFixTags : Path Key Int → List String
  | [] => ["rem:fix-reached-root"]
  | f :: rest =>
    if color f.sib = .R then
      "rem:red-sibling" :: (remBodyTags (remCase2 f rest).1).1
    else
      let r := remBodyTags f
      if r.2 then r.1 ++ remFixTags rest else r.1

def spliceTags (x : Loc Key Int) : List String :=
  (if x.path.isEmpty then ["rem:root-node"] else []) ++
  (if x.c = .B then
     (if color x.child = .R then ["rem:black-with-red-child"] else ["rem:black-leaf"]) ++ remFixTags x.path
   else ["rem:red-leaf"])

def remTags : KT → Path Key Int → Key → List String
  | .nil, _, _ => ["rem:absent"]
  | .node c l nk nv r, p, k =>
    match Key.cmp nk k with
    | .eq =>
      match l, r with
      | .node .., .node .. =>
        match maxLoc l [] with
        | none => ["rem:ub"]
        | some pr => "rem:two-children" ::
            spliceTags { pr with path := pr.path ++ { dir := .L, c := c, k := pr.k, v := pr.v, sib := r } :: p }
      | _, _ => spliceTags ⟨c, l, nk, nv, r, p⟩
    | .lt => remTags l ({ dir := .L, c := c, k := nk, v := nv, sib := r } :: p) k
    | .gt => remTags r ({ dir := .Rt, c := c, k := nk, v := nv, sib := l } :: p) k

def opTags (st : Store KTree) : Op Key Int → List String
  | .set t k _ => match Store.get? st t with | some m => insTags m.root [] k | none => []
  | .rem t k => match Store.get? st t with | some m => remTags m.root [] k | none => []
  | _ => []

def bumpAll (tags : List String) (acc : List (String × Nat)) : List (String × Nat) :=
  tags.foldl (fun acc tag =>
    if acc.any (·.1 = tag) then acc.map (fun e => if e.1 = tag then (e.1, e.2 + 1) else e) else acc ++ [(tag, 1)]) acc

def bigLimit : Nat := 40

def dumpTree (m : KTree) : String :=
  let ok := if m.validB Key.cmp then "1" else "0"
  s!"n={m.nitems} ok={ok} h={height m.root} t=" ++
    (if m.nitems > bigLimit then "#" ++ hex16 (treeHash m.root) else preorder m.root)

def showItems (l : List (Key × Int)) (term : Bool) : String :=
  let body :=
    if l.length > bigLimit then
      s!"#{l.length}:" ++ hex16 (l.foldl (fun h kv => mixstep (mixstep h (keyHash kv.1)) (UInt64.ofInt kv.2)) fnvInit)
    else " ".intercalate (l.map (fun kv => showKey kv.1 ++ ":" ++ toString kv.2))
  (if term then "" else "NOT-TERMINATED ") ++ body

structure DState where
  st : Store KTree := []
  isStr : Store Bool := []
  auto : Bool := true
  -- statistics (S line)
  nops : Nat := 0
  nub : Nat := 0
  tags : List (String × Nat) := []

def parseKey (str : Bool) (s : String) : Option Key :=
  if str then (if s.isEmpty then none else some (.s s)) else s.toInt?.map .i

def parsePairs (str : Bool) : List String → Option (List (Key × Int))
  | [] => some []
  | [_] => none
  | k :: v :: rest => do
    let k ← parseKey str k
    let v ← v.toInt?
    let r ← parsePairs str rest
    pure ((k, v) :: r)

def showObs : Obs Key Int → String
  | .done => "ok"
  | .val v => toString v
  | .bool b => if b then "1" else "0"
  | .nat n => toString n
  | .items l t => showItems l t
  | .err .KeyError => "KeyError"
  | .err .FormatError => "FormatError"
  | .noobj => "noobj"

/-- run one parsed op through `step`; `dumpOf` = the tree whose dump follows the observation (mutating ops) -/
def exec (d0 : DState) (name : String) (op : Op Key Int) (dumpOf : Option Nat) : IO DState := do
  let d := { d0 with tags := bumpAll (opTags d0.st op) d0.tags }
  match step Key.cmp d.st op with
  | none =>
    IO.println s!"O {name} ub"
    return { d with nops := d.nops + 1, nub := d.nub + 1 }
  | some (st', .noobj) =>
    IO.println "O bad-op"
    return { d with st := st' }
  | some (st', o) =>
    let tail := match dumpOf.bind (fun t => Store.get? st' t) with
      | some m => " " ++ (if d.auto then dumpTree m else s!"n={m.nitems}")
      | none => ""
    IO.println s!"O {name} {showObs o}{tail}"
    return { d with st := st', nops := d.nops + 1 }

def main (args : List String) : IO Unit := do
  let lines ← Driver.inputLines args
  let mut d : DState := {}
  for l in lines do
    if Driver.isSkippable l then continue
    let ws := Driver.words l
    let typeOf (t : Nat) : Option Bool := Store.get? d.isStr t
    match ws with
    | ["auto", x] =>
      match x.toNat? with
      | some n => d := { d with auto := n != 0 }
      | none => IO.println "O bad-op"
    | "new" :: t :: ty :: rest =>
      match t.toNat?, (if ty = "i" then some false else if ty = "s" then some true else none) with
      | some t, some str =>
        match parsePairs str rest with
        | some init =>
          d ← exec d "new" (.new t init) (some t)
          d := { d with isStr := Store.put d.isStr t str }
        | none => IO.println "O bad-op"
      | _, _ => IO.println "O bad-op"
    | ["set", t, k, v] =>
      match t.toNat?.bind (fun t => (typeOf t).map (t, ·)), v.toInt? with
      | some (t, str), some v =>
        match parseKey str k with
        | some k => d ← exec d "set" (.set t k v) (some t)
        | none => IO.println "O bad-op"
      | _, _ => IO.println "O bad-op"
    | [opn, t, k] =>
      match t.toNat? with
      | none => IO.println "O bad-op"
      | some t =>
        if opn = "rem" || opn = "get" || opn = "mem" then
          match (typeOf t).bind (fun str => parseKey str k) with
          | some k =>
            if opn = "rem" then d ← exec d "rem" (.rem t k) (some t)
            else if opn = "get" then d ← exec d "get" (.get t k) none
            else d ← exec d "mem" (.mem t k) none
          | none => IO.println "O bad-op"
        else if opn = "resize" then
          match k.toNat? with
          | some n => d ← exec d "resize" (.resize t n) (some t)
          | none => IO.println "O bad-op"
        else if opn = "assign" || opn = "copy" then
          match k.toNat? with
          | some s =>
            match typeOf s with
            | some str =>
              if opn = "assign" then
                if (typeOf t).isSome then
                  d ← exec d "assign" (.assign t s) (some t)
                  d := { d with isStr := Store.put d.isStr t str }
                else IO.println "O bad-op"
              else
                d ← exec d "copy" (.copy t s) (some t)
                d := { d with isStr := Store.put d.isStr t str }
            | none => IO.println "O bad-op"
          | none => IO.println "O bad-op"
        else IO.println "O bad-op"
    | [opn, t] =>
      match t.toNat? with
      | none => IO.println "O bad-op"
      | some t =>
        if opn = "len" then d ← exec d "len" (.len t) none
        else if opn = "iter" then d ← exec d "iter" (.iter t) none
        else if opn = "riter" then d ← exec d "riter" (.riter t) none
        else if opn = "del" then
          d ← exec d "del" (.del t) none
          d := { d with isStr := Store.erase d.isStr t }
        else if opn = "remroot" || opn = "rem2" then
          -- the key is chosen by looking at the tree: the root's, or the first node in preorder with two children
          match Store.get? d.st t with
          | none => IO.println "O bad-op"
          | some m =>
            match (if opn = "remroot" then rootKey m.root else firstTwoChildren m.root) with
            | none => IO.println s!"O {opn} none"
            | some k => d ← exec d "rem" (.rem t k) (some t)
        else if opn = "check" then
          match Store.get? d.st t with
          | some m => IO.println s!"O check {dumpTree m}"
          | none => IO.println "O bad-op"
        else IO.println "O bad-op"
    | _ => IO.println "O bad-op"
  IO.println s!"S ops={d.nops} ub={d.nub} trees={d.st.length}"
  IO.println ("S branches " ++ " ".intercalate (d.tags.map (fun e => s!"{e.1}={e.2}")))
