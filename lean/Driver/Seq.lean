import Cello.Seq
import Cello.Sort
import Driver.Common
/- driver for engine `seq` (C04): interprets the op files of harness/h_seq.c on the model lean/Cello/Seq.lean and prints
   the same `O` lines (see the header of h_seq.c for the op language and the output format). -/
open Cello.Seq

namespace SeqDrv

/-- a Tuple element: an Int object with an identity -/
structure Obj where
  id : Nat
  val : Int
deriving Repr, Inhabited

/-- `eq` on Tuple elements compares the Int values (Int_Cmp), not the pointers -/
instance : BEq Obj := ⟨fun a b => a.val == b.val⟩

inductive Cont where
  | arr (ek : Nat) (a : Arr Int)      -- ek = element kind: 0 Int, 1 String, 2 Rec12 (12-byte record), 3 Rec5 (5-byte record)
  | lst (ek : Nat) (l : Lst Int)
  | tup (t : Tup Obj)

def Cont.ek : Cont → Nat
  | .arr s _ => s | .lst s _ => s | .tup _ => 0
def Cont.isStr (c : Cont) : Bool := c.ek == 1
def Cont.isTup : Cont → Bool
  | .tup _ => true | _ => false

structure St where
  slots : Array (Option Cont) := Array.replicate 16 none
  objs : Array (Option Int) := #[]          -- id -> value of the Tuple element objects created so far
  dumpOn : Bool := true

def HP : Nat := 4294967291
def strMax : Int := 9999999
def valMax : Int := 1000000000000

def encInt (v : Int) : Nat := (v % (HP : Int)).toNat
def encObj (o : Obj) : Nat := (encInt o.val + (o.id * 7919) % HP) % HP
def showObj (o : Obj) : String := s!"{o.id}:{o.val}"

def fmtSeq {α : Type} (sh : α → String) (enc : α → Nat) (xs : List α) : String :=
  let n := xs.length
  if n ≤ 24 then "[" ++ " ".intercalate (xs.map sh) ++ "]"
  else
    let h := xs.foldl (fun h e => (h * 1000003 + enc e) % HP) 0
    "[" ++ " ".intercalate ((xs.take 8).map sh) ++ " ... " ++ " ".intercalate ((xs.drop (n - 8)).map sh) ++ s!"] h={h}"

def fmtInts (xs : List Int) : String := fmtSeq toString encInt xs
def fmtObjs (xs : List Obj) : String := fmtSeq showObj encObj xs

def Cont.dump : Cont → String
  | .arr s a => s!"{match s with | 0 => "A" | 1 => "AS" | 2 => "A12" | _ => "A5"} n={a.items.length} s={a.nslots} {fmtInts a.items}"
  | .lst s l => s!"{if s == 1 then "LS" else "L"} n={l.nitems} {fmtInts l.items}"
  | .tup t => s!"T n={t.items.length} {fmtObjs t.items}"

def resStr : Res Unit → String
  | .ok _ => "ok"
  | .raised e => "err=" ++ e.name
  | .ub => "ub"

def key (v : Int) : Int := v / 256
def cmpInt (f : Nat) (a b : Int) : Bool :=
  match f with
  | 0 => a < b
  | 1 => key a < key b
  | 2 => key a > key b
  | _ => key a ≤ key b
def cmpObj (f : Nat) (a b : Obj) : Bool := cmpInt f a.val b.val

/-- canonical decimal integer -/
def parseInt (s : String) : Option Int :=
  let body := if s.startsWith "-" then (s.drop 1).toString else s
  if body.isEmpty || !body.all Char.isDigit then none else
  match body.toNat? with
  | none => none
  | some n => some (if s.startsWith "-" then -(n : Int) else n)

def parseNat (s : String) : Option Nat :=
  if s.isEmpty || !s.all Char.isDigit then none else s.toNat?

def maxObj : Nat := 1 <<< 20

/-- element token for a Tuple: `id:val`; binds the id to the value on first use, fails on a conflicting reuse -/
def parseObj (st : St) (s : String) : St × Option Obj :=
  match s.splitOn ":" with
  | [a, b] =>
    match parseNat a, parseInt b with
    | some id, some v =>
      if id ≥ maxObj then (st, none)
      else if v < -valMax || v > valMax then (st, none)
      else
        let objs := if id < st.objs.size then st.objs else st.objs ++ Array.replicate (id + 1 - st.objs.size) none
        match objs[id]? with
        | some (some v0) => if v0 = v then ({ st with objs := objs }, some ⟨id, v⟩) else ({ st with objs := objs }, none)
        | _ => ({ st with objs := objs.set! id (some v) }, some ⟨id, v⟩)
    | _, _ => (st, none)
  | _ => (st, none)

/-- element / probe value token for Int and String kinds -/
def r5Max : Int := 8388607

def parseVal (ek : Nat) (s : String) : Option Int :=
  match parseInt s with
  | none => none
  | some v => if ek == 1 then (if v ≥ 0 && v ≤ strMax then some v else none)
              else if ek == 3 then (if v ≥ -r5Max - 1 && v ≤ r5Max then some v else none)
              else (if v ≥ -valMax && v ≤ valMax then some v else none)

def slotIdx (s : String) : Option Nat :=
  match parseNat s with
  | some k => if k < 16 then some k else none
  | none => none

def getSlot (st : St) (s : String) : Option (Nat × Cont) :=
  match slotIdx s with
  | some k => match st.slots[k]? with
    | some (some c) => some (k, c)
    | _ => none
  | none => none

def emptySlot (st : St) (s : String) : Option Nat :=
  match slotIdx s with
  | some k => match st.slots[k]? with
    | some none => some k
    | _ => none
  | none => none

def out (st : St) (cmd res : String) (c : Option Cont) : String :=
  match c with
  | some c => if st.dumpOn then s!"O {cmd} {res} | {c.dump}" else s!"O {cmd} {res}"
  | none => s!"O {cmd} {res}"

def setSlot (st : St) (k : Nat) (c : Option Cont) : St := { st with slots := st.slots.set! k c }

/-- model against specification on this step (always agrees: theorems `C04_refines_list_*`, `C04_*_out_of_range`);
    printed as an `M` line so that a broken proof can be turned into a concrete input by `model_selfcheck` -/
def specCheck {α : Type} (eqv : α → α → Bool) (sp : Option (List α)) (before after : List α) (r : Res Unit) : String :=
  let same (xs ys : List α) : Bool := xs.length == ys.length && (xs.zip ys).all (fun p => eqv p.1 p.2)
  let good := match sp, r with
    | some l', .ok _ => same after l'
    | none, .raised _ => same after before
    | _, _ => false
  if good then "" else "\nM model-vs-spec: the model step disagrees with the abstract sequence operation"

def hasId (t : Tup Obj) (id : Nat) : Bool := t.items.any (fun o => o.id == id)

def optSeq {α : Type} (f : List α → String) : Option (List α) → String
  | some l => f l
  | none => "diverges"

/-- ops on an Int-element container (Array or List), generic part -/
def stepInts (st : St) (k : Nat) (c : Cont) (cmd : String) (args : List String) : St × String :=
  let str := c.ek
  let fin (c' : Cont) (r : Res Unit) : St × String := (setSlot st k (some c'), out st cmd (resStr r) (some c'))
  let run (op : Op Int) : St × String :=
    match c with
    | .arr s a =>
      let (a', r) := a.step op
      let (st', o) := fin (.arr s a') r
      (st', o ++ specCheck (· == ·) (Spec.arrStep a.items op) a.items a'.items r)
    | .lst s l =>
      let (l', r) := l.step op
      let (st', o) := fin (.lst s l') r
      (st', o ++ specCheck (· == ·) (Spec.lstStep l.items op) l.items l'.items r)
    | .tup _ => (st, "O bad-op")
  match cmd, args with
  | "push", [e] => match parseVal str e with
    | some v => run (.push v) | none => (st, "O bad-op")
  | "append", [e] => match parseVal str e with
    | some v => run (.append v) | none => (st, "O bad-op")
  | "pop", [] => run .pop
  | "pushat", [e, i] => match parseVal str e, parseInt i with
    | some v, some i => run (.pushAt v i) | _, _ => (st, "O bad-op")
  | "popat", [i] => match parseInt i with
    | some i => run (.popAt i) | none => (st, "O bad-op")
  | "set", [i, e] => match parseInt i, parseVal str e with
    | some i, some v => run (.set i v) | _, _ => (st, "O bad-op")
  | "rem", [e] => match parseVal str e with
    | some v => run (.rem v) | none => (st, "O bad-op")
  | "get", [i] => match parseInt i with
    | some i =>
      let r := match c with
        | .arr _ a => a.get i | .lst _ l => l.get i | .tup _ => .ub
      let rs := match r with
        | .ok v => s!"v={v}" | .raised e => "err=" ++ e.name | .ub => "ub"
      (st, out st cmd rs (some c))
    | none => (st, "O bad-op")
  | "mem", [e] => match parseVal str e with
    | some v =>
      let b := match c with
        | .arr _ a => a.mem v | .lst _ l => l.mem v | .tup _ => false
      (st, out st cmd (if b then "b=1" else "b=0") (some c))
    | none => (st, "O bad-op")
  | "len", [] =>
    let n := match c with
      | .arr _ a => a.nitems | .lst _ l => l.nitems | .tup _ => 0
    (st, out st cmd s!"v={n}" (some c))
  | "resize", [n] => match parseNat n with
    | some n =>
      if n > 100000 then (st, "O bad-op") else
      match c with
      | .lst 1 l => if n > l.items.length then (st, "O resize unsupported") else run (.resize n)
      | _ => run (.resize n)
    | none => (st, "O bad-op")
  | "sort", [f] => match parseNat f with
    | some f => if f > 3 then (st, "O bad-op") else run (.sort (cmpInt f))
    | none => (st, "O bad-op")
  | "iter", [] =>
    let (fw, bw) := match c with
      | .arr _ a => (a.iterFwd, a.iterBwd)
      | .lst _ l => (l.iterFwd, l.iterBwd)
      | .tup _ => (none, none)
    (st, out st cmd s!"fwd={optSeq fmtInts fw} bwd={optSeq fmtInts bw}" (some c))
  | _, _ => (st, "O bad-op")

def ident (o : Obj) : Nat := o.id

def stepTup (st : St) (k : Nat) (t : Tup Obj) (cmd : String) (args : List String) : St × String :=
  let fin (st : St) (t' : Tup Obj) (r : Res Unit) : St × String :=
    (setSlot st k (some (.tup t')), out st cmd (resStr r) (some (.tup t')))
  let run (st : St) (op : Op Obj) : St × String :=
    let (t', r) := t.step op
    let (st', o) := fin st t' r
    (st', o ++ specCheck (fun (a b : Obj) => a.id == b.id && a.val == b.val) (Spec.tupStep t.items op) t.items t'.items r)
  let fuel := t.items.length + 1
  match cmd, args with
  | "push", [e] => match parseObj st e with
    | (st, some o) => if hasId t o.id then (st, "O push dup-refused") else run st (.push o)
    | (st, none) => (st, "O bad-op")
  | "append", [e] => match parseObj st e with
    | (st, some o) => if hasId t o.id then (st, "O append dup-refused") else run st (.append o)
    | (st, none) => (st, "O bad-op")
  | "pop", [] => run st .pop
  | "pushat", [e, i] => match parseObj st e with
    | (st, some o) => match parseInt i with
      | some i => if hasId t o.id then (st, "O pushat dup-refused") else run st (.pushAt o i)
      | none => (st, "O bad-op")
    | (st, none) => (st, "O bad-op")
  | "popat", [i] => match parseInt i with
    | some i => run st (.popAt i) | none => (st, "O bad-op")
  | "set", [i, e] => match parseInt i with
    | some i => match parseObj st e with
      | (st, some o) => if hasId t o.id then (st, "O set dup-refused") else run st (.set i o)
      | (st, none) => (st, "O bad-op")
    | none => (st, "O bad-op")
  | "rem", [e] => match parseVal 0 e with
    | some v => run st (.rem ⟨0, v⟩) | none => (st, "O bad-op")
  | "get", [i] => match parseInt i with
    | some i =>
      let rs := match t.get i with
        | .ok o => s!"v={showObj o}" | .raised e => "err=" ++ e.name | .ub => "ub"
      (st, out st cmd rs (some (.tup t)))
    | none => (st, "O bad-op")
  | "mem", [e] => match parseVal 0 e with
    | some v =>
      let rs := match t.mem ident ⟨0, v⟩ fuel with
        | some true => "b=1" | some false => "b=0" | none => "diverges"
      (st, out st cmd rs (some (.tup t)))
    | none => (st, "O bad-op")
  | "len", [] => (st, out st cmd s!"v={t.len}" (some (.tup t)))
  | "resize", [n] => match parseNat n with
    | some n => if n > 100000 then (st, "O bad-op") else run st (.resize n)
    | none => (st, "O bad-op")
  | "sort", [f] => match parseNat f with
    | some f => if f > 3 then (st, "O bad-op") else run st (.sort (cmpObj f))
    | none => (st, "O bad-op")
  | "iter", [] =>
    (st, out st cmd s!"fwd={optSeq fmtObjs (t.iterFwd ident fuel)} bwd={optSeq fmtObjs (t.iterBwd ident fuel)}" (some (.tup t)))
  | _, _ => (st, "O bad-op")

/-- `concat dst src` / `assign dst src` -/
def stepTwo (st : St) (k : Nat) (c : Cont) (cmd : String) (srcTok : String) : St × String :=
  let isc := cmd == "concat"
  match getSlot st srcTok with
  | none => (st, "O bad-op")
  | some (ks, src) =>
    if ks == k then (st, "O bad-op") else
    match c with
    | .tup t =>
      match src with
      | .tup u =>
        if isc && u.items.any (fun o => hasId t o.id) then (st, "O concat dup-refused")
        else
          let (t', r) := t.step (if isc then .concat u.items else .assign u.items)
          (setSlot st k (some (.tup t')), out st cmd (resStr r) (some (.tup t')))
      | _ => (st, "O bad-op")
    | _ =>
      let ys : Option (List Int) :=
        match src with
        | .arr s a => if s == c.ek then some a.items else none
        | .lst s l => if s == c.ek then some l.items else none
        | .tup u => if isc && c.ek == 0 then some (u.items.map (·.val)) else none
      match ys with
      | none => (st, "O bad-op")
      | some ys =>
        let op : Op Int := if isc then .concat ys else .assign ys
        match c with
        | .arr s a => let (a', r) := a.step op; (setSlot st k (some (.arr s a')), out st cmd (resStr r) (some (.arr s a')))
        | .lst s l => let (l', r) := l.step op; (setSlot st k (some (.lst s l')), out st cmd (resStr r) (some (.lst s l')))
        | .tup _ => (st, "O bad-op")

def parseElems (st : St) (toks : List String) : St × Option (List Obj) :=
  toks.foldl (fun (acc : St × Option (List Obj)) tok =>
    match acc with
    | (st, none) => (st, none)
    | (st, some os) => match parseObj st tok with
      | (st, some o) => (st, some (os ++ [o]))
      | (st, none) => (st, none)) (st, some [])

def nodupIds (os : List Obj) : Bool :=
  (os.foldl (fun (acc : Bool × List Nat) o => (acc.1 && !acc.2.contains o.id, o.id :: acc.2)) (true, [])).1

def stepLine (st : St) (line : String) : St × String :=
  match Driver.words line with
  | [] => (st, "")
  | ["dump", "on"] => ({ st with dumpOn := true }, "O dump on")
  | ["dump", "off"] => ({ st with dumpOn := false }, "O dump off")
  | ["kf13", e] =>
    match parseObj st e with
    | (st, some o) =>
      let t : Tup Obj := ⟨[o, o]⟩
      match t.iterFwd ident 1000 with
      | none => (st, "O kf13 fwd=diverges")
      | some l => (st, s!"O kf13 fwd={l.length}")
    | (st, none) => (st, "O bad-op")
  | "kfself" :: opn :: kind :: elems =>
    if opn != "assign" && opn != "concat" then (st, "O bad-op") else
    let isc := opn == "concat"
    let fmt (r : Res Unit) (c : Cont) : String :=
      match r with
      | .ok _ => s!"O kfself {opn} {kind} ret {c.dump}"
      | .raised e => s!"O kfself {opn} {kind} ret err={e.name}"
      | .ub => s!"O kfself {opn} {kind} ub"
    if kind == "A" || kind == "AR" || kind == "L" then
      let vs := elems.map (parseVal 0)
      if !vs.all Option.isSome || elems.length > 200 then (st, "O bad-op") else
      let xs := vs.filterMap id
      if kind == "L" then
        let l : Lst Int := (Lst.empty.concat xs).1
        if isc then
          match l.concatSelf 100000 with
          | some l' => (st, fmt (.ok ()) (.lst 0 l'))
          | none => (st, s!"O kfself {opn} {kind} diverges")
        else let (l', r) := l.assignSelf; (st, fmt r (.lst 0 l'))
      else
        let a0 : Arr Int := Arr.new xs
        let a : Arr Int := if kind == "AR" && xs.length > 0 then (a0.resize (2 * xs.length)).1 else a0
        let (a', r) := if isc then a.concatSelf else a.assignSelf
        (st, fmt r (.arr 0 a'))
    else if kind == "T" then
      match parseElems st elems with
      | (st, some os) =>
        if !nodupIds os || elems.length > 200 then (st, "O bad-op") else
        let t : Tup Obj := ⟨os⟩
        let (t', r) := if isc then t.concatSelf else t.assignSelf
        (st, fmt r (.tup t'))
      | (st, none) => (st, "O bad-op")
    else (st, "O bad-op")
  | "new" :: slot :: kind :: elems =>
    match emptySlot st slot with
    | none => (st, "O bad-op")
    | some k =>
      let mk (str : Nat) (isArr : Bool) : St × String :=
        let vs := elems.map (parseVal str)
        if vs.all Option.isSome then
          let xs := vs.filterMap id
          let c : Cont := if isArr then .arr str (Arr.new xs) else .lst str ((Lst.empty.concat xs).1)
          (setSlot st k (some c), out st "new" "ok" (some c))
        else (st, "O bad-op")
      match kind with
      | "A" => mk 0 true
      | "AS" => mk 1 true
      | "A12" => mk 2 true
      | "A5" => mk 3 true
      | "L" => mk 0 false
      | "LS" => mk 1 false
      | "T" =>
        match parseElems st elems with
        | (st, some os) =>
          if nodupIds os then
            let c : Cont := .tup ⟨os⟩
            (setSlot st k (some c), out st "new" "ok" (some c))
          else (st, "O bad-op")
        | (st, none) => (st, "O bad-op")
      | _ => (st, "O bad-op")
  | ["del", slot] =>
    match getSlot st slot with
    | some (k, _) => (setSlot st k none, "O del ok")
    | none => (st, "O bad-op")
  | ["copy", dst, src] =>
    match emptySlot st dst, getSlot st src with
    | some k, some (_, c) =>
      let c' : Cont := match c with
        | .arr s a => .arr s a.copy
        | .lst s l => .lst s l.copy
        | .tup t => .tup t.copy
      (setSlot st k (some c'), out st "copy" "ok" (some c'))
    | _, _ => (st, "O bad-op")
  | cmd :: slot :: args =>
    match getSlot st slot with
    | none => (st, "O bad-op")
    | some (k, c) =>
      if cmd == "concat" || cmd == "assign" then
        match args with
        | [src] => stepTwo st k c cmd src
        | _ => (st, "O bad-op")
      else match c with
        | .tup t => stepTup st k t cmd args
        | _ => stepInts st k c cmd args
  | _ => (st, "O bad-op")

end SeqDrv

def main (args : List String) : IO Unit := do
  let lines ← Driver.inputLines args
  let mut st : SeqDrv.St := {}
  for l in lines do
    if Driver.isSkippable l then continue
    let (st', o) := SeqDrv.stepLine st l
    st := st'
    if !o.isEmpty then IO.println o
