import Cello.Seq
import Cello.SeqStore
import Cello.SeqSrc
import Cello.Sort
import Driver.Common
/- driver for engine `seq` (C04): interprets the op files of harness/h_seq.c on the model and prints the same `O` lines (see
   the header of h_seq.c for the op language and the output format).

   Every container is run at BOTH levels: the STORE level of lean/Cello/SeqStore.lean (`ArrS`: block of cells / memmove /
   realloc; `LstS`: heap of nodes / link / unlink / two-ended walk; `TupS`: pointer cells with the Terminal cell) — whose
   state is what is dumped and compared with the C representation — and the LIST level of lean/Cello/Seq.lean, which the
   refinement theorems are about.  After every op the two are compared (they always agree: theorems `C04_store_*`); a
   disagreement is printed as an `M` line so that a broken proof can be turned into a concrete input. -/
open Cello.Seq

namespace SeqDrv

/-- a Tuple element: an Int object with an identity -/
structure Obj where
  id : Nat
  val : Int
deriving Repr, Inhabited

/-- `eq` on Tuple elements compares the Int values (Int_Cmp), not the pointers -/
instance : BEq Obj := ⟨fun a b => a.val == b.val⟩

inductive Cont where
  | arr (ek : Nat) (s : ArrS Int) (a : Arr Int)   -- ek = element kind: 0 Int, 1 String, 2 Rec12 (12-byte record), 3 Rec5 (5-byte record)
  | lst (ek : Nat) (s : LstS Int) (l : Lst Int)
  | tup (s : TupS Obj) (t : Tup Obj)

def Cont.ek : Cont → Nat
  | .arr k _ _ => k | .lst k _ _ => k | .tup _ _ => 0
def Cont.isStr (c : Cont) : Bool := c.ek == 1
def Cont.isTup : Cont → Bool
  | .tup _ _ => true | _ => false

structure St where
  slots : Array (Option Cont) := Array.replicate 16 none
  objs : Array (Option Int) := #[]          -- id -> value of the Tuple element objects created so far
  dumpOn : Bool := true

def HP : Nat := 4294967291
def strMax : Int := 9999999
def valMax : Int := 1000000000000

def encInt (v : Int) : Nat := (v % (HP : Int)).toNat
def encObj (o : Obj) : Nat := (encInt o.val + (o.id * 7919) % HP) % HP
def showObj (o : Obj) : String := s!"{o.id}:{o.val}"

def fmtSeq {α : Type} (sh : α → String) (enc : α → Nat) (xs : List α) : String :=
  let n := xs.length
  if n ≤ 24 then "[" ++ " ".intercalate (xs.map sh) ++ "]"
  else
    let h := xs.foldl (fun h e => (h * 1000003 + enc e) % HP) 0
    "[" ++ " ".intercalate ((xs.take 8).map sh) ++ " ... " ++ " ".intercalate ((xs.drop (n - 8)).map sh) ++ s!"] h={h}"

def fmtInts (xs : List Int) : String := fmtSeq toString encInt xs
def fmtObjs (xs : List Obj) : String := fmtSeq showObj encObj xs

/-- the chain of a store-level List read as the harness reads it: forward from `head` along `next` (at most `nitems+2`
    nodes), and whether the links are consistent: `head->prev` NULL, the walk ends at NULL, its last node is `tail`,
    the walk back from `tail` along `prev` is the exact reverse, and the count is `nitems` -/
def lstWalk (s : LstS Int) : List Int × Bool :=
  let rec fwd (fuel : Nat) (c : Option Nat) (acc : Array (Nat × Int)) : Array (Nat × Int) × Bool :=
    match fuel, c with
    | _, none => (acc, true)
    | 0, some _ => (acc, false)
    | fuel + 1, some a => match s.node a with
      | none => (acc, false)
      | some nd => fwd fuel nd.next (acc.push (a, nd.val))
  let rec bwd (fuel : Nat) (c : Option Nat) (acc : Array Nat) : Array Nat × Bool :=
    match fuel, c with
    | _, none => (acc, true)
    | 0, some _ => (acc, false)
    | fuel + 1, some a => match s.node a with
      | none => (acc, false)
      | some nd => bwd fuel nd.prev (acc.push a)
  let (cells, endedF) := fwd (s.nitems + 2) s.head #[]
  let (back, endedB) := bwd (s.nitems + 2) s.tail #[]
  let headOk := match s.head with
    | none => true
    | some h => match s.node h with
      | some nd => nd.prev.isNone
      | none => false
  let lastOk := (cells.back?.map (·.1)) == s.tail
  let revOk := back.toList == (cells.toList.map (·.1)).reverse
  (cells.toList.map (·.2), endedF && endedB && headOk && lastOk && revOk && cells.size == s.nitems)

def Cont.dump : Cont → String
  | .arr k s _ =>
    let nm := match k with | 0 => "A" | 1 => "AS" | 2 => "A12" | _ => "A5"
    match s.items? with
    | some l => s!"{nm} n={s.nitems} s={s.cells.size} {fmtInts l}"
    | none => s!"{nm} n={s.nitems} s={s.cells.size} UNWRITTEN"
  | .lst k s _ =>
    let (items, ok) := lstWalk s
    s!"{if k == 1 then "LS" else "L"} n={s.nitems} {fmtInts items}" ++ (if ok then "" else " BADLINKS")
  | .tup s _ =>
    match s.items? with
    | some l => s!"{if s.onHeap then "T" else "TK"} n={l.length} {fmtObjs l}"
    | none => "T UNTERMINATED"

/-- store level against list level (always agree: theorems `C04_store_*`) -/
def Cont.levelCheck : Cont → String
  | .arr _ s a =>
    if s.items?.map (fun l => l == a.items) == some true && s.cells.size == a.nslots && s.nitems == a.items.length then ""
    else "\nM store-vs-list: the block of cells does not hold the list-level Array"
  | .lst _ s l =>
    let (items, ok) := lstWalk s
    if ok && items == l.items && s.nitems == l.nitems then "" else "\nM store-vs-list: the chain of nodes does not hold the list-level List"
  | .tup s t =>
    let same := match s.items? with
      | some l => l.length == t.items.length && (l.zip t.items).all (fun p => p.1.id == p.2.id && p.1.val == p.2.val)
      | none => false
    if same && s.cells.size == t.items.length + 1 then "" else "\nM store-vs-list: the cell block does not hold the list-level Tuple"

def resEq : Res Unit → Res Unit → Bool
  | .ok _, .ok _ => true
  | .raised a, .raised b => a == b
  | .ub, .ub => true
  | _, _ => false
def resCheck (a b : Res Unit) : String := if resEq a b then "" else "\nM store-vs-list: outcomes differ"

def resStr : Res Unit → String
  | .ok _ => "ok"
  | .raised e => "err=" ++ e.name
  | .ub => "ub"

def key (v : Int) : Int := v / 256
def cmpInt (f : Nat) (a b : Int) : Bool :=
  match f with
  | 0 => a < b
  | 1 => key a < key b
  | 2 => key a > key b
  | _ => key a ≤ key b
def cmpObj (f : Nat) (a b : Obj) : Bool := cmpInt f a.val b.val

/-- canonical decimal integer -/
def parseInt (s : String) : Option Int :=
  let body := if s.startsWith "-" then (s.drop 1).toString else s
  if body.isEmpty || !body.all Char.isDigit then none else
  match body.toNat? with
  | none => none
  | some n => some (if s.startsWith "-" then -(n : Int) else n)

def parseNat (s : String) : Option Nat :=
  if s.isEmpty || !s.all Char.isDigit then none else s.toNat?

def maxObj : Nat := 1 <<< 20

/-- element token for a Tuple: `id:val`; binds the id to the value on first use, fails on a conflicting reuse -/
def parseObj (st : St) (s : String) : St × Option Obj :=
  match s.splitOn ":" with
  | [a, b] =>
    match parseNat a, parseInt b with
    | some id, some v =>
      if id ≥ maxObj then (st, none)
      else if v < -valMax || v > valMax then (st, none)
      else
        let objs := if id < st.objs.size then st.objs else st.objs ++ Array.replicate (id + 1 - st.objs.size) none
        match objs[id]? with
        | some (some v0) => if v0 = v then ({ st with objs := objs }, some ⟨id, v⟩) else ({ st with objs := objs }, none)
        | _ => ({ st with objs := objs.set! id (some v) }, some ⟨id, v⟩)
    | _, _ => (st, none)
  | _ => (st, none)

/-- element / probe value token for Int and String kinds -/
def r5Max : Int := 8388607

def parseVal (ek : Nat) (s : String) : Option Int :=
  match parseInt s with
  | none => none
  | some v => if ek == 1 then (if v ≥ 0 && v ≤ strMax then some v else none)
              else if ek == 3 then (if v ≥ -r5Max - 1 && v ≤ r5Max then some v else none)
              else (if v ≥ -valMax && v ≤ valMax then some v else none)

def slotIdx (s : String) : Option Nat :=
  match parseNat s with
  | some k => if k < 16 then some k else none
  | none => none

def getSlot (st : St) (s : String) : Option (Nat × Cont) :=
  match slotIdx s with
  | some k => match st.slots[k]? with
    | some (some c) => some (k, c)
    | _ => none
  | none => none

def emptySlot (st : St) (s : String) : Option Nat :=
  match slotIdx s with
  | some k => match st.slots[k]? with
    | some none => some k
    | _ => none
  | none => none

def out (st : St) (cmd res : String) (c : Option Cont) : String :=
  match c with
  | some c => if st.dumpOn then s!"O {cmd} {res} | {c.dump}" else s!"O {cmd} {res}"
  | none => s!"O {cmd} {res}"

def setSlot (st : St) (k : Nat) (c : Option Cont) : St := { st with slots := st.slots.set! k c }

/-- model against specification on this step (always agrees: theorems `C04_refines_list_*`, `C04_*_out_of_range`);
    printed as an `M` line so that a broken proof can be turned into a concrete input by `model_selfcheck` -/
def specCheck {α : Type} (eqv : α → α → Bool) (sp : Option (List α)) (before after : List α) (r : Res Unit) : String :=
  let same (xs ys : List α) : Bool := xs.length == ys.length && (xs.zip ys).all (fun p => eqv p.1 p.2)
  let good := match sp, r with
    | some l', .ok _ => same after l'
    | none, .raised _ => same after before
    | _, _ => false
  if good then "" else "\nM model-vs-spec: the model step disagrees with the abstract sequence operation"

def hasId (t : Tup Obj) (id : Nat) : Bool := t.items.any (fun o => o.id == id)

def optSeq {α : Type} (f : List α → String) : Option (List α) → String
  | some l => f l
  | none => "diverges"

def resOf {β : Type} (sh : β → String) : Res β → String
  | .ok v => sh v
  | .raised e => "err=" ++ e.name
  | .ub => "ub"

/-- ops on an Int-element container (Array or List), generic part -/
def stepInts (st : St) (k : Nat) (c : Cont) (cmd : String) (args : List String) : St × String :=
  let str := c.ek
  let fin (c' : Cont) (r : Res Unit) : St × String := (setSlot st k (some c'), out st cmd (resStr r) (some c'))
  let run (op : Op Int) : St × String :=
    match c with
    | .arr ek s a =>
      let (s', rs) := s.step op
      let (a', r) := a.step op
      let c' := Cont.arr ek s' a'
      let (st', o) := fin c' rs
      (st', o ++ resCheck rs r ++ c'.levelCheck ++ specCheck (· == ·) (Spec.arrStep a.items op) a.items a'.items r)
    | .lst ek s l =>
      let (s', rs) := s.step op
      let (l', r) := l.step op
      let c' := Cont.lst ek s' l'
      let (st', o) := fin c' rs
      let sp := Spec.lstStep l.items op
      -- `assign` from an iterator-only source is out of range for a List but clears it before it raises (C12's business)
      let chk := if op.iterAssign then "" else specCheck (· == ·) sp l.items l'.items r
      (st', o ++ resCheck rs r ++ c'.levelCheck ++ chk)
    | .tup _ _ => (st, "O bad-op")
  -- push(x, get(x, k)) / push_at(x, get(x, k), i): the container's own element as the argument
  let own (k : Int) (i : Option Int) : St × String :=
    match c with
    | .arr ek s a =>
      let n := a.items.length
      let kin := (Spec.idx n k).isSome
      let ipos : Option Nat := match i with
        | none => some n
        | some i => Spec.arrInsIdx n i
      let refused := match Spec.idx n k, ipos with
        | some kk, some ip => n + 1 > a.nslots || (i.isSome && kk ≥ ip)
        | _, _ => false
      if refused then (st, s!"O {cmd} own-refused") else
      let (s', rs) := match i with
        | none => s.pushElem k
        | some i => s.pushAtElem k i
      let (a', r) := match i with
        | none => a.pushElem k
        | some i => a.pushAtElem k i
      let sp : Option (List Int) := match Spec.get a.items k, ipos with
        | some x, some ip => if kin then some (a.items.insertIdx ip x) else none
        | _, _ => none
      let c' := Cont.arr ek s' a'
      let (st', o) := fin c' rs
      (st', o ++ resCheck rs r ++ c'.levelCheck ++ specCheck (· == ·) sp a.items a'.items r)
    | .lst ek s l =>
      let (s', rs) := match i with
        | none => s.pushElem k
        | some i => s.pushAtElem k i
      let (l', r) := match i with
        | none => l.pushElem k
        | some i => l.pushAtElem k i
      let sp : Option (List Int) := match Spec.get l.items k with
        | some x => Spec.lstStep l.items (match i with | none => .push x | some i => .pushAt x i)
        | none => none
      let c' := Cont.lst ek s' l'
      let (st', o) := fin c' rs
      (st', o ++ resCheck rs r ++ c'.levelCheck ++ specCheck (· == ·) sp l.items l'.items r)
    | .tup _ _ => (st, "O bad-op")
  let obsCheck (same : Bool) : String := if same then "" else "\nM store-vs-list: an observation differs"
  match cmd, args with
  | "push", [e] => match parseVal str e with
    | some v => run (.push v) | none => (st, "O bad-op")
  | "append", [e] => match parseVal str e with
    | some v => run (.append v) | none => (st, "O bad-op")
  | "pop", [] => run .pop
  | "pushat", [e, i] => match parseVal str e, parseInt i with
    | some v, some i => run (.pushAt v i) | _, _ => (st, "O bad-op")
  | "popat", [i] => match parseInt i with
    | some i => run (.popAt i) | none => (st, "O bad-op")
  | "pushelem", [k] => match parseInt k with
    | some k => own k none | none => (st, "O bad-op")
  | "pushatelem", [k, i] => match parseInt k, parseInt i with
    | some k, some i => own k (some i) | _, _ => (st, "O bad-op")
  | "set", [i, e] => match parseInt i, parseVal str e with
    | some i, some v => run (.set i v) | _, _ => (st, "O bad-op")
  | "setelem", [i, k] => match parseInt i, parseInt k with
    | some i, some k =>
      -- set(x, i, get(x, k)): store level (pointer / node address) and list level; the specification is `set i (value of k)`
      (match c with
      | .arr ek s a =>
        let (s', rs) := s.setElem i k; let (a', r) := a.setElem i k
        let sp := match Spec.get a.items k with
          | some x => Spec.arrStep a.items (.set i x) | none => none
        let c' := Cont.arr ek s' a'
        let (st', o) := fin c' rs
        (st', o ++ resCheck rs r ++ c'.levelCheck ++ specCheck (· == ·) sp a.items a'.items r)
      | .lst ek s l =>
        let (s', rs) := s.setElem i k; let (l', r) := l.setElem i k
        let sp := match Spec.get l.items k with
          | some x => Spec.lstStep l.items (.set i x) | none => none
        let c' := Cont.lst ek s' l'
        let (st', o) := fin c' rs
        (st', o ++ resCheck rs r ++ c'.levelCheck ++ specCheck (· == ·) sp l.items l'.items r)
      | .tup _ _ => (st, "O bad-op"))
    | _, _ => (st, "O bad-op")
  | "remelem", [k] => match parseInt k with
    | some k =>
      (match c with
      | .arr ek s a =>
        let (s', rs) := s.remElem k; let (a', r) := a.remElem k
        let sp := match Spec.get a.items k with
          | some x => Spec.arrStep a.items (.rem x) | none => none
        let c' := Cont.arr ek s' a'
        let (st', o) := fin c' rs
        (st', o ++ resCheck rs r ++ c'.levelCheck ++ specCheck (· == ·) sp a.items a'.items r)
      | .lst ek s l =>
        let (s', rs) := s.remElem k; let (l', r) := l.remElem k
        let sp := match Spec.get l.items k with
          | some x => Spec.lstStep l.items (.rem x) | none => none
        let c' := Cont.lst ek s' l'
        let (st', o) := fin c' rs
        (st', o ++ resCheck rs r ++ c'.levelCheck ++ specCheck (· == ·) sp l.items l'.items r)
      | .tup _ _ => (st, "O bad-op"))
    | none => (st, "O bad-op")
  | "memelem", [k] => match parseInt k with
    | some k =>
      let (rs, r) : Res Bool × Res Bool := match c with
        | .arr _ s a => ((match s.get k with | .ok x => s.mem x | .raised e => .raised e | .ub => .ub),
                         (match a.get k with | .ok x => .ok (a.mem x) | .raised e => .raised e | .ub => .ub))
        | .lst _ s l => ((match s.get k with | .ok x => s.mem x | .raised e => .raised e | .ub => .ub),
                         (match l.get k with | .ok x => .ok (l.mem x) | .raised e => .raised e | .ub => .ub))
        | .tup _ _ => (.ub, .ub)
      let sh := resOf (fun (b : Bool) => if b then "b=1" else "b=0")
      (st, out st cmd (sh rs) (some c) ++ obsCheck (sh rs == sh r))
    | none => (st, "O bad-op")
  | "concatelems", [k1, k2] => match parseInt k1, parseInt k2 with
    | some k1, some k2 =>
      (match c with
      | .arr ek s a =>
        let n := a.items.length
        if (Spec.idx n k1).isSome && Spec.idx n k1 == Spec.idx n k2 then (st, s!"O {cmd} dup-refused") else
        if (Spec.idx n k1).isSome && (Spec.idx n k2).isSome && n + 2 > a.nslots then (st, s!"O {cmd} own-refused") else
        let (s', rs) := s.concatElems [k1, k2]; let (a', r) := a.concatElems [k1, k2]
        let sp := match Spec.get a.items k1, Spec.get a.items k2 with
          | some x, some y => some (a.items ++ [x, y]) | _, _ => none
        let c' := Cont.arr ek s' a'
        let (st', o) := fin c' rs
        (st', o ++ resCheck rs r ++ c'.levelCheck ++ specCheck (· == ·) sp a.items a'.items r)
      | .lst ek s l =>
        if (Spec.idx l.items.length k1).isSome && Spec.idx l.items.length k1 == Spec.idx l.items.length k2 then (st, s!"O {cmd} dup-refused") else
        let (s', rs) := s.concatElems [k1, k2]; let (l', r) := l.concatElems [k1, k2]
        let sp := match Spec.get l.items k1, Spec.get l.items k2 with
          | some x, some y => some (l.items ++ [x, y]) | _, _ => none
        let c' := Cont.lst ek s' l'
        let (st', o) := fin c' rs
        (st', o ++ resCheck rs r ++ c'.levelCheck ++ specCheck (· == ·) sp l.items l'.items r)
      | .tup _ _ => (st, "O bad-op"))
    | _, _ => (st, "O bad-op")
  | "rem", [e] => match parseVal str e with
    | some v => run (.rem v) | none => (st, "O bad-op")
  | "get", [i] => match parseInt i with
    | some i =>
      let (rs, r) : Res Int × Res Int := match c with
        | .arr _ s a => (s.get i, a.get i) | .lst _ s l => (s.get i, l.get i) | .tup _ _ => (.ub, .ub)
      let sh := resOf (fun (v : Int) => s!"v={v}")
      (st, out st cmd (sh rs) (some c) ++ obsCheck (sh rs == sh r))
    | none => (st, "O bad-op")
  | "mem", [e] => match parseVal str e with
    | some v =>
      let (rs, b) : Res Bool × Bool := match c with
        | .arr _ s a => (s.mem v, a.mem v) | .lst _ s l => (s.mem v, l.mem v) | .tup _ _ => (.ub, false)
      let sh := resOf (fun (b : Bool) => if b then "b=1" else "b=0")
      (st, out st cmd (sh rs) (some c) ++ obsCheck (sh rs == sh (.ok b)))
    | none => (st, "O bad-op")
  | "layout", [] => match c with
    | .arr ek s _ =>
      -- element sizes of the harness' element types (Int, String, Rec12, Rec5); header and pointer size of the default 64-bit build
      let raw := [8, 8, 12, 5].getD ek 8
      let L := Cello.Seq.Src.arrLayout raw 24 8 s.nitems s.nslots
      (st, out st cmd s!"raw={raw} hdr=24 ptr=8 tsize={L.tsize} step={L.step} item={L.item} rec={L.recFrom}+{L.recLen} head={L.head} bytes={L.bytes}" (some c))
    | _ => (st, "O bad-op")
  | "len", [] =>
    let (n, n') := match c with
      | .arr _ s a => (s.nitems, a.nitems) | .lst _ s l => (s.nitems, l.nitems) | .tup _ _ => (0, 0)
    (st, out st cmd s!"v={n}" (some c) ++ obsCheck (n == n'))
  | "resize", [n] => match parseNat n with
    | some n =>
      if n > 100000 then (st, "O bad-op") else
      match c with
      | .lst 1 _ l => if n > l.items.length then (st, "O resize unsupported") else run (.resize n)
      | _ => run (.resize n)
    | none => (st, "O bad-op")
  | "sort", [f] => match parseNat f with
    | some f => if f > 3 then (st, "O bad-op") else run (.sort (cmpInt f))
    | none => (st, "O bad-op")
  | "iter", [] =>
    let (fw, bw, fw', bw') := match c with
      | .arr _ s a => (s.iterFwd, s.iterBwd, a.iterFwd, a.iterBwd)
      | .lst _ s l => (s.iterFwd, s.iterBwd, l.iterFwd, l.iterBwd)
      | .tup _ _ => (none, none, none, none)
    (st, out st cmd s!"fwd={optSeq fmtInts fw} bwd={optSeq fmtInts bw}" (some c) ++ obsCheck (fw == fw' && bw == bw'))
  | _, _ => (st, "O bad-op")

def ident (o : Obj) : Nat := o.id

def sameObjs (a b : Option (List Obj)) : Bool :=
  match a, b with
  | none, none => true
  | some x, some y => x.length == y.length && (x.zip y).all (fun p => p.1.id == p.2.id && p.1.val == p.2.val)
  | _, _ => false

def stepTup (st : St) (k : Nat) (s : TupS Obj) (t : Tup Obj) (cmd : String) (args : List String) : St × String :=
  let run (st : St) (op : Op Obj) : St × String :=
    let (s', rs) := s.step op
    let (t', r) := t.step op
    let c' := Cont.tup s' t'
    let chk := if op.iterAssign && !t.items.isEmpty then ""      -- known finding KF-C04-tuple-assign-iter: the model appends
      else specCheck (fun (a b : Obj) => a.id == b.id && a.val == b.val) (Spec.tupStep t.items op) t.items t'.items r
    (setSlot st k (some c'), out st cmd (resStr rs) (some c') ++ resCheck rs r ++ c'.levelCheck ++ chk)
  let fuel := t.items.length + 1
  let c := Cont.tup s t
  let obsCheck (same : Bool) : String := if same then "" else "\nM store-vs-list: an observation differs"
  -- a Tuple that is not on the heap: the reallocating ops go through the store level only (the list level has no allocation
  -- attribute); whatever the cells do — they refuse — the list-level twin follows when the op completes
  let stk (st : St) (r : TupS Obj × Res Unit) (follow : Tup Obj → Tup Obj) : St × String :=
    let t' := match r.2 with
      | .ok _ => follow t
      | _ => t
    let c' := Cont.tup r.1 t'
    (setSlot st k (some c'), out st cmd (resStr r.2) (some c') ++ c'.levelCheck)
  if !s.onHeap && ["push", "append", "pop", "pushat", "popat", "rem", "resize", "pushelem", "pushatelem", "remelem"].contains cmd then
    match cmd, args with
    | "push", [e] => match parseObj st e with
      | (st, some o) => stk st (s.push o) (fun t => (t.push o).1) | (st, none) => (st, "O bad-op")
    | "append", [e] => match parseObj st e with
      | (st, some o) => stk st (s.push o) (fun t => (t.push o).1) | (st, none) => (st, "O bad-op")
    | "pop", [] => stk st s.pop (fun t => t.pop.1)
    | "pushat", [e, i] => match parseObj st e with
      | (st, some o) => match parseInt i with
        | some i => stk st (s.pushAt o i) (fun t => (t.pushAt o i).1) | none => (st, "O bad-op")
      | (st, none) => (st, "O bad-op")
    | "popat", [i] => match parseInt i with
      | some i => stk st (s.popAt i) (fun t => (t.popAt i).1) | none => (st, "O bad-op")
    | "rem", [e] => match parseVal 0 e with
      | some v => stk st (s.rem ⟨0, v⟩) (fun t => (t.rem ⟨0, v⟩).1) | none => (st, "O bad-op")
    | "resize", [n] => match parseNat n with
      | some n => if n > 100000 then (st, "O bad-op") else stk st (s.resize n) (fun t => (t.resize n).1)
      | none => (st, "O bad-op")
    | "pushelem", [k] => match parseInt k with
      | some k => stk st (s.pushElem k) id | none => (st, "O bad-op")
    | "pushatelem", [k, i] => match parseInt k, parseInt i with
      | some k, some i => stk st (s.pushAtElem k i) id | _, _ => (st, "O bad-op")
    | "remelem", [k] => match parseInt k with
      | some k => stk st (s.remElem k) (fun t => (t.remElem k).1) | none => (st, "O bad-op")
    | _, _ => (st, "O bad-op")
  else
  match cmd, args with
  | "push", [e] => match parseObj st e with
    | (st, some o) => if hasId t o.id then (st, "O push dup-refused") else run st (.push o)
    | (st, none) => (st, "O bad-op")
  | "append", [e] => match parseObj st e with
    | (st, some o) => if hasId t o.id then (st, "O append dup-refused") else run st (.append o)
    | (st, none) => (st, "O bad-op")
  | "pop", [] => run st .pop
  | "pushat", [e, i] => match parseObj st e with
    | (st, some o) => match parseInt i with
      | some i => if hasId t o.id then (st, "O pushat dup-refused") else run st (.pushAt o i)
      | none => (st, "O bad-op")
    | (st, none) => (st, "O bad-op")
  | "popat", [i] => match parseInt i with
    | some i => run st (.popAt i) | none => (st, "O bad-op")
  | "pushelem", [k] => match parseInt k with
    | some k => if (Spec.idx t.items.length k).isSome then (st, "O pushelem dup-refused") else (st, out st cmd "err=IndexOutOfBoundsError" (some c))
    | none => (st, "O bad-op")
  | "pushatelem", [k, i] => match parseInt k, parseInt i with
    | some k, some _ => if (Spec.idx t.items.length k).isSome then (st, "O pushatelem dup-refused") else (st, out st cmd "err=IndexOutOfBoundsError" (some c))
    | _, _ => (st, "O bad-op")
  | "set", [i, e] => match parseInt i with
    | some i => match parseObj st e with
      | (st, some o) =>
        let dup := match Spec.idx t.items.length i with
          | some kp => (t.items.eraseIdx kp).any (fun y => y.id == o.id)
          | none => false
        if dup then (st, "O set dup-refused") else run st (.set i o)
      | (st, none) => (st, "O bad-op")
    | none => (st, "O bad-op")
  | "rem", [e] => match parseVal 0 e with
    | some v => run st (.rem ⟨0, v⟩) | none => (st, "O bad-op")
  | "setelem", [i, k] => match parseInt i, parseInt k with
    | some i, some k =>
      (match Spec.idx t.items.length i, Spec.idx t.items.length k with
      | some ip, some kp => if ip != kp then (st, "O setelem dup-refused") else
          (match t.get k with
          | .ok o => run st (.set i o)
          | _ => (st, "O bad-op"))
      | _, _ => (st, out st cmd "err=IndexOutOfBoundsError" (some c)))
    | _, _ => (st, "O bad-op")
  | "remelem", [k] => match parseInt k with
    | some k =>
      (match t.get k with
      | .ok o => run st (.rem o)
      | _ => (st, out st cmd "err=IndexOutOfBoundsError" (some c)))
    | none => (st, "O bad-op")
  | "memelem", [k] => match parseInt k with
    | some k =>
      (match s.get k, t.get k with
      | .ok o, .ok o' =>
        let sh : Option Bool → String := fun
          | some true => "b=1" | some false => "b=0" | none => "diverges"
        let rs := s.mem ident o fuel
        (st, out st cmd (sh rs) (some c) ++ obsCheck (rs == t.mem ident o' fuel))
      | _, _ => (st, out st cmd "err=IndexOutOfBoundsError" (some c)))
    | none => (st, "O bad-op")
  | "concatelems", [k1, k2] => match parseInt k1, parseInt k2 with
    | some k1, some k2 =>
      if (Spec.idx t.items.length k1).isSome && (Spec.idx t.items.length k2).isSome then (st, "O concatelems dup-refused")
      else (st, out st cmd "err=IndexOutOfBoundsError" (some c))
    | _, _ => (st, "O bad-op")
  | "get", [i] => match parseInt i with
    | some i =>
      let sh := resOf (fun (o : Obj) => s!"v={showObj o}")
      (st, out st cmd (sh (s.get i)) (some c) ++ obsCheck (sh (s.get i) == sh (t.get i)))
    | none => (st, "O bad-op")
  | "mem", [e] => match parseVal 0 e with
    | some v =>
      let sh : Option Bool → String := fun
        | some true => "b=1" | some false => "b=0" | none => "diverges"
      let rs := s.mem ident ⟨0, v⟩ fuel
      (st, out st cmd (sh rs) (some c) ++ obsCheck (rs == t.mem ident ⟨0, v⟩ fuel))
    | none => (st, "O bad-op")
  | "len", [] =>
    match s.len with
    | some n => (st, out st cmd s!"v={n}" (some c) ++ obsCheck (n == t.len))
    | none => (st, out st cmd "ub" (some c))
  | "resize", [n] => match parseNat n with
    | some n => if n > 100000 then (st, "O bad-op") else run st (.resize n)
    | none => (st, "O bad-op")
  | "sort", [f] => match parseNat f with
    | some f => if f > 3 then (st, "O bad-op") else run st (.sort (cmpObj f))
    | none => (st, "O bad-op")
  | "iter", [] =>
    let fw := s.iterFwd ident fuel; let bw := s.iterBwd ident fuel
    (st, out st cmd s!"fwd={optSeq fmtObjs fw} bwd={optSeq fmtObjs bw}" (some c)
      ++ obsCheck (sameObjs fw (t.iterFwd ident fuel) && sameObjs bw (t.iterBwd ident fuel)))
  | _, _ => (st, "O bad-op")

def keepVal (p : Nat) (v : Int) : Bool := p == 0 || (p == 1 && v % 2 == 0)

/-- `concat dst src` / `assign dst src` / `assignf dst src p` -/
def stepTwo (st : St) (k : Nat) (c : Cont) (cmd : String) (srcTok : String) (pred : Option Nat := none) : St × String :=
  let isc := cmd == "concat"
  let indexed := pred.isNone
  let p := pred.getD 0
  let fin (c' : Cont) (rs r : Res Unit) : St × String :=
    (setSlot st k (some c'), out st cmd (resStr rs) (some c') ++ resCheck rs r ++ c'.levelCheck)
  match getSlot st srcTok with
  | none => (st, "O bad-op")
  | some (ks, src) =>
    if ks == k then
      -- assign(x, x): the early return of fix a3140e4 (Array, List); Tuple re-stores its own cells.  concat(x, x): `kfself` only
      if isc || !indexed then (st, "O bad-op") else
      match c with
      | .arr ek s a => let (s', rs) := s.assignSelf; let (a', r) := a.assignSelf; fin (.arr ek s' a') rs r
      | .lst ek s l => let (s', rs) := s.assignSelf; let (l', r) := l.assignSelf; fin (.lst ek s' l') rs r
      | .tup s t =>
        let (s', rs) := s.assignSelf; let (t', r) := t.assignSelf
        if s.onHeap then fin (.tup s' t') rs r
        else (setSlot st k (some (.tup s' t)), out st cmd (resStr rs) (some (.tup s' t)) ++ (Cont.tup s' t).levelCheck)
    else
    match c with
    | .tup s t =>
      match src with
      | .tup _ u =>
        let ys := if indexed then u.items else u.items.filter (fun o => keepVal p o.val)
        if !s.onHeap then
          -- not on the heap: the cells refuse (store level only; see `stepTup`)
          let op : Op Obj := if isc then .concat ys else .assign ys indexed
          let (s', rs) := s.step op
          let t' := match rs with
            | .ok _ => (t.step op).1
            | _ => t
          let c' := Cont.tup s' t'
          (setSlot st k (some c'), out st cmd (resStr rs) (some c') ++ c'.levelCheck)
        else
        if (isc || !indexed) && ys.any (fun o => hasId t o.id) then (st, s!"O {cmd} dup-refused")
        else
          let op : Op Obj := if isc then .concat ys else .assign ys indexed
          let (s', rs) := s.step op
          let (t', r) := t.step op
          fin (.tup s' t') rs r
      | _ => (st, "O bad-op")
    | _ =>
      -- `assign` (from a source with Len and Get) takes over the element type of the source: the container changes kind
      let retype := cmd == "assign" && (c.isTup == false) && (match c with | .lst _ _ _ => src.ek < 2 | _ => true)
      let ys : Option (List Int) :=
        match src with
        | .arr ek _ a => if ek == c.ek || retype then some a.items else none
        | .lst ek _ l => if ek == c.ek || retype then some l.items else none
        | .tup _ u => if isc && c.ek == 0 then some (u.items.map (·.val)) else none
      match ys with
      | none => (st, "O bad-op")
      | some ys =>
        let ys := if indexed then ys else ys.filter (keepVal p)
        let op : Op Int := if isc then .concat ys else .assign ys indexed
        let nek := fun (ek : Nat) => if retype then src.ek else ek
        match c with
        | .arr ek s a => let (s', rs) := s.step op; let (a', r) := a.step op; fin (.arr (nek ek) s' a') rs r
        | .lst ek s l => let (s', rs) := s.step op; let (l', r) := l.step op; fin (.lst (nek ek) s' l') rs r
        | .tup _ _ => (st, "O bad-op")

def parseElems (st : St) (toks : List String) : St × Option (List Obj) :=
  toks.foldl (fun (acc : St × Option (List Obj)) tok =>
    match acc with
    | (st, none) => (st, none)
    | (st, some os) => match parseObj st tok with
      | (st, some o) => (st, some (os ++ [o]))
      | (st, none) => (st, none)) (st, some [])

def nodupIds (os : List Obj) : Bool :=
  (os.foldl (fun (acc : Bool × List Nat) o => (acc.1 && !acc.2.contains o.id, o.id :: acc.2)) (true, [])).1

def mkArr (ek : Nat) (xs : List Int) : Cont := .arr ek (ArrS.new xs) (Arr.new xs)
def mkLst (ek : Nat) (xs : List Int) : Cont := .lst ek (LstS.new xs).1 (Lst.empty.concat xs).1
def mkTup (os : List Obj) : Cont := .tup (TupS.new os) ⟨os⟩

def stepLine (st : St) (line : String) : St × String :=
  match Driver.words line with
  | [] => (st, "")
  | ["dump", "on"] => ({ st with dumpOn := true }, "O dump on")
  | ["dump", "off"] => ({ st with dumpOn := false }, "O dump off")
  | ["kf13", e] =>
    match parseObj st e with
    | (st, some o) =>
      let t : Tup Obj := ⟨[o, o]⟩
      let s : TupS Obj := TupS.new [o, o]
      let chk := if sameObjs (s.iterFwd ident 1000) (t.iterFwd ident 1000) then "" else "\nM store-vs-list: an observation differs"
      match s.iterFwd ident 1000 with
      | none => (st, "O kf13 fwd=diverges" ++ chk)
      | some l => (st, s!"O kf13 fwd={l.length}" ++ chk)
    | (st, none) => (st, "O bad-op")
  | "kfself" :: opn :: kind :: elems =>
    if opn != "assign" && opn != "concat" then (st, "O bad-op") else
    let isc := opn == "concat"
    let fmt (r : Res Unit) (c : Cont) : String :=
      match r with
      | .ok _ => s!"O kfself {opn} {kind} ret {c.dump}"
      | .raised e => s!"O kfself {opn} {kind} ret err={e.name}"
      | .ub => s!"O kfself {opn} {kind} ub"
    if kind == "A" || kind == "AR" || kind == "L" then
      let vs := elems.map (parseVal 0)
      if !vs.all Option.isSome || elems.length > 200 then (st, "O bad-op") else
      let xs := vs.filterMap id
      if kind == "L" then
        let l : Lst Int := (Lst.empty.concat xs).1
        if isc then
          match l.concatSelf 100000 with
          | some l' => (st, fmt (.ok ()) (mkLst 0 l'.items))
          | none => (st, s!"O kfself {opn} {kind} diverges")
        else
          let (s', rs) := (LstS.new xs).1.assignSelf
          (st, fmt rs (.lst 0 s' l))
      else
        let c0 := mkArr 0 xs
        let c1 : Cont := match c0 with
          | .arr ek s a => if kind == "AR" && xs.length > 0 then .arr ek (s.resize (2 * xs.length)).1 (a.resize (2 * xs.length)).1 else c0
          | _ => c0
        match c1 with
        | .arr ek s a =>
          if isc then
            -- concat(a, a) is modelled at the list level only (known finding KF-C04-self-concat)
            let (a', r) := a.concatSelf
            match r with
            | .ok _ => (st, s!"O kfself {opn} {kind} ret {kind.take 1} n={a'.items.length} s={a'.nslots} {fmtInts a'.items}")
            | _ => (st, fmt r c1)
          else let (s', rs) := s.assignSelf; (st, fmt rs (.arr ek s' a))
        | _ => (st, "O bad-op")
    else if kind == "T" then
      match parseElems st elems with
      | (st, some os) =>
        if !nodupIds os || elems.length > 200 then (st, "O bad-op") else
        let t : Tup Obj := ⟨os⟩
        if isc then let (t', r) := t.concatSelf; (st, fmt r (mkTup t'.items))
        else let (s', rs) := (TupS.new os).assignSelf; (st, fmt rs (.tup s' t))
      | (st, none) => (st, "O bad-op")
    else (st, "O bad-op")
  | "kfraw" :: nn :: elems =>
    match parseNat nn with
    | some nn =>
      let vs := elems.map (parseVal 1)
      if nn > 1000 || !vs.all Option.isSome || elems.length > 200 then (st, "O bad-op") else
      let xs : List StrElem := (vs.filterMap id).map (fun v => ⟨v⟩)
      let l : Lst StrElem := (Lst.empty.concat xs).1
      let s : LstS StrElem := (LstS.new xs).1
      let (l', r) := l.step (.resize nn)
      let (_, rs) := s.step (.resize nn)
      let chk := resCheck rs r
      match r with
      | .ok _ => (st, s!"O kfraw ret LS n={l'.nitems} {fmtInts (l'.items.map (·.v))}" ++ chk)
      | .raised e => (st, s!"O kfraw ret err={e.name}" ++ chk)
      | .ub => (st, "O kfraw ub" ++ chk)
    | none => (st, "O bad-op")
  | "kfown" :: opn :: ns :: kk :: ii :: elems =>
    if opn == "concat" || opn == "assign" || opn == "lassign" then
      match parseNat ns, parseInt kk, parseInt ii with
      | some ns, some k1, some k2 =>
        let vs := elems.map (parseVal 0)
        if ns > 100000 || !vs.all Option.isSome || elems.length > 200 then (st, "O bad-op") else
        let xs := vs.filterMap id
        if (Spec.idx xs.length k1).isSome && Spec.idx xs.length k1 == Spec.idx xs.length k2 then (st, "O bad-op") else
        if opn == "lassign" then
          let s : LstS Int := (LstS.new xs).1
          let l : Lst Int := (Lst.empty.concat xs).1
          let (s', rs) := s.assignElems [k1, k2]
          let (l', r) := l.assignElems [k1, k2]
          let c' := Cont.lst 0 s' l'
          let chk := resCheck rs r ++ c'.levelCheck
          match rs with
          | .ok _ => (st, s!"O kfown {opn} ret {c'.dump}" ++ chk)
          | .raised e => (st, s!"O kfown {opn} ret err={e.name}" ++ chk)
          | .ub => (st, s!"O kfown {opn} ub" ++ chk)
        else
          let s0 : ArrS Int := ArrS.new xs
          let a0 : Arr Int := Arr.new xs
          let s : ArrS Int := if ns > xs.length then (s0.resize ns).1 else s0
          let a : Arr Int := if ns > xs.length then (a0.resize ns).1 else a0
          let (s', rs) := if opn == "concat" then s.concatElems [k1, k2] else s.assignElems [k1, k2]
          let (a', r) := if opn == "concat" then a.concatElems [k1, k2] else a.assignElems [k1, k2]
          let c' := Cont.arr 0 s' a'
          let chk := resCheck rs r ++ c'.levelCheck
          match rs with
          | .ok _ => (st, s!"O kfown {opn} ret {c'.dump}" ++ chk)
          | .raised e => (st, s!"O kfown {opn} ret err={e.name}" ++ chk)
          | .ub => (st, s!"O kfown {opn} ub" ++ chk)
      | _, _, _ => (st, "O bad-op")
    else
    if opn != "push" && opn != "pushat" then (st, "O bad-op") else
    match parseNat ns, parseInt kk, parseInt ii with
    | some ns, some kk, some ii =>
      let vs := elems.map (parseVal 0)
      if ns > 100000 || !vs.all Option.isSome || elems.length > 200 then (st, "O bad-op") else
      let xs := vs.filterMap id
      let s0 : ArrS Int := ArrS.new xs
      let a0 : Arr Int := Arr.new xs
      let s : ArrS Int := if ns > xs.length then (s0.resize ns).1 else s0
      let a : Arr Int := if ns > xs.length then (a0.resize ns).1 else a0
      let (s', rs) := if opn == "pushat" then s.pushAtElem kk ii else s.pushElem kk
      let (a', r) := if opn == "pushat" then a.pushAtElem kk ii else a.pushElem kk
      let c' := Cont.arr 0 s' a'
      let chk := resCheck rs r ++ c'.levelCheck
      match rs with
      | .ok _ => (st, s!"O kfown {opn} ret {c'.dump}" ++ chk)
      | .raised e => (st, s!"O kfown {opn} ret err={e.name}" ++ chk)
      | .ub => (st, s!"O kfown {opn} ub" ++ chk)
    | _, _, _ => (st, "O bad-op")
  | "new" :: slot :: kind :: elems =>
    match emptySlot st slot with
    | none => (st, "O bad-op")
    | some k =>
      let mk (str : Nat) (isArr : Bool) : St × String :=
        let vs := elems.map (parseVal str)
        if vs.all Option.isSome then
          let xs := vs.filterMap id
          let c : Cont := if isArr then mkArr str xs else mkLst str xs
          (setSlot st k (some c), out st "new" "ok" (some c) ++ c.levelCheck)
        else (st, "O bad-op")
      match kind with
      | "A" => mk 0 true
      | "AS" => mk 1 true
      | "A12" => mk 2 true
      | "A5" => mk 3 true
      | "L" => mk 0 false
      | "LS" => mk 1 false
      | "T" | "TK" =>
        match parseElems st elems with
        | (st, some os) =>
          if nodupIds os then
            let c : Cont := if kind == "T" then mkTup os else .tup { TupS.new os with onHeap := false } ⟨os⟩
            (setSlot st k (some c), out st "new" "ok" (some c) ++ c.levelCheck)
          else (st, "O bad-op")
        | (st, none) => (st, "O bad-op")
      | _ => (st, "O bad-op")
  | ["del", slot] =>
    match getSlot st slot with
    | some (k, _) => (setSlot st k none, "O del ok")
    | none => (st, "O bad-op")
  | ["copy", dst, src] =>
    match emptySlot st dst, getSlot st src with
    | some k, some (_, c) =>
      let (c', rs) : Cont × Res Unit := match c with
        | .arr ek s a => let (s', rs) := s.copy; (.arr ek s' a.copy, rs)
        | .lst ek s l => let (s', rs) := (LstS.new l.items); (.lst ek s' l.copy, rs)
        | .tup s t => let (s', rs) := s.copy; (.tup s' t.copy, rs)
      (setSlot st k (some c'), out st "copy" (resStr rs) (some c') ++ c'.levelCheck)
    | _, _ => (st, "O bad-op")
  | cmd :: slot :: args =>
    match getSlot st slot with
    | none => (st, "O bad-op")
    | some (k, c) =>
      if cmd == "concat" || cmd == "assign" then
        match args with
        | [src] => stepTwo st k c cmd src
        | _ => (st, "O bad-op")
      else if cmd == "assignf" then
        match args with
        | [src, p] => match parseNat p with
          | some p => if p > 2 then (st, "O bad-op") else stepTwo st k c cmd src (some p)
          | none => (st, "O bad-op")
        | _ => (st, "O bad-op")
      else match c with
        | .tup s t => stepTup st k s t cmd args
        | _ => stepInts st k c cmd args
  | _ => (st, "O bad-op")

end SeqDrv

def main (args : List String) : IO Unit := do
  let lines ← Driver.inputLines args
  let mut st : SeqDrv.St := {}
  for l in lines do
    if Driver.isSkippable l then continue
    let (st', o) := SeqDrv.stepLine st l
    st := st'
    if !o.isEmpty then IO.println o
