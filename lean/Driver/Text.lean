import Cello.Text
import Cello.TextScan
import CelloGen.Text
import Driver.Common
/- driver for engine `text` (C15).  Op file (see harness/h_text.c for the same grammar):

     R <S|F> <start> <show|print> <item>...     write the items at position <start> of a String / File, read them back
         item ::= s=<hex> | i=<dec> | f=<16 hex> | t=<hex> | pc | z=<hex> (last only)
                | I<mod><conv>=<dec>     an Int under the integer specification %<mod><conv>  (mod: empty hh h l ll j z t q; conv: d i o u x X)
                | F[l]<conv>=<16 hex>    a Float under the floating specification %[l]<conv>    (conv: f F e E g G)
                | li=<dec> | ld=<dec> | lf=<16 hex>      short for Ili= Ild= Flf=
     K <S|F> <start> <s|i|f|ld|I<mod><conv>|F[l]<conv>> x=<hex>   read one value of that kind from the given text at <start>
     L …  as K, plus `leaked=<bytes of fmt_buf the failed read leaves allocated>` (`scanLeak`);   T … as K (the harness oracle looks at the target)
     W <S|F> <start> <0|1> <width> <mod><conv> <dec> [z=<hex>]      an Int under `%[0]<width><mod><conv>` (outside the property)
   modes of R: show (one call per item), print (one print_to_with, one scan_from_with), split (one print_to_with per item, one
   scan_from_with), join (one print_to_with, one scan_from_with per item)

   prints the observation line the C harness prints (`O …`) and, for `R`, a line `M rt=<0|1> contract=<0|1|2>`:
   did the model itself read back what it wrote, consuming exactly that, and is the op inside the property's quantifier
   (1 = `inProperty`; 2 = the contract holds and the only values that do not fit their destination are Floats under a floating
   specification that is read into a `float`: the territory of known finding KF-C15-float-spec-narrow; 0 = neither). -/
open Cello.Text

def hexVal (c : Char) : Option Nat :=
  if '0' ≤ c ∧ c ≤ '9' then some (c.toNat - 48)
  else if 'a' ≤ c ∧ c ≤ 'f' then some (c.toNat - 87)
  else none

def unhex : List Char → Option (List Nat)
  | [] => some []
  | [_] => none
  | a :: b :: r => do
    let x ← hexVal a
    let y ← hexVal b
    let t ← unhex r
    pure ((x * 16 + y) :: t)

def hexDigit (n : Nat) : Char := if n < 10 then Char.ofNat (48 + n) else Char.ofNat (87 + n)

def hexOf (bs : List Nat) : String :=
  String.ofList (bs.flatMap (fun b => [hexDigit (b / 16 % 16), hexDigit (b % 16)]))

def hexFixed (n : Nat) (digits : Nat) : String :=
  String.ofList ((List.range digits).reverse.map (fun k => hexDigit (n / 16 ^ k % 16)))

def fnv (bs : List Nat) : Nat :=
  bs.foldl (fun h b => ((h ^^^ b) * 1099511628211) % 2 ^ 64) 14695981039346656037

/-- bytes as hex, or length and FNV-1a hash when long -/
def dump (bs : List Nat) : String :=
  if bs.length ≤ 300 then hexOf bs else s!"#{bs.length}:{hexFixed (fnv bs) 16}"

/-- strict decimal int64: optional '-', 1..19 digits, in range -/
def parseInt64 (s : String) : Option Int :=
  let cs := s.toList
  let (neg, ds) := match cs with
    | '-' :: r => (true, r)
    | _ => (false, cs)
  if ds.isEmpty || ds.length > 19 || !ds.all (fun c => '0' ≤ c ∧ c ≤ '9') then none
  else
    let v : Nat := ds.foldl (fun a c => a * 10 + (c.toNat - 48)) 0
    let n : Int := if neg then -(v : Int) else v
    if inInt64 n then some n else none

def parseNat (s : String) : Option Nat :=
  let cs := s.toList
  if cs.isEmpty || cs.length > 6 || !cs.all (fun c => '0' ≤ c ∧ c ≤ '9') then none
  else some (cs.foldl (fun a c => a * 10 + (c.toNat - 48)) 0)

def parseBits (s : String) : Option Nat :=
  let cs := s.toList
  if cs.length ≠ 16 then none
  else match unhex cs with
    | some bs => let v := bs.foldl (fun a b => a * 256 + b) 0; if fFinite v then some v else none
    | none => none

def splitEq (tok : String) : String × String :=
  match tok.splitOn "=" with
  | [a] => (a, "")
  | a :: rest => (a, "=".intercalate rest)
  | [] => ("", "")

inductive Tok where
  | item (it : Item)
  | z (bs : List Nat)

def parseIMod (s : String) : Option IMod :=
  IMod.all.find? (fun m => String.ofList (m.text.map Char.ofNat) = s)

def parseIConv (c : Char) : Option IConv := IConv.all.find? (fun v => v.byte = c.toNat)
def parseFConv (c : Char) : Option FConv := FConv.all.find? (fun v => v.byte = c.toNat)

/-- `I<mod><conv>` -/
def parseISpec (k : String) : Option (IMod × IConv) :=
  match k.toList with
  | 'I' :: r =>
    match r.reverse with
    | cv :: m => do
      let c ← parseIConv cv
      let md ← parseIMod (String.ofList m.reverse)
      pure (md, c)
    | [] => none
  | _ => none

/-- `F[l]<conv>` -/
def parseFSpec (k : String) : Option (Bool × FConv) :=
  match k.toList with
  | ['F', cv] => (parseFConv cv).map fun c => (false, c)
  | ['F', 'l', cv] => (parseFConv cv).map fun c => (true, c)
  | _ => none

def parseTok (printMode : Bool) (tok : String) : Option Tok :=
  if tok = "pc" then (if printMode then some (.item .pct) else none) else
  let (k, v) := splitEq tok
  if !tok.contains '=' then none else
  match k with
  | "s" => (unhex v.toList).bind fun bs => if bs.all (· != 0) then some (.item (.shw (.str bs))) else none
  | "i" => (parseInt64 v).map fun n => .item (.shw (.int n))
  | "f" => (parseBits v).map fun b => .item (.shw (.flt b))
  | "li" => if printMode then (parseInt64 v).map fun n => .item (.li n) else none
  | "ld" => if printMode then (parseInt64 v).map fun n => .item (.ld n) else none
  | "lf" => if printMode then (parseBits v).map fun b => .item (.lf b) else none
  | "t" => (unhex v.toList).bind fun bs =>
      if !bs.isEmpty && bs.all (fun b => b != 0 && b != 37) then some (.item (.lit bs)) else none
  | "z" => (unhex v.toList).bind fun bs => if bs.all (· != 0) then some (.z bs) else none
  | _ =>
    if !printMode then none else
    match parseISpec k, parseFSpec k with
    | some (m, c), _ => (parseInt64 v).map fun n => .item (.ispec m c n)
    | none, some (l, c) => (parseBits v).map fun b => .item (.fspec l c b)
    | none, none => none

/-- items and trailing text; `none` = ill-formed (z not last, adjacent literals, nothing to do) -/
def parseItems (printMode : Bool) (toks : List String) : Option (List Item × List Nat) := do
  let ts ← toks.mapM (parseTok printMode)
  let rec go : List Tok → List Item → Option (List Item × List Nat)
    | [], acc => some (acc.reverse, [])
    | [.z bs], acc => some (acc.reverse, bs)
    | .z _ :: _, _ => none
    | .item it :: r, acc =>
      match it, acc with
      | .lit _, .lit _ :: _ => none
      | _, _ => go r (it :: acc)
  let (its, z) ← go ts []
  if its.isEmpty then none else some (its, z)

def filler (n : Nat) : List Nat :=
  (List.range n).map fun i => [34, 55, 92, 32, 120][i % 5]!

def showVal : Val → String
  | .str s => "s:" ++ dump s
  | .int n => "i:" ++ toString n
  | .flt b => "f:" ++ hexFixed b 16

def showVals (vs : List Val) : String :=
  if vs.isEmpty then "-" else ",".intercalate (vs.map showVal)

def showRes (k : Kind) (r : Res (Input × Nat)) : String × String :=
  match r with
  | .ok (i, p) => (toString p, match k with | .file => toString i.cur | .str => "-")
  | .raised e => (e.name, "-")
  | .ub => ("ub", "-")
  | .unmodelled => ("unmodelled", "-")

def parseKind (s : String) : Option Kind :=
  if s = "S" then some .str else if s = "F" then some .file else none

/-- is the value read the value the item wrote (Float: equal to within the printed precision — the same text under the item's
    own specification) -/
def itemEq : Item → Val → Bool
  | .shw (.flt a), .flt b => printF a == printF b
  | .fspec _ c a, .flt b => printFloatSpec c a == printFloatSpec c b
  | it, v => it.val? == some v

def doR (k : Kind) (start : Nat) (mode : Nat) (its : List Item) (z : List Nat) : IO Unit := do
  let c := srcCfg
  -- extension round: writer and reader are the ones parametrised by the branches / formats / C types extracted from the source
  -- (Cello/TextScan.lean: `%$` through show_to / look_from and the formats of Num.c, the typed character path, the literal branch)
  let x := srcX
  let o : Sink := { kind := k, data := filler start }
  -- print mode: ONE print_to_with / scan_from_with on the format string (the model cuts it with the extracted conversion sets);
  -- show mode: one call per item
  let fmt := its.flatMap Item.fmt
  -- split: one print_to_with per item = `printItems` (each item's own format is cut into that item); join: one per item on the read side
  let w : Option (Sink × Nat) :=
    if mode == 1 || mode == 3 then printFmtX x o start fmt (its.filterMap Item.val?)
    else if mode == 0 then printItemsD x o start its      -- show mode: show_to called directly, no `%$` branch
    else printItemsX x o start its
  match w with
  | none => IO.println "O R w=unmodelled"
  | some (o', wpos) =>
    let text := o'.data.drop start
    let inp : Input := { kind := k, text := o'.data ++ z, cur := start }
    let rr : Option (List Val × Res (Input × Nat)) :=
      if mode == 1 || mode == 2 then scanFmtX x inp start fmt (its.filterMap (fun it => sentinel it.shape))
      else if mode == 0 then some (scanItemsD x inp start (its.map Item.shape))     -- look_from called directly
      else some (scanItemsX x inp start (its.map Item.shape))
    match rr with
    | none => IO.println s!"O R w={wpos} text={dump text} r=unmodelled"
    | some (vals, r) =>
      let (rs, tell) := showRes k r
      IO.println s!"O R w={wpos} text={dump text} r={rs} vals={showVals vals} tell={tell}"
      let want := its.filter (fun it => it.val?.isSome)
      let rt : Bool := match r with
        | .ok (i, p) => p == wpos && vals.length == want.length && (want.zip vals).all (fun (it, v) => itemEq it v) &&
            (k == .str || i.cur == wpos) && wpos == start + text.length
        | _ => false
      let onlyNarrow : Bool := its.all (fun it => it.inWidth c || (match it with | .fspec _ _ _ => true | _ => false))
      let contract : Nat := if inProperty c k its z then 1 else if contractOK c k its z && onlyNarrow then 2 else 0
      IO.println s!"M rt={if rt then 1 else 0} contract={contract}"

def doK (probe : Nat) (k : Kind) (start : Nat) (sh : Shape) (text : List Nat) : IO Unit := do
  let inp : Input := { kind := k, text := text, cur := start }
  let (v, r) := scanItemD srcX inp start sh      -- kinds s i f: look_from directly; a specification: scan_from
  let (rs, tell) := showRes k r
  if probe == 1 then IO.println s!"O L r={rs} val={showVals v.toList} tell={tell} leaked={scanLeak srcCfg inp start sh}"
  else if probe == 2 then IO.println s!"O T r={rs} val={showVals v.toList} tell={tell}"
  else IO.println s!"O K r={rs} val={showVals v.toList} tell={tell}"

/-- an Int under `%[0]<w><m><c>`: written at `start`, read back with the same specification -/
def doW (k : Kind) (start : Nat) (zero : Bool) (w : Nat) (m : IMod) (cv : IConv) (n : Int) (z : List Nat) : IO Unit := do
  let c := srcCfg
  let text := printIntSpecW zero w m cv n
  let o : Sink := ({ kind := k, data := filler start } : Sink).put start text
  let wpos := start + text.length
  let inp : Input := { kind := k, text := o.data ++ z, cur := start }
  let (v, r) := inp.run start 77 (withN (scanIntSpecW c zero w m cv) 77)
  let (rs, tell) := showRes k r
  IO.println s!"O W w={wpos} text={dump text} r={rs} val={showVals [Val.int v]} tell={tell}"
  -- `C15_width_safe_statement` evaluated on this op
  let safe := widthSafe zero w m cv n && ispecSafe m cv n z
  let rt : Bool := match r with
    | .ok (i, p) => p == wpos && v == convInt m cv n && (k == .str || i.cur == wpos)
    | _ => false
  IO.println s!"M wsafe={if safe then 1 else 0} wrt={if rt then 1 else 0}"

def main (args : List String) : IO Unit := do
  let lines ← Driver.inputLines args
  for l in lines do
    if Driver.isSkippable l then continue
    match l.splitOn " " with
    | "R" :: src :: st :: mode :: toks =>
      match parseKind src, parseNat st, (if mode = "show" then some 0 else if mode = "print" then some 1 else if mode = "split" then some 2
          else if mode = "join" then some 3 else none) with
      | some k, some start, some md =>
        if start > 4096 || toks.length > 64 then IO.println "O bad-op" else
        match parseItems (md != 0) toks with
        | some (its, z) => doR k start md its z
        | none => IO.println "O bad-op"
      | _, _, _ => IO.println "O bad-op"
    | "W" :: src :: st :: zf :: ws :: spec :: ns :: ztok =>
      let zopt : Option (List Nat) := match ztok with
        | [] => some []
        | [t] => let (zk, zv) := splitEq t
                 if zk = "z" && t.contains '=' then (unhex zv.toList).bind fun bs => if bs.all (· != 0) && bs.length ≤ 200 then some bs else none else none
        | _ => none
      match parseKind src, parseNat st, (if zf = "0" then some false else if zf = "1" then some true else none), parseNat ws,
            parseISpec ("I" ++ spec), parseInt64 ns, zopt with
      | some k, some start, some zero, some w, some (m, cv), some n, some z =>
        if start > 4096 || w < 1 || w > 40 then IO.println "O bad-op" else doW k start zero w m cv n z
      | _, _, _, _, _, _, _ => IO.println "O bad-op"
    | [kl, src, st, kind, x] =>
      if kl != "K" && kl != "L" && kl != "T" then IO.println "O bad-op" else
      let sh : Option Shape := match kind with
        | "s" => some .str | "i" => some .int | "f" => some .flt | "ld" => some .ld
        | _ => match parseISpec kind, parseFSpec kind with
          | some (m, c), _ => some (.ispec m c)
          | none, some (l, c) => some (.fspec l c)
          | none, none => none
      let (xk, xv) := splitEq x
      match parseKind src, parseNat st, sh, (if xk = "x" && x.contains '=' then unhex xv.toList else none) with
      | some k, some start, some sh, some text =>
        if start > text.length || (k == .str && text.any (· == 0)) then IO.println "O bad-op"
        else doK (if kl == "L" then 1 else if kl == "T" then 2 else 0) k start sh text
      | _, _, _, _ => IO.println "O bad-op"
    | _ => IO.println "O bad-op"
