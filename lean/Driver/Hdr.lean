import Cello.Hdr
import Cello.HdrSlots
import CelloGen.Hdr
import Driver.Common
/- driver for engine `hdr` (C19): one op per line (syntax: see harness/h_hdr.c); runs the model `Cello.Hdr.step` with the
   configuration read from the current source (`Config.current`) and prints one `O` line per op — what the C harness
   must print too. -/
open Cello.Hdr

def cfg : Config := Config.current

def clsName (c : Nat) : String :=
  if c = cfg.cStatic then "static" else if c = cfg.cStack then "stack" else if c = cfg.cHeap then "heap"
  else if c = cfg.cData then "data" else s!"c{c}"

def tyName (t : Option Ty) : String := match t with | some t => t.name | none => "BADMAGIC"

def showScalar : Scalar → String
  | .int v => s!"i{v}"
  | .str s => s!"s{s}"
  | .strFreed => "s!freed"
  | .raw w => s!"p{w}"
  | .tup items => "t[" ++ ",".intercalate (items.map toString) ++ "]"
  | .tupFreed => "t!freed"
  | .arr vals => "a[" ++ ",".intercalate (vals.map toString) ++ "]"
  | .arrFreed _ => "a!freed"

/-- at most 24 items are shown -/
def capped (l : List String) : String :=
  ",".intercalate (l.take 24) ++ (if l.length > 24 then s!",..+{l.length - 24}" else "")

def showBody : Body → String
  | .scalar v => showScalar v
  | .tuple items => "t[" ++ capped (items.map toString) ++ "]"
  | .seq k ety es => (match k with | .array => "a" | .list => "l") ++ ety.name ++ "[" ++ capped (es.map (fun e => showScalar e.val)) ++ "]"
  | .map k kty vty ents => (match k with | .table => "h" | .tree => "m") ++ kty.name ++ "," ++ vty.name ++ "{" ++
      capped (ents.map (fun e => showScalar e.1.val ++ ":" ++ showScalar e.2.val)) ++ "}"
  | .ref t => s!"r{t}"
  | .box none => "b-"
  | .box (some t) => s!"b{t}"
  | .tyobj t _ => "T" ++ t.name
  | .destroyed => "!destroyed"

def regName (s : St) (id : Nat) : String :=
  match s.reg.find? (fun p => p.1 == id) with
  | some (_, true) => "root"
  | some (_, false) => "auto"
  | none => "-"

/-- `ty= cls= reg= sz= cap= v=` of a target in state `s` -/
def describe (s : St) (t : Target) : String :=
  match s.get t.id with
  | none => "gone"
  | some o =>
    if !o.live then "ty=- cls=- reg=- live=0 v=-" else
    match t with
    | .obj id =>
      let ty := typeOf cfg o.hdr
      let sz := match ty with | some t => s.sizeOf t | none => 0
      s!"ty={tyName ty} cls={clsName o.hdr.alloc} reg={regName s id} live=1 sz={sz} cap={o.cap} v={showBody o.body}"
    | _ =>
      match s.elemOf t with
      | none => "gone"
      | some e =>
        let ty := typeOf cfg e.hdr
        let sz := match ty with | some t => s.sizeOf t | none => 0
        s!"ty={tyName ty} cls={clsName e.hdr.alloc} reg=- live=1 sz={sz} cap={e.cap} v={showScalar e.val}"

def showOutcome : Outcome → String
  | .ok => "none"
  | .raised e => e
  | .ub => "UB"

def showSeen : Option Seen → String
  | some (ty, c) => tyName ty ++ "/" ++ clsName c
  | none => "?"

def parseRoute (w : String) : Option Route :=
  if w == "new" then some .new else if w == "new_raw" then some .newRaw else if w == "new_root" then some .newRoot
  else if w == "alloc" then some .alloc else if w == "alloc_raw" then some .allocRaw else if w == "alloc_root" then some .allocRoot
  else if w == "stack" then some .stack else if w == "static" then some .static else none

def parseTarget (w : String) : Option Target :=
  match w.splitOn "." with
  | [a] => a.toNat?.map .obj
  | [a, b] =>
    match a.toNat? with
    | none => none
    | some id =>
      if b.startsWith "k" then ((b.drop 1).toString.toNat?).map (.key id)
      else if b.startsWith "v" then ((b.drop 1).toString.toNat?).map (.val id)
      else b.toNat?.map (.elem id)
  | _ => none

def parseText (w : String) : String := if w == "-" then "" else w

def isText (w : String) : Bool := w == "-" || w.toList.all (fun c => c.isAlphanum)

def allSome {α : Type} : List (Option α) → Option (List α)
  | [] => some []
  | some x :: r => (allSome r).map (x :: ·)
  | none :: _ => none

/-- `<tag>:` followed by comma-separated numbers (possibly none) -/
def parseTagged {α : Type} (tag : String) (num : String → Option α) (w : String) : Option (List α) :=
  if w.startsWith tag then
    let rest := (w.drop tag.length).toString
    if rest.isEmpty then some [] else allSome ((rest.splitOn ",").map num)
  else none

def parseScalar (t : Ty) (w : String) : Option Scalar :=
  match t with
  | .int => w.toInt?.map .int
  | .string => if isText w then some (.str (parseText w)) else none
  | .rt _ => w.toInt?.map .raw
  | .tuple => (parseTagged "t:" String.toNat? w).map .tup      -- an embedded Tuple: the handles of its items
  | .array => (parseTagged "a:" String.toInt? w).map .arr      -- an embedded Array of Int
  | _ => none

def parseElemTy (w : String) : Option Ty :=
  match Ty.ofName w with
  | .int => some .int
  | .string => some .string
  | .rt k => some (.rt k)
  | .tuple => some .tuple
  | .array => some .array
  | _ => none

def pairs {α : Type} : List α → Option (List (α × α))
  | [] => some []
  | a :: b :: r => (pairs r).map ((a, b) :: ·)
  | [_] => none

def parseFreeOp (w : String) : Option FreeOp :=
  if w == "dealloc" then some .dealloc else if w == "dealloc_raw" then some .deallocRaw
  else if w == "dealloc_root" then some .deallocRoot else if w == "del" then some .del
  else if w == "del_raw" then some .delRaw else if w == "del_root" then some .delRoot
  else if w == "destruct" then some .destruct else none

def parseOp (ws : List String) : Option Op :=
  match ws with
  | ["int", id, r, v] =>
    match id.toNat?, parseRoute r, v.toInt? with
    | some id, some r, some v => some (.make id r (.int v))
    | _, _, _ => none
  | ["str", id, r, t] =>
    match id.toNat?, parseRoute r with
    | some id, some r => if isText t then some (.make id r (.str (parseText t))) else none
    | _, _ => none
  | "tup" :: id :: r :: items =>
    match id.toNat?, parseRoute r, allSome (items.map String.toNat?) with
    | some id, some r, some items => some (.make id r (.tuple items))
    | _, _, _ => none
  | ["ref", id, r, t] =>
    match id.toNat?, parseRoute r, t.toNat? with
    | some id, some r, some t => some (.make id r (.ref t))
    | _, _, _ => none
  | ["box", id, r, t] =>
    match id.toNat?, parseRoute r with
    | some id, some r =>
      if t == "-" then some (.make id r (.box none)) else t.toNat?.map (fun t => .make id r (.box (some t)))
    | _, _ => none
  | kind :: id :: r :: ety :: vals =>
    if kind == "arr" || kind == "lst" then
      match id.toNat?, parseRoute r, parseElemTy ety with
      | some id, some r, some ety =>
        (allSome (vals.map (parseScalar ety))).map (fun vs => .make id r (.seq (if kind == "arr" then .array else .list) ety vs))
      | _, _, _ => none
    else if kind == "tab" || kind == "tre" then
      match vals with
      | vty :: rest =>
        match id.toNat?, parseRoute r, parseElemTy ety, parseElemTy vty, pairs rest with
        | some id, some r, some kty, some vty, some ps =>
          (allSome (ps.map (fun p => match parseScalar kty p.1, parseScalar vty p.2 with
            | some a, some b => some (a, b)
            | _, _ => none))).map (fun es => .make id r (.map (if kind == "tab" then .table else .tree) kty vty es))
        | _, _, _, _, _ => none
      | [] => none
    else if kind == "rtt" then
      match id.toNat?, parseRoute r, ety.toNat?, vals with
      | some id, some r, some k, [size] => size.toNat?.map (fun sz => .make id r (.rtType k sz))
      | _, _, _, _ => none
    else if kind == "rto" then
      match id.toNat?, parseRoute r, ety.toNat?, vals with
      | some id, some r, some k, [w] => w.toInt?.map (fun w => .make id r (.rtObj k w))
      | _, _, _, _ => none
    else if kind == "view" then
      -- view range a b c  /  view hrange a b c   (id r ety vals = a b c [])
      none
    else none
  | _ => none

def parseView (ws : List String) : Option View :=
  match ws with
  | ["slice", id, k] => (match id.toNat?, k.toNat? with | some id, some k => some (.slice id k) | _, _ => none)
  | ["reverse", id] => id.toNat?.map .reverse
  | ["zip", a, b] => (match a.toNat?, b.toNat? with | some a, some b => some (.zip a b) | _, _ => none)
  | ["enumerate", id] => id.toNat?.map .enumerate
  | ["filter", id] => id.toNat?.map .filter
  | ["map", id] => id.toNat?.map .map
  | ["range", a, b, c] => (match a.toInt?, b.toInt?, c.toInt? with | some a, some b, some c => some (.rangeStack a b c) | _, _, _ => none)
  | ["hrange", a, b, c] => (match a.toInt?, b.toInt?, c.toInt? with | some a, some b, some c => some (.rangeHeap a b c) | _, _, _ => none)
  | _ => none

/-- `<ids> ; <ids>` (the second list and the `;` are optional) -/
def parseTwoLists (ws : List String) : Option (List Nat × List Nat) :=
  let a := ws.takeWhile (· != ";")
  let b := (ws.dropWhile (· != ";")).drop 1
  match allSome (a.map String.toNat?), allSome (b.map String.toNat?) with
  | some a, some b => some (a, b)
  | _, _ => none

def parseLine (ws : List String) : Option Op :=
  match ws with
  | ["own", id, t] =>
    (match id.toNat? with
     | some id => if t == "-" then some (.own id none) else t.toNat?.map (fun t => .own id (some t))
     | none => none)
  | "thr" :: rest => (parseTwoLists rest).map (fun p => .thr p.1 p.2)
  | "exit" :: rest => (parseTwoLists rest).bind (fun p => if p.1.isEmpty then some (.exit p.2) else none)
  | ["sty", id, name] => id.toNat?.map (fun id => .static id name)
  | ["cpy", id, src] => (match id.toNat?, src.toNat? with | some id, some src => some (.copy id src) | _, _ => none)
  | ["obs", t] => (parseTarget t).map .obs
  | ["resize", t, n] => (match parseTarget t, n.toNat? with | some t, some n => some (.inplace (.resize n) t) | _, _ => none)
  | ["concat", t, x] => (match parseTarget t, x.toNat? with | some t, some x => some (.inplace (.concat x) t) | _, _ => none)
  | ["assign", t, x] => (match parseTarget t, x.toNat? with | some t, some x => some (.inplace (.assign x) t) | _, _ => none)
  | ["push", t, x] => (match parseTarget t, x.toNat? with | some t, some x => some (.inplace (.push x) t) | _, _ => none)
  | ["rem", t, x] => (match parseTarget t, x.toNat? with | some t, some x => some (.inplace (.rem x) t) | _, _ => none)
  | ["pop", t] => (parseTarget t).map (.inplace .pop)
  | ["push_at", t, x, i] =>
    (match parseTarget t, x.toNat?, i.toInt? with | some t, some x, some i => some (.inplace (.pushAt x i) t) | _, _, _ => none)
  | ["pop_at", t, i] => (match parseTarget t, i.toInt? with | some t, some i => some (.inplace (.popAt i) t) | _, _ => none)
  | ["set", t, k, v] =>
    (match parseTarget t, k.toNat?, v.toNat? with | some t, some k, some v => some (.inplace (.set k v) t) | _, _, _ => none)
  | ["iter", id, d] =>
    (match id.toNat? with
     | some id => if d == "fwd" then some (.iter id false) else if d == "back" then some (.iter id true) else none
     | none => none)
  | ["values", id] => id.toNat?.map .values
  | "view" :: rest => (parseView rest).map .view
  | "sweep" :: rest => (parseTwoLists rest).map (fun p => .sweep p.1 p.2)
  | ["end"] => some .finish
  | [f, t] => (match parseFreeOp f, parseTarget t with | some f, some t => some (.free f t) | _, _ => none)
  | _ => parseOp ws

def showItems (l : List (Option Seen)) : String :=
  s!"items n={l.length} [" ++ ",".intercalate ((l.take 16).map showSeen) ++ "]"

/-- known-finding witnesses: evaluated on the model, run by the harness in a forked child -/
def kfLine (name : String) : String :=
  if name == "delraw-embedded" then
    -- new(Array, String, "ab"); del_raw(get(a, 0)): the destructor frees the buffer, then dealloc's message shows the object
    let e := seqElem cfg St.init .array .string (.str "ab")
    let (e1, out) := freeElem cfg .delRaw e
    s!"kf delraw-embedded exc={showOutcome out} v={showScalar e1.val}"
  else if name == "tree-odd-key" then
    -- Tree_Alloc puts the value's header at 3*sizeof(var) + sizeof(Header) + size(ktype): misaligned for a 12-byte key type
    let aligned := treeValHeaderAligned cfg 12
    s!"kf tree-odd-key exc={if aligned then "none" else "UB"}"
  else if name == "del-silent" then
    -- del($I(7)): not registered, GC_Rem_Ptr returns; nothing is raised
    let e : Elem := { hdr := headerInit cfg .int cfg.bStack, cap := 8, val := .int 7 }
    let (e1, out) := freeElem cfg .del e
    s!"kf del-silent exc={showOutcome out} v={showScalar e1.val}"
  else if name == "delraw-embedded-tuple" then
    -- a = new_raw(Array, Tuple, tuple($I(1), $I(2))); del_raw(get(a, 0)): Tuple_Del frees `items`, dealloc's message shows them
    let s := run cfg St.init [.make 0 .stack (.int 1), .make 1 .stack (.int 2)]
    let (e1, out) := freeElem cfg .delRaw (seqElem cfg s .array .tuple (.tup [0, 1]))
    s!"kf delraw-embedded-tuple exc={showOutcome out} v={if e1.val.dangling then "t!freed" else "tok"}"
  else if name == "delraw-embedded-array" then
    -- outer = new_raw(Array, Array, new_raw(Array, Int, 7, 8)); del_raw(get(outer, 0)): Array_Del frees the backing store
    let (e1, out) := freeElem cfg .delRaw (seqElem cfg St.init .array .array (.arr [7, 8]))
    s!"kf delraw-embedded-array exc={showOutcome out} v={if e1.val.dangling then "a!freed" else "aok"}"
  else if name == "delraw-stack-box" then
    -- p = new(Int, $I(5)); b = $(Box, p); del_raw(b): Box_Del deletes p and clears b, then dealloc refuses b
    let s := run cfg St.init [.make 0 .new (.int 5), .make 1 .stack (.box (some 0))]
    match s.get 1 with
    | some o =>
      let (s1, out) := freeObj cfg s .delRaw 1 o
      let v := match s1.get 1 with | some o1 => showBody o1.body | none => "?"
      s!"kf delraw-stack-box exc={showOutcome out} v={v} rel={s1.freed.length}"
    | none => "bad-op"
  else if name.startsWith "copy-view-" then
    -- copy(new(<View>, ..)): no Copy instance -> assign(alloc(T), v); Range / Slice / Zip assign into a NULL sub-object
    match copyViewOutcome (name.drop 10).toString with
    | some out => s!"kf {name} exc={showOutcome out}"
    | none => "bad-op"
  else "bad-op"

/-! the slot level of Arrays (Cello/HdrSlots.lean): every Array handle has its storage, advanced by the statement lists read
    from src/Array.c whenever the model executes a size-changing operation on it -/
open Cello.HdrSlots in
def arrOf (s : St) (id : Nat) : Option (Ty × List Elem) :=
  match s.get id with
  | some o => if o.live then (match o.body with | .seq .array ety es => some (ety, es) | _ => none) else none
  | none => none

open Cello.HdrSlots in
/-- the operation of the slot machine that mirrors `op` on Array `id` (state `s` = before the op) -/
def slotOp (s : St) (op : Op) : Option (Nat × AOp) :=
  match op with
  | .inplace ip (.obj id) =>
    (match arrOf s id with
     | none => none
     | some _ =>
       match ip with
       | .push _ => some (id, .push)
       | .pop => some (id, .pop)
       | .pushAt _ i => some (id, .pushAt i)
       | .popAt i => some (id, .popAt i)
       | .resize m => some (id, .resize m)
       | .concat src =>
         (match s.get src with
          | some o => (match o.body with | .seq _ _ more => some (id, .concat more.length) | _ => none)
          | none => none)
       | _ => none)
  | _ => none

open Cello.HdrSlots in
def slotsAfter (sl : List (Nat × Arr)) (s s1 : St) (op : Op) (obs : Obs) : List (Nat × Arr) × List (String × Nat) :=
  match op, obs with
  | .make id _ (.seq .array ety vals), .made _ =>
    -- the harness builds it as `new(Array, ety)` followed by one `push` per value
    ((id, runOps (arrayHeader cfg ety) cfg.magic Arr.empty (List.replicate vals.length .push)) :: sl, [("push", vals.length)])
  | .copy id src, .made _ =>
    (match arrOf s src with
     | some (ety, es) => ((id, (runOp (arrayHeader cfg ety) cfg.magic Arr.empty (.fill es.length)).1) :: sl, [("fill", 1)])
     | none => (sl, []))
  | _, .did _ _ _ =>
    (match slotOp s op with
     | some (id, aop) =>
       (match arrOf s id, sl.lookup id with
        | some (ety, _), some a =>
          let r := runOp (arrayHeader cfg ety) cfg.magic a aop
          let tag := match aop, r.2 with
            | .pushAt _, .ok => if r.1.nslots != a.nslots then "pushat-grow" else "pushat"
            | .push, .ok => if r.1.nslots != a.nslots then "push-grow" else "push"
            | .pop, .ok => if r.1.nslots != a.nslots then "pop-shrink" else "pop"
            | .popAt _, .ok => if r.1.nslots != a.nslots then "popat-shrink" else "popat"
            | .concat _, .ok => "concat"
            | .resize n, .ok => if n = 0 then "resize0" else if n < a.nitems then "resize-shrink" else if n == a.nitems then "resize-same" else "resize-grow"
            | _, .raised _ => "refused"
            | _, _ => "bad"
          let atEnd := match aop, r.2 with | .pushAt k, .ok => if k == (a.nitems : Int) || k == -1 then [("pushat-end", 1)] else [] | _, _ => []
          let fresh := match aop, r.2 with | .pushAt k, .ok => if (k == (a.nitems : Int) || k == -1) && a.nitems == a.nslots then [("pushat-end-fresh", 1)] else [] | _, _ => []
          ((id, r.1) :: sl.filter (fun p => p.1 != id), [(tag, 1)] ++ atEnd ++ fresh)
        | _, _ => (sl, []))
     | none => (sl, []))
  | _, _ => (if s1.freed.length == s.freed.length then sl else sl.filter (fun p => s1.isLive p.1), [])

open Cello.HdrSlots in
/-- ` slots=<nitems>/<nslots>/<slots type_of would reject>` of a live Array handle (`!` = the slot machine and the list model
    disagree on the number of elements) -/
def slotsSuffix (sl : List (Nat × Arr)) (s : St) (t : Target) : String :=
  match t with
  | .obj id =>
    (match arrOf s id, sl.lookup id with
     | some (_, es), some a => if a.nitems == es.length then s!" slots={a.nitems}/{a.nslots}/{a.badCount cfg.magic}" else " slots=!"
     | some _, none => " slots=?"
     | none, _ => "")
  | _ => ""

def showIds (l : List Nat) : String := if l.isEmpty then "-" else ",".intercalate (l.map toString)

def main (args : List String) : IO Unit := do
  let lines ← Driver.inputLines args
  let mut s : St := St.init
  let mut nOps := 0
  let mut nRefused := 0
  let mut sl : List (Nat × Cello.HdrSlots.Arr) := []
  let mut slotStats : List (String × Nat) := []
  for l in lines do
    if Driver.isSkippable l then continue
    let ws := Driver.words l
    match ws with
    | ["kf", name] => IO.println ("O " ++ kfLine name)
    | _ =>
    match parseLine ws with
    | none => IO.println "O bad-op"
    | some op =>
      nOps := nOps + 1
      let nFreed := s.freed.length
      let (s1, obs) := step cfg s op
      let (sl1, tags) := slotsAfter sl s s1 op obs
      sl := sl1
      for (k, n) in tags do
        slotStats := match slotStats.lookup k with
          | some c => (k, c + n) :: slotStats.filter (fun p => p.1 != k)
          | none => (k, n) :: slotStats
      s := s1
      match obs with
      | .bad => IO.println "O bad-op"
      | .skip why => IO.println s!"O skip {why}"
      | .made id => IO.println s!"O mk {id} {describe s (.obj id)}{slotsSuffix sl s (.obj id)}"
      | .seen t => IO.println s!"O obs {describe s t}{slotsSuffix sl s t}"
      | .did name out t =>
        match out with
        | .raised _ => nRefused := nRefused + 1
        | _ => pure ()
        IO.println s!"O {name} exc={showOutcome out} {describe s t}{slotsSuffix sl s t} rel={showIds (s.freed.drop nFreed)}"
      | .items l => IO.println ("O " ++ showItems l)
      | .swept how ids out =>
        -- the teardown (and a collection that loses a Type) is observed in a forked child: when that does not complete
        -- cleanly, its ledger is lost
        let shown := if out != .ok then "*" else showIds ids
        IO.println s!"O {how} exc={showOutcome out} freed={shown}"
      | .fin =>
        let liveHeap := (s.objs.filter (fun p => p.2.live && p.2.hdr.alloc == cfg.cHeap)).length
        IO.println s!"O end released={s.freed.length} live={liveHeap} registered={s.reg.length}"
  IO.println s!"S ops={nOps} refused={nRefused} sound={cfg.Sound}"
  IO.println ("S slots " ++ " ".intercalate (slotStats.map (fun p => s!"{p.1}={p.2}")))
