import CelloGen.Exn
