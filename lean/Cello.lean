import Cello.Exn
