import Driver.Common
import Driver.Exn
