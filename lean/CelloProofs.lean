import CelloProofs.Props.C07
