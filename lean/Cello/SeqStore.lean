/-
  Cello/SeqStore.lean — the STORE-LEVEL models of the three sequence containers: the mechanisms that src/Array.c, src/List.c
  and src/Tuple.c actually use, one level below `Cello.Seq` (where they already are list operations).

  * `ArrS` = `struct Array` as a BLOCK OF CELLS: `cells` has one cell per reserved record (`size = nslots`); a cell is `none`
    until something was written to it since the block was (re)allocated.  `memmove dst src cnt` copies an index range (cell
    `dst+j` receives the old cell `src+j`, overlapping or not, as `memmove` does), `realloc n` makes a NEW block of `n` cells
    with the common prefix copied — the block has a generation number `blk`, bumped by every malloc / realloc / free, so
    that a pointer `(blk, index)` into an earlier block is recognisably dangling.  Every access is checked: a read of a cell
    that is outside the block or was never written, a write or a memmove range outside the block, a read through a dangling
    pointer all give the outcome `.ub`.
  * `LstS` = `struct List` as a HEAP OF NODES (`prev`, `next`, `val`) addressed by numbers, with `head`, `tail`, `nitems`;
    `link` / `unlink` are `List_Link` / `List_Unlink` with their four cases each, `nodeAt` is the two-ended walk of
    `List_At` over the `next` / `prev` fields.  A freed node is `none`; touching it, or following a NULL link, is `.ub`.
  * `TupS` = `struct Tuple` as a block of pointer cells ending in the `Terminal` cell; `len` scans for the first `Terminal`;
    the `memmove`s move the Terminal cell with the items; every `realloc` gives the block its exact size.

  The operations mirror the C text statement by statement (order of index normalisation, bounds check, counter update,
  reserve, move, write).  CelloProofs/Lemmas/SeqStore*.lean prove, per operation, that under the abstraction relation
  (`ArrS.Abs`, `LstS.Abs`, `TupS.Abs`) a store-level step does exactly what the list-level step of `Cello.Seq` does and never
  yields `.ub`; the driver runs THIS level, so the differential check ties the cells / links / Terminal cell to the C code.
  Core Lean only.
-/
import Cello.Seq

namespace Cello.Seq

variable {α : Type}

/-! ## Array: block of record cells -/

structure ArrS (α : Type) where
  cells : Array (Option α)    -- the block `data`: `size = nslots`; `none` = not written since the block was allocated
  nitems : Nat
  blk : Nat                   -- generation of the block (identity of the allocation)
deriving Repr

namespace ArrS

def nslots (s : ArrS α) : Nat := s.cells.size

/-- read record `k` (`Array_Item(a, k)` dereferenced): `none` = outside the block or never written -/
def rd (s : ArrS α) (k : Nat) : Option α := (s.cells[k]?).getD none

/-- `Array_Alloc(a, k); assign(Array_Item(a, k), x)`: zero the record, write its header, assign — the record holds `x`;
    `none` = record `k` is outside the block -/
def wr (s : ArrS α) (k : Nat) (x : α) : Option (ArrS α) :=
  if k < s.cells.size then some { s with cells := s.cells.setIfInBounds k (some x) } else none

/-- `memmove(data + step*dst, data + step*src, step*cnt)`: cell `dst+j` receives the old cell `src+j` for `j < cnt`
    (ranges may overlap; written or not, a cell is copied as it is); `none` = a range leaves the block -/
def memmove (s : ArrS α) (dst src cnt : Nat) : Option (ArrS α) :=
  if src + cnt ≤ s.cells.size ∧ dst + cnt ≤ s.cells.size then
    some { s with cells := Array.ofFn (n := s.cells.size) fun j =>
      if dst ≤ j.val ∧ j.val < dst + cnt then (s.cells[src + (j.val - dst)]?).getD none else (s.cells[j.val]?).getD none }
  else none

/-- `data = realloc(data, step*n)`: a new block of `n` cells, the common prefix copied, the rest unwritten -/
def realloc (s : ArrS α) (n : Nat) : ArrS α :=
  { s with cells := Array.ofFn (n := n) fun j => (s.cells[j.val]?).getD none, blk := s.blk + 1 }

/-- `Array_Reserve_More` (after `nitems` was updated) -/
def reserveMore (s : ArrS α) : ArrS α :=
  if s.nitems > s.cells.size then s.realloc (s.nitems + s.nitems / 2) else s

/-- `Array_Reserve_Less` (after `nitems` was updated) -/
def reserveLess (s : ArrS α) : ArrS α :=
  if s.cells.size > s.nitems + s.nitems / 2 then s.realloc s.nitems else s

/-- `Array_New` with initial elements: `malloc(nslots)`, every record allocated and assigned -/
def new (xs : List α) : ArrS α := ⟨(xs.map some).toArray, xs.length, 0⟩

/-- read `n` consecutive records from `i` on; `none` = one of them is outside the block or was never written -/
def readFrom (s : ArrS α) : Nat → Nat → Option (List α)
  | _, 0 => some []
  | i, n + 1 => match s.rd i with
    | none => none
    | some x => (s.readFrom (i + 1) n).map (x :: ·)

/-- the records in use, in order -/
def items? (s : ArrS α) : Option (List α) := s.readFrom 0 s.nitems

/-- `for (from ≤ i < upto) destruct(Array_Item(a, i))`: every one of these records is read -/
def allLive (s : ArrS α) (from_ upto : Nat) : Bool := (s.readFrom from_ (upto - from_)).isSome

/-- `Array_Clear`: destruct every record, `free(data)`, `data = NULL; nitems = nslots = 0` -/
def clear (s : ArrS α) : ArrS α × Res Unit :=
  if s.allLive 0 s.nitems then (⟨#[], 0, s.blk + 1⟩, .ok ()) else (s, .ub)

def push (s : ArrS α) (x : α) : ArrS α × Res Unit :=
  let s1 := ({ s with nitems := s.nitems + 1 } : ArrS α).reserveMore
  match s1.wr (s1.nitems - 1) x with
  | some s2 => (s2, .ok ())
  | none => (s, .ub)

def pop (s : ArrS α) : ArrS α × Res Unit :=
  if s.nitems = 0 then (s, .raised .indexOutOfBounds)
  else match s.rd (s.nitems - 1) with          -- destruct(Array_Item(a, nitems-1))
    | none => (s, .ub)
    | some _ => (({ s with nitems := s.nitems - 1 } : ArrS α).reserveLess, .ok ())

def pushAt (s : ArrS α) (x : α) (i : Int) : ArrS α × Res Unit :=
  let j := pushIdx s.nitems i
  if j < 0 ∨ j > (s.nitems : Int) then (s, .raised .indexOutOfBounds)
  else
    let k := j.toNat
    let s1 := ({ s with nitems := s.nitems + 1 } : ArrS α).reserveMore
    match s1.memmove (k + 1) k ((s1.nitems - 1) - k) with
    | none => (s, .ub)
    | some s2 =>
      match s2.wr k x with
      | some s3 => (s3, .ok ())
      | none => (s, .ub)

def popAt (s : ArrS α) (i : Int) : ArrS α × Res Unit :=
  let j := normIdx s.nitems i
  if j < 0 ∨ j ≥ (s.nitems : Int) then (s, .raised .indexOutOfBounds)
  else
    let k := j.toNat
    match s.rd k with                             -- destruct(Array_Item(a, i))
    | none => (s, .ub)
    | some _ =>
      match s.memmove k (k + 1) ((s.nitems - 1) - k) with
      | none => (s, .ub)
      | some s1 => (({ s1 with nitems := s1.nitems - 1 } : ArrS α).reserveLess, .ok ())

def get (s : ArrS α) (i : Int) : Res α :=
  let j := normIdx s.nitems i
  if j < 0 ∨ j ≥ (s.nitems : Int) then .raised .indexOutOfBounds
  else match s.rd j.toNat with
    | some x => .ok x
    | none => .ub

/-- `Array_Set`: `assign(Array_Item(a, i), val)` — the record assigned to must be a live object -/
def set (s : ArrS α) (i : Int) (x : α) : ArrS α × Res Unit :=
  let j := normIdx s.nitems i
  if j < 0 ∨ j ≥ (s.nitems : Int) then (s, .raised .indexOutOfBounds)
  else match s.rd j.toNat with
    | none => (s, .ub)
    | some _ => match s.wr j.toNat x with
      | some s1 => (s1, .ok ())
      | none => (s, .ub)

/-- the scan `for (i < nitems) if (eq(Array_Item(a, i), obj))` of `Array_Mem` / `Array_Rem`: the first matching index -/
def scan [BEq α] (s : ArrS α) (x : α) : Nat → Nat → Res (Option Nat)
  | 0, _ => .ok none
  | n + 1, i =>
    match s.rd i with
    | none => .ub
    | some y => if y == x then .ok (some i) else scan s x n (i + 1)

def mem [BEq α] (s : ArrS α) (x : α) : Res Bool :=
  match s.scan x s.nitems 0 with
  | .ok r => .ok r.isSome
  | .raised e => .raised e
  | .ub => .ub

def rem [BEq α] (s : ArrS α) (x : α) : ArrS α × Res Unit :=
  match s.scan x s.nitems 0 with
  | .ok (some i) => s.popAt (i : Int)
  | .ok none => (s, .raised .valueError)
  | .raised e => (s, .raised e)
  | .ub => (s, .ub)

/-- write `ys` into consecutive records from `k` on -/
def wrFrom (s : ArrS α) : Nat → List α → Option (ArrS α)
  | _, [] => some s
  | k, y :: ys => match s.wr k y with
    | none => none
    | some s1 => s1.wrFrom (k + 1) ys

/-- `Array_Concat`: `nitems += len(obj); Array_Reserve_More;` then record `nitems-olen+i` is allocated and assigned -/
def concat (s : ArrS α) (ys : List α) : ArrS α × Res Unit :=
  let s1 := ({ s with nitems := s.nitems + ys.length } : ArrS α).reserveMore
  match s1.wrFrom (s1.nitems - ys.length) ys with
  | some s2 => (s2, .ok ())
  | none => (s, .ub)

/-- `Array_Resize`: `n = 0` clears; else `while (n < nitems) { destruct(last); nitems--; }`, `nslots = n`, `realloc` -/
def resize (s : ArrS α) (n : Nat) : ArrS α × Res Unit :=
  if n = 0 then s.clear
  else if s.allLive n s.nitems then
    ((({ s with nitems := min n s.nitems } : ArrS α).realloc n), .ok ())
  else (s, .ub)

/-- the push loop `foreach (item in obj) Array_Push(self, item)` -/
def pushAll (s : ArrS α) : List α → ArrS α × Res Unit
  | [] => (s, .ok ())
  | y :: ys => match s.push y with
    | (s1, .ok ()) => s1.pushAll ys
    | r => r

/-- `Array_Assign` (obj is not self): clear; with `Len` and `Get`: `nitems = nslots = len`, `malloc`, allocate and assign every
    record; otherwise push every item -/
def assign (s : ArrS α) (ys : List α) (indexed : Bool := true) : ArrS α × Res Unit :=
  match s.clear with
  | (c, .ok ()) =>
    if indexed then
      if ys.length = 0 then (c, .ok ())
      else
        let m : ArrS α := ⟨Array.replicate ys.length none, ys.length, c.blk + 1⟩
        match m.wrFrom 0 ys with
        | some s2 => (s2, .ok ())
        | none => (s, .ub)
    else c.pushAll ys
  | r => r

/-- `Array_Sort_By`: the quicksort of `Cello.Sort` over the records in use (it only swaps records `0 … nitems-1`) -/
def sortBy (s : ArrS α) (f : α → α → Bool) : ArrS α × Res Unit :=
  match s.items? with
  | none => (s, .ub)
  | some l =>
    match s.wrFrom 0 (Sort.sortList f l) with
    | some s1 => (s1, .ok ())
    | none => (s, .ub)

/-- `copy(a)` = `assign(alloc(Array), a)` -/
def copy (s : ArrS α) : ArrS α × Res Unit :=
  match s.items? with
  | none => (s, .ub)
  | some l => (⟨#[], 0, 0⟩ : ArrS α).assign l

/- iteration: an iterator is the address of a record, i.e. its index -/
def iterInit (s : ArrS α) : Option Nat := if s.nitems = 0 then none else some 0
def iterNext (s : ArrS α) (k : Nat) : Option Nat := if k ≥ s.nitems - 1 then none else some (k + 1)
def iterLast (s : ArrS α) : Option Nat := if s.nitems = 0 then none else some (s.nitems - 1)
def iterPrev (_ : ArrS α) (k : Nat) : Option Nat := if k ≤ 0 then none else some (k - 1)
def iterFwd (s : ArrS α) : Option (List α) := collect s.iterNext s.rd (s.nitems + 1) s.iterInit
def iterBwd (s : ArrS α) : Option (List α) := collect s.iterPrev s.rd (s.nitems + 1) s.iterLast

/-! ### an element of the Array itself as the argument (`obj` points into the block) -/

/-- a pointer to a record: the block it points into and the index -/
structure Ptr where
  blk : Nat
  idx : Nat

/-- dereference: `none` = the block was reallocated or freed since the pointer was taken (use after free), or the
    record was never written -/
def deref (s : ArrS α) (p : Ptr) : Option α := if p.blk = s.blk then s.rd p.idx else none

/-- `Array_Get` as the C function: the address of the record -/
def getPtr (s : ArrS α) (i : Int) : Res Ptr :=
  let j := normIdx s.nitems i
  if j < 0 ∨ j ≥ (s.nitems : Int) then .raised .indexOutOfBounds
  else match s.rd j.toNat with
    | some _ => .ok ⟨s.blk, j.toNat⟩
    | none => .ub

/-- `Array_Alloc(a, k)` alone: the record is zeroed (and gets its header) -/
def zero [Inhabited α] (s : ArrS α) (k : Nat) : Option (ArrS α) := s.wr k default

/-- `Array_Push(a, obj)` with `obj` a pointer: `nitems++; Reserve_More; Array_Alloc(nitems-1); assign(record, *obj)` -/
def pushPtr [Inhabited α] (s : ArrS α) (p : Ptr) : ArrS α × Res Unit :=
  let s1 := ({ s with nitems := s.nitems + 1 } : ArrS α).reserveMore
  match s1.zero (s1.nitems - 1) with
  | none => (s, .ub)
  | some s2 =>
    match s2.deref p with
    | none => (s, .ub)
    | some x => match s2.wr (s2.nitems - 1) x with
      | some s3 => (s3, .ok ())
      | none => (s, .ub)

/-- `Array_Push_At(a, obj, key)` with `obj` a pointer: bounds check, `nitems++`, `Reserve_More`, `memmove`, `Array_Alloc(i)`,
    and only then `assign(record i, *obj)` -/
def pushAtPtr [Inhabited α] (s : ArrS α) (p : Ptr) (i : Int) : ArrS α × Res Unit :=
  let j := pushIdx s.nitems i
  if j < 0 ∨ j > (s.nitems : Int) then (s, .raised .indexOutOfBounds)
  else
    let k := j.toNat
    let s1 := ({ s with nitems := s.nitems + 1 } : ArrS α).reserveMore
    match s1.memmove (k + 1) k ((s1.nitems - 1) - k) with
    | none => (s, .ub)
    | some s2 =>
      match s2.zero k with
      | none => (s, .ub)
      | some s3 =>
        match s3.deref p with
        | none => (s, .ub)
        | some x => match s3.wr k x with
          | some s4 => (s4, .ok ())
          | none => (s, .ub)

/-- `push(a, get(a, k))` -/
def pushElem [Inhabited α] (s : ArrS α) (k : Int) : ArrS α × Res Unit :=
  match s.getPtr k with
  | .ok p => s.pushPtr p
  | .raised e => (s, .raised e)
  | .ub => (s, .ub)

/-- `push_at(a, get(a, k), i)` -/
def pushAtElem [Inhabited α] (s : ArrS α) (k i : Int) : ArrS α × Res Unit :=
  match s.getPtr k with
  | .ok p => s.pushAtPtr p i
  | .raised e => (s, .raised e)
  | .ub => (s, .ub)

/-- the record addresses `get(a, k0), get(a, k1), …` return -/
def getPtrs (s : ArrS α) : List Int → Res (List Ptr)
  | [] => .ok []
  | k :: ks =>
    match s.getPtr k with
    | .raised e => .raised e
    | .ub => .ub
    | .ok p => match getPtrs s ks with
      | .ok ps => .ok (p :: ps)
      | r => r

/-- the loop of `Array_Concat` / `Array_Assign` over an operand of pointers: `Array_Alloc(a, k); assign(record k, *item)`, `k++` -/
def wrPtrsFrom [Inhabited α] (s : ArrS α) : Nat → List Ptr → Option (ArrS α)
  | _, [] => some s
  | k, p :: ps =>
    match s.zero k with
    | none => none
    | some s1 => match s1.deref p with
      | none => none                               -- dangling pointer or unwritten record
      | some x => match s1.wr k x with
        | none => none
        | some s2 => s2.wrPtrsFrom (k + 1) ps

/-- `Array_Concat(a, obj)` with `obj` a Tuple of pointers: `nitems += len(obj); Array_Reserve_More;` then the loop -/
def concatPtrs [Inhabited α] (s : ArrS α) (ps : List Ptr) : ArrS α × Res Unit :=
  let s1 := ({ s with nitems := s.nitems + ps.length } : ArrS α).reserveMore
  match s1.wrPtrsFrom (s1.nitems - ps.length) ps with
  | some s2 => (s2, .ok ())
  | none => (s, .ub)

/-- `concat(a, tuple(get(a, k0), …))` -/
def concatElems [Inhabited α] (s : ArrS α) (ks : List Int) : ArrS α × Res Unit :=
  match s.getPtrs ks with
  | .ok ps => s.concatPtrs ps
  | .raised e => (s, .raised e)
  | .ub => (s, .ub)

/-- `assign(a, tuple(get(a, k0), …))`: `Array_Clear` (the block is freed: generation bumped), `malloc` of the new block, the loop -/
def assignElems [Inhabited α] (s : ArrS α) (ks : List Int) : ArrS α × Res Unit :=
  match s.getPtrs ks with
  | .raised e => (s, .raised e)
  | .ub => (s, .ub)
  | .ok ps => match s.clear with
    | (c, .ok ()) =>
      if ps.length = 0 then (c, .ok ())
      else
        let m : ArrS α := ⟨Array.replicate ps.length none, ps.length, c.blk + 1⟩
        (match m.wrPtrsFrom 0 ps with
        | some s2 => (s2, .ok ())
        | none => (s, .ub))
    | r => r

/-- `set(a, i, get(a, k))`: bounds check of `i`, then `assign(record i, *obj)`; `elemSelfAssignOk = false`: the element type's
    `assign(x, x)` is a use after free (String before fix 744a45f) -/
def setElem (s : ArrS α) (i k : Int) (elemSelfAssignOk : Bool := true) : ArrS α × Res Unit :=
  match s.getPtr k with
  | .raised e => (s, .raised e)
  | .ub => (s, .ub)
  | .ok p =>
    let j := normIdx s.nitems i
    if j < 0 ∨ j ≥ (s.nitems : Int) then (s, .raised .indexOutOfBounds)
    else if !elemSelfAssignOk && j.toNat == p.idx then (s, .ub)
    else match s.rd j.toNat, s.deref p with
      | some _, some x => (match s.wr j.toNat x with
        | some s1 => (s1, .ok ())
        | none => (s, .ub))
      | _, _ => (s, .ub)

def remElem [BEq α] (s : ArrS α) (k : Int) : ArrS α × Res Unit :=
  match s.get k with
  | .ok x => s.rem x | .raised e => (s, .raised e) | .ub => (s, .ub)

/-- `assign(a, a)` since fix a3140e4 -/
def assignSelf (s : ArrS α) : ArrS α × Res Unit := (s, .ok ())

def step [BEq α] (s : ArrS α) : Op α → ArrS α × Res Unit
  | .push x => s.push x | .pop => s.pop | .pushAt x i => s.pushAt x i | .popAt i => s.popAt i
  | .set i x => s.set i x | .rem x => s.rem x | .concat ys => s.concat ys | .append x => s.push x
  | .resize n => s.resize n | .sort f => s.sortBy f | .assign ys b => s.assign ys b

end ArrS

/-! ## List: heap of doubly linked nodes -/

/-- a node: the two link words in front of the header, and the element -/
structure Node (α : Type) where
  prev : Option Nat
  next : Option Nat
  val : α
deriving Repr

structure LstS (α : Type) where
  heap : Array (Option (Node α))    -- node storage, index = address; `none` = freed
  head : Option Nat
  tail : Option Nat
  nitems : Nat
deriving Repr

namespace LstS

def empty : LstS α := ⟨#[], none, none, 0⟩

/-- the node at an address; `none` = never allocated or already freed -/
def node (s : LstS α) (a : Nat) : Option (Node α) := (s.heap[a]?).getD none

def setNode (s : LstS α) (a : Nat) (nd : Node α) : LstS α := { s with heap := s.heap.setIfInBounds a (some nd) }

/-- `*List_Next(l, a) = v` -/
def setNext (s : LstS α) (a : Nat) (v : Option Nat) : Option (LstS α) :=
  match s.node a with
  | none => none
  | some nd => some (s.setNode a { nd with next := v })

/-- `*List_Prev(l, a) = v` -/
def setPrev (s : LstS α) (a : Nat) (v : Option Nat) : Option (LstS α) :=
  match s.node a with
  | none => none
  | some nd => some (s.setNode a { nd with prev := v })

def setVal (s : LstS α) (a : Nat) (x : α) : Option (LstS α) :=
  match s.node a with
  | none => none
  | some nd => some (s.setNode a { nd with val := x })

/-- `List_Alloc` (calloc: both links NULL) followed by `assign(item, x)`; a fresh address -/
def alloc (s : LstS α) (x : α) : LstS α × Nat :=
  ({ s with heap := s.heap.push (some ⟨none, none, x⟩) }, s.heap.size)

/-- `destruct(item); List_Free(l, item)` -/
def free (s : LstS α) (a : Nat) : Option (LstS α) :=
  match s.node a with
  | none => none
  | some _ => some { s with heap := s.heap.setIfInBounds a none }

/-- `if (prev is NULL) { l->head = item; } else { *List_Next(l, prev) = item; }` -/
def linkPrev (s : LstS α) (item : Nat) (prev : Option Nat) : Option (LstS α) :=
  match prev with
  | none => some { s with head := some item }
  | some p => s.setNext p (some item)

/-- `if (next is NULL) { l->tail = item; } else { *List_Prev(l, next) = item; }` -/
def linkNext (s : LstS α) (item : Nat) (next : Option Nat) : Option (LstS α) :=
  match next with
  | none => some { s with tail := some item }
  | some n => s.setPrev n (some item)

/-- `List_Link(l, item, prev, next)`: the two neighbour writes (or head / tail), then the node's own two links -/
def link (s : LstS α) (item : Nat) (prev next : Option Nat) : Option (LstS α) :=
  (s.linkPrev item prev).bind fun s1 =>
  (s1.linkNext item next).bind fun s2 =>
  (s2.setNext item next).bind fun s3 =>
  s3.setPrev item prev

/-- `List_Unlink(l, item)`: the four cases of the C text -/
def unlink (s : LstS α) (item : Nat) : Option (LstS α) :=
  match s.node item with
  | none => none
  | some nd =>
    let next := nd.next
    let prev := nd.prev
    if some item = s.head ∧ some item = s.tail then some { s with head := none, tail := none }
    else if some item = s.head then
      match next with
      | none => none                                   -- *List_Prev(l, NULL)
      | some n => ({ s with head := next } : LstS α).setPrev n none
    else if some item = s.tail then
      match prev with
      | none => none
      | some p => ({ s with tail := prev } : LstS α).setNext p none
    else
      match prev, next with
      | some p, some n => (s.setNext p next).bind (fun s1 => s1.setPrev n prev)
      | _, _ => none

/-- `while (i) { item = *List_Next(l, item); i--; }` -/
def walkNext (s : LstS α) : Nat → Option Nat → Option Nat
  | 0, c => c
  | k + 1, c => match c with
    | none => none
    | some a => match s.node a with
      | none => none
      | some nd => walkNext s k nd.next

def walkPrev (s : LstS α) : Nat → Option Nat → Option Nat
  | 0, c => c
  | k + 1, c => match c with
    | none => none
    | some a => match s.node a with
      | none => none
      | some nd => walkPrev s k nd.prev

/-- `List_At`: normalise, check, walk from the nearer end; the address of the node -/
def nodeAt (s : LstS α) (i : Int) : Res Nat :=
  let j := normIdx s.nitems i
  if j < 0 ∨ j ≥ (s.nitems : Int) then .raised .indexOutOfBounds
  else
    let k := j.toNat
    let r := if k ≤ s.nitems / 2 then s.walkNext k s.head else s.walkPrev (s.nitems - k - 1) s.tail
    match r with
    | some a => if (s.node a).isSome then .ok a else .ub
    | none => .ub

/-- `List_Push` -/
def push (s : LstS α) (x : α) : LstS α × Res Unit :=
  let s1 := (s.alloc x).1
  let item := (s.alloc x).2
  match s1.link item s1.tail none with
  | some s2 => ({ s2 with nitems := s2.nitems + 1 }, .ok ())
  | none => (s, .ub)

/-- unlink, destruct, free, `nitems--` (common tail of pop / pop_at / rem / resize) -/
def remove (s : LstS α) (item : Nat) : LstS α × Res Unit :=
  match s.unlink item with
  | none => (s, .ub)
  | some s1 => match s1.free item with
    | none => (s, .ub)
    | some s2 => ({ s2 with nitems := s2.nitems - 1 }, .ok ())

def pop (s : LstS α) : LstS α × Res Unit :=
  if s.nitems = 0 then (s, .raised .indexOutOfBounds)
  else match s.tail with
    | none => (s, .ub)
    | some item => s.remove item

def pushAt (s : LstS α) (x : α) (i : Int) : LstS α × Res Unit :=
  let curr : Res (Option Nat) := if i = 0 then .ok none else
    match s.nodeAt i with
    | .ok a => .ok (some a) | .raised e => .raised e | .ub => .ub
  match curr with
  | .raised e => (s, .raised e)
  | .ub => (s, .ub)
  | .ok curr =>
    let s1 := (s.alloc x).1
    let item := (s.alloc x).2
    let linked := match curr with
      | none => s1.link item none s1.head
      | some c => match s1.node c with
        | none => none
        | some nd => s1.link item nd.prev (some c)
    match linked with
    | some s2 => ({ s2 with nitems := s2.nitems + 1 }, .ok ())
    | none => (s, .ub)

def popAt (s : LstS α) (i : Int) : LstS α × Res Unit :=
  match s.nodeAt i with
  | .ok a => s.remove a
  | .raised e => (s, .raised e)
  | .ub => (s, .ub)

def get (s : LstS α) (i : Int) : Res α :=
  match s.nodeAt i with
  | .ok a => match s.node a with
    | some nd => .ok nd.val
    | none => .ub
  | .raised e => .raised e
  | .ub => .ub

def set (s : LstS α) (i : Int) (x : α) : LstS α × Res Unit :=
  match s.nodeAt i with
  | .ok a => match s.setVal a x with
    | some s1 => (s1, .ok ())
    | none => (s, .ub)
  | .raised e => (s, .raised e)
  | .ub => (s, .ub)

/-- the walk `item = l->head; while (item) { if (eq(item, obj)) …; item = *List_Next(l, item); }`: the first matching
    node.  `fuel` bounds the walk (a chain longer than `nitems` is reported as `.ub`: the C loop would not stop at
    the node the counter says is the last). -/
def find [BEq α] (s : LstS α) (x : α) : Nat → Option Nat → Res (Option Nat)
  | _, none => .ok none
  | 0, some _ => .ub
  | fuel + 1, some a =>
    match s.node a with
    | none => .ub
    | some nd => if nd.val == x then .ok (some a) else find s x fuel nd.next

def mem [BEq α] (s : LstS α) (x : α) : Res Bool :=
  match s.find x (s.nitems + 1) s.head with
  | .ok r => .ok r.isSome
  | .raised e => .raised e
  | .ub => .ub

def rem [BEq α] (s : LstS α) (x : α) : LstS α × Res Unit :=
  match s.find x (s.nitems + 1) s.head with
  | .ok (some a) => s.remove a
  | .ok none => (s, .raised .valueError)
  | .raised e => (s, .raised e)
  | .ub => (s, .ub)

def pushAll (s : LstS α) : List α → LstS α × Res Unit
  | [] => (s, .ok ())
  | y :: ys => match s.push y with
    | (s1, .ok ()) => s1.pushAll ys
    | r => r

/-- `List_Concat`: `foreach (item in obj) List_Push(self, item)` -/
def concat (s : LstS α) (ys : List α) : LstS α × Res Unit := s.pushAll ys

/-- the walk of `List_Clear`: `while (item) { next = *List_Next(item); destruct; free; item = next; }` -/
def freeAll (s : LstS α) : Nat → Option Nat → Option (LstS α)
  | _, none => some s
  | 0, some _ => none
  | fuel + 1, some a =>
    match s.node a with
    | none => none
    | some nd => match s.free a with
      | none => none
      | some s1 => freeAll s1 fuel nd.next

def clear (s : LstS α) : LstS α × Res Unit :=
  match s.freeAll (s.nitems + 1) s.head with
  | some s1 => ({ s1 with head := none, tail := none, nitems := 0 }, .ok ())
  | none => (s, .ub)

/-- `while (n < nitems) { item = tail; unlink; destruct; free; nitems--; }` -/
def shrink (s : LstS α) (n : Nat) : Nat → LstS α × Res Unit
  | 0 => (s, .ok ())
  | fuel + 1 =>
    if n < s.nitems then
      match s.tail with
      | none => (s, .ub)
      | some item => match s.remove item with
        | (s1, .ok ()) => shrink s1 n fuel
        | r => r
    else (s, .ok ())

/-- `while (n > nitems) { item = List_Alloc(l); List_Link(l, item, tail, NULL); nitems++; }` (zero-initialised elements) -/
def grow [Inhabited α] (s : LstS α) (n : Nat) : Nat → LstS α × Res Unit
  | 0 => (s, .ok ())
  | fuel + 1 =>
    if n > s.nitems then
      match s.push default with
      | (s1, .ok ()) => grow s1 n fuel
      | r => r
    else (s, .ok ())

def resize [Inhabited α] (s : LstS α) (n : Nat) : LstS α × Res Unit :=
  if n = 0 then s.clear
  else match s.shrink n (s.nitems - n) with
    | (s1, .ok ()) => s1.grow n (n - s1.nitems)
    | r => r

/-- `List_Assign` (obj is not self) -/
def assign (s : LstS α) (ys : List α) (indexed : Bool := true) : LstS α × Res Unit :=
  match s.clear with
  | (c, .ok ()) => if indexed then c.pushAll ys else (c, .raised .classError)
  | r => r

def sortBy (s : LstS α) (_ : α → α → Bool) : LstS α × Res Unit := (s, .raised .classError)

def assignSelf (s : LstS α) : LstS α × Res Unit := (s, .ok ())

/-- `push(l, get(l, k))` / `push_at(l, get(l, k), i)`: the element is copied into the new node before anything is linked -/
def pushElem (s : LstS α) (k : Int) : LstS α × Res Unit :=
  match s.get k with
  | .ok x => s.push x | .raised e => (s, .raised e) | .ub => (s, .ub)
def pushAtElem (s : LstS α) (k i : Int) : LstS α × Res Unit :=
  match s.get k with
  | .ok x => s.pushAt x i | .raised e => (s, .raised e) | .ub => (s, .ub)

/- iteration: an iterator is a node address -/
def iterInit (s : LstS α) : Option Nat := if s.nitems = 0 then none else s.head
def iterNext (s : LstS α) (a : Nat) : Option Nat := (s.node a).bind (·.next)
def iterLast (s : LstS α) : Option Nat := if s.nitems = 0 then none else s.tail
def iterPrev (s : LstS α) (a : Nat) : Option Nat := (s.node a).bind (·.prev)
def iterFwd (s : LstS α) : Option (List α) := collect s.iterNext (fun a => (s.node a).map (·.val)) (s.nitems + 1) s.iterInit
def iterBwd (s : LstS α) : Option (List α) := collect s.iterPrev (fun a => (s.node a).map (·.val)) (s.nitems + 1) s.iterLast

/-- `List_New`: empty, then push the arguments -/
def new (xs : List α) : LstS α × Res Unit := (empty : LstS α).pushAll xs

/-- the items read along `next` from `head` (at most `fuel` nodes) -/
def chainFrom (s : LstS α) : Nat → Option Nat → Option (List α)
  | _, none => some []
  | 0, some _ => none
  | fuel + 1, some a => match s.node a with
    | none => none
    | some nd => (chainFrom s fuel nd.next).map (nd.val :: ·)

/-- as `Lst.step`: a `resize` that links never-constructed records of a type whose zero record is not a value does what
    `List_Resize` does to the nodes and reports `.ub` (known finding KF-C04-list-resize-raw) -/
def step [BEq α] [ZeroIsValue α] (s : LstS α) : Op α → LstS α × Res Unit
  | .push x => s.push x | .pop => s.pop | .pushAt x i => s.pushAt x i | .popAt i => s.popAt i
  | .set i x => s.set i x | .rem x => s.rem x | .concat ys => s.concat ys | .append x => s.push x
  | .resize n => if !ZeroIsValue.zeroOk α && decide (n > s.nitems) then ((s.resize n).1, .ub) else s.resize n
  | .sort f => s.sortBy f | .assign ys b => s.assign ys b

/-! ### pointers to the List's own nodes as the operand (`tuple(get(l, k0), …)`) -/

/-- the node addresses `get(l, k0), get(l, k1), …` return -/
def getNodes (s : LstS α) : List Int → Res (List Nat)
  | [] => .ok []
  | k :: ks =>
    match s.nodeAt k with
    | .raised e => .raised e
    | .ub => .ub
    | .ok a => match getNodes s ks with
      | .ok as => .ok (a :: as)
      | r => r

/-- `foreach (item in obj) List_Push(self, item)` with `obj` a Tuple of node addresses: each node is READ when its turn comes -/
def pushNodes (s : LstS α) : List Nat → LstS α × Res Unit
  | [] => (s, .ok ())
  | a :: as => match s.node a with
    | none => (s, .ub)                             -- the node was freed: use after free
    | some nd => match s.push nd.val with
      | (s1, .ok ()) => s1.pushNodes as
      | r => r

/-- `concat(l, tuple(get(l, k0), …))` -/
def concatElems (s : LstS α) (ks : List Int) : LstS α × Res Unit :=
  match s.getNodes ks with
  | .ok as => s.pushNodes as
  | .raised e => (s, .raised e)
  | .ub => (s, .ub)

/-- `assign(l, tuple(get(l, k0), …))`: `List_Clear` frees every node, then `get(obj, i)` hands out the dangling addresses -/
def assignElems (s : LstS α) (ks : List Int) : LstS α × Res Unit :=
  match s.getNodes ks with
  | .raised e => (s, .raised e)
  | .ub => (s, .ub)
  | .ok as => match s.clear with
    | (c, .ok ()) => (match c.pushNodes as with
      | (c1, .ok ()) => (c1, .ok ())
      | (_, r) => (s, r))
    | r => r

/-- `set(l, i, get(l, k))`: `assign(List_At(l, i), node k)`; `elemSelfAssignOk = false`: the element type's `assign(x, x)` is a use
    after free (String before fix 744a45f) -/
def setElem (s : LstS α) (i k : Int) (elemSelfAssignOk : Bool := true) : LstS α × Res Unit :=
  match s.nodeAt k with
  | .raised e => (s, .raised e)
  | .ub => (s, .ub)
  | .ok src => match s.nodeAt i with
    | .raised e => (s, .raised e)
    | .ub => (s, .ub)
    | .ok dst =>
      if !elemSelfAssignOk && dst == src then (s, .ub)
      else match s.node src with
        | none => (s, .ub)
        | some nd => match s.setVal dst nd.val with
          | some s1 => (s1, .ok ())
          | none => (s, .ub)

def remElem [BEq α] (s : LstS α) (k : Int) : LstS α × Res Unit :=
  match s.get k with
  | .ok x => s.rem x | .raised e => (s, .raised e) | .ub => (s, .ub)

end LstS

/-! ## Tuple: block of pointer cells ending in the Terminal cell -/

/-- what a cell of `t->items` holds: a pointer to an object, or the `Terminal` object -/
inductive TCell (α : Type) where
  | term
  | item (x : α)
deriving Repr

structure TupS (α : Type) where
  cells : Array (Option (TCell α))    -- the block `items`; `none` = not written since the last realloc extended the block
  onHeap : Bool                        -- `header(self)->alloc` is neither AllocStack nor AllocStatic
deriving Repr

namespace TupS

def rd (s : TupS α) (k : Nat) : Option (TCell α) := (s.cells[k]?).getD none

def wr (s : TupS α) (k : Nat) (c : TCell α) : Option (TupS α) :=
  if k < s.cells.size then some { s with cells := s.cells.setIfInBounds k (some c) } else none

/-- `items = realloc(items, sizeof(var) * n)` -/
def realloc (s : TupS α) (n : Nat) : TupS α :=
  { s with cells := Array.ofFn (n := n) fun j => (s.cells[j.val]?).getD none }

/-- `memmove(&items[dst], &items[src], sizeof(var) * cnt)` -/
def memmove (s : TupS α) (dst src cnt : Nat) : Option (TupS α) :=
  if src + cnt ≤ s.cells.size ∧ dst + cnt ≤ s.cells.size then
    some { s with cells := Array.ofFn (n := s.cells.size) fun j =>
      if dst ≤ j.val ∧ j.val < dst + cnt then (s.cells[src + (j.val - dst)]?).getD none else (s.cells[j.val]?).getD none }
  else none

/-- the scan of `Tuple_Len`: `while (items[i] isnt Terminal) i++` — leaving the block is `.ub` -/
def scanLen (s : TupS α) : Nat → Nat → Option Nat
  | 0, _ => none
  | fuel + 1, i =>
    match s.rd i with
    | some .term => some i
    | some (.item _) => scanLen s fuel (i + 1)
    | none => none

def len (s : TupS α) : Option Nat := s.scanLen (s.cells.size + 1) 0

/-- `Tuple_New` (heap): `malloc(nargs+1)`, the arguments, Terminal -/
def new (xs : List α) : TupS α := ⟨(xs.map (fun x => some (TCell.item x)) ++ [some TCell.term]).toArray, true⟩

/-- write `ys` into consecutive cells from `k` on -/
def wrFrom (s : TupS α) : Nat → List (TCell α) → Option (TupS α)
  | _, [] => some s
  | k, y :: ys => match s.wr k y with
    | none => none
    | some s1 => s1.wrFrom (k + 1) ys

/-- `Tuple_Push(self, obj)`; `obj` may be the Terminal object itself -/
def pushCell (s : TupS α) (c : TCell α) : TupS α × Res Unit :=
  match s.len with
  | none => (s, .ub)
  | some n =>
    if !s.onHeap then (s, .raised .valueError)
    else match (s.realloc (n + 2)).wrFrom n [c, .term] with
      | some s1 => (s1, .ok ())
      | none => (s, .ub)

def push (s : TupS α) (x : α) : TupS α × Res Unit := s.pushCell (.item x)

def pop (s : TupS α) : TupS α × Res Unit :=
  match s.len with
  | none => (s, .ub)
  | some n =>
    if n = 0 then (s, .raised .indexOutOfBounds)
    else if !s.onHeap then (s, .raised .valueError)
    else match (s.realloc n).wr (n - 1) .term with
      | some s1 => (s1, .ok ())
      | none => (s, .ub)

/-- `Tuple_Push_At`: bounds check, heap check, `realloc(nitems+2)`, `memmove(&items[i+1], &items[i], nitems-i+1)` (the
    Terminal cell moves with the items), `items[i] = obj` -/
def pushAtCell (s : TupS α) (c : TCell α) (i : Int) : TupS α × Res Unit :=
  match s.len with
  | none => (s, .ub)
  | some n =>
    let j := normIdx n i
    if j < 0 ∨ j ≥ (n : Int) then (s, .raised .indexOutOfBounds)
    else if !s.onHeap then (s, .raised .valueError)
    else
      let k := j.toNat
      match (s.realloc (n + 2)).memmove (k + 1) k (n - k + 1) with
      | none => (s, .ub)
      | some s1 => match s1.wr k c with
        | some s2 => (s2, .ok ())
        | none => (s, .ub)

def pushAt (s : TupS α) (x : α) (i : Int) : TupS α × Res Unit := s.pushAtCell (.item x) i

/-- `Tuple_Pop_At`: bounds check, heap check, `memmove(&items[i], &items[i+1], nitems-i)`, `realloc(nitems)` -/
def popAt (s : TupS α) (i : Int) : TupS α × Res Unit :=
  match s.len with
  | none => (s, .ub)
  | some n =>
    let j := normIdx n i
    if j < 0 ∨ j ≥ (n : Int) then (s, .raised .indexOutOfBounds)
    else if !s.onHeap then (s, .raised .valueError)
    else
      let k := j.toNat
      match s.memmove k (k + 1) (n - k) with
      | none => (s, .ub)
      | some s1 => (s1.realloc n, .ok ())

/-- `Tuple_Get`: the cell (a pointer) -/
def getCell (s : TupS α) (i : Int) : Res (TCell α) :=
  match s.len with
  | none => .ub
  | some n =>
    let j := normIdx n i
    if j < 0 ∨ j ≥ (n : Int) then .raised .indexOutOfBounds
    else match s.rd j.toNat with
      | some c => .ok c
      | none => .ub

def get (s : TupS α) (i : Int) : Res α :=
  match s.getCell i with
  | .ok (.item x) => .ok x
  | .ok .term => .ub              -- cannot happen: cells before the first Terminal are items
  | .raised e => .raised e
  | .ub => .ub

/-- `Tuple_Set`: `items[i] = val`; `val` may be the Terminal object -/
def setCell (s : TupS α) (i : Int) (c : TCell α) : TupS α × Res Unit :=
  match s.len with
  | none => (s, .ub)
  | some n =>
    let j := normIdx n i
    if j < 0 ∨ j ≥ (n : Int) then (s, .raised .indexOutOfBounds)
    else match s.wr j.toNat c with
      | some s1 => (s1, .ok ())
      | none => (s, .ub)

def set (s : TupS α) (i : Int) (x : α) : TupS α × Res Unit := s.setCell i (.item x)

/-- `push(t, get(t, k))` / `push_at(t, get(t, k), i)`: the pointer in cell `k` is passed on (on a heap Tuple it is then stored a
    second time — F13 territory; a Tuple that is not on the heap refuses) -/
def pushElem (s : TupS α) (k : Int) : TupS α × Res Unit :=
  match s.getCell k with
  | .ok c => s.pushCell c | .raised e => (s, .raised e) | .ub => (s, .ub)
def pushAtElem (s : TupS α) (k i : Int) : TupS α × Res Unit :=
  match s.getCell k with
  | .ok c => s.pushAtCell c i | .raised e => (s, .raised e) | .ub => (s, .ub)

/-- the scan of `Tuple_Rem`: `while (items[i] isnt Terminal) { if (eq(item, items[i])) …; i++; }` -/
def scanEq [BEq α] (s : TupS α) (x : α) : Nat → Nat → Res (Option Nat)
  | 0, _ => .ub
  | fuel + 1, i =>
    match s.rd i with
    | some .term => .ok none
    | some (.item y) => if x == y then .ok (some i) else scanEq s x fuel (i + 1)
    | none => .ub

def rem [BEq α] (s : TupS α) (x : α) : TupS α × Res Unit :=
  match s.scanEq x (s.cells.size + 1) 0 with
  | .ok (some i) => s.popAt (i : Int)
  | .ok none => (s, .raised .valueError)
  | .raised e => (s, .raised e)
  | .ub => (s, .ub)

/-- `Tuple_Concat`: heap check, `realloc(nitems+1+objlen)`, the items, Terminal -/
def concat (s : TupS α) (ys : List α) : TupS α × Res Unit :=
  match s.len with
  | none => (s, .ub)
  | some n =>
    if !s.onHeap then (s, .raised .valueError)
    else match (s.realloc (n + 1 + ys.length)).wrFrom n (ys.map .item ++ [.term]) with
      | some s1 => (s1, .ok ())
      | none => (s, .ub)

/-- `Tuple_Resize`: heap check first, then only shrinking: `realloc(n+1); items[n] = Terminal` -/
def resize (s : TupS α) (n : Nat) : TupS α × Res Unit :=
  if !s.onHeap then (s, .raised .valueError)
  else match s.len with
    | none => (s, .ub)
    | some m =>
      if n < m then
        match (s.realloc (n + 1)).wr n .term with
        | some s1 => (s1, .ok ())
        | none => (s, .ub)
      else (s, .raised .formatError)

def pushAll (s : TupS α) : List α → TupS α × Res Unit
  | [] => (s, .ok ())
  | y :: ys => match s.push y with
    | (s1, .ok ()) => s1.pushAll ys
    | r => r

/-- `Tuple_Assign`: with `Len` and `Get`: heap check, `realloc(nargs+1)`, the items, Terminal; otherwise push every item
    onto what is there -/
def assign (s : TupS α) (ys : List α) (indexed : Bool := true) : TupS α × Res Unit :=
  if indexed then
    if !s.onHeap then (s, .raised .valueError)
    else match (s.realloc (ys.length + 1)).wrFrom 0 (ys.map .item ++ [.term]) with
      | some s1 => (s1, .ok ())
      | none => (s, .ub)
  else s.pushAll ys

/-- read `n` item cells from `i` on; `none` = outside the block, unwritten, or a Terminal among them -/
def readItems (s : TupS α) : Nat → Nat → Option (List α)
  | _, 0 => some []
  | i, n + 1 => match s.rd i with
    | some (.item x) => (s.readItems (i + 1) n).map (x :: ·)
    | _ => none

/-- the stored pointers before the first Terminal -/
def items? (s : TupS α) : Option (List α) := s.len.bind (fun n => s.readItems 0 n)

/-- `Tuple_Sort_By`: the quicksort of `Cello.Sort` over cells `0 … len-1` (pointer swaps) -/
def sortBy (s : TupS α) (f : α → α → Bool) : TupS α × Res Unit :=
  match s.items? with
  | none => (s, .ub)
  | some l => match s.wrFrom 0 ((Sort.sortList f l).map .item) with
    | some s1 => (s1, .ok ())
    | none => (s, .ub)

/-- `assign(t, t)`: same size, every cell re-stored -/
def assignSelf (s : TupS α) : TupS α × Res Unit :=
  match s.items? with
  | none => (s, .ub)
  | some l => s.assign l true

def copy (s : TupS α) : TupS α × Res Unit :=
  match s.items? with
  | none => (s, .ub)
  | some l => (⟨#[some .term], true⟩ : TupS α).assign l true     -- `new(Tuple)` then assign

/- iteration by pointer identity -/
def cellId (ident : α → Nat) : TCell α → Option Nat
  | .term => none
  | .item x => some (ident x)

/-- `Tuple_Iter_Next`: `while (items[i] isnt Terminal) { if (items[i] is curr) return items[i+1]; i++; } return Terminal` -/
def scanNext (ident : α → Nat) (s : TupS α) (c : α) : Nat → Nat → Option (TCell α)
  | 0, _ => none
  | fuel + 1, i =>
    match s.rd i with
    | some .term => some .term
    | some (.item y) => if ident y == ident c then s.rd (i + 1) else scanNext ident s c fuel (i + 1)
    | none => none

/-- `Tuple_Iter_Prev` (after the `curr is items[0]` test): `… return items[i-1]` -/
def scanPrev (ident : α → Nat) (s : TupS α) (c : α) : Nat → Nat → Option (TCell α)
  | 0, _ => none
  | fuel + 1, i =>
    match s.rd i with
    | some .term => some .term
    | some (.item y) => if ident y == ident c then s.rd (i - 1) else scanPrev ident s c fuel (i + 1)
    | none => none

/-- the iterator protocol on cells; `none` = left the block (`.ub`) or did not end within the fuel -/
def collectCells (next : α → Option (TCell α)) : Nat → Option (TCell α) → Option (List α)
  | _, none => none
  | _, some .term => some []
  | 0, some (.item _) => none
  | fuel + 1, some (.item x) => (collectCells next fuel (next x)).map (x :: ·)

def iterNext (ident : α → Nat) (s : TupS α) (c : α) : Option (TCell α) := scanNext ident s c (s.cells.size + 1) 0
def iterPrev (ident : α → Nat) (s : TupS α) (c : α) : Option (TCell α) :=
  match s.rd 0 with
  | some (.item y) => if ident y == ident c then some .term else scanPrev ident s c (s.cells.size + 1) 0
  | some .term => scanPrev ident s c (s.cells.size + 1) 0
  | none => none
def iterInit (s : TupS α) : Option (TCell α) := s.rd 0
def iterLast (s : TupS α) : Option (TCell α) :=
  match s.len with
  | none => none
  | some n => if n = 0 then some .term else s.rd (n - 1)
def iterFwd (ident : α → Nat) (s : TupS α) (fuel : Nat) : Option (List α) := collectCells (s.iterNext ident) fuel s.iterInit
def iterBwd (ident : α → Nat) (s : TupS α) (fuel : Nat) : Option (List α) := collectCells (s.iterPrev ident) fuel s.iterLast

/-- `Tuple_Mem`: `foreach (obj in self) if (eq(obj, item)) return true;` -/
def memLoop [BEq α] (ident : α → Nat) (s : TupS α) (x : α) : Nat → Option (TCell α) → Option Bool
  | _, none => none
  | _, some .term => some false
  | 0, some (.item _) => none
  | fuel + 1, some (.item c) => if c == x then some true else memLoop ident s x fuel (s.iterNext ident c)
def mem [BEq α] (ident : α → Nat) (s : TupS α) (x : α) (fuel : Nat) : Option Bool := memLoop ident s x fuel s.iterInit

def remElem [BEq α] (s : TupS α) (k : Int) : TupS α × Res Unit :=
  match s.get k with
  | .ok x => s.rem x | .raised e => (s, .raised e) | .ub => (s, .ub)

def step [BEq α] (s : TupS α) : Op α → TupS α × Res Unit
  | .push x => s.push x | .pop => s.pop | .pushAt x i => s.pushAt x i | .popAt i => s.popAt i
  | .set i x => s.set i x | .rem x => s.rem x | .concat ys => s.concat ys | .append x => s.push x
  | .resize n => s.resize n | .sort f => s.sortBy f | .assign ys b => s.assign ys b

end TupS

end Cello.Seq
