/-
  Cello/IterSrc.lean — interpreters for the terms that translate/g_iter.py EXTRACTS from src/Iter.c and src/Table.c
  (CelloGen/Iter.lean), engine `iter`, property C11:

    Slice_Arg          `sliceArgSrc` / `sliceArgBlankSrc`: the clamping statements `a = L rel R ? X : Y;` run in source order with C's
                       conversions (a comparison with a `size_t` operand is unsigned; the value assigned to the `int64_t a`
                       wraps), the answers for `_`
    Filter_Iter_*      `filterSrcI`: each of the four functions = "first candidate from protocol call `start`, rejected ones
                       skipped with protocol call `loop`" (the `while (true)` loop is `skipLoop` of Cello/Iter.lean)
    Table_Iter_Last /  `runScan`: the loop program over the slot array, position = `size_t` (wraps modulo 2^64) or pointer;
    Table_Iter_Prev    reading a slot outside the array is `undef`; a loop that does not end within the fuel is `hang`;
                       `tableSrcI` = `tableI` with Last / Prev taken from the extracted programs

  Props/C11.lean proves that these source-derived definitions agree with the hand-written ones of Cello/Iter.lean (for every
  length / argument / slot pattern), so every theorem about the hand model is a theorem about the extracted code; an edit of
  the C text changes the extracted term and the agreement theorem no longer checks.
  Core Lean only.
-/
import Cello.Iter
import CelloGen.Iter

namespace Cello.Iter
open CelloGen.Iter (Opd Rel Tern Proto FilterFn Bound SStmt Start Scan)

/-! ## Slice_Arg -/

/-- conversion to `uint64_t` / `size_t` -/
def toU64 (x : Int) : Int := x % 18446744073709551616
/-- conversion to `int64_t` (two's complement, as every supported compiler does) -/
def toI64 (x : Int) : Int :=
  let y := x % 18446744073709551616
  if y < 9223372036854775808 then y else y - 18446744073709551616

/-- value of an operand and whether its C type is unsigned -/
def opdEval (n : Nat) (a : Int) : Opd → Int × Bool
  | .a => (a, false)
  | .lit k => ((k : Int), false)
  | .n => (toU64 n, true)
  | .nCast => (toI64 n, false)
  | .nPlusA => (toU64 ((n : Int) + a), true)
  | .nCastPlusA => (toI64 (toI64 n + a), false)

def relHolds : Rel → Int → Int → Bool
  | .lt, x, y => decide (x < y)
  | .le, x, y => decide (x ≤ y)
  | .gt, x, y => decide (x > y)
  | .ge, x, y => decide (x ≥ y)
  | .eq, x, y => decide (x = y)
  | .ne, x, y => decide (x ≠ y)

/-- `a = l rel r ? thn : els;` — usual arithmetic conversions: if either side of the comparison is unsigned both are
    converted to `uint64_t`; the chosen value is converted to the `int64_t` it is assigned to -/
def ternRun (n : Nat) (a : Int) (t : Tern) : Int :=
  let l := opdEval n a t.l
  let r := opdEval n a t.r
  let c := if l.2 || r.2 then relHolds t.rel (toU64 l.1) (toU64 r.1) else relHolds t.rel l.1 r.1
  toI64 (if c then (opdEval n a t.thn).1 else (opdEval n a t.els).1)

/-- the clamping block of Slice_Arg as extracted, for `part != sliceArgSkipsPart` -/
def sliceArgSrc (n : Nat) (a : Int) : Int := CelloGen.Iter.sliceArgClamp.foldl (fun a t => ternRun n a t) a

/-- Slice_Arg for the argument `_` of part `p` -/
def sliceArgBlankSrc (n : Nat) (p : Nat) : Option Int :=
  (CelloGen.Iter.sliceArgBlank.find? (fun e => e.1 == p)).map (fun e => (opdEval n 0 e.2).1)

/-- Slice_Arg(part, n, arg) whole: `none` argument = `_` -/
def sliceArgFull (part : Nat) (n : Nat) : Option Int → Option Int
  | none => sliceArgBlankSrc n part
  | some a => some (if part = CelloGen.Iter.sliceArgSkipsPart then a else sliceArgSrc n a)

/-- slice_stack with the extracted Slice_Arg (same case analysis as `sliceStack`) -/
def sliceStackSrc (n : Nat) : List (Option Int) → Option (Int × Int × Int)
  | [] => some (0, n, 1)
  | [b] => (sliceArgFull 1 n b).map (fun b => (0, b, 1))
  | [a, b] => match sliceArgFull 0 n a, sliceArgFull 1 n b with
    | some a, some b => some (a, b, 1)
    | _, _ => none
  | [a, b, c] => match sliceArgFull 0 n a, sliceArgFull 1 n b, sliceArgFull 2 n c with
    | some a, some b, some c => some (a, b, c)
    | _, _, _ => none
  | _ => none

/-- which clamping branches an argument takes (statistics: `I` lines of the driver) -/
def sliceArgBranches (n : Nat) (a : Int) : Nat × Nat × Nat :=
  let a1 := if a < 0 then (n : Int) + a else a
  let a2 := if a1 > (n : Int) then (n : Int) else a1
  ((if a < 0 then 1 else 0), (if a1 > (n : Int) then 1 else 0), (if a2 < 0 then 1 else 0))

/-! ## Filter -/

def protoFn {α : Type} (I : Iterable α) : Proto → I.σ → I.σ × Res α
  | .init => I.init
  | .next => I.next
  | .last => I.last
  | .prev => I.prev

/-- one of the four Filter functions as extracted: first candidate from `f.start`, then the `while (true)` loop that skips
    with `f.loop` -/
def filterFnSrc {α : Type} (I : Iterable α) (p : α → Bool) (fuel : Nat) (f : FilterFn) : I.σ → I.σ × Res α :=
  fun s => skipLoop p (protoFn I f.loop) fuel (protoFn I f.start s)

/-- Filter with the four functions as they are in src/Iter.c now -/
def filterSrcI {α : Type} (I : Iterable α) (p : α → Bool) (fuel : Nat) : Iterable α where
  σ := I.σ
  s0 := I.s0
  init := filterFnSrc I p fuel CelloGen.Iter.filterInit
  next := filterFnSrc I p fuel CelloGen.Iter.filterNext
  last := filterFnSrc I p fuel CelloGen.Iter.filterLast
  prev := filterFnSrc I p fuel CelloGen.Iter.filterPrev
  len := none
  get := none
  inObject := I.inObject
  oneCell := I.oneCell

/-! ## Table_Iter_Last / Table_Iter_Prev -/

def wrapPos (uns : Bool) (i : Int) : Int := if uns then toU64 i else i

def boundVal (uns : Bool) (nslots : Nat) : Bound → Int
  | .lit k => (k : Int)
  | .nslots => (nslots : Int)
  | .nslotsMinus1 => wrapPos uns ((nslots : Int) - 1)

/-- one pass through the loop body from position `i`: a result (`inl`) or the position for the next pass (`inr`) -/
def runBody {α : Type} (slots : List (Option α)) (uns : Bool) : List SStmt → Int → Sum (Option Nat × Res α) Int
  | [], i => .inr i
  | .retIfUsed :: r, i =>
    if i < 0 ∨ i ≥ (slots.length : Int) then .inl (none, .undef)      -- reads a hash word outside the slot array
    else match slots[i.toNat]? with
      | some (some a) => .inl (some i.toNat, .item a)
      | _ => runBody slots uns r i
  | .termIf rel b :: r, i => if relHolds rel i (boundVal uns slots.length b) then .inl (none, .term) else runBody slots uns r i
  | .stepBy d :: r, i => runBody slots uns r (wrapPos uns (i + d))

/-- `while (true) { body }` -/
def runLoop {α : Type} (slots : List (Option α)) (uns : Bool) (body : List SStmt) : Nat → Int → Option Nat × Res α
  | 0, _ => (none, .hang)
  | f + 1, i => match runBody slots uns body i with
    | .inl r => r
    | .inr i' => runLoop slots uns body f i'

/-- a scan function as extracted; `curr` = the slot of the cursor handed in (Prev), `nitems` for the emptiness guard -/
def runScan {α : Type} (slots : List (Option α)) (sc : Scan) (curr : Nat) (fuel : Nat) : Option Nat × Res α :=
  if sc.guardEmpty ∧ (occupied slots).length = 0 then (none, .term)
  else
    let i0 := match sc.start with
      | .bound b => boundVal sc.unsigned slots.length b
      | .currPlus d => wrapPos sc.unsigned ((curr : Int) + d)
    runLoop slots sc.unsigned sc.body fuel i0

/-- the "tidied" Table_Iter_Last `for (size_t i = t->nslots-1; i > 0; i--) { if (used) return key; } return Terminal;` as the
    translator reads it (kept for `C11_table_last_tidied_refuted`: it never looks at slot 0) -/
def tableIterLastTidied : Scan :=
  { unsigned := true, guardEmpty := true, start := .bound .nslotsMinus1, body := [.termIf .le (.lit 0), .retIfUsed, .stepBy (-1)] }

/-- Table with Table_Iter_Last / Table_Iter_Prev as they are in src/Table.c now (Init / Next: the hand model) -/
def tableSrcI {α : Type} (slots : List (Option α)) : Iterable α where
  σ := Option Nat
  s0 := none
  init := (tableI slots).init
  next := (tableI slots).next
  last := fun _ => runScan slots CelloGen.Iter.tableIterLast 0 (slots.length + 1)
  prev := fun s => match s with
    | none => (none, .undef)
    | some i => runScan slots CelloGen.Iter.tableIterPrev i (slots.length + 1)
  len := some (occupied slots).length
  get := none

end Cello.Iter
