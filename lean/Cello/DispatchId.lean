/-
  Cello/DispatchId.lean — the last layer of the model of Cello's type-class dispatch (engine `disp`, property C08):

  (1) CALLS.  What a library function that dispatches on its receiver amounts to:
        hard   `f(self, …) { return method(self, C, M, …); }`      with   include/Cello.h:
                 #define method(X, C, M, ...) ((struct C*)method_at_offset(X, C, offsetof(struct C, M), #M))->M(X, ##__VA_ARGS__)
               — `method_at_offset` (ClassError when the class or the member is absent), then member `M` of the instance it
               returned is invoked; the macro keeps NO state: every call looks the receiver's type up again;
        soft   `struct C* c = instance(self, C); if (c and c->M) { return c->M(self, …); } <default code>`;
        `type_method(T, C, M, x, …)` — the same through `type_method_at_offset(T, …)`.
      The list of these functions is read from src/*.c on every run (CelloGen.Disp.methodSites / instanceSites).

  (2) IDENTITY.  A type object is named by an identity that is NOT its address: histories (`AOp`) name type objects by an id
      under which the creation introduced them; the allocator's choice of the address is a separate argument of the creation
      (`create id addr …`) — any address that is not live, in particular the address of a type object deleted before
      (`Type_Alloc` callocs a block of one fixed size, so malloc hands a just-freed block back).  The model keeps, per
      address, the number of type objects constructed there (`gen`): identity at the C level = address + generation
      (`AHeap.ident`).  `AOp.erase` forgets the addresses; `specIds` answers an erased history from the declaration lists of
      the ids alone.  (`CelloProofs/Props/C08.lean`: `C08_history_independent`.)

  (3) a VARIANT that is not the code: a call site (or a lookup function) that remembers, keyed on the ADDRESS of the
      receiver's type, the instance it found last time (`MemoHeap`) — the shape of an inline cache in the `method` macro or of
      a "last lookup" memo in `Type_Instance`.  Refuted by the same spec (`C08_address_keyed_memo_refuted`).

  Core Lean only.
-/
import Cello.Dispatch

namespace Cello.Dispatch

/-! ### calls -/

/-- what a dispatching call did: it invoked member `k` of instance `i` (once), or ran the function's default code -/
inductive CallRes where
  | invoked (i : Inst) (k : Nat)
  | fallback
deriving DecidableEq, Repr, Inhabited

/-- `((struct C*)method_at_offset(…))->M(X, …)`: the member of the instance that was returned is invoked -/
def callOfMeth (k : Nat) : Outcome Inst → Outcome CallRes
  | .ok i => .ok (.invoked i k)
  | .raised e => .raised e
  | .ub => .ub

/-- `if (c and c->M) { return c->M(self, …); } <default>` on the result of `instance(self, C)` -/
def callOfInst (k : Nat) : Outcome (Option Inst) → Outcome CallRes
  | .ok none => .ok .fallback
  | .ok (some i) =>
    match memberAt i k with
    | .ok true => .ok (.invoked i k)
    | .ok false => .ok .fallback
    | .raised e => .raised e
    | .ub => .ub
  | .raised e => .raised e
  | .ub => .ub

/-- a library function written with `method(self, C, M, …)`, called on `self` -/
def callMethodW (w : World) (self : Self) (cls : Cls) (k : Nat) : World × Outcome CallRes :=
  let r := methodAtW w self cls k
  (r.1, callOfMeth k r.2)

/-- a library function that starts `struct C* c = instance(self, C); if (c and c->M) …`, called on `self` -/
def callSoftW (w : World) (self : Self) (cls : Cls) (k : Nat) : World × Outcome CallRes :=
  let r := instanceW w self cls
  (r.1, callOfInst k r.2)

/-- `type_method(T, C, M, x, …)` with `T` the type object `tid` -/
def callTypeMethodW (w : World) (tid : Nat) (cls : Cls) (k : Nat) : World × Outcome CallRes :=
  let r := typeMethodAtW w (.typeObj tid) cls k
  (r.1, callOfMeth k r.2)

/-- **Spec of a call**, a function of the declaration of the receiver's type only -/
def specCall (soft sent : Bool) (D : String → Option Inst) (cls : Cls) (k : Nat) : Outcome CallRes :=
  match D cls.name with
  | none => if soft then .ok .fallback else .raised (thrown .ClassError [sent, cls = terminalCls])
  | some inst =>
    match memberAt inst k with
    | .ok true => .ok (.invoked inst k)
    | .ok false => if soft then .ok .fallback else .raised (thrown .ClassError [sent, cls = terminalCls, false])
    | .raised e => .raised e
    | .ub => .ub

/-! ### identities -/

/-- the identity of a type object at the C level: its address and how many type objects were constructed there before it -/
structure TId where
  addr : Nat
  gen : Nat
deriving DecidableEq, Repr, Inhabited

/-- a heap of type objects named by ids -/
structure AHeap where
  h : Heap
  loc : List (Nat × Nat)       -- id ↦ address of the live type object it names
  gen : List (Nat × Nat)       -- address ↦ number of type objects constructed there so far
deriving Repr, Inhabited

def AHeap.addrOf (x : AHeap) (id : Nat) : Option Nat := (x.loc.find? (fun p => p.1 = id)).map (·.2)

def AHeap.genAt (x : AHeap) (a : Nat) : Nat := ((x.gen.find? (fun p => p.1 = a)).map (·.2)).getD 0

/-- address + generation of the type object an id names -/
def AHeap.ident (x : AHeap) (id : Nat) : Option TId := (x.addrOf id).map (fun a => ⟨a, x.genAt a - 1⟩)

/-- how a type object is used: one of the four lookups, a call of a dispatching library function on an object of the type,
    or `type_method` on the type object itself -/
inductive Way where
  | look (l : Look)
  | call (soft : Bool) (k : Nat)
  | typeCall (k : Nat)
deriving DecidableEq, Repr, Inhabited

/-- histories over type objects named by ids; classes are library classes, given by name -/
inductive AOp where
  | create (id addr : Nat) (name : String) (es : List (String × Inst))   -- `new(Type, …)`: the allocator answered `addr`
  | delete (id : Nat)
  | use (id : Nat) (way : Way) (c : String)
  | reset (id : Nat)
deriving DecidableEq, Repr, Inhabited

inductive AObs where
  | look (o : Obs)
  | call (r : Outcome CallRes)
  | constructed (r : Outcome Unit)
  | unit
  | ub                            -- an id that names no live type object; an id or an address that is in use
deriving DecidableEq, Repr, Inhabited

/-- one use of the type object at address `a` through the entry points of the library -/
def useW (w : World) (a : Nat) (way : Way) (cls : Cls) : World × AObs :=
  match way with
  | .look l => let r := lookW w a l cls; (r.1, .look r.2)
  | .call false k => let r := callMethodW w (.obj .good a) cls k; (r.1, .call r.2)
  | .call true k => let r := callSoftW w (.obj .good a) cls k; (r.1, .call r.2)
  | .typeCall k => let r := callTypeMethodW w a cls k; (r.1, .call r.2)

def AHeap.bump (x : AHeap) (addr : Nat) : List (Nat × Nat) :=
  (addr, x.genAt addr + 1) :: x.gen.filter (fun p => p.1 ≠ addr)

def AHeap.step (L : Layout) (x : AHeap) : AOp → AHeap × AObs
  | .use id way c =>
    match x.addrOf id with
    | none => (x, .ub)
    | some a =>
      match x.h.w.get a with
      | none => (x, .ub)
      | some _ => let r := useW x.h.w a way ⟨0, c⟩; ({ x with h := { x.h with w := r.1 } }, r.2)
  | .reset id =>
    match x.addrOf id with
    | none => (x, .ub)
    | some a =>
      match x.h.w.get a with
      | none => (x, .ub)
      | some t => ({ x with h := { x.h with w := x.h.w.put a (reset t) } }, .unit)
  | .create id addr name es =>
    if (x.addrOf id).isSome || (x.h.w.get addr).isSome then (x, .ub)
    else
      let r := x.h.construct L addr name es
      match r.2 with
      | .ok _ => ({ h := r.1, loc := (id, addr) :: x.loc, gen := x.bump addr }, .constructed (.ok ()))
      | o => (x, .constructed o)          -- refused: `Type_New` raised before it wrote anything; the block is never handed out
  | .delete id =>
    match x.addrOf id with
    | none => (x, .ub)
    | some a => ({ x with h := x.h.delete a, loc := x.loc.filter (fun p => p.1 ≠ id) }, .unit)

def AHeap.run (L : Layout) : AHeap → List AOp → AHeap × List AObs
  | x, [] => (x, [])
  | x, op :: ops =>
    let r := x.step L op
    let rs := AHeap.run L r.1 ops
    (rs.1, r.2 :: rs.2)

/-- **the only thing asked of the allocator**: it never answers an address at which a type object is alive (evaluated on
    the states the history itself produces).  Which of the other addresses it answers — a new one, or one that held any
    number of type objects before — is free. -/
def AHeap.allocOK (L : Layout) : AHeap → List AOp → Bool
  | _, [] => true
  | x, op :: ops =>
    (match op with
     | .create _ addr _ _ => (x.h.w.get addr).isNone
     | _ => true) && AHeap.allocOK L (x.step L op).1 ops

/-- a history with the addresses forgotten -/
inductive EOp where
  | create (id : Nat) (name : String) (es : List (String × Inst))
  | delete (id : Nat)
  | use (id : Nat) (way : Way) (c : String)
  | reset (id : Nat)
deriving DecidableEq, Repr, Inhabited

def AOp.erase : AOp → EOp
  | .create id _ name es => .create id name es
  | .delete id => .delete id
  | .use id way c => .use id way c
  | .reset id => .reset id

/-- what the spec knows: per id the `Terminal` flag and the declaration of the type object it names -/
abbrev Decls := Nat → Option (Bool × (String → Option Inst))

def specUse (sent : Bool) (D : String → Option Inst) (way : Way) (cls : Cls) : AObs :=
  match way with
  | .look l => .look (specObs sent D (l.op cls))
  | .call soft k => .call (specCall soft sent D cls k)
  | .typeCall k => .call (specCall false sent D cls k)

def EOp.obs (maxInstances : Nat) (d : Decls) : EOp → AObs
  | .use id way c =>
    match d id with
    | some dd => specUse dd.1 dd.2 way ⟨0, c⟩
    | none => .ub
  | .reset id => if (d id).isSome then .unit else .ub
  | .create id _ es =>
    if (d id).isSome then .ub
    else if es.length > maxInstances then .constructed (.raised .OutOfMemoryError) else .constructed (.ok ())
  | .delete id => if (d id).isSome then .unit else .ub

def EOp.next (maxInstances : Nat) (d : Decls) : EOp → Decls
  | .create id _ es =>
    if (d id).isSome || es.length > maxInstances then d
    else fun i => if i = id then some (false, declOf es) else d i
  | .delete id => fun i => if i = id then none else d i
  | _ => d

/-- **Spec of a history over type objects named by ids**: every use is answered from the declaration list the id was
    created with — no address occurs in it -/
def specIds (maxInstances : Nat) : Decls → List EOp → List AObs
  | _, [] => []
  | d, op :: ops => op.obs maxInstances d :: specIds maxInstances (op.next maxInstances d) ops

/-- the declarations of the type objects the ids of a heap name -/
def AHeap.decls (x : AHeap) : Decls := fun id => (x.addrOf id).bind (fun a => x.h.abs.decl a)

/-- executable form of the invariant of `C08_history_independent` (`AOK`): the heap invariant, no `cls` word holds the address of a
    run-time type object, every type object has one record, ids name live type objects, no two ids name the same one -/
def AHeap.okb (n : Nat) (x : AHeap) : Bool :=
  x.h.okb n && x.h.w.types.all (fun p => (memosOf p.2).all (fun c => c.id == 0)) &&
  x.loc.all (fun p => (x.h.w.get p.2).isSome) &&
  (x.loc.map (·.1)).all (fun i => (x.loc.filter (fun p => p.1 = i)).length == 1) &&
  (x.loc.map (·.2)).all (fun a => (x.loc.filter (fun p => p.2 = a)).length == 1)

/-! ### a variant that is NOT the code: an instance remembered under the ADDRESS of the receiver's type

  One entry per call site (an inline cache in the `method` macro: two function-local statics) or one entry for a lookup
  function (a "last lookup" memo in `Type_Instance`; then all calls share one site): the address of the type it last
  dispatched on, the class, the instance found.  A hit skips the lookup and the member check. -/

structure MemoHeap where
  x : AHeap
  memo : List (Nat × (Nat × Cls × Inst))
deriving Repr, Inhabited

inductive MOp where
  | op (o : AOp)
  | callAt (site id : Nat) (c : String) (k : Nat)       -- a hard call made at call site `site`
deriving DecidableEq, Repr, Inhabited

def MOp.plain : MOp → AOp
  | .op o => o
  | .callAt _ id c k => .use id (.call false k) c

def MemoHeap.step (L : Layout) (m : MemoHeap) : MOp → MemoHeap × AObs
  | .op o => let r := m.x.step L o; ({ m with x := r.1 }, r.2)
  | .callAt site id c k =>
    match m.x.addrOf id with
    | none => (m, .ub)
    | some a =>
      let hit : Option Inst := match m.memo.find? (fun p => p.1 = site) with
        | some (_, (a', cls', inst)) => if a' = a ∧ cls' = ⟨0, c⟩ then some inst else none
        | none => none
      match hit with
      | some inst => (m, .call (.ok (.invoked inst k)))
      | none =>
        let r := m.x.step L (.use id (.call false k) c)
        let memo' := match r.2 with
          | .call (.ok (.invoked inst _)) => (site, (a, ⟨0, c⟩, inst)) :: m.memo.filter (fun p => p.1 ≠ site)
          | _ => m.memo
        ({ x := r.1, memo := memo' }, r.2)

def MemoHeap.run (L : Layout) : MemoHeap → List MOp → MemoHeap × List AObs
  | m, [] => (m, [])
  | m, op :: ops =>
    let r := m.step L op
    let rs := MemoHeap.run L r.1 ops
    (rs.1, r.2 :: rs.2)

end Cello.Dispatch
