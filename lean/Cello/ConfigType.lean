/-
  Engine `cfg` (C18), third part: RUN-TIME TYPE OBJECTS under both values of the cache switch.

  `new(Type, name, size, instances…)` builds a type object whose layout depends on the configuration: the first
  `CELLO_CACHE_NUM` words are the method-cache words (18 with the cache compiled in, 0 with `CELLO_CACHE` predefined), then the
  `__Name` and `__Size` cells, and the instance triples start at cell `CELLO_NBUILTINS = 2 + CELLO_CACHE_NUM / 3` (8 or 2).
  Every index expression of src/Type.c that touches this layout — the enum, the cell count of `Type_Alloc`, every store of
  `Type_New` with its loop bounds, the cells `Type_Builtin_Name` / `Type_Builtin_Size` read, the start of both walks of
  `Type_Scan` — is regenerated from the source on every run as a TERM (`CelloGen.Cfg.TExpr`, translate/g_cfg.py) and is
  EVALUATED here under the constants of each configuration.  Nothing in this file knows that the terminator cell is
  `CELLO_NBUILTINS + len(args) - 2`: an index expression that is right in one configuration only (`t[nargs]`: right with the
  cache compiled out, six cells early with it) makes the word-level constructor below disagree with C08's `typeNewRaw` in the
  other configuration, which is what `C18_type_new_source_as_layout` / `C18_type_record_config_independent`
  (CelloProofs/Props/C18.lean) rule out for the current source.

  The record level (`TypeRec`, `Store`, `Type_Scan`, `Type_Instance` with the cache words, life-cycle histories) is C08's model,
  imported as it is (`Cello/Dispatch.lean`).  The second half is the workload the driver runs: run-time types with harness
  provided instances created by every public route, re-constructed in place, queried (`type_implements`, `type_instance`,
  `type_implements_method`, name, size) and used (objects constructed, compared, hashed, shown, assigned, copied, cast, deleted
  through them), in every configuration in lock step.
-/
import Cello.Config
import Cello.Dispatch
import CelloGen.Cfg

namespace Cello.CfgType
open Cello.Config (Cfg cacheNum)
open Cello.Dispatch (Word Layout Store Inst Cls TypeRec Entry writeCell viewCache viewEntries LOp LObs applyOp instanceOf implementsT
  implementsMethodAt methodAt)
open CelloGen.Cfg (TExpr TypeNewIx typeNewIx)

/-! ### evaluation of the generated index expressions -/

/-- the values of the symbols: `CELLO_CACHE_NUM`, `CELLO_NBUILTINS`, `CELLO_MAX_INSTANCES`, `len(args)`, the loop variable -/
structure Env where
  cn : Nat
  nb : Nat
  mx : Nat
  nargs : Nat
  i : Nat
deriving Repr

/-- value of an index expression (in ℤ: a store at a negative index is undefined behaviour, see `storeAt`) -/
def eval (e : Env) : TExpr → Int
  | .num n => (n : Int)
  | .cacheNum => (e.cn : Int)
  | .nBuiltins => (e.nb : Int)
  | .maxInstances => (e.mx : Int)
  | .nargs => (e.nargs : Int)
  | .ivar => (e.i : Int)
  | .add a b => eval e a + eval e b
  | .sub a b => eval e a - eval e b
  | .mul a b => eval e a * eval e b
  | .div a b => eval e a / eval e b

/-- `CELLO_NBUILTINS` for a value of `CELLO_CACHE_NUM`: the enum of src/Type.c evaluated -/
def nbOf (cn : Nat) : Nat := (eval ⟨cn, 0, CelloGen.Cfg.maxInstances, 0, 0⟩ CelloGen.Cfg.nBuiltinsDef).toNat

def envOf (cfg : Cfg) (nargs i : Nat) : Env :=
  ⟨cacheNum cfg, nbOf (cacheNum cfg), CelloGen.Cfg.maxInstances, nargs, i⟩

/-- the layout constants of a configuration, in the form C08's model takes them -/
def layoutOf (cfg : Cfg) : Layout :=
  { cacheNum := cacheNum cfg, nBuiltins := nbOf (cacheNum cfg), maxInstances := CelloGen.Cfg.maxInstances }

/-- the number of cells `Type_Alloc` reserves in a configuration -/
def cellsOf (cfg : Cfg) : Nat := (eval (envOf cfg 0 0) CelloGen.Cfg.typeAllocCells).toNat

/-- the `Type_Cache_Entry` list of `Type_Instance`: compiled in only under `#if CELLO_CACHE == 1` -/
def slotsOf (cfg : Cfg) : List (Nat × Cls) :=
  if cfg.cache then CelloGen.Cfg.cacheSlots.map (fun p => (p.1, (⟨0, p.2⟩ : Cls))) else []

/-! ### `Type_New` with the index expressions of the source -/

/-- `t[k] = (struct Type){ a, b, c };` — outside the storage (or at a negative index): undefined behaviour (`none`) -/
def storeAt (m : Option (List Word)) (k : Int) (a b c : Word) : Option (List Word) :=
  match m with
  | none => none
  | some mem => if 0 ≤ k ∧ 3 * k.toNat + 2 < mem.length then some (writeCell mem k.toNat a b c) else none

/-- `for (i = from; i < from + cnt; i++) body(i)` -/
def loopFrom (body : Nat → Option (List Word) → Option (List Word)) : Nat → Nat → Option (List Word) → Option (List Word)
  | _, 0, m => m
  | i, cnt + 1, m => loopFrom body (i + 1) cnt (body i m)

/-- `get(args, $I(k))` read as an instance: arguments 0 and 1 are the name and the size -/
def argAt (es : List (String × Inst)) (k : Int) : Option (String × Inst) :=
  if 2 ≤ k then es[(k - 2).toNat]? else none

/-- `var ins = get(args, $I(k)); t[idx] = (struct Type){ NULL, (var)c_str(type_of(ins)), ins };` -/
def instStep (es : List (String × Inst)) (k idx : Int) (m : Option (List Word)) : Option (List Word) :=
  match argAt es k with
  | some (nm, ins) => storeAt m idx .null (.str nm) (.inst ins)
  | none => none

/-- **`Type_New(self, args)` as the source has it**, for an arbitrary table of index expressions `ix`, under configuration `cfg`,
    on a storage `mem` with ANY previous contents.  `es` are the instance arguments (`len(args) = es.length + 2`).  More than
    `CELLO_MAX_INSTANCES` instances: OutOfMemoryError where the check is compiled in, otherwise undefined behaviour. -/
def typeNewWith (ix : TypeNewIx) (cfg : Cfg) (mem : List Word) (name : String) (size : Nat) (es : List (String × Inst)) :
    List Word × Cello.Dispatch.Outcome Unit :=
  if es.length > CelloGen.Cfg.maxInstances then (mem, if cfg.checks then .raised .OutOfMemoryError else .ub)
  else if ix.nameArg ≠ 0 ∨ ix.sizeArg ≠ 1 then (mem, .ub)
  else
    let nargs := es.length + 2
    let ev (i : Nat) (t : TExpr) : Int := eval (envOf cfg nargs i) t
    let cLo := ev 0 ix.clearLo
    let cHi := ev 0 ix.clearHi
    let iLo := ev 0 ix.instLo
    let iHi := ev 0 ix.instHi
    if cLo < 0 ∨ iLo < 0 then (mem, .ub)
    else
      let m1 := loopFrom (fun i m => storeAt m (ev i ix.clearIdx) .null .null .null) cLo.toNat (cHi - cLo).toNat (some mem)
      let m2 := storeAt m1 (ev 0 ix.nameIdx) .null (.str "__Name") (.str name)
      let m3 := storeAt m2 (ev 0 ix.sizeIdx) .null (.str "__Size") (.num size)
      let m4 := loopFrom (fun i m => instStep es (ev i ix.instArg) (ev i ix.instIdx) m) iLo.toNat (iHi - iLo).toNat m3
      match storeAt m4 (ev 0 ix.termIdx) .null .null .null with
      | some m => (m, .ok ())
      | none => (mem, .ub)

/-- `Type_New` of the current source -/
def typeNewSrc (cfg : Cfg) (mem : List Word) (name : String) (size : Nat) (es : List (String × Inst)) :
    List Word × Cello.Dispatch.Outcome Unit :=
  typeNewWith typeNewIx cfg mem name size es

/-- the cells the readers of the source use: `Type_Builtin_Name`, `Type_Builtin_Size`, the two walks of `Type_Scan` -/
structure Readers where
  nameIdx : TExpr
  sizeIdx : TExpr
  scan1 : TExpr
  scan2 : TExpr

def readersSrc : Readers :=
  ⟨CelloGen.Cfg.builtinNameIdx, CelloGen.Cfg.builtinSizeIdx, CelloGen.Cfg.scanStart1, CelloGen.Cfg.scanStart2⟩

/-- a storage read back as a type object with the indices the readers of the source use (`none`: it is not a well-formed
    type object for these readers — e.g. the `__Name` cell does not hold a string, or the two walks start at different cells) -/
def ofRawWith (rd : Readers) (cfg : Cfg) (hdr sentinel : Bool) (mem : List Word) : Option Store :=
  let e := envOf cfg 0 0
  let ni := eval e rd.nameIdx
  let si := eval e rd.sizeIdx
  let s1 := eval e rd.scan1
  let s2 := eval e rd.scan2
  if ni < 0 ∨ si < 0 ∨ s1 < 0 ∨ s1 ≠ s2 then none
  else
    match viewCache (mem.take (cacheNum cfg)), mem[3 * ni.toNat + 2]?, mem[3 * si.toNat + 2]?, viewEntries (mem.drop (3 * s1.toNat)) with
    | some cache, some (.str name), some (.num size), some (es, rest) =>
      some { trec := { hdr := hdr, sentinel := sentinel, cache := cache, entries := es }, name := name, size := size, rest := rest }
    | _, _, _, _ => none

def ofRawSrc (cfg : Cfg) (hdr sentinel : Bool) (mem : List Word) : Option Store := ofRawWith readersSrc cfg hdr sentinel mem

/-- what `Type_Alloc` returns: `calloc` of the cell count of the configuration -/
def zeroStorage (cfg : Cfg) : List Word := List.replicate (3 * cellsOf cfg) Word.null

/-- `destruct(T); construct(T, name, size, instances…)` in place, with the source's constructor and readers -/
def constructInSrc (cfg : Cfg) (s : Store) (name : String) (size : Nat) (es : List (String × Inst)) : Store × Cello.Dispatch.Outcome Unit :=
  let r := typeNewSrc cfg s.toRaw name size es
  match r.2 with
  | .ok _ =>
    match ofRawSrc cfg s.trec.hdr s.trec.sentinel r.1 with
    | some s' => (s', .ok ())
    | none => (s, .ub)
  | .raised e => (s, .raised e)
  | .ub => (s, .ub)

/-- life-cycle histories (lookups interleaved with re-constructions in place) with the source's constructor, readers and — per
    configuration — cache table -/
def applyLifeSrc (cfg : Cfg) (s : Store) : LOp → Store × LObs
  | .look op => let r := applyOp (slotsOf cfg) s.trec op; ({ s with trec := r.1 }, .look r.2)
  | .construct name size es => let r := constructInSrc cfg s name size es; (r.1, .constructed r.2)

def runLifeSrc (cfg : Cfg) : Store → List LOp → Store × List LObs
  | s, [] => (s, [])
  | s, op :: ops =>
    let r := applyLifeSrc cfg s op
    let rs := runLifeSrc cfg r.1 ops
    (rs.1, r.2 :: rs.2)

/-- an in-contract history: no construction with more than `CELLO_MAX_INSTANCES` instances (undefined under `CELLO_NDEBUG`) -/
def LOp.inContract : LOp → Bool
  | .look _ => true
  | .construct _ _ es => es.length ≤ CelloGen.Cfg.maxInstances

/-! ## the workload: run-time types with harness-provided instances (what lean/Driver/Cfg.lean runs, `ty… / ob / oq / od` ops) -/

/-- an instance object the harness provides (file scope of harness/h_cfg.c, same order): op-file token, class, which members are non-NULL -/
structure HInst where
  tok : String
  cls : String
  members : List Bool
deriving Repr

def table : List HInst := [
  ⟨"New", "New", [true, true]⟩,                                  -- 0  constructor (v := arg 0) and destructor (ledger)
  ⟨"Cmp", "Cmp", [true]⟩,                                        -- 1  REVERSED order of v
  ⟨"Hash", "Hash", [true]⟩,                                      -- 2  v + 7000
  ⟨"Len", "Len", [true]⟩,                                        -- 3  v + 100
  ⟨"C_Int", "C_Int", [true]⟩,                                    -- 4  v + 2000
  ⟨"Show", "Show", [true, false]⟩,                               -- 5  "<rt v>"
  ⟨"Assign", "Assign", [true]⟩,                                  -- 6  v := other.v + 1
  ⟨"Copy", "Copy", [true]⟩,                                      -- 7  alloc, v + 5
  ⟨"Size", "Size", [true]⟩,                                      -- 8  32
  ⟨"C_Str", "C_Str", [true]⟩,                                    -- 9  "rt<v>"
  ⟨"C_Float", "C_Float", [true]⟩,                                -- 10 v + 0.25
  ⟨"Get", "Get", [true, false, true, false, false, false]⟩,      -- 11 get = self, mem = v odd
  ⟨"Push", "Push", [true, true, false, false]⟩,                  -- 12 push: v += k, pop: v -= 1
  ⟨"Concat", "Concat", [true, false]⟩,                           -- 13 concat: v += 100 k
  ⟨"Mark", "Mark", [true]⟩,                                      -- 14 no-op
  ⟨"Resize", "Resize", [true]⟩,                                  -- 15 v := n
  ⟨"Hash2", "Hash", [true]⟩,                                     -- 16 v + 9000
  ⟨"Len2", "Len", [true]⟩,                                       -- 17 v + 300
  ⟨"C_Int2", "C_Int", [true]⟩,                                   -- 18 v + 4000
  ⟨"New0", "New", [true, false]⟩ ]                               -- 19 constructor only

/-- the classes every `ty` / `tyre` line reports `type_implements` for (the 16 classes of the table, and two never declared) -/
def probeClasses : List String :=
  ["New", "Cmp", "Hash", "Len", "C_Int", "Show", "Assign", "Copy", "Size", "C_Str", "C_Float", "Get", "Push", "Concat", "Mark",
   "Resize", "Iter", "Doc"]

def instOf (k : Nat) : Option (String × Inst) := (table[k]?).map (fun h => (h.cls, (⟨k, h.members⟩ : Inst)))

def instsOf : List Nat → List (String × Inst)
  | [] => []
  | k :: ks => match instOf k with
    | some p => p :: instsOf ks
    | none => instsOf ks

def arityOf (cls : String) : Nat := ((table.find? (fun h => h.cls == cls)).map (·.members.length)).getD 0

def clsOf (n : String) : Cls := ⟨0, n⟩

/-- what the instance list the PROGRAM passed declares for a class (the contract is checked against this, never against the record) -/
def declares (decl : List Nat) (cls : String) : Option Nat := decl.find? (fun k => ((table[k]?).map (·.cls)) == some cls)

def declaresMember (decl : List Nat) (cls : String) (m : Nat) : Bool :=
  match declares decl cls with
  | some k => (((table[k]?).map (·.members)).getD [])[m]?.getD false
  | none => false

structure RType where
  store : Option Store        -- `none`: the storage does not read back as a type object
  mode : Nat                  -- 0 new, 1 new_raw, 2 new_root (how it is deleted)
  decl : List Nat
  name : String
  size : Nat
deriving Repr

structure RObj where
  ty : Nat
  v : Int
  mode : Nat
deriving Repr

structure RSt where
  types : List (Nat × RType) := []
  objs : List (Nat × RObj) := []
deriving Repr, Inhabited

def maxTy : Nat := 8
def maxOb : Nat := 24
def maxInstsLine : Nat := 256

inductive Query where
  | cint | len | cstr | cflt | hash | cmp (o2 : Nat) | eq (o2 : Nat) | asg (o2 : Nat) | show | size | impl (cls : String) | cast
  | mem | get | push (k : Int) | pop | cat (k : Int) | resize (n : Int) | copy (d : Nat)
deriving Repr, DecidableEq

inductive ROp where
  | ty (t route : Nat) (name : String) (size : Nat) (insts : List Nat)
  | tyre (t : Nat) (name : String) (size : Nat) (insts : List Nat)
  | tyq (t : Nat) (cls : String)
  | tyshow (t : Nat)
  | tydel (t : Nat)
  | ob (o t route : Nat) (v : Int)
  | oq (o : Nat) (q : Query)
  | od (o : Nat)
deriving Repr, DecidableEq

def RSt.ty? (s : RSt) (t : Nat) : Option RType := s.types.lookup t
def RSt.ob? (s : RSt) (o : Nat) : Option RObj := s.objs.lookup o
def RSt.putTy (s : RSt) (t : Nat) (r : RType) : RSt := { s with types := (t, r) :: s.types.filter (fun p => p.1 != t) }
def RSt.putOb (s : RSt) (o : Nat) (r : RObj) : RSt := { s with objs := (o, r) :: s.objs.filter (fun p => p.1 != o) }
def RSt.dropTy (s : RSt) (t : Nat) : RSt := { s with types := s.types.filter (fun p => p.1 != t) }
def RSt.dropOb (s : RSt) (o : Nat) : RSt := { s with objs := s.objs.filter (fun p => p.1 != o) }

/-- what an operation lets the program observe (rendered by `RObs.render` into the text of the `O` line) -/
inductive RObs where
  | ty (name : String) (bsize size : Nat) (impl : List Bool)   -- a construction: name, `__Size` cell, `size(T)`, `type_implements` per probe class
  | malformed                                                  -- the storage does not read back as a type object
  | tyq (impl : Bool) (inst : Option Nat) (ms : List (Option Bool))
  | tyshow (name : String)
  | ok
  | ob (v : Int) (type : String) (size : Nat)
  | od (dtor : Bool)
  | classError
  | val (tag : String) (v : Int)
  | flag (tag : String) (b : Bool)
  | hashDefault
  | showRt (v : Int)
  | showDefault (name : String)
deriving Repr, DecidableEq

def bit (b : Bool) : String := if b then "1" else "0"

def RObs.render : RObs → String
  | .ty name bsize size impl => s!"ty name={name} bsize={bsize} size={size} impl={String.join (impl.map bit)}"
  | .malformed => "ty malformed"
  | .tyq impl inst ms =>
    let i := match inst with | some k => toString k | none => "-"
    let m := String.join (ms.map (fun o => match o with | some b => bit b | none => "?"))
    s!"tyq impl={bit impl} inst={i} m={m}"
  | .tyshow name => s!"tyshow {name}|{name}"
  | .ok => "ok"
  | .ob v type size => s!"ob v={v} type={type} size={size}"
  | .od d => s!"od dtor={bit d}"
  | .classError => "ClassError"
  | .val tag v => if tag == "cstr" then s!"cstr rt{v}" else s!"{tag} {v}"
  | .flag tag b => s!"{tag} {bit b}"
  | .hashDefault => "hash *"
  | .showRt v => s!"show <rt {v}>"
  | .showDefault name => s!"show <'{name}' At *>"

/-- `Type_Instance(T, cls)` on the record, with the cache table of the configuration; the record afterwards -/
def look (cfg : Cfg) (s : Store) (cls : String) : Store × Option Inst :=
  let r := instanceOf (slotsOf cfg) s.trec (clsOf cls)
  ({ s with trec := r.1 }, match r.2 with | .ok v => v | _ => none)

/-- `instance(self, C)` followed by the test `a and a->member`: the instance if the member is there -/
def lookMember (cfg : Cfg) (s : Store) (cls : String) (m : Nat) : Store × Option Nat :=
  let r := look cfg s cls
  (r.1, match r.2 with
        | some i => if i.members[m]?.getD false then some i.id else none
        | none => none)

/-- `type_implements(T, cls)` for every probe class, in order (`Type_Scan`: memoises class pointers, leaves the cache alone) -/
def implBits (s : Store) : List String → Store × List Bool
  | [] => (s, [])
  | c :: cs =>
    let r := implementsT s.trec (clsOf c)
    let rs := implBits { s with trec := r.1 } cs
    (rs.1, r.2 :: rs.2)

/-- `size(T)`: the `Size` instance if the type has one, else the `__Size` cell -/
def sizeOf (cfg : Cfg) (s : Store) : Store × Nat :=
  let r := lookMember cfg s "Size" 0
  (r.1, match r.2 with | some _ => 32 | none => s.size)

/-- the line a construction prints: name and size as the readers see them, `size(T)`, `type_implements` for every probe class -/
def describe (cfg : Cfg) (s : Store) : Store × RObs :=
  let r1 := sizeOf cfg s
  let r2 := implBits r1.1 probeClasses
  (r2.1, .ty s.name s.size r1.2 r2.2)

def validName (n : String) : Bool := n.length ≥ 1 && n.length ≤ 20 && n.toList.all (fun c => c.isAlphanum)
def validSize (n : Nat) : Bool := n ≥ 8 && n ≤ 64 && n % 8 == 0

def sign (x : Int) : Int := if x < 0 then -1 else if x > 0 then 1 else 0
def inRange (v : Int) : Bool := 0 ≤ v && v ≤ 255

/-- the value an object gets from `new_with(T, …)`: through the `New` instance when the type has one (then the harness passes
    the value), otherwise the zeroes of `calloc` (then the harness passes no argument) -/
def newValue (decl : List Nat) (v : Int) : Int := if (declares decl "New").isSome then v else 0

/-- the instance a method call `method(self, C, m)` of the contract runs: declared, and the member non-NULL -/
def needs (decl : List Nat) (cls : String) (m : Nat) : Bool := declaresMember decl cls m

/-- **one operation** under a configuration: `none` = outside the contract (refused identically by harness and model; the
    contract is decided on the declared instance lists alone), otherwise the new state and the text of the `O` line.
    Everything the line reports is computed THROUGH THE RECORD as built by `typeNewSrc` and read by `ofRawSrc`. -/
def step (cfg : Cfg) (s : RSt) : ROp → Option (RSt × RObs)
  | .ty t route name size insts =>
    if t ≥ maxTy || route > 5 || (s.ty? t).isSome || !validName name || !validSize size || insts.length > maxInstsLine
        || insts.any (fun k => k ≥ table.length) then none
    else
      let r := typeNewSrc cfg (zeroStorage cfg) name size (instsOf insts)
      let st := match r.2 with
        | .ok _ => ofRawSrc cfg true false r.1
        | _ => none
      match st with
      | some st =>
        let d := describe cfg st
        some (s.putTy t ⟨some d.1, route % 3, insts, name, size⟩, d.2)
      | none => some (s.putTy t ⟨none, route % 3, insts, name, size⟩, .malformed)
  | .tyre t name size insts =>
    match s.ty? t with
    | none => none
    | some rt =>
      if !validName name || !validSize size || insts.length > maxInstsLine || insts.any (fun k => k ≥ table.length)
          || s.objs.any (fun p => p.2.ty == t) then none
      else match rt.store with
        | none => none
        | some st =>
          let r := constructInSrc cfg st name size (instsOf insts)
          match r.2 with
          | .ok _ =>
            let d := describe cfg r.1
            some (s.putTy t { rt with store := some d.1, decl := insts, name := name, size := size }, d.2)
          | _ => some (s.putTy t { rt with store := none, decl := insts, name := name, size := size }, .malformed)
  | .tyq t cls =>
    match s.ty? t with
    | none => none
    | some rt =>
      if !probeClasses.contains cls then none
      else match rt.store with
        | none => none
        | some st =>
          let r1 := implementsT st.trec (clsOf cls)
          let st1 := { st with trec := r1.1 }
          let r2 := look cfg st1 cls
          let ms := (List.range (arityOf cls)).foldl (fun (acc : Store × List (Option Bool)) k =>
            let r := implementsMethodAt acc.1.trec (clsOf cls) k
            ({ acc.1 with trec := r.1 }, acc.2 ++ [match r.2 with | .ok b => some b | _ => none])) (r2.1, [])
          some (s.putTy t { rt with store := some ms.1 }, .tyq r1.2 (r2.2.map (·.id)) ms.2)
  | .tyshow t =>
    match s.ty? t with
    | none => none
    | some rt =>
      match rt.store with
      | none => none
      | some st => some (s, .tyshow st.name)
  | .tydel t =>
    match s.ty? t with
    | none => none
    | some _ => if s.objs.any (fun p => p.2.ty == t) then none else some (s.dropTy t, .ok)
  | .ob o t route v =>
    match s.ty? t with
    | none => none
    | some rt =>
      if o ≥ maxOb || route > 2 || (s.ob? o).isSome || !inRange v then none
      else match rt.store with
        | none => none
        | some st =>
          -- alloc: size(T); construct_with: instance(self, New)
          let r1 := sizeOf cfg st
          let r2 := lookMember cfg r1.1 "New" 0
          let v' : Int := match r2.2 with | some _ => newValue rt.decl v | none => 0
          some ((s.putTy t { rt with store := some r2.1 }).putOb o ⟨t, v', route⟩, .ob v' st.name r1.2)
  | .od o =>
    match s.ob? o with
    | none => none
    | some ob =>
      match s.ty? ob.ty with
      | none => none
      | some rt =>
        match rt.store with
        | none => none
        | some st =>
          let r := lookMember cfg st "New" 1
          some ((s.putTy ob.ty { rt with store := some r.1 }).dropOb o, .od r.2.isSome)
  | .oq o q =>
    match s.ob? o with
    | none => none
    | some ob =>
      match s.ty? ob.ty with
      | none => none
      | some rt =>
        match rt.store with
        | none => none
        | some st =>
          let decl := rt.decl
          let fin (st' : Store) (ob' : RObj) (txt : RObs) : Option (RSt × RObs) :=
            some ((s.putTy ob.ty { rt with store := some st' }).putOb o ob', txt)
          let other (o2 : Nat) : Option RObj := match s.ob? o2 with
            | some b => if b.ty == ob.ty then some b else none
            | none => none
          -- a method the contract requires the type to declare: looked up through the record
          let meth (cls : String) (m : Nat) (k : Store → Nat → Option (RSt × RObs)) : Option (RSt × RObs) :=
            if !needs decl cls m then none
            else
              let r := lookMember cfg st cls m
              match r.2 with
              | some id => k r.1 id
              | none => fin r.1 ob .classError
          match q with
          | .cint => meth "C_Int" 0 (fun st' id => fin st' ob (.val "cint" (ob.v + (if id == 18 then 4000 else 2000))))
          | .len => meth "Len" 0 (fun st' id => fin st' ob (.val "len" (ob.v + (if id == 17 then 300 else 100))))
          | .cstr => meth "C_Str" 0 (fun st' _ => fin st' ob (.val "cstr" ob.v))
          | .cflt => meth "C_Float" 0 (fun st' _ => fin st' ob (.val "cflt" (4 * ob.v + 1)))
          | .mem => meth "Get" 2 (fun st' _ => fin st' ob (.flag "mem" (ob.v % 2 == 1)))
          | .get => meth "Get" 0 (fun st' _ => fin st' ob (.flag "get" true))
          | .push k =>
            if !inRange (ob.v + k) then none
            else meth "Push" 0 (fun st' _ => fin st' { ob with v := ob.v + k } (.val "push" (ob.v + k)))
          | .pop =>
            if !inRange (ob.v - 1) then none
            else meth "Push" 1 (fun st' _ => fin st' { ob with v := ob.v - 1 } (.val "pop" (ob.v - 1)))
          | .cat k =>
            if k ≤ -1000 || k ≥ 1000 || !inRange (ob.v + 100 * k) then none
            else meth "Concat" 0 (fun st' _ => fin st' { ob with v := ob.v + 100 * k } (.val "cat" (ob.v + 100 * k)))
          | .resize n =>
            if !inRange n then none
            else meth "Resize" 0 (fun st' _ => fin st' { ob with v := n } (.val "resize" n))
          | .hash =>
            let r := lookMember cfg st "Hash" 0
            fin r.1 ob (match r.2 with | some id => .val "hash" (ob.v + (if id == 16 then 9000 else 7000)) | none => .hashDefault)
          | .cmp o2 =>
            match other o2 with
            | none => none
            | some b =>
              let r := lookMember cfg st "Cmp" 0
              fin r.1 ob (.val "cmp" (match r.2 with | some _ => sign (b.v - ob.v) | none => sign (ob.v - b.v)))
          | .eq o2 =>
            match other o2 with
            | none => none
            | some b =>
              let r := lookMember cfg st "Cmp" 0
              fin r.1 ob (.flag "eq" (ob.v == b.v))
          | .asg o2 =>
            match other o2 with
            | none => none
            | some b =>
              if o2 == o || !inRange (b.v + 1) then none
              else
                let r := lookMember cfg st "Assign" 0
                let v' := match r.2 with | some _ => b.v + 1 | none => b.v
                fin r.1 { ob with v := v' } (.val "asg" v')
          | .show =>
            let r := lookMember cfg st "Show" 0
            fin r.1 ob (match r.2 with | some _ => .showRt ob.v | none => .showDefault st.name)
          | .size =>
            let r := sizeOf cfg st
            fin r.1 ob (.val "size" r.2)
          | .impl cls =>
            if !probeClasses.contains cls then none
            else
              let r := implementsT st.trec (clsOf cls)
              fin { st with trec := r.1 } ob (.flag "impl" r.2)
          | .cast => fin st ob (.flag "cast" true)
          | .copy d =>
            if d ≥ maxOb || (s.ob? d).isSome || d == o || !inRange (ob.v + 5) then none
            else
              let r1 := lookMember cfg st "Copy" 0
              match r1.2 with
              | some _ =>
                some (((s.putTy ob.ty { rt with store := some r1.1 }).putOb d ⟨ob.ty, ob.v + 5, 0⟩), .val "copy" (ob.v + 5))
              | none =>
                -- `assign(alloc(type_of(self)), self)`
                let r2 := sizeOf cfg r1.1
                let r3 := lookMember cfg r2.1 "Assign" 0
                let v' := match r3.2 with | some _ => ob.v + 1 | none => ob.v
                some (((s.putTy ob.ty { rt with store := some r3.1 }).putOb d ⟨ob.ty, v', 0⟩), .val "copy" v')

end Cello.CfgType
