import Cello.File
import Cello.Text
import CelloGen.FileScan
/-
  Cello/FileText.lean — the TEXT side of C20: `print_to(f, 0, "%<spec><sep>", x)` and `scan_from(f, 0, "%<spec><sep>", x)` on a File,
  for every conversion `scan_from_with` (src/Show.c) supports: the integer conversions `d i o u x X` with every length modifier,
  `%c`, the floating conversions with and without `l`, `%s`, and `%$` on Int / Float / String objects.

  What libc's printf / scanf conversions do is taken from Cello/Text.lean (`printIntSpec`, `scanNumber`, `printFloatSpec`,
  `scanFloating`: exact executable models, validated against glibc by the C15 engine and here by the twin-file oracle).
  What `scan_from_with` does AROUND a conversion is modelled here from what the translator reads from the source
  (CelloGen/FileScan.lean): for an integer specification the chain of tests on `fmt_buf` selects the object scanf stores into
  (`Arm.obj`), and the value of that object becomes the `Int` through the expression the arm assigns to `tmp` — a term
  (`WExpr`: casts and `sgn ? a : b`) that is EVALUATED here with C's conversion rules (integer promotion and the usual arithmetic
  conversions for `?:`), not summarised by a flag.  `%c` likewise (`charTy`, `charFin`).

  On the stream: one `vfscanf` per specification / literal run (File_Format_From), each consuming bytes after the position of
  the reference stdio (`Cello.File.Ref`) and setting the end-of-file flag when a read ran into the end.
  Core Lean only (the driver links this file).
-/
namespace Cello.FileText

open Cello.File (Ref Handle R Out Call Fn Stream Dir lookup)
open CelloGen.FileScan (CTy WExpr Arm FArm)

/-! ## C's integer conversions on values -/

/-- the value of `v` converted to the integer type `ty` (two's complement wrap, as gcc / clang define it) -/
def conv (ty : CTy) (v : Int) : Int := if ty.signed then Text.sext ty.bits v else Text.zext ty.bits v

/-- integer promotion: every type narrower than `int` becomes `int` -/
def promote (ty : CTy) : CTy := if ty.bits < 32 then ⟨true, 32⟩ else ty

/-- the usual arithmetic conversions on two promoted integer types: the common type of the two arms of `?:` -/
def uac (a b : CTy) : CTy :=
  if a.signed = b.signed then (if a.bits ≥ b.bits then a else b)
  else
    let u := if a.signed then b else a
    let s := if a.signed then a else b
    if u.bits ≥ s.bits then u else s

/-- the C type of an expression over a temporary of type `obj` -/
def tyOf (obj : CTy) : WExpr → CTy
  | .t => obj
  | .cast ty _ => ty
  | .cond a b => uac (promote (tyOf obj a)) (promote (tyOf obj b))

/-- the value of an expression when the temporary holds `t` -/
def evalW (obj : CTy) (sgn : Bool) (t : Int) : WExpr → Int
  | .t => t
  | .cast ty e => conv ty (evalW obj sgn t e)
  | .cond a b => conv (tyOf obj (.cond a b)) (if sgn then evalW obj sgn t a else evalW obj sgn t b)

/-! ## the integer branch and the `%c` branch of `scan_from_with`, from the generated description -/

/-- what the translator read from src/Show.c -/
structure Src where
  tmpTy : CTy
  signed : List Nat
  arms : List Arm
  floatWide : List Nat
  floatThenNarrow : Bool       -- the arm taken when `fmt_buf` contains a `floatWide` character reads a `float`
  floatElseNarrow : Bool
  farms : List FArm            -- the floating branch as a chain of arms (extension round): test, object type, `$F(…)` argument
  charTy : CTy
  charFin : WExpr

def src : Src where
  tmpTy := CelloGen.FileScan.tmpTy
  signed := CelloGen.FileScan.intSigned
  arms := CelloGen.FileScan.intArms
  floatWide := CelloGen.FileScan.floatWide
  floatThenNarrow := CelloGen.FileScan.floatThenTy == "float"
  floatElseNarrow := CelloGen.FileScan.floatElseTy == "float"
  farms := CelloGen.FileScan.floatArms
  charTy := CelloGen.FileScan.charTy
  charFin := CelloGen.FileScan.charFin

def armTest (a : Arm) : Text.SpecTest := Text.mkTest a.test a.arg

def selectArm (arms : List Arm) (buf : List Nat) : Option Arm := arms.find? (fun a => (armTest a).holds buf)

/-- the value of the zero-initialised object of type `obj` after libc stored the low `w` bits of the pattern `p` into it
    (`w ≤ obj.bits`; little-endian: the remaining bytes stay 0) -/
def stored (obj : CTy) (w : Nat) (p : Nat) : Int := conv obj ((p % 2 ^ w : Nat) : Int)

/-- … and the `Int` it becomes: the arm's expression is assigned to `tmp` (conversion to `tmpTy`), `$I(tmp)` holds an `int64_t` -/
def finishInt (S : Src) (arm : Arm) (w : Nat) (sgn : Bool) (p : Nat) : Int :=
  let t := stored arm.obj w p
  Text.sext 64 (conv S.tmpTy (if arm.direct then t else evalW arm.obj sgn t arm.fin))

/-- the integer branch for `%<m><c>` as a reader of the text that follows the position: `fmt_buf` is the specification followed
    by `%n`; the first arm whose test holds names the object; libc stores `m.width` bits (more than the object has: undefined) -/
def scanIntSpec (S : Src) (m : Text.IMod) (cv : Text.IConv) (input : List Nat) : Text.Res (Int × List Nat) :=
  match selectArm S.arms (Text.ispecFmt m cv ++ [37, 110]) with
  | none => .unmodelled
  | some arm =>
    if arm.obj.bits < m.width then .ub
    else match Text.scanNumber cv input with
      | .ok (p, rest) => .ok (finishInt S arm m.width (S.signed.contains cv.byte) p, rest)
      | .raised e => .raised e
      | .ub => .ub
      | .unmodelled => .unmodelled

/-- `%c`: scanf stores the next byte into `<charTy> tmp`; the Int is `$I(<charFin>)` -/
def charValue (S : Src) (b : Nat) : Int :=
  Text.sext 64 (evalW S.charTy false (conv S.charTy (b % 256 : Nat)) S.charFin)

/-- the byte `%c` of printf writes for the `int64_t` argument -/
def charByte (n : Int) : Nat := (n % 256).toNat

/-- the floating branch as the source has it: the first arm of the chain whose test holds on `fmt_buf` (= the specification
    followed by `%n`), exactly like `selectArm` for the integers -/
def floatArmFor (S : Src) (l : Bool) (cv : Text.FConv) : Option FArm :=
  S.farms.find? (fun a => (Text.mkTest a.test a.arg).holds (Text.fspecFmt l cv ++ [37, 110]))

/-- the type of the object libc's scanf stores into for a floating conversion (C11 7.21.6.2 §11): `float` without a length
    modifier, `double` with `l` -/
def libcFloatObj (l : Bool) : String := if l then "double" else "float"

/-- does the floating branch read a `float` for `%<c>` / `%l<c>`?  (the type of the object of the arm the chain selects) -/
def floatNarrow (S : Src) (l : Bool) (cv : Text.FConv) : Bool :=
  match floatArmFor S l cv with
  | some a => a.obj == "float"
  | none => false

/-- the floating branch for `%<l?><c>` as a reader of the text after the position: the selected arm names the object whose address
    scanf gets; libc stores a `float` (4 bytes) or a `double` (8 bytes) as the SPECIFICATION says — into an object of another type
    that is undefined behaviour (a `float` stored into the low half of a zeroed `double` reads as a denormal near 5e-315; a `double`
    stored into a `float` overruns it); the Float is `$F(<fin>)`, modelled for `fin` = the object itself -/
def scanFloatSpec (S : Src) (l : Bool) (cv : Text.FConv) (input : List Nat) : Text.Res (Nat × List Nat) :=
  match floatArmFor S l cv with
  | none => .unmodelled
  | some a =>
    if a.obj ≠ libcFloatObj l then .ub
    else if a.fin ≠ "tmp" then .unmodelled
    else Text.scanFloating (a.obj == "float") input

/-! ## specifications and values of the op files -/

inductive Spec where
  | int (m : Text.IMod) (cv : Text.IConv)
  | chr
  | flt (l : Bool) (cv : Text.FConv)
  | str
  | showInt | showFlt | showStr
deriving DecidableEq, Repr, Inhabited

inductive TVal where
  | int (n : Int)
  | flt (bits : Nat)
  | str (s : List Nat)
deriving DecidableEq, Repr, Inhabited

def parseIMod (s : List Nat) : Option Text.IMod :=
  if s = [] then some .none else if s = [104, 104] then some .hh else if s = [104] then some .h else if s = [108] then some .l
  else if s = [108, 108] then some .ll else if s = [106] then some .j else if s = [122] then some .z else if s = [116] then some .t
  else if s = [113] then some .q else none

def parseIConv (c : Nat) : Option Text.IConv :=
  if c = 100 then some .d else if c = 105 then some .i else if c = 111 then some .o else if c = 117 then some .u
  else if c = 120 then some .x else if c = 88 then some .X else none

def parseFConv (c : Nat) : Option Text.FConv :=
  if c = 102 then some .f else if c = 70 then some .F else if c = 101 then some .e else if c = 69 then some .E
  else if c = 103 then some .g else if c = 71 then some .G else none

/-- a specification without its `%`, as bytes: `hhx`, `d`, `lu`, `c`, `lf`, `e`, `s`; `$i` `$f` `$s` = `%$` on an Int / Float / String -/
def parseSpecB (s : List Nat) : Option Spec :=
  if s = [99] then some .chr else if s = [115] then some .str
  else if s = [36, 105] then some .showInt else if s = [36, 102] then some .showFlt else if s = [36, 115] then some .showStr
  else
    match s.reverse with
    | [] => none
    | c :: revMod =>
      let md := revMod.reverse
      match parseIConv c, parseIMod md with
      | some cv, some m => some (.int m cv)
      | _, _ =>
        match parseFConv c with
        | some fc => if md = [] then some (.flt false fc) else if md = [108] then some (.flt true fc) else none
        | none => none

def parseSpec (s : String) : Option Spec := parseSpecB (s.toUTF8.toList.map (·.toNat))

/-- the specification a `"%…"` format of src/Num.c stands for (`Int_Show` / `Int_Look` / `Float_Show` / `Float_Look`) -/
def fmtSpec (fmt : List Nat) : Option Spec :=
  match fmt with
  | 37 :: r => parseSpecB r
  | _ => none

def intShowSpec : Option Spec := fmtSpec CelloGen.FileScan.intShowFmtB
def intLookSpec : Option Spec := fmtSpec CelloGen.FileScan.intLookFmtB
def floatShowSpec : Option Spec := fmtSpec CelloGen.FileScan.floatShowFmtB
def floatLookSpec : Option Spec := fmtSpec CelloGen.FileScan.floatLookFmtB

/-! ## the print side: one text per `vfprintf` -/

/-- what `print_to_with` hands to File_Format_To for one plain specification and its argument: one `vfprintf` -/
def printPlain : Spec → TVal → Option (List Nat)
  | .int m cv, .int n => some (Text.printIntSpec m cv n)
  | .chr, .int n => some [charByte n]
  | .flt _ cv, .flt b => some (Text.printFloatSpec cv b)
  | .str, .str s => some (s.takeWhile (· ≠ 0))
  | _, _ => none

/-- the texts of the `vfprintf` calls of `print_to(f, 0, "%<spec>", x)`, in order.  `%$` is `show_to`: Int_Show / Float_Show are
    one print_to with the format of src/Num.c; String_Show is the opening quote, one print_to per byte (the escape table of
    C15's CelloGen.Text), the closing quote. -/
def printSpecFrags (sp : Spec) (v : TVal) : Option (List (List Nat)) :=
  match sp, v with
  | .showInt, .int n => (match intShowSpec with | some s => (printPlain s (.int n)).map ([·]) | none => none)
  | .showFlt, .flt b => (match floatShowSpec with | some s => (printPlain s (.flt b)).map ([·]) | none => none)
  | .showStr, .str s =>
    let c := Text.srcCfg
    some ([c.showOpen] ++ (s.takeWhile (· ≠ 0)).map (Text.showByte c.showEsc) ++ [c.showClose])
  | .showInt, _ | .showFlt, _ | .showStr, _ => none
  | sp, v => (printPlain sp v).map ([·])

/-- … followed by the literal run `sep` (one more `vfprintf` when it is not empty) -/
def printFrags (sp : Spec) (v : TVal) (sep : List Nat) : Option (List (List Nat)) :=
  (printSpecFrags sp v).map (fun fr => if sep.isEmpty then fr else fr ++ [sep])

/-! ## the scan side -/

/-- what one directive did with the bytes after the position -/
structure Rd where
  ok : Bool              -- the conversion succeeded (`err ≥ 1`)
  consumed : Nat
  hitEnd : Bool          -- a read ran into the end of the file: the stream's end-of-file flag is set
  val : TVal
  calls : Nat            -- `vfscanf` calls made
  modelled : Bool := true
deriving Repr, Inhabited

def Rd.unmodelled (d : TVal) : Rd := ⟨false, 0, false, d, 0, false⟩

/-- a numeric reader's result as `Rd`: on success the bytes up to the unread rest are consumed, and the stream has looked
    one byte ahead (so the end of the file was seen iff nothing is left); a failure is modelled only at the end of the input -/
def rdOfRes {α : Type} (inp : List Nat) (dflt : TVal) (mk : α → TVal) : Text.Res (α × List Nat) → Rd
  | .ok (a, rest) => ⟨true, inp.length - rest.length, rest.isEmpty, mk a, 1, true⟩
  | .raised _ => if (Text.skipSpace inp).isEmpty then ⟨false, inp.length, true, dflt, 1, true⟩ else Rd.unmodelled dflt
  | .ub => Rd.unmodelled dflt
  | .unmodelled => Rd.unmodelled dflt

def spanWord : List Nat → List Nat × List Nat
  | [] => ([], [])
  | b :: r => if Text.isSpace b then ([], b :: r) else let (w, rest) := spanWord r; (b :: w, rest)

/-- the longest `%s` word the harness's String can take -/
def maxWord : Nat := 190

/-- one plain specification on the text `inp` -/
def readPlain (S : Src) (sp : Spec) (inp : List Nat) (dflt : TVal) : Rd :=
  match sp with
  | .int m cv => rdOfRes inp dflt .int (scanIntSpec S m cv inp)
  | .chr =>
    match inp with
    | [] => ⟨false, 0, true, dflt, 1, true⟩
    | b :: _ => ⟨true, 1, false, .int (charValue S b), 1, true⟩
  | .flt l cv => rdOfRes inp dflt .flt (scanFloatSpec S l cv inp)
  | .str =>
    match Text.skipSpace inp with
    | [] => ⟨false, inp.length, true, dflt, 1, true⟩
    | b :: r =>
      let (w, rest) := spanWord (b :: r)
      if w.length > maxWord then Rd.unmodelled dflt
      else ⟨true, inp.length - rest.length, rest.isEmpty, .str (w.takeWhile (· ≠ 0)), 1, true⟩
  | _ => Rd.unmodelled dflt

/-- `scan_from(f, 0, "%<spec>", x)`: `%$` is `look_from` — Int_Look / Float_Look are one scan_from with the format of src/Num.c
    (the same branches again), String_Look reads `%c` by `%c` (one `vfscanf` per byte; C15's reader with the tables of
    CelloGen.Text; only a successful read and an empty input are modelled) -/
def readSpec (S : Src) (sp : Spec) (inp : List Nat) (dflt : TVal) : Rd :=
  match sp with
  | .showInt => (match intLookSpec with | some s => readPlain S s inp dflt | none => Rd.unmodelled dflt)
  | .showFlt => (match floatLookSpec with | some s => readPlain S s inp dflt | none => Rd.unmodelled dflt)
  | .showStr =>
    match inp with
    | [] => ⟨false, 0, true, .str [], 1, true⟩           -- String_Clear ran, the first `%c` fails at the end of the file
    | _ =>
      match Text.lookString Text.srcCfg.look inp 0 with
      | (v, .ok (rest, _)) => ⟨true, inp.length - rest.length, false, .str v, inp.length - rest.length, true⟩
      | _ => Rd.unmodelled dflt
  | sp => readPlain S sp inp dflt

/-- scanf matching of a literal run against the input: (what is left, did a read run into the end of the file).
    A white-space byte of the format skips any run of white space (looking one byte ahead), any other byte must be the next
    input byte — at the end of the input that is an input failure, on a mismatch the byte is pushed back and matching stops. -/
def matchLitE : List Nat → List Nat → List Nat × Bool
  | [], inp => (inp, false)
  | f :: fs, inp =>
    if Text.isSpace f then
      (match Text.skipSpace inp with
       | [] => ([], true)
       | b :: r => matchLitE fs (b :: r))
    else
      match inp with
      | [] => ([], true)
      | b :: r => if b = f then matchLitE fs r else (b :: r, false)

/-- the whole call `scan_from(f, 0, "%<spec><sep>", x)` on the text after the position:
    (raised FormatError?, bytes consumed, end-of-file seen, the argument's value afterwards, the value returned, `vfscanf` calls) -/
structure ScanR where
  failed : Bool
  consumed : Nat
  hitEnd : Bool
  val : TVal
  ret : Nat
  calls : Nat
deriving Repr, Inhabited

def scanCall (S : Src) (sp : Spec) (sep : List Nat) (inp : List Nat) (dflt : TVal) : Option ScanR :=
  let rd := readSpec S sp inp dflt
  if !rd.modelled then none
  else if !rd.ok then some ⟨true, rd.consumed, rd.hitEnd, rd.val, 0, rd.calls⟩
  else if sep.isEmpty then some ⟨false, rd.consumed, rd.hitEnd, rd.val, rd.consumed, rd.calls⟩
  else
    let rest := inp.drop rd.consumed
    let (left, hit) := matchLitE sep rest
    -- `format_from(input, pos, fmt_buf); pos += (int)(fmt - start);`: the result is ignored, the literal's LENGTH is added
    some ⟨false, rd.consumed + (rest.length - left.length), rd.hitEnd || hit, rd.val, rd.consumed + sep.length, rd.calls + 1⟩

/-! ## on the reference stdio -/

def toNats (bs : List Cello.File.Byte) : List Nat := bs.map (·.toNat)
def toBytes (ns : List Nat) : List Cello.File.Byte := ns.map UInt8.ofNat

/-- the default values the arguments hold before a scan (what the harness initialises them to) -/
def dfltOf : Spec → TVal
  | .int _ _ | .chr | .showInt => .int (-777)
  | .flt _ _ | .showFlt => .flt 0x401E000000000000
  | .str | .showStr => .str [63]

/-- `scan_from(f, 0, "%<spec><sep>", x)` on a File over the reference stdio.  A File that is not open: File_Format_From refuses
    (IOError, no stdio call).  A stream that cannot be read: the first `vfscanf` answers EOF → FormatError.  `none`: outside what
    is modelled (a matching failure in the middle of the text, hexadecimal floats, …). -/
def fileScanText (S : Src) (l : Ref) (f : Option Handle) (sp : Spec) (sep : List Nat) : Option (R Ref (TVal × Nat)) :=
  match f with
  | none => some ⟨l, none, .raised .IOError, []⟩
  | some h =>
    match lookup h l.streams with
    | none => none
    | some s =>
      if !s.mode.canRead || s.file = Cello.File.fileFull then some ⟨l, some h, .raised .FormatError, [.on .vfscanf h]⟩
      else
        match scanCall S sp sep (toNats ((l.content s.file).drop s.pos)) (dfltOf sp) with
        | none => none
        | some r =>
          let l' := l.setStream h { s with pos := s.pos + r.consumed, eof := s.eof || r.hitEnd, last := .rd }
          some ⟨l', some h, if r.failed then .raised .FormatError else .ok (r.val, r.ret), List.replicate r.calls (.on .vfscanf h)⟩

/-- the value of the argument after the call (the default when the call raised before storing) -/
def valueAfter (S : Src) (l : Ref) (f : Option Handle) (sp : Spec) (sep : List Nat) : TVal :=
  match f with
  | none => dfltOf sp
  | some h =>
    match lookup h l.streams with
    | none => dfltOf sp
    | some s =>
      if !s.mode.canRead || s.file = Cello.File.fileFull then dfltOf sp
      else match scanCall S sp sep (toNats ((l.content s.file).drop s.pos)) (dfltOf sp) with
        | some r => r.val
        | none => dfltOf sp

/-! ## protocol helpers shared with harness/h_file.c -/

def hexDigit (n : Nat) : Char := if n < 10 then Char.ofNat (48 + n) else Char.ofNat (87 + n)

def hex16 (n : Nat) : String := String.ofList ((List.range 16).map (fun i => hexDigit (n / 16 ^ (15 - i) % 16)))

def TVal.render : TVal → String
  | .int n => toString n
  | .flt b => "x" ++ hex16 b
  | .str s => s!"s{s.length}:{(Cello.File.fnv (toBytes s)).toNat}"

/-- the compressed form in which the text ops report their stdio calls -/
def callsText (fn : String) (h : Handle) (n : Nat) : String := if n = 0 then "-" else s!"{fn}:{h}*{n}"

end Cello.FileText
