/-
  C08, extension round: the SHARED STORES of the lookup path.

  Several threads may be inside lookups on one type object at the same time.  `Cello/Dispatch.lean` models a lookup as a
  sequence of atomic word accesses (`step`) and `C08_concurrent` proves every interleaving exact.  That theorem is about the
  stores the hand model knows.  This file ties the set of stores to the source:

  * `Wr` / `writeOf` / `Wr.apply`: the store (if any) one step of the machine performs, and `Wr.source`: the same store as the
    translator prints it (function, storage class, lhs, rhs).  `CelloGen.Disp.sharedStores` is the list of ALL stores of the
    lookup-path functions of src/Type.c that are not to an automatic local or a parameter.
  * `stepG sharedName`: the machine generalised by one more shared location — a lookup-path variable with STATIC storage that
    the by-name pass of Type_Scan reads (`reg`), written by a step of its own (`GPC.nameWrite`) between the two passes.  With
    `sharedName = false` it is `step` (the by-name pass compares with `Type_Builtin_Name(cls)`, a value private to the thread).
    `sharedNameOf stores operand` decides from the extracted stores which machine the source is.
-/
import Cello.Dispatch

namespace Cello.Dispatch

/-! ### the stores of one step -/

/-- a store of the lookup path to a location other threads can read -/
inductive Wr where
  | hdr                                    -- Type_Of:           head->type = Type
  | memo (pos : Nat) (cls : Cls)           -- Type_Scan:         t->cls = cls           (t at triple `pos`)
  | cache (i : Nat) (v : Option Inst)      -- Type_Cache_Entry:  ((var*)self)[i] = inst
deriving DecidableEq, Repr, Inhabited

def Wr.apply (t : TypeRec) : Wr → TypeRec
  | .hdr => { t with hdr := true }
  | .memo pos cls =>
    match t.entries[pos]? with
    | none => t
    | some e => { t with entries := t.entries.set pos { e with memo := some cls } }
  | .cache i v => { t with cache := t.cache.set i v }

/-- the store the step at `pc` performs on the shared record (`none`: the step only reads) -/
def writeOf (t : TypeRec) : PC → Option Wr
  | .hdrWrite _ _ => some .hdr
  | .memoWrite cls pos _ => if (t.entries[pos]?).isSome then some (.memo pos cls) else none
  | .cacheWrite _ i v => some (.cache i v)
  | _ => none

/-- the store as the translator prints it: (function, storage class, lhs, rhs) -/
def Wr.source : Wr → String × String × String × String
  | .hdr => ("Type_Of", "memory", "head->type", "Type")
  | .memo _ _ => ("Type_Scan", "memory", "t->cls", "cls")
  | .cache _ _ => ("Type_Cache_Entry", "memory", "((var*)self)[i]", "inst")

/-- all stores the model knows, in source order -/
def modelStores : List (String × String × String × String) :=
  [Wr.hdr.source, (Wr.memo 0 default).source, (Wr.cache 0 none).source]

/-- does the by-name pass compare with a variable that has static storage and is stored to by the lookup path? -/
def sharedNameOf (stores : List (String × String × String × String)) (operand : String) : Bool :=
  stores.any (fun w => w.2.1 != "memory" && w.2.2.1 == operand)

/-! ### the machine with one more shared location -/

inductive GPC where
  | base (pc : PC)
  | nameWrite (cls : Cls) (ret : Ret)      -- `name = Type_Builtin_Name(cls)` into the static variable, between the two passes
deriving DecidableEq, Repr, Inhabited

structure GShared where
  ty : TypeRec
  reg : String
deriving DecidableEq, Repr, Inhabited

/-- one atomic step. `sharedName = false`: `step`. `sharedName = true`: the end of the by-pointer pass stores the class name
    into `reg`, the by-name pass compares every triple name with `reg` as it is at that moment. -/
def stepG (sharedName : Bool) (slots : List (Nat × Cls)) (s : GShared) : GPC → GShared × GPC
  | .nameWrite cls ret => ({ s with reg := cls.name }, .base (.scanN cls 0 ret))
  | .base pc =>
    if sharedName then
      match pc with
      | .scanP cls pos ret =>
        match s.ty.entries[pos]? with
        | none => (s, .nameWrite cls ret)
        | some e => if e.memo = some cls then (s, .base (finish cls ret (some e.inst))) else (s, .base (.scanP cls (pos + 1) ret))
      | .scanN cls pos ret =>
        match s.ty.entries[pos]? with
        | none => (s, .base (finish cls ret none))
        | some e => if e.name = s.reg then (s, .base (.memoWrite cls pos ret)) else (s, .base (.scanN cls (pos + 1) ret))
      | pc => let r := step slots s.ty pc; ({ s with ty := r.1 }, .base r.2)
    else
      let r := step slots s.ty pc; ({ s with ty := r.1 }, .base r.2)

structure GThread where
  pc : Option GPC
  todo : List (Bool × Cls)
  log : List (Cls × Option Inst)
deriving DecidableEq, Repr, Inhabited

def GThread.new (todo : List (Bool × Cls)) : GThread := ⟨none, todo, []⟩

def gthreadStep (b : Bool) (slots : List (Nat × Cls)) (s : GShared) (th : GThread) : GShared × GThread :=
  match th.pc with
  | none =>
    match th.todo with
    | [] => (s, th)
    | (uc, cls) :: rest => (s, { th with pc := some (.base (.start uc cls)), todo := rest })
  | some (.base (.done cls v)) => (s, { th with pc := none, log := (cls, v) :: th.log })
  | some pc => let r := stepG b slots s pc; (r.1, { th with pc := some r.2 })

structure GSys where
  shared : GShared
  threads : List GThread
deriving Repr, Inhabited

def gsysStep (b : Bool) (slots : List (Nat × Cls)) (s : GSys) (tid : Nat) : GSys :=
  match s.threads[tid]? with
  | none => s
  | some th =>
    let r := gthreadStep b slots s.shared th
    { shared := r.1, threads := s.threads.set tid r.2 }

def grunSched (b : Bool) (slots : List (Nat × Cls)) : GSys → List Nat → GSys
  | s, [] => s
  | s, tid :: sched => grunSched b slots (gsysStep b slots s tid) sched

def Thread.lift (th : Thread) : GThread := ⟨th.pc.map GPC.base, th.todo, th.log⟩

def Sys.lift (reg : String) (s : Sys) : GSys := ⟨⟨s.shared, reg⟩, s.threads.map Thread.lift⟩

end Cello.Dispatch
